import NimaVerif.Lemmas.FragFlat
/-! Comment-free files of the container fragment: the round trip is the tree normaliser `File.norm`,
which is idempotent — so the rebuilt text is a fixed point. Core Lean only. -/
namespace Nima.Frag
open Nima

/-! ### rendering with layout-only trivia -/

theorem dropWhile_all_nil {α : Type} (p : α → Bool) : ∀ (l : List α), l.all p = true → l.dropWhile p = []
  | [], _ => rfl
  | x :: r, h => by
    simp only [List.all_cons, Bool.and_eq_true] at h
    simp [List.dropWhile_cons, h.1, dropWhile_all_nil p r h.2]

theorem leafBefore_layout (k : LeafKind) (t : Text) {bf : List Trivia} (h : bf.all Trivia.isLayout = true)
    (i : Nat) (inl : Bool) : leafBefore k t bf i inl = bf := by
  unfold leafBefore
  split
  · have : trimLeadingLayoutTrivia bf = [] := dropWhile_all_nil _ bf h
    simp [this]
  · rfl

theorem fmtP_nil (i : Nat) : fmtP [] i = [] := rfl

def Expr.notAsrt : Expr → Bool
  | .asrt .. => false
  | _ => true

/-- leading layout-only trivia are rendered in front of the expression -/
theorem rebuildAP_setBefore {e : Expr} (he : e.before = []) {bf : List Trivia} (h : bf.all Trivia.isLayout = true)
    (na : Bool) (i : Nat) (inl : Bool) :
    (e.setBefore bf).rebuildAP na i inl = fmtP bf i ++ e.rebuildAP na i inl := by
  cases e with
  | leaf k t b a =>
    simp only [Expr.before] at he; subst he
    simp [Expr.setBefore, Expr.rebuildAP, addTriviaP, leafBefore_layout k t h, leafBefore_nil, fmtP_nil]
  | list v m inn b a =>
    simp only [Expr.before] at he; subst he
    cases v with
    | nil =>
      simp only [Expr.setBefore, Expr.rebuildAP]
      split <;> simp [multilineBlockP, fmtP_nil]
    | cons x xs =>
      simp only [Expr.setBefore, Expr.rebuildAP]
      split <;> simp [fmtP_nil]
  | set v m r inn b a =>
    simp only [Expr.before] at he; subst he
    cases v with
    | nil =>
      simp only [Expr.setBefore, Expr.rebuildAP]
      split <;> simp [multilineBlockP, addTriviaP, fmtP_nil]
    | cons x xs =>
      simp only [Expr.setBefore, Expr.rebuildAP]
      split <;> simp [multilineBlockP, addTriviaP, fmtP_nil]
  | binding n v g b a =>
    simp only [Expr.before] at he; subst he
    simp [Expr.setBefore, Expr.rebuildAP, fmtP_nil]
  | paren v lg tg lb tb b a =>
    simp only [Expr.before] at he; subst he
    simp [Expr.setBefore, Expr.rebuildAP, addTriviaP, fmtP_nil]
  | app n x g fa b a =>
    simp only [Expr.before] at he; subst he
    simp [Expr.setBefore, Expr.rebuildAP, addTriviaP, fmtP_nil]
  | wth e bd c g s b a =>
    simp only [Expr.before] at he; subst he
    simp [Expr.setBefore, Expr.rebuildAP, addTriviaP, fmtP_nil]
  | sel e ats g ab b a =>
    simp only [Expr.before] at he; subst he
    simp [Expr.setBefore, Expr.rebuildAP, addTriviaP, fmtP_nil]
  | selOr e ats g ab d dg db b a =>
    simp only [Expr.before] at he; subst he
    simp [Expr.setBefore, Expr.rebuildAP, addTriviaP, fmtP_nil]
  | lam n c g k bd b a =>
    simp only [Expr.before] at he; subst he
    simp [Expr.setBefore, Expr.rebuildAP, addTriviaP, fmtP_nil]
  | un o e g bt b a =>
    simp only [Expr.before] at he; subst he
    simp [Expr.setBefore, Expr.rebuildAP, addTriviaP, fmtP_nil]
  | bin o l r x y b a =>
    simp only [Expr.before] at he; subst he
    simp [Expr.setBefore, Expr.rebuildAP, addTriviaP, fmtP_nil]
  | ite c t e cg aic aig btc btg atc tg bec beg aec eg b a =>
    simp only [Expr.before] at he; subst he
    simp [Expr.setBefore, Expr.rebuildAP, addTriviaP, fmtP_nil]
  | has e ats lg rg bq aq b a =>
    simp only [Expr.before] at he; subst he
    simp [Expr.setBefore, Expr.rebuildAP, addTriviaP, fmtP_nil]
  | asrt c bd x y b a =>
    simp only [Expr.before] at he; subst he
    have hsp : ∀ (bf' a' : List Trivia) (core : List FP), addTriviaP bf' a' core i inl = fmtP bf' i ++ addTriviaP [] a' core i inl := by
      intro bf' a' core; simp [addTriviaP, fmtP_nil]
    simp only [Expr.setBefore, Expr.rebuildAP]
    rw [hsp bf]
    simp only [concat_append, List.append_assoc]
    rw [endsWithNL_append_of_ne_nil _ _ (by simp [addTriviaP, fmtP_nil, concat_append, kwAssert])]

theorem rebuildA_setBefore {e : Expr} (he : e.before = []) {bf : List Trivia} (h : bf.all Trivia.isLayout = true)
    (na : Bool) (i : Nat) (inl : Bool) :
    (e.setBefore bf).rebuildA na i inl = formatTrivia bf i ++ e.rebuildA na i inl := by
  rw [← concat_rebuildAP, ← concat_rebuildAP, rebuildAP_setBefore he h, concat_append, concat_fmtP]

theorem trailP_emptyLine (i : Nat) : trailP [.emptyLine] i = [.ws ['\n'], .ws ['\n']] := by
  simp [trailP, fmtP, fmtGoP, trimP, Trivia.isLayout, nlBlockP]

theorem bindingTailP_emptyLine (i : Nat) : bindingTailP [.emptyLine] i = [.ws ['\n'], .ws ['\n']] := by
  simp [bindingTailP, trailP_emptyLine]

/-- a trailing blank-line marker on an expression without trailing trivia: a blank line after it -/
theorem rebuildAP_addAfter_emptyLine {e : Expr} (he : e.effAfter false = []) (hna : e.notAsrt = true) (i : Nat) (inl : Bool) :
    (e.addAfter [.emptyLine]).rebuildAP false i inl = e.rebuildAP false i inl ++ [.ws ['\n'], .ws ['\n']] := by
  cases e with
  | leaf k t b a =>
    simp only [Expr.effAfter, Bool.false_eq_true, if_false] at he; subst he
    simp [Expr.addAfter, Expr.setAfter, Expr.after, Expr.rebuildAP, addTriviaP, trailP_emptyLine, trailP_nil]
  | list v m inn b a =>
    simp only [Expr.effAfter, Bool.false_eq_true, if_false] at he; subst he
    cases v with
    | nil =>
      simp only [Expr.addAfter, Expr.setAfter, Expr.after, Expr.rebuildAP, List.nil_append]
      split <;> simp [trailP_emptyLine, trailP_nil]
    | cons x xs =>
      simp only [Expr.addAfter, Expr.setAfter, Expr.after, Expr.rebuildAP, List.nil_append]
      split <;> simp [trailP_emptyLine, trailP_nil]
  | set v m r inn b a =>
    simp only [Expr.effAfter, Bool.false_eq_true, if_false] at he; subst he
    cases v with
    | nil =>
      simp only [Expr.addAfter, Expr.setAfter, Expr.after, Expr.rebuildAP, List.nil_append]
      split <;> simp [trailP_emptyLine, trailP_nil, addTriviaP]
    | cons x xs =>
      simp only [Expr.addAfter, Expr.setAfter, Expr.after, Expr.rebuildAP, List.nil_append]
      split <;> simp [trailP_emptyLine, trailP_nil, addTriviaP]
  | binding n v g b a =>
    simp only [Expr.effAfter, Bool.false_eq_true, if_false] at he
    have h1 : v.after = [] := (List.append_eq_nil_iff.mp he).1
    have h2 : a = [] := (List.append_eq_nil_iff.mp he).2
    subst h2
    show (Expr.binding n v g b [.emptyLine]).rebuildAP false i inl =
      (Expr.binding n v g b []).rebuildAP false i inl ++ [.ws ['\n'], .ws ['\n']]
    simp only [Expr.rebuildAP, h1, List.nil_append, Bool.false_eq_true, if_false]
    simp [bindingTailP, trailP_nil, trailP_emptyLine]
  | paren v lg tg lb tb b a =>
    simp only [Expr.effAfter, Bool.false_eq_true, if_false] at he; subst he
    simp [Expr.addAfter, Expr.setAfter, Expr.after, Expr.rebuildAP, addTriviaP, trailP_emptyLine, trailP_nil]
  | app n x g fa b a =>
    simp only [Expr.effAfter, Bool.false_eq_true, if_false] at he; subst he
    simp [Expr.addAfter, Expr.setAfter, Expr.after, Expr.rebuildAP, addTriviaP, trailP_emptyLine, trailP_nil]
  | wth e bd c g s b a =>
    simp only [Expr.effAfter, Bool.false_eq_true, if_false] at he; subst he
    simp [Expr.addAfter, Expr.setAfter, Expr.after, Expr.rebuildAP, addTriviaP, trailP_emptyLine, trailP_nil]
  | sel e ats g ab b a =>
    simp only [Expr.effAfter, Bool.false_eq_true, if_false] at he; subst he
    simp [Expr.addAfter, Expr.setAfter, Expr.after, Expr.rebuildAP, addTriviaP, trailP_emptyLine, trailP_nil]
  | selOr e ats g ab d dg db b a =>
    simp only [Expr.effAfter, Bool.false_eq_true, if_false] at he; subst he
    simp [Expr.addAfter, Expr.setAfter, Expr.after, Expr.rebuildAP, addTriviaP, trailP_emptyLine, trailP_nil]
  | lam n c g k bd b a =>
    simp only [Expr.effAfter, Bool.false_eq_true, if_false] at he; subst he
    simp [Expr.addAfter, Expr.setAfter, Expr.after, Expr.rebuildAP, addTriviaP, trailP_emptyLine, trailP_nil]
  | un o e g bt b a =>
    simp only [Expr.effAfter, Bool.false_eq_true, if_false] at he; subst he
    simp [Expr.addAfter, Expr.setAfter, Expr.after, Expr.rebuildAP, addTriviaP, trailP_emptyLine, trailP_nil]
  | bin o l r x y b a =>
    simp only [Expr.effAfter, Bool.false_eq_true, if_false] at he; subst he
    simp [Expr.addAfter, Expr.setAfter, Expr.after, Expr.rebuildAP, addTriviaP, trailP_emptyLine, trailP_nil]
  | ite c t e cg aic aig btc btg atc tg bec beg aec eg b a =>
    simp only [Expr.effAfter, Bool.false_eq_true, if_false] at he; subst he
    simp [Expr.addAfter, Expr.setAfter, Expr.after, Expr.rebuildAP, addTriviaP, trailP_emptyLine, trailP_nil]
  | has e ats lg rg bq aq b a =>
    simp only [Expr.effAfter, Bool.false_eq_true, if_false] at he; subst he
    simp [Expr.addAfter, Expr.setAfter, Expr.after, Expr.rebuildAP, addTriviaP, trailP_emptyLine, trailP_nil]
  | asrt c bd x y b a => cases hna

def spacesIf (inl : Bool) (i : Nat) : Text := if inl then [] else spaces i

theorem notAsrt_setBefore (e : Expr) (b : List Trivia) : (e.setBefore b).notAsrt = e.notAsrt := by cases e <;> rfl

theorem cf_parse_notAsrt {c : Cst} {e : Expr} (hcf : c.cf = true) (hp : c.parse = .ok e) : e.notAsrt = true := by
  cases c with
  | leaf k t =>
    simp only [Cst.parse] at hp
    obtain ⟨k', t', rfl⟩ := leafFromCst_shape hp; rfl
  | list its cg =>
    simp only [Cst.parse] at hp
    split at hp
    · cases hp
    · injection hp with hp; subst hp; rfl
  | set r rg its cg =>
    simp only [Cst.parse] at hp
    split at hp
    · cases hp
    · injection hp with hp; subst hp; rfl
  | paren its cg => obtain ⟨v, lg, tg, lb, tb, rfl⟩ := paren_parse_shape hp; rfl
  | app f cs g a => obtain ⟨n, x, g', fa, rfl⟩ := app_parse_shape hp; rfl
  | kw w c1 g1 h c2 g2 c3 g3 b =>
    simp only [Cst.cf, Bool.and_eq_true] at hcf
    have hw : w = true := hcf.1.1.1.1.1
    subst hw
    simp only [Cst.parse] at hp
    split at hp
    · cases hp
    · split at hp
      · cases hp
      · simp only [if_true] at hp
        injection hp with hp; subst hp; unfold withFromCst; rfl
  | sel e c1 g1 gd ats =>
    simp only [Cst.parse] at hp
    split at hp
    · cases hp
    · injection hp with hp; subst hp; rfl
  | selOr e c1 g1 gd ats c2 g2 g3 d =>
    simp only [Cst.parse] at hp
    split at hp
    · cases hp
    · split at hp
      · cases hp
      · injection hp with hp; subst hp; rfl
  | lam n c1 g1 c2 g2 b =>
    simp only [Cst.parse] at hp
    split at hp
    · cases hp
    · injection hp with hp; subst hp; rfl
  | un op c g e =>
    simp only [Cst.parse] at hp
    split at hp
    · cases hp
    · injection hp with hp; subst hp; rfl
  | ite c1 g1 c c2 g2 c3 g3 t c4 g4 c5 g5 e =>
    simp only [Cst.parse] at hp
    split at hp
    · cases hp
    · split at hp
      · cases hp
      · split at hp
        · cases hp
        · injection hp with hp; subst hp; rfl
  | has e c1 g1 c2 g2 ats =>
    simp only [Cst.parse] at hp
    split at hp
    · cases hp
    · injection hp with hp; subst hp; rfl
  | bin l c1 g1 op c2 g2 r =>
    simp only [Cst.parse] at hp
    split at hp
    · cases hp
    · split at hp
      · cases hp
      · injection hp with hp; subst hp; rfl

theorem addAfter_nil (e : Expr) : e.addAfter [] = e := by
  cases e <;> simp [Expr.addAfter, Expr.setAfter, Expr.after]

theorem formatTrivia_appendGap (g : Text) (i : Nat) : formatTrivia (appendGapTriviaOff [] g) i = blankGap g := by
  unfold appendGapTriviaOff blankGap
  by_cases h1 : containsNL g = true
  · simp only [h1, Bool.not_true, Bool.false_eq_true, if_false]
    by_cases h2 : gapHasEmptyLineOffsets g = true
    · simp [h2, formatTrivia, formatTriviaGo]
    · simp [h2, formatTrivia, formatTriviaGo]
  · have h1' : containsNL g = false := by simpa using h1
    simp [h1', emptyLineOffsets_false h1', formatTrivia, formatTriviaGo]

theorem appendGap_layout (g : Text) : (appendGapTriviaOff [] g).all Trivia.isLayout = true := by
  rcases appendGapTriviaOff_cases [] g true with e | ⟨t, ht, e⟩ <;> rw [e]
  · rfl
  · simp [ht]

theorem formatTrivia_openBefore (its : Items) (i : Nat) :
    formatTrivia (openBefore its) i = blankGap (its.firstGap.getD []) := by
  unfold openBefore blankGap
  cases its.firstGap with
  | none =>
    have : gapHasEmptyLineOffsets [] = false := by decide
    simp [formatTrivia, formatTriviaGo, this]
  | some g => simp only [Option.getD_some]; split <;> simp [formatTrivia, formatTriviaGo]

theorem openBefore_layout (its : Items) : (openBefore its).all Trivia.isLayout = true := by
  rcases openBefore_cases its with h | h <;> rw [h] <;> rfl

/-- the preview of a list is its one-line rendering -/
theorem preview_eq : ∀ {e : Expr} {i : Nat} {p : Text}, e.preview i = some p → p = e.rebuildA true i true
  | .leaf .., _, _, h => by simp [Expr.preview] at h
  | .set .., _, _, h => by simp [Expr.preview] at h
  | .binding .., _, _, h => by simp [Expr.preview] at h
  | .list value ml inner before after, i, p, h => by
    cases value with
    | nil =>
      simp only [Expr.preview] at h
      split at h; · cases h
      rename_i hml
      split at h; · cases h
      rename_i hbi
      split at h; · cases h
      split at h; · cases h
      injection h with h; subst h
      have hb0 : before = [] := by
        cases before with
        | nil => rfl
        | cons _ _ => simp at hbi
      have hi0 : inner = [] := by
        cases inner with
        | nil => rfl
        | cons _ _ => simp at hbi
      subst hb0; subst hi0
      simp [Expr.rebuildA, formatTrivia, formatTriviaGo, applyTrailingTrivia]
    | cons v vs =>
      simp only [Expr.preview] at h
      split at h; · cases h
      rename_i hml
      have hml' : ml = false := by simpa using hml
      split at h; · cases h
      rename_i hbi
      split at h; · cases h
      split at h; · cases h
      injection h with h; subst h
      have hb0 : before = [] := by
        cases before with
        | nil => rfl
        | cons _ _ => simp at hbi
      subst hb0; subst hml'
      simp [Expr.rebuildA, formatTrivia, formatTriviaGo, applyTrailingTrivia]

/-- items of a multi-line container as rendered: each on its own line -/
def rendML (items : List Expr) (j : Nat) : Text :=
  (items.map fun e => '\n' :: e.rebuildA false j false).flatten

/-- items of a one-line container as rendered: each after one space -/
def rendFlat (items : List Expr) (j : Nat) : Text :=
  (items.map fun e => ' ' :: e.rebuildA false j true).flatten

theorem rendML_append (a b : List Expr) (j : Nat) : rendML (a ++ b) j = rendML a j ++ rendML b j := by
  simp [rendML]
theorem rendFlat_append (a b : List Expr) (j : Nat) : rendFlat (a ++ b) j = rendFlat a j ++ rendFlat b j := by
  simp [rendFlat]
theorem rendML_single (e : Expr) (j : Nat) : rendML [e] j = '\n' :: e.rebuildA false j false := by simp [rendML]
theorem rendFlat_single (e : Expr) (j : Nat) : rendFlat [e] j = ' ' :: e.rebuildA false j true := by simp [rendFlat]

theorem join_nl_eq : ∀ (es : List Expr) (j : Nat), es ≠ [] →
    '\n' :: joinWith ['\n'] (rebuildAll es j false) = rendML es j
  | [], _, h => absurd rfl h
  | [e], j, _ => by simp [rebuildAll, joinWith, rendML]
  | e :: e' :: r, j, _ => by
    have ih := join_nl_eq (e' :: r) j (by simp)
    simp only [rebuildAll, joinWith] at ih ⊢
    simp only [rendML, List.map_cons, List.flatten_cons] at ih ⊢
    rw [← ih]; simp

theorem join_sp_eq : ∀ (es : List Expr) (j : Nat), es ≠ [] →
    ' ' :: joinWith [' '] (rebuildAll es j true) = rendFlat es j
  | [], _, h => absurd rfl h
  | [e], j, _ => by simp [rebuildAll, joinWith, rendFlat]
  | e :: e' :: r, j, _ => by
    have ih := join_sp_eq (e' :: r) j (by simp)
    simp only [rebuildAll, joinWith] at ih ⊢
    simp only [rendFlat, List.map_cons, List.flatten_cons] at ih ⊢
    rw [← ih]; simp

theorem rendML_modifyLast : ∀ (items : List Expr) (j : Nat), items ≠ [] →
    (∀ e ∈ items, e.effAfter false = [] ∧ e.notAsrt = true) →
    rendML (modifyLast (fun e => e.addAfter [.emptyLine]) items) j = rendML items j ++ ['\n', '\n']
  | [], _, h, _ => absurd rfl h
  | [e], j, _, ha => by
    simp only [modifyLast, rendML_single]
    rw [← concat_rebuildAP, rebuildAP_addAfter_emptyLine (ha e (by simp)).1 (ha e (by simp)).2, concat_append, concat_rebuildAP]
    simp
  | e :: e' :: r, j, _, ha => by
    have ih := rendML_modifyLast (e' :: r) j (by simp) (fun x hx => ha x (List.mem_cons_of_mem _ hx))
    simp only [modifyLast]
    rw [show (e :: modifyLast (fun e => e.addAfter [Trivia.emptyLine]) (e' :: r)) =
      [e] ++ modifyLast (fun e => e.addAfter [Trivia.emptyLine]) (e' :: r) from rfl, rendML_append, ih,
      show (e :: e' :: r) = [e] ++ (e' :: r) from rfl, rendML_append]
    simp

theorem solidT_snoc (a : Text) (c : Char) (hc : c ≠ '\n') : solidT (a ++ [c]) := by
  refine ⟨by simp, ?_⟩
  simp [endsWithNL]; exact hc

theorem list_flatten_solid (x : Items) (y : Text) : solidT (Cst.flatten (.list x y)) := by
  simp only [Cst.flatten]
  rw [show ('[' :: x.flatten ++ y ++ [']']) = ('[' :: x.flatten ++ y) ++ [']'] from by simp]
  exact solidT_snoc _ _ (by decide)

theorem set_flatten_solid (a : Bool) (b : Text) (x : Items) (y : Text) : solidT (Cst.flatten (.set a b x y)) := by
  simp only [Cst.flatten]
  rw [show ((if a = true then ['r', 'e', 'c'] ++ b else []) ++ '{' :: x.flatten ++ y ++ ['}']) =
    ((if a = true then ['r', 'e', 'c'] ++ b else []) ++ '{' :: x.flatten ++ y) ++ ['}'] from by simp]
  exact solidT_snoc _ _ (by decide)

theorem solidT_append_left' (a : Text) {b : Text} (h : solidT b) : solidT (a ++ b) := by
  refine ⟨fun e => h.1 (List.append_eq_nil_iff.mp e).2, ?_⟩
  rw [endsWithNL_append_of_ne_nil _ _ h.1]; exact h.2

theorem attrText_solid' : ∀ (attrs : List Text), attrs ≠ [] → attrs.all attrSegOk = true → solidT (attrText attrs) := by
  intro attrs hne hall
  induction attrs with
  | nil => exact absurd rfl hne
  | cons a r ih =>
    simp only [List.all_cons, Bool.and_eq_true] at hall
    have ha : solidT a := by
      have := hall.1
      simp only [attrSegOk, Bool.and_eq_true, Bool.not_eq_true', List.isEmpty_eq_false_iff] at this
      refine ⟨this.1.1.1, ?_⟩
      have hl := getLast?_ne_nl_of_no_nl _ this.1.1.2
      simp [endsWithNL, hl]
    cases r with
    | nil => simpa [attrText] using ha
    | cons b r' =>
      have := ih (by simp) hall.2
      simp only [attrText]
      rw [show a ++ '.' :: attrText (b :: r') = (a ++ ['.']) ++ attrText (b :: r') from by simp]
      exact solidT_append_left' _ this

theorem attrText_solid {e : Cst} {c1 : GC} {g1 gd : Text} {attrs : List Text} (h : (Cst.sel e c1 g1 gd attrs).wf = true) :
    solidT (attrText attrs) := by
  simp only [Cst.wf, Bool.and_eq_true, Bool.not_eq_true', List.isEmpty_eq_false_iff] at h
  exact attrText_solid' attrs h.1.2 h.2

/-- the text of a well-formed tree is non-empty and does not end in a line break -/
theorem flatten_solid : ∀ (c : Cst), c.wf = true → solidT c.flatten
  | .leaf k t, h => by simp only [Cst.flatten]; exact (leaf_spec h).2
  | .list its cg, _ => list_flatten_solid _ _
  | .set r rg its cg, _ => set_flatten_solid _ _ _ _
  | .paren its cg, _ => by
    simp only [Cst.flatten]
    rw [show ('(' :: its.flatten ++ cg ++ [')']) = ('(' :: its.flatten ++ cg) ++ [')'] from by simp]
    exact solidT_snoc _ _ (by decide)
  | .app f cs g a, h => by
    simp only [Cst.wf, Bool.and_eq_true] at h
    simp only [Cst.flatten]
    exact solidT_append_left' _ (flatten_solid a h.2)
  | .kw w c1 g1 hd c2 g2 c3 g3 b, h => by
    simp only [Cst.wf, Bool.and_eq_true] at h
    simp only [Cst.flatten]
    exact solidT_append_left' _ (flatten_solid b h.2)
  | .sel e c1 g1 gd attrs, h => by
    simp only [Cst.wf, Bool.and_eq_true, Bool.not_eq_true', List.isEmpty_eq_false_iff] at h
    simp only [Cst.flatten]
    have hat : solidT (attrText attrs) := attrText_solid' attrs h.1.2 h.2
    rw [show e.flatten ++ flattenGC c1 ++ g1 ++ '.' :: gd ++ attrText attrs =
      (e.flatten ++ flattenGC c1 ++ g1 ++ '.' :: gd) ++ attrText attrs from by simp]
    exact solidT_append_left' _ hat
  | .selOr e c1 g1 gd attrs c2 g2 g3 d, h => by
    simp only [Cst.wf, Bool.and_eq_true] at h
    simp only [Cst.flatten]
    exact solidT_append_left' _ (flatten_solid d h.2)
  | .lam n c1 g1 c2 g2 b, h => by
    simp only [Cst.wf, Bool.and_eq_true] at h
    simp only [Cst.flatten]
    exact solidT_append_left' _ (flatten_solid b h.2)
  | .un op c g e, h => by
    simp only [Cst.wf, Bool.and_eq_true] at h
    simp only [Cst.flatten]
    exact solidT_append_left' _ (flatten_solid e h.2)
  | .bin l c1 g1 op c2 g2 r, h => by
    simp only [Cst.wf, Bool.and_eq_true] at h
    simp only [Cst.flatten]
    exact solidT_append_left' _ (flatten_solid r h.2)
  | .ite c1 g1 c c2 g2 c3 g3 t c4 g4 c5 g5 e, h => by
    simp only [Cst.wf, Bool.and_eq_true] at h
    simp only [Cst.flatten]
    exact solidT_append_left' _ (flatten_solid e h.2)
  | .has e c1 g1 c2 g2 attrs, h => by
    simp only [Cst.wf, Bool.and_eq_true, Bool.not_eq_true', List.isEmpty_eq_false_iff] at h
    simp only [Cst.flatten]
    have hat : solidT (attrText attrs) := attrText_solid' attrs h.1.2 h.2
    rw [show e.flatten ++ flattenGC c1 ++ g1 ++ '?' :: flattenGC c2 ++ g2 ++ attrText attrs =
      (e.flatten ++ flattenGC c1 ++ g1 ++ '?' :: flattenGC c2 ++ g2) ++ attrText attrs from by simp]
    exact solidT_append_left' _ hat

/-- leaf texts and the normalised containers are non-empty and do not end in a line break -/
theorem norm_flatten_solid : ∀ (c : Cst) (i : Nat), c.wf = true → solidT (c.norm i).flatten
  | .leaf k t, i, h => by
    simp only [Cst.norm, Cst.flatten]; exact (leaf_spec h).2
  | .list its cg, i, _ => by
    simp only [Cst.norm]
    split
    · split <;> exact list_flatten_solid _ _
    · split <;> exact list_flatten_solid _ _
  | .set r rg its cg, i, _ => by
    simp only [Cst.norm]
    repeat' split
    all_goals exact set_flatten_solid _ _ _ _
  | .paren its cg, i, h => by
    have key : ∀ (x : Items) (y : Text), solidT (Cst.flatten (.paren x y)) := by
      intro x y
      simp only [Cst.flatten]
      rw [show ('(' :: x.flatten ++ y ++ [')']) = ('(' :: x.flatten ++ y) ++ [')'] from by simp]
      exact solidT_snoc _ _ (by decide)
    cases its with
    | elem g c rest => cases rest <;> (simp only [Cst.norm]; exact key _ _)
    | nil => simp only [Cst.norm]; exact key _ _
    | cmt _ _ _ => simp only [Cst.norm]; exact key _ _
    | bind _ _ _ _ _ _ _ _ _ _ => simp only [Cst.norm]; exact key _ _
  | .app f cs g a, i, h => by
    simp only [Cst.wf, Bool.and_eq_true] at h
    simp only [Cst.norm, Cst.flatten]
    exact solidT_append_left' _ (norm_flatten_solid a _ h.2)
  | .kw w c1 g1 hd c2 g2 c3 g3 b, i, h => by
    cases w with
    | false => simp only [Cst.norm]; exact flatten_solid _ h
    | true =>
      simp only [Cst.wf, Bool.and_eq_true] at h
      simp only [Cst.norm, Cst.flatten]
      exact solidT_append_left' _ (norm_flatten_solid b _ h.2)
  | .sel e c1 g1 gd attrs, i, h => by
    have hat := attrText_solid h
    simp only [Cst.norm, Cst.flatten]
    rw [show (e.norm i).flatten ++ flattenGC c1 ++ (if containsNL g1 = true then vgap g1 (indentFromGap g1) else []) ++
        '.' :: [] ++ attrText attrs =
      ((e.norm i).flatten ++ flattenGC c1 ++ (if containsNL g1 = true then vgap g1 (indentFromGap g1) else []) ++ ['.']) ++
        attrText attrs from by simp]
    exact solidT_append_left' _ hat
  | .selOr e c1 g1 gd attrs c2 g2 g3 d, i, h => by
    simp only [Cst.wf, Bool.and_eq_true] at h
    simp only [Cst.norm, Cst.flatten]
    exact solidT_append_left' _ (norm_flatten_solid d _ h.2)
  | .lam n c1 g1 c2 g2 b, i, h => by
    simp only [Cst.wf, Bool.and_eq_true] at h
    simp only [Cst.norm, Cst.flatten]
    exact solidT_append_left' _ (norm_flatten_solid b _ h.2)
  | .un op c g e, i, h => by
    simp only [Cst.wf, Bool.and_eq_true] at h
    simp only [Cst.norm, Cst.flatten]
    exact solidT_append_left' _ (norm_flatten_solid e _ h.2)
  | .bin l c1 g1 op c2 g2 r, i, h => by
    simp only [Cst.wf, Bool.and_eq_true] at h
    simp only [Cst.norm, Cst.flatten]
    exact solidT_append_left' _ (norm_flatten_solid r _ h.2)

  | .ite c1 g1 c c2 g2 c3 g3 t c4 g4 c5 g5 e, i, h => by
    simp only [Cst.wf, Bool.and_eq_true] at h
    simp only [Cst.norm, Cst.flatten]
    exact solidT_append_left' _ (norm_flatten_solid e _ h.2)
  | .has e c1 g1 c2 g2 attrs, i, h => by
    simp only [Cst.wf, Bool.and_eq_true, Bool.not_eq_true', List.isEmpty_eq_false_iff] at h
    simp only [Cst.norm, Cst.flatten]
    have hat : solidT (attrText attrs) := attrText_solid' attrs h.1.2 h.2
    rw [show (e.norm i).flatten ++ flattenGC c1 ++ sepGap g1 ++ '?' :: flattenGC c2 ++ sepGap g2 ++ attrText attrs =
      ((e.norm i).flatten ++ flattenGC c1 ++ sepGap g1 ++ '?' :: flattenGC c2 ++ sepGap g2) ++ attrText attrs from by simp]
    exact solidT_append_left' _ hat

/-- what the tree normaliser writes between `=` and the value, and the value -/
def valueNorm (g2 : Text) (v : Cst) (j : Nat) : Text :=
  if containsNL g2 then vgap g2 (indentFromGap g2) ++ (v.norm (indentFromGap g2)).flatten
  else ' ' :: (v.norm j).flatten

theorem bindOnNewline_layout (g2 : Text) : bindOnNewline g2 (appendGapTriviaOff [] g2) = containsNL g2 := by
  unfold bindOnNewline Layout.fromGap
  have hany : (appendGapTriviaOff [] g2).any Trivia.isComment = false := by
    rcases appendGapTriviaOff_cases [] g2 true with e | ⟨t, ht, e⟩ <;> rw [e]
    · rfl
    · cases t <;> simp [Trivia.isLayout, Trivia.isComment] at ht ⊢
  rw [hany]
  cases h : containsNL g2 <;> simp [h]

theorem bindValIndent_layout (g2 : Text) (j : Nat) :
    bindValIndent g2 (appendGapTriviaOff [] g2) j = if containsNL g2 then indentFromGap g2 else j := by
  unfold bindValIndent Layout.fromGap
  have hany : (appendGapTriviaOff [] g2).any Trivia.isComment = false := by
    rcases appendGapTriviaOff_cases [] g2 true with e | ⟨t, ht, e⟩ <;> rw [e]
    · rfl
    · cases t <;> simp [Trivia.isLayout, Trivia.isComment] at ht ⊢
  rw [hany]
  cases h : containsNL g2 <;> simp [h]

/-- the rendering of a comment-free binding -/
theorem binding_text {n g2 : Text} {v : Cst} {ve b : Expr} {bf : List Trivia} (hn : nameOk n = true)
    (hb : bindingFromCst n [] [] g2 ve [] bf = .ok b) (hvb : ve.before = []) (hva : ve.after = [])
    (hvnb : ve.notBinding = true) (hvw : v.wf = true)
    (hv : ∀ na i inl, ve.rebuildA na i inl = spacesIf inl i ++ (v.norm i).flatten)
    (hbf : bf.all Trivia.isLayout = true) (j : Nat) (inl : Bool) :
    b.rebuildA false j inl = formatTrivia bf j ++ spacesIf inl j ++ n ++ [' ', '='] ++ valueNorm g2 v j ++ [';'] ∧
    (b.effAfter false = [] ∧ b.notAsrt = true) := by
  have hsplit := (nameOk_spec hn).1
  unfold bindingFromCst at hb
  simp only [hsplit, gcTrivia, flattenGC, List.flatMap_nil, List.nil_append, hvb, List.append_nil, addAfter_nil] at hb
  injection hb with hb; subst hb
  have hbv := appendGap_layout g2
  refine ⟨?_, by simp [Expr.effAfter, hva], rfl⟩
  simp only [Expr.rebuildA, before_setBefore, after_setBefore, hva, List.nil_append, bindOnNewline_layout,
    bindValIndent_layout, Bool.false_eq_true, if_false, bindingTail, applyTrailingTrivia]
  by_cases hnl : containsNL g2 = true
  · -- the value goes on its own line
    simp only [hnl, if_true, Option.getD_none, Bool.not_true]
    rw [rebuildA_setBefore hvb hbv, hv, formatTrivia_appendGap]
    have hsol := norm_flatten_solid v (indentFromGap g2) hvw
    have hrs : rstripNL (blankGap g2 ++ (spacesIf false (indentFromGap g2) ++ (v.norm (indentFromGap g2)).flatten)) =
        blankGap g2 ++ (spacesIf false (indentFromGap g2) ++ (v.norm (indentFromGap g2)).flatten) := by
      apply rstripNL_of_solid
      · intro e
        have := (List.append_eq_nil_iff.mp (List.append_eq_nil_iff.mp e).2).2
        exact hsol.1 this
      · rw [← List.append_assoc, endsWithNL_append_of_ne_nil _ _ hsol.1]; exact hsol.2
    rw [hrs]
    simp [valueNorm, hnl, vgap, spacesIf, List.append_assoc]
  · have hnl' : containsNL g2 = false := by simpa using hnl
    have hbv0 : appendGapTriviaOff [] g2 = [] := appendGap_noNL [] hnl' true
    simp only [hnl', Bool.false_eq_true, if_false, Bool.not_false, hbv0]
    have hve : ve.setBefore [] = ve := by
      cases ve <;> simp_all [Expr.setBefore, Expr.before]
    rw [hve]
    have hval : (ve.preview j).getD (ve.rebuildA true j true) = (v.norm j).flatten := by
      cases hp : ve.preview j with
      | none => simp [hv, spacesIf]
      | some p => simp [preview_eq hp, hv, spacesIf]
    rw [hval]
    have hsol := norm_flatten_solid v j hvw
    rw [rstripNL_of_solid hsol.1 hsol.2]
    simp [valueNorm, hnl', spacesIf, List.append_assoc]

theorem solidT_append_left (a : Text) {b : Text} (h : solidT b) : solidT (a ++ b) := by
  refine ⟨fun e => h.1 (List.append_eq_nil_iff.mp e).2, ?_⟩
  rw [endsWithNL_append_of_ne_nil _ _ h.1]; exact h.2

/-- the normalised items of a non-empty comment-free sequence end with a token -/
theorem normML_solid : (its : Items) → ∀ (m : Mode) (cg : Text) (j : Nat), its.wf m cg = true → its.cf = true →
    its.isNil = false → solidT (its.normML j).flatten
  | .nil, _, _, _, _, _, h => by cases h
  | .cmt .., _, _, _, _, hcf, _ => by simp [Items.cf] at hcf
  | .elem g c rest, m, cg, j, hwf, hcf, _ => by
    simp only [Items.wf, Bool.and_eq_true] at hwf
    simp only [Items.cf, Bool.and_eq_true] at hcf
    simp only [Items.normML, Items.flatten]
    cases hr : rest.isNil with
    | true =>
      cases rest with
      | nil =>
        simp only [Items.normML, Items.flatten, List.append_nil]
        exact solidT_append_left _ (norm_flatten_solid c j hwf.1.2)
      | cmt a b c' => cases hr
      | elem a b c' => cases hr
      | bind a b c1 d c2 e f c3 g' h' => cases hr
    | false => exact solidT_append_left _ (normML_solid rest m cg j hwf.2 hcf.2 hr)
  | .bind g n c1 g1 c2 g2 v c3 g3 rest, m, cg, j, hwf, hcf, _ => by
    simp only [Items.wf, Bool.and_eq_true] at hwf
    simp only [Items.cf, Bool.and_eq_true] at hcf
    have key : ∀ (a b c d e : Text) (x : Cst) (tl : Items) , tl.isNil = true →
        solidT (Items.flatten (.bind a b [] c [] d x [] e (tl.normML j))) := by
      intro a b c d e x tl htl
      cases tl with
      | nil =>
        simp only [Items.normML, Items.flatten, flattenGC, List.flatMap_nil, List.append_nil, List.nil_append]
        exact solidT_snoc _ _ (by decide)
      | cmt _ _ _ => cases htl
      | elem _ _ _ => cases htl
      | bind _ _ _ _ _ _ _ _ _ _ => cases htl
    cases hr : rest.isNil with
    | true =>
      simp only [Items.normML]
      split <;> exact key _ _ _ _ _ _ rest hr
    | false =>
      have ih := normML_solid rest m cg j hwf.2 hcf.2 hr
      simp only [Items.normML]
      split
      · simp only [Items.flatten]
        rw [show ∀ (p q : Text), p ++ ';' :: q = (p ++ [';']) ++ q from by intro p q; simp]
        exact solidT_append_left _ ih
      · simp only [Items.flatten]
        rw [show ∀ (p q : Text), p ++ ';' :: q = (p ++ [';']) ++ q from by intro p q; simp]
        exact solidT_append_left _ ih


def AllAfterNil (items : List Expr) : Prop := ∀ e ∈ items, e.effAfter false = [] ∧ e.notAsrt = true

/-- loop state on comment-free items -/
def InvS (st : SeqSt) (its : Items) : Prop :=
  AllAfterNil st.items ∧
  ((st.prev = .none ∧ st.before = openBefore its ∧ st.items = []) ∨ (st.prev = .item ∧ st.before = []))

theorem allAfterNil_append {a b : List Expr} (ha : AllAfterNil a) (hb : AllAfterNil b) : AllAfterNil (a ++ b) := by
  intro e he
  rcases List.mem_append.mp he with h | h
  · exact ha e h
  · exact hb e h

theorem pushGap_text {st : SeqSt} {g : Text} {c : Cst} {rest : Items} (h : InvS st (.elem g c rest)) (j : Nat) :
    formatTrivia (pushGap st g) j = blankGap g ∧ (pushGap st g).all Trivia.isLayout = true := by
  rcases h.2 with ⟨hp, hb, _⟩ | ⟨hp, hb⟩
  · have : pushGap st g = openBefore (.elem g c rest) := by unfold pushGap; simp [hp, hb]
    rw [this]
    exact ⟨by simpa [Items.firstGap] using formatTrivia_openBefore (.elem g c rest) j, openBefore_layout _⟩
  · have : pushGap st g = appendGapTriviaOff [] g := by unfold pushGap; simp [hp, hb]
    rw [this]; exact ⟨formatTrivia_appendGap g j, appendGap_layout g⟩

theorem pushGap_text_bind {st : SeqSt} {g n : Text} {c1 c2 c3 : GC} {g1 g2 g3 : Text} {v : Cst} {rest : Items}
    (h : InvS st (.bind g n c1 g1 c2 g2 v c3 g3 rest)) (j : Nat) :
    formatTrivia (pushGap st g) j = blankGap g ∧ (pushGap st g).all Trivia.isLayout = true := by
  rcases h.2 with ⟨hp, hb, _⟩ | ⟨hp, hb⟩
  · have : pushGap st g = openBefore (.bind g n c1 g1 c2 g2 v c3 g3 rest) := by unfold pushGap; simp [hp, hb]
    rw [this]
    exact ⟨by simpa [Items.firstGap] using formatTrivia_openBefore (.bind g n c1 g1 c2 g2 v c3 g3 rest) j,
      openBefore_layout _⟩
  · have : pushGap st g = appendGapTriviaOff [] g := by unfold pushGap; simp [hp, hb]
    rw [this]; exact ⟨formatTrivia_appendGap g j, appendGap_layout g⟩

theorem blankGap_noNL {g : Text} (h : containsNL g = false) : blankGap g = [] := by
  unfold blankGap; simp [emptyLineOffsets_false h]

theorem effAfter_of_parsed {e : Expr} (hnb : e.notBinding = true) (ha : e.after = []) : e.effAfter false = [] := by
  rw [effAfter_notBinding hnb, ha]

theorem finishSeq_cf (st : SeqSt) (cg : Text) (hc : Bool) (hb : st.before = []) :
    finishSeq st (some cg) hc =
      if hc && gapHasEmptyLineOffsets cg then
        (if st.items.isEmpty then (st.items, [.emptyLine]) else (modifyLast (fun e => e.addAfter [.emptyLine]) st.items, []))
      else (st.items, []) := by
  unfold finishSeq
  simp [hb]

theorem endsWithNL_tail_of_solid {t : Text} (h : solidT ('\n' :: t)) : endsWithNL t = false := by
  cases t with
  | nil => rfl
  | cons c r =>
    have := h.2
    rw [show ('\n' :: c :: r) = ['\n'] ++ (c :: r) from rfl, endsWithNL_append_of_ne_nil _ _ (by simp)] at this
    exact this

theorem blankGap_of {g : Text} (h : gapHasEmptyLineOffsets g = true) : blankGap g = ['\n'] := by simp [blankGap, h]
theorem blankGap_of_not {g : Text} (h : gapHasEmptyLineOffsets g = false) : blankGap g = [] := by simp [blankGap, h]

/-- the body of a multi-line container and what closes it -/
theorem ml_body_text {items : List Expr} {T cg : Text} {j : Nat} (hne : items ≠ []) (hall : AllAfterNil items)
    (hr : rendML items j = T) (hT : solidT T) (i : Nat) :
    let items' := if gapHasEmptyLineOffsets cg then modifyLast (fun e => e.addAfter [.emptyLine]) items else items
    let body := joinWith ['\n'] (rebuildAll items' j false)
    ['\n'] ++ body ++ (if (body.isEmpty && !true) || endsWithNL body then [] else ['\n']) ++ spaces i = T ++ vgap cg i := by
  intro items' body
  have hne' : items' ≠ [] := by
    show (if gapHasEmptyLineOffsets cg then _ else _) ≠ []
    split
    · exact modifyLast_ne_nil _ hne
    · exact hne
  have hj : '\n' :: body = rendML items' j := join_nl_eq items' j hne'
  by_cases hb : gapHasEmptyLineOffsets cg = true
  · have hi : items' = modifyLast (fun e => e.addAfter [.emptyLine]) items := by
      show (if gapHasEmptyLineOffsets cg then _ else _) = _; rw [if_pos hb]
    have hr' : rendML items' j = T ++ ['\n', '\n'] := by rw [hi, rendML_modifyLast items j hne hall, hr]
    have hbody : '\n' :: body = T ++ ['\n', '\n'] := by rw [hj, hr']
    have hend : endsWithNL body = true := by
      cases T with
      | nil => exact absurd rfl hT.1
      | cons c r =>
        simp only [List.cons_append] at hbody
        injection hbody with _ hbody
        rw [hbody]; simp [endsWithNL]
    rw [show (['\n'] ++ body) = '\n' :: body from rfl, hbody, hend]
    simp [vgap, blankGap_of hb, List.append_assoc]
  · have hb' : gapHasEmptyLineOffsets cg = false := by simpa using hb
    have hi : items' = items := by
      show (if gapHasEmptyLineOffsets cg then _ else _) = _; rw [if_neg hb]
    have hbody : '\n' :: body = T := by rw [hj, hi, hr]
    have hend : endsWithNL body = false := endsWithNL_tail_of_solid (by rw [hbody]; exact hT)
    rw [show (['\n'] ++ body) = '\n' :: body from rfl, hbody, hend]
    simp [vgap, blankGap_of_not hb', List.append_assoc]

theorem ml_body_text' {items : List Expr} {T cg : Text} {j : Nat} (hne : items ≠ []) (hall : AllAfterNil items)
    (hr : rendML items j = T) (hT : solidT T) (i : Nat) (tl : Text) :
    ['\n'] ++ (joinWith ['\n'] (rebuildAll (if gapHasEmptyLineOffsets cg then
          modifyLast (fun e => e.addAfter [.emptyLine]) items else items) j false) ++
      ((if ((joinWith ['\n'] (rebuildAll (if gapHasEmptyLineOffsets cg then
          modifyLast (fun e => e.addAfter [.emptyLine]) items else items) j false)).isEmpty && false) ||
          endsWithNL (joinWith ['\n'] (rebuildAll (if gapHasEmptyLineOffsets cg then
          modifyLast (fun e => e.addAfter [.emptyLine]) items else items) j false)) then [] else ['\n']) ++
        (spaces i ++ tl))) = T ++ (vgap cg i ++ tl) := by
  have := ml_body_text (cg := cg) hne hall hr hT i
  simp only [Bool.not_true] at this
  rw [← List.append_assoc T, ← this]
  simp only [List.append_assoc]

theorem setBefore_nil_of' {e : Expr} (h : e.before = []) : e.setBefore [] = e := by
  cases e <;> simp_all [Expr.setBefore, Expr.before]

theorem gapHasEmptyLine_eq_offsets (g : Text) : gapHasEmptyLine g = gapHasEmptyLineOffsets g := by
  rw [gapHasEmptyLine_eq_re, gapHasEmptyLineOffsets_eq_re]

theorem nlSep_eq (g : Text) : nlSep (gapHasEmptyLineOffsets g) = '\n' :: blankGap g := by
  unfold nlSep blankGap; split <;> rfl

theorem startsNonSpace_spaces (n : Nat) (X : Text) :
    (if startsNonSpace (spaces n ++ X) = true then spaces n ++ (spaces n ++ X) else spaces n ++ X) = spaces n ++ X := by
  cases n with
  | zero => simp only [spaces, List.replicate_zero, List.nil_append]; exact ite_self _
  | succ k =>
    have : startsNonSpace (spaces (k + 1) ++ X) = false := by
      simp [spaces, List.replicate_succ, startsNonSpace, isPyWhitespace]
    rw [this]; rfl

/-- the separator in front of the `or` of a select without comments -/
theorem selOrSep_nil (g : Text) (i : Nat) :
    selOrSep g [] i =
      (if (Layout.fromGap g).onNewline then
        (if (Layout.fromGap g).blankLine then ['\n', '\n'] else ['\n']) ++ spaces ((Layout.fromGap g).indent.getD (i + 2))
       else [' ']) := by
  unfold selOrSep
  cases hon : (Layout.fromGap g).onNewline <;> simp [hon]

theorem lamColonPrefix_nil (g : Text) (i : Nat) :
    lamColonPrefix [] g i =
      (if (Layout.fromGap g).onNewline then
        '\n' :: (if (Layout.fromGap g).blankLine then ['\n'] else []) ++ spaces ((Layout.fromGap g).indent.getD 0)
       else []) := by
  unfold lamColonPrefix withLayout formatInterstitialTriviaWithSeparator
  simp only [formatInterstitialTrivia, formatInterstitialGo, separatorFromLayoutWithComments, List.isEmpty_nil, Bool.not_true,
    Bool.false_eq_true, if_false, Bool.false_and, List.nil_append, endsWithNL_nil', triviaForcesNewline, List.any_nil, if_true]
  cases (Layout.fromGap g).onNewline <;> simp

theorem formatTriviaGo_emptyLines (i : Nat) : ∀ (m : Nat) (acc : Text) (e : Bool),
    formatTriviaGo i (List.replicate m Trivia.emptyLine) acc e = acc ++ List.replicate m '\n'
  | 0, acc, e => by simp [formatTriviaGo]
  | m + 1, acc, e => by
    rw [List.replicate_succ, formatTriviaGo, formatTriviaGo_emptyLines i m, List.replicate_succ]
    simp

theorem formatTrivia_emptyLines (m i : Nat) : formatTrivia (List.replicate m Trivia.emptyLine) i = List.replicate m '\n' := by
  unfold formatTrivia; rw [formatTriviaGo_emptyLines]; rfl

theorem emptyLines_layout (m : Nat) : (List.replicate m Trivia.emptyLine).all Trivia.isLayout = true := by
  apply List.all_eq_true.mpr; intro x hx; rw [List.eq_of_mem_replicate hx]; rfl

theorem count_nl_of_noNL : ∀ {g : Text}, containsNL g = false → g.count '\n' = 0
  | [], _ => rfl
  | c :: r, h => by
    rw [containsNL_cons] at h
    simp only [Bool.or_eq_false_iff, beq_eq_false_iff_ne, ne_eq] at h
    rw [List.count_cons, count_nl_of_noNL h.2]
    simp [h.1]

theorem noNL_of_count_nl : ∀ {g : Text}, g.count '\n' = 0 → containsNL g = false
  | [], _ => rfl
  | c :: r, h => by
    rw [List.count_cons] at h
    have h2 : r.count '\n' = 0 := by omega
    have h1 : (c == '\n') = false := by
      cases hc : (c == '\n') with
      | false => rfl
      | true => rw [hc] at h; simp at h
    rw [containsNL_cons, h1, noNL_of_count_nl h2]; rfl

theorem count_nl_breaks (n i : Nat) : (List.replicate n '\n' ++ spaces i).count '\n' = n := by
  rw [List.count_append, List.count_replicate_self, spaces, List.count_replicate]
  simp

theorem isGap_breaks (n i : Nat) : isGap (List.replicate n '\n' ++ spaces i) = true := by
  unfold isGap spaces
  apply List.all_eq_true.mpr
  intro c hc
  rcases List.mem_append.mp hc with h | h <;> rw [List.eq_of_mem_replicate h] <;> rfl

/-- the text starts with a character that is neither a space nor a line break -/
def headOkB : Text → Bool
  | [] => false
  | c :: _ => c != ' ' && c != '\n'

theorem headOkB_append {a : Text} (h : headOkB a = true) (b : Text) : headOkB (a ++ b) = true := by
  cases a with
  | nil => cases h
  | cons c r => exact h

theorem headOkB_of_all (p : Char → Bool) (hsp : p ' ' = false) (hnl : p '\n' = false) {t : Text} (hne : t ≠ [])
    (hall : t.all p = true) : headOkB t = true := by
  cases t with
  | nil => exact absurd rfl hne
  | cons c r =>
    simp only [List.all_cons, Bool.and_eq_true] at hall
    simp only [headOkB, Bool.and_eq_true, bne_iff_ne, ne_eq]
    constructor
    · intro hc; subst hc; rw [hsp] at hall; cases hall.1
    · intro hc; subst hc; rw [hnl] at hall; cases hall.1

theorem leaf_headOk {k : LeafKind} {t : Text} (h : leafOk k t = true) : headOkB t = true := by
  cases k with
  | ident =>
    simp only [leafOk, Bool.and_eq_true, Bool.not_eq_true', List.isEmpty_eq_false_iff] at h
    exact headOkB_of_all isIdentChar (by decide) (by decide) h.1 h.2
  | int =>
    simp only [leafOk, Bool.and_eq_true, Bool.not_eq_true', List.isEmpty_eq_false_iff] at h
    exact headOkB_of_all isAsciiDigit (by decide) (by decide) h.1.1.1 h.1.1.2
  | float =>
    simp only [leafOk, Bool.and_eq_true, Bool.not_eq_true', List.isEmpty_eq_false_iff] at h
    exact headOkB_of_all _ (by decide) (by decide) h.1 h.2
  | str =>
    simp only [leafOk, Bool.and_eq_true, beq_iff_eq] at h
    cases t with
    | nil => simp at h
    | cons c r =>
      have : c = '"' := by simpa using h.1.2
      subst this; rfl
  | path =>
    simp only [leafOk, Bool.and_eq_true] at h
    refine headOkB_of_all (fun c => !isWsChar c) (by decide) (by decide) ?_ h.2
    intro ht; subst ht; simp at h

theorem lamName_headOk {n : Text} (h : lamNameOk n = true) : headOkB n = true := by
  simp only [lamNameOk, Bool.and_eq_true, Bool.not_eq_true', List.isEmpty_eq_false_iff] at h
  exact headOkB_of_all isIdentChar (by decide) (by decide) h.1 h.2

theorem norm_head : ∀ (c : Cst) (i : Nat), c.wf = true → headOkB (c.norm i).flatten = true
  | .leaf k t, i, h => by simp only [Cst.norm, Cst.flatten]; exact leaf_headOk h
  | .list its cg, i, _ => by
    simp only [Cst.norm]
    split
    · split <;> rfl
    · split <;> rfl
  | .set r rg its cg, i, _ => by
    simp only [Cst.norm]
    repeat' split
    all_goals (cases r <;> rfl)
  | .paren its cg, i, h => by
    cases its with
    | elem g c rest => cases rest <;> rfl
    | nil => rfl
    | cmt _ _ _ => rfl
    | bind _ _ _ _ _ _ _ _ _ _ => rfl
  | .app f cs g a, i, h => by
    simp only [Cst.wf, Bool.and_eq_true] at h
    simp only [Cst.norm, Cst.flatten, List.append_assoc]
    exact headOkB_append (norm_head f i h.1.1.1) _
  | .kw w c1 g1 hd c2 g2 c3 g3 b, i, h => by cases w <;> rfl
  | .sel e c1 g1 gd attrs, i, h => by
    simp only [Cst.wf, Bool.and_eq_true] at h
    simp only [Cst.norm, Cst.flatten, List.append_assoc]
    exact headOkB_append (norm_head e i h.1.1.1.1.1) _
  | .selOr e c1 g1 gd attrs c2 g2 g3 d, i, h => by
    simp only [Cst.wf, Bool.and_eq_true] at h
    simp only [Cst.norm, Cst.flatten, List.append_assoc]
    exact headOkB_append (norm_head e i h.1.1.1.1.1.1.1.1.1) _
  | .lam n c1 g1 c2 g2 b, i, h => by
    simp only [Cst.wf, Bool.and_eq_true] at h
    simp only [Cst.norm, Cst.flatten, List.append_assoc]
    exact headOkB_append (lamName_headOk h.1.1.1.1.1) _
  | .un op c g e, i, h => by
    simp only [Cst.wf, Bool.and_eq_true] at h
    have hop := h.1.1.1
    simp only [unOpOk, Bool.or_eq_true, beq_iff_eq] at hop
    simp only [Cst.norm, Cst.flatten, List.append_assoc]
    rcases hop with h1 | h1 <;> subst h1 <;> rfl
  | .bin l c1 g1 op c2 g2 r, i, h => by
    simp only [Cst.wf, Bool.and_eq_true] at h
    simp only [Cst.norm, Cst.flatten, List.append_assoc]
    exact headOkB_append (norm_head l i h.1.1.1.1.1.1.1) _
  | .ite c1 g1 c c2 g2 c3 g3 t c4 g4 c5 g5 e, i, h => rfl
  | .has e c1 g1 c2 g2 attrs, i, h => by
    simp only [Cst.wf, Bool.and_eq_true] at h
    simp only [Cst.norm, Cst.flatten, List.append_assoc]
    exact headOkB_append (norm_head e i h.1.1.1.1.1.1) _

theorem ensureIndentPad_head {t : Text} (h : headOkB t = true) (k : Nat) : ensureIndentPad t k = k := by
  cases t with
  | nil => cases h
  | cons c r =>
    simp only [headOkB, Bool.and_eq_true, bne_iff_ne, ne_eq] at h
    have h1 : (c != '\n') = true := by simpa using h.2
    have h2 : (c == ' ') = false := by simpa using h.1
    simp only [ensureIndentPad, List.isEmpty_cons, Bool.false_eq_true, if_false, List.takeWhile_cons, h1, if_true, h2,
      List.length_nil]
    split <;> omega

theorem absorbable_norm : ∀ (c : Cst) (i : Nat), (c.norm i).absorbableC = c.absorbableC
  | .leaf .., _ => rfl
  | .list its cg, i => by
    simp only [Cst.norm]
    split
    · split <;> rfl
    · split <;> rfl
  | .set r rg its cg, i => by
    simp only [Cst.norm]
    repeat' split
    all_goals rfl
  | .paren its cg, i => by
    cases its with
    | elem g c rest =>
      cases rest with
      | nil => simp only [Cst.norm, Cst.absorbableC]; exact absorbable_norm c _
      | _ => rfl
    | nil => rfl
    | cmt _ _ _ => rfl
    | bind _ _ _ _ _ _ _ _ _ _ => rfl
  | .app .., _ => rfl
  | .kw w .., _ => by cases w <;> rfl
  | .sel .., _ => rfl
  | .selOr .., _ => rfl
  | .lam .., _ => rfl
  | .un .., _ => rfl
  | .bin .., _ => rfl
  | .ite .., _ => rfl
  | .has .., _ => rfl

theorem headLeaf_norm : ∀ (c : Cst) (i : Nat), (c.norm i).headLeaf = c.headLeaf
  | .leaf .., _ => rfl
  | .list its cg, i => by
    simp only [Cst.norm]
    split
    · split <;> rfl
    · split <;> rfl
  | .set r rg its cg, i => by
    simp only [Cst.norm]
    repeat' split
    all_goals rfl
  | .paren its cg, i => by
    cases its with
    | elem g c rest => cases rest <;> rfl
    | nil => rfl
    | cmt _ _ _ => rfl
    | bind _ _ _ _ _ _ _ _ _ _ => rfl
  | .app f cs g a, i => by simp only [Cst.norm, Cst.headLeaf]; exact headLeaf_norm f i
  | .kw w .., _ => by cases w <;> rfl
  | .sel e c1 g1 gd attrs, i => by simp only [Cst.norm, Cst.headLeaf]; exact headLeaf_norm e i
  | .selOr e c1 g1 gd attrs c2 g2 g3 d, i => by simp only [Cst.norm, Cst.headLeaf]; exact headLeaf_norm e i
  | .lam .., _ => rfl
  | .un .., _ => rfl
  | .bin l c1 g1 op c2 g2 r, i => by simp only [Cst.norm, Cst.headLeaf]; exact headLeaf_norm l i
  | .ite .., _ => rfl
  | .has e c1 g1 c2 g2 attrs, i => by simp only [Cst.norm, Cst.headLeaf]; exact headLeaf_norm e i

theorem fusesMinus_norm (c : Cst) (i : Nat) : (c.norm i).fusesMinus = c.fusesMinus := by
  unfold Cst.fusesMinus; rw [headLeaf_norm]

theorem breaksGap_count (g : Text) (k : Nat) :
    (if g.count '\n' = 0 then [' '] else List.replicate (g.count '\n') '\n' ++ spaces k).count '\n' = g.count '\n' := by
  by_cases h0 : g.count '\n' = 0
  · simp [h0]
  · simp only [h0, if_false, count_nl_breaks]

theorem sameOpChain_norm (c : Cst) (i : Nat) (op : Text) : (c.norm i).sameOpChainC op = c.sameOpChainC op := by
  cases c with
  | bin l c1 g1 o c2 g2 r => simp only [Cst.norm, Cst.sameOpChainC, breaksGap_count]
  | list its cg =>
    simp only [Cst.norm]
    split
    · split <;> rfl
    · split <;> rfl
  | set r rg its cg =>
    simp only [Cst.norm]
    repeat' split
    all_goals rfl
  | paren its cg =>
    cases its with
    | elem g c rest => cases rest <;> rfl
    | nil => rfl
    | cmt _ _ _ => rfl
    | bind _ _ _ _ _ _ _ _ _ _ => rfl
  | kw w c1 g1 h c2 g2 c3 g3 b => cases w <;> rfl
  | _ => rfl

theorem binRightIndentC_norm (op : Text) (c : Cst) (j i : Nat) : binRightIndentC op (c.norm j) i = binRightIndentC op c i := by
  unfold binRightIndentC
  rw [sameOpChain_norm, absorbable_norm]

theorem absorbable_setBefore' (e : Expr) (b : List Trivia) : (e.setBefore b).absorbable = e.absorbable := by
  cases e <;> rfl

/-- `Expr.absorbable` / `Expr.sameOpChain` of a parsed comment-free tree, read off the tree -/
theorem parse_absorbable : (c : Cst) → c.wf = true → c.cf = true → ∀ (e : Expr), c.parse = .ok e →
    e.absorbable = c.absorbableC
  | .leaf k t, _, _, e, hp => by
    simp only [Cst.parse] at hp
    obtain ⟨k', t', rfl⟩ := leafFromCst_shape hp; rfl
  | .list its cg, _, _, e, hp => by
    simp only [Cst.parse] at hp
    split at hp
    · cases hp
    · injection hp with hp; subst hp; rfl
  | .set r rg its cg, _, _, e, hp => by
    simp only [Cst.parse] at hp
    split at hp
    · cases hp
    · injection hp with hp; subst hp; rfl
  | .paren (.elem g c .nil) cg, hwf, hcf, e, hp => by
    simp only [Cst.wf, Items.wf, Bool.and_eq_true] at hwf
    simp only [Cst.cf, Items.cf, Bool.and_eq_true] at hcf
    obtain ⟨e', hpe, _, heb, _⟩ := cst_parse_spec false c hwf.1.1.1.2 (fun h => by cases h)
    have hparse : (Cst.paren (.elem g c .nil) cg).parse =
        .ok (.paren e' g cg (gapHasEmptyLineOffsets g) (gapHasEmptyLineOffsets cg) [] []) := by
      simp [Cst.parse, Items.parseSeq, hpe, pushGap, heb, setBefore_nil_of' heb, finishSeq, Items.preElem,
        Items.postElem, Items.flatten, Items.firstGap, Items.isNil]
    rw [hparse] at hp; injection hp with hp; subst hp
    exact parse_absorbable c hwf.1.1.1.2 hcf.1 e' hpe
  | .paren .nil cg, hwf, _, _, _ => by simp [Cst.wf, Items.countElems] at hwf
  | .paren (.cmt ..) cg, _, hcf, _, _ => by simp [Cst.cf, Items.cf] at hcf
  | .paren (.bind ..) cg, hwf, _, _, _ => by simp [Cst.wf, Items.wf] at hwf
  | .paren (.elem g c (.cmt ..)) cg, _, hcf, _, _ => by simp [Cst.cf, Items.cf] at hcf
  | .paren (.elem g c (.bind ..)) cg, hwf, _, _, _ => by simp [Cst.wf, Items.wf] at hwf
  | .paren (.elem g c (.elem ..)) cg, hwf, _, _, _ => by simp [Cst.wf, Items.countElems] at hwf
  | .app f cs g a, _, _, e, hp => by obtain ⟨n, x, g', fa, rfl⟩ := app_parse_shape hp; rfl
  | .kw w c1 g1 h c2 g2 c3 g3 b, _, _, e, hp => by
    simp only [Cst.parse] at hp
    split at hp
    · cases hp
    · split at hp
      · cases hp
      · injection hp with hp; subst hp
        split
        · unfold withFromCst; rfl
        · unfold asrtFromCst; rfl
  | .sel e0 c1 g1 gd ats, _, _, e, hp => by
    simp only [Cst.parse] at hp
    split at hp
    · cases hp
    · injection hp with hp; subst hp; rfl
  | .selOr e0 c1 g1 gd ats c2 g2 g3 d, _, _, e, hp => by
    simp only [Cst.parse] at hp
    split at hp
    · cases hp
    · split at hp
      · cases hp
      · injection hp with hp; subst hp; rfl
  | .lam n c1 g1 c2 g2 b, _, _, e, hp => by
    simp only [Cst.parse] at hp
    split at hp
    · cases hp
    · injection hp with hp; subst hp; rfl
  | .un op c g e0, _, _, e, hp => by
    simp only [Cst.parse] at hp
    split at hp
    · cases hp
    · injection hp with hp; subst hp; rfl
  | .ite c1 g1 c0 c2 g2 c3 g3 t c4 g4 c5 g5 e0, _, _, e, hp => by
    simp only [Cst.parse] at hp
    split at hp
    · cases hp
    · split at hp
      · cases hp
      · split at hp
        · cases hp
        · injection hp with hp; subst hp; rfl
  | .has e0 c1 g1 c2 g2 ats, _, _, e, hp => by
    simp only [Cst.parse] at hp
    split at hp
    · cases hp
    · injection hp with hp; subst hp; rfl
  | .bin l c1 g1 op c2 g2 r, _, _, e, hp => by
    simp only [Cst.parse] at hp
    split at hp
    · cases hp
    · split at hp
      · cases hp
      · injection hp with hp; subst hp; rfl

theorem parse_sameOpChain {c : Cst} {e : Expr} (hcf : c.cf = true) (hp : c.parse = .ok e) (op : Text) :
    e.sameOpChain op = c.sameOpChainC op := by
  cases c with
  | leaf k t =>
    simp only [Cst.parse] at hp
    obtain ⟨k', t', rfl⟩ := leafFromCst_shape hp; rfl
  | list its cg =>
    simp only [Cst.parse] at hp
    split at hp
    · cases hp
    · injection hp with hp; subst hp; rfl
  | set r rg its cg =>
    simp only [Cst.parse] at hp
    split at hp
    · cases hp
    · injection hp with hp; subst hp; rfl
  | paren its cg => obtain ⟨v, lg, tg, lb, tb, rfl⟩ := paren_parse_shape hp; rfl
  | app f cs g a => obtain ⟨n, x, g', fa, rfl⟩ := app_parse_shape hp; rfl
  | kw w c1 g1 h c2 g2 c3 g3 b =>
    simp only [Cst.parse] at hp
    split at hp
    · cases hp
    · split at hp
      · cases hp
      · injection hp with hp; subst hp
        split
        · unfold withFromCst; rfl
        · unfold asrtFromCst; rfl
  | sel e0 c1 g1 gd ats =>
    simp only [Cst.parse] at hp
    split at hp
    · cases hp
    · injection hp with hp; subst hp; rfl
  | selOr e0 c1 g1 gd ats c2 g2 g3 d =>
    simp only [Cst.parse] at hp
    split at hp
    · cases hp
    · split at hp
      · cases hp
      · injection hp with hp; subst hp; rfl
  | lam n c1 g1 c2 g2 b =>
    simp only [Cst.parse] at hp
    split at hp
    · cases hp
    · injection hp with hp; subst hp; rfl
  | un o c g e0 =>
    simp only [Cst.parse] at hp
    split at hp
    · cases hp
    · injection hp with hp; subst hp; rfl
  | ite c1 g1 c0 c2 g2 c3 g3 t c4 g4 c5 g5 e0 =>
    simp only [Cst.parse] at hp
    split at hp
    · cases hp
    · split at hp
      · cases hp
      · split at hp
        · cases hp
        · injection hp with hp; subst hp; rfl
  | has e0 c1 g1 c2 g2 ats =>
    simp only [Cst.parse] at hp
    split at hp
    · cases hp
    · injection hp with hp; subst hp; rfl
  | bin l c1 g1 o c2 g2 r =>
    simp only [Cst.parse] at hp
    split at hp
    · cases hp
    · split at hp
      · cases hp
      · injection hp with hp; subst hp; rfl

theorem containsNL_breaks {n : Nat} (h : n ≠ 0) (i : Nat) : containsNL (List.replicate n '\n' ++ spaces i) = true := by
  cases n with
  | zero => exact absurd rfl h
  | succ m => simp [List.replicate_succ, containsNL_cons]

theorem drop_spaces : ∀ (i : Nat) (X : Text), (spaces i ++ X).drop i = X
  | 0, X => rfl
  | i + 1, X => by
    show ((' ' :: spaces i) ++ X).drop (i + 1) = X
    exact drop_spaces i X

theorem stripIndentPrefix_spaces (i : Nat) (X : Text) : stripIndentPrefix (spaces i ++ X) i = X := by
  unfold stripIndentPrefix
  by_cases hi : i = 0
  · subst hi; rfl
  · have : (i != 0) = true := by simpa using hi
    simp only [this, Bool.true_and, startsWith_append_self, if_true, drop_spaces]

theorem gapHasEmptyLine_semi (t : Text) : gapHasEmptyLine (';' :: t) = gapHasEmptyLine t := by
  rw [gapHasEmptyLine_eq_re, gapHasEmptyLine_eq_re, hasEmptyLineRe_cons_ne (by decide)]

theorem containsNL_semi (t : Text) : containsNL (';' :: t) = containsNL t := by
  rw [containsNL_cons]; simp

theorem gapHasEmptyLine_of_noNL {g : Text} (h : containsNL g = false) : gapHasEmptyLine g = false := by
  simp [gapHasEmptyLine, h]

/-- separator and body of a `with` without comments, as text -/
theorem withBody_text {be : Expr} (hbb : be.before = []) (S X : Text) (i : Nat)
    (hrt : ∀ (inl : Bool), be.rebuildA false i inl = spacesIf inl i ++ X) :
    withBodyPart
      (withBodyForce [] [] (if (appendGapTrivia [] S).isEmpty then be else be.setBefore (appendGapTrivia [] S ++ be.before)).before)
      be.absorbable
      ((if (appendGapTrivia [] S).isEmpty then be else be.setBefore (appendGapTrivia [] S ++ be.before)).rebuildA false i true)
      ((if (appendGapTrivia [] S).isEmpty then be else be.setBefore (appendGapTrivia [] S ++ be.before)).rebuildA false i false) i =
    (if gapHasEmptyLine S then '\n' :: '\n' :: spaces i
     else if containsNL S then '\n' :: spaces i
     else if be.absorbable then [' ']
     else if containsNL X then '\n' :: spaces i
     else [' ']) ++ X := by
  have h1 := hrt true
  have h2 := hrt false
  simp only [spacesIf, if_true, Bool.false_eq_true, if_false, List.nil_append] at h1 h2
  unfold appendGapTrivia
  cases hE : gapHasEmptyLine S with
  | true =>
    have hsb := rebuildA_setBefore hbb (bf := [Trivia.emptyLine]) rfl false i false
    simp only [if_true, List.nil_append, List.isEmpty_cons, Bool.false_eq_true, if_false, hbb, List.append_nil,
      before_setBefore, withBodyForce, hasLayoutOrComment, List.any_cons, List.any_nil, List.isEmpty_nil, Bool.not_true,
      Bool.false_or, Bool.or_false, withBodyPart, Bool.not_true, Bool.false_and, Bool.true_or, hsb, h2]
    simp [formatTrivia, formatTriviaGo]
  | false =>
    cases hN : containsNL S with
    | true =>
      have hsb := rebuildA_setBefore hbb (bf := [Trivia.linebreak]) rfl false i false
      simp only [Bool.false_eq_true, if_false, Bool.true_and, if_true, List.nil_append, List.isEmpty_cons, hbb, List.append_nil,
        before_setBefore, withBodyForce, hasLayoutOrComment, List.any_cons, List.any_nil, List.isEmpty_nil, Bool.not_true,
        Bool.false_or, Bool.or_false, withBodyPart, Bool.false_and, Bool.true_or, hsb, h2]
      simp [formatTrivia, formatTriviaGo]
    | false =>
      simp only [Bool.false_eq_true, if_false, Bool.true_and, Bool.and_false, List.isEmpty_nil, if_true, hbb, withBodyForce,
        hasLayoutOrComment, List.any_nil, Bool.not_true, Bool.or_false, withBodyPart, Bool.not_false, Bool.true_and,
        Bool.false_or, h1, h2, stripIndentPrefix_spaces]
      cases be.absorbable <;> cases containsNL X <;> simp

theorem unLayout_nil (g : Text) : unLayout [] g = Layout.fromGap g := by
  simp [unLayout, hasLayoutOrComment]

/-- the separator in front of the `.` of a select without comments -/
theorem selSep_nil (exprStr g : Text) (i : Nat) (h : endsWithNL exprStr = false) :
    selSep exprStr g [] i =
      (if (Layout.fromGap g).onNewline then
        '\n' :: (if (Layout.fromGap g).blankLine then ['\n'] else []) ++ spaces ((Layout.fromGap g).indent.getD 0)
       else []) := by
  unfold selSep formatInterstitialTriviaWithSeparator
  simp only [formatInterstitialTrivia, formatInterstitialGo, separatorFromLayoutWithComments, List.isEmpty_nil, Bool.not_true,
    Bool.false_eq_true, if_false, Bool.false_and, h, List.nil_append, endsWithNL_nil', if_true]
  cases (Layout.fromGap g).onNewline <;> simp

/-! ### `if` / `?` without comments: the text of the separators -/

theorem sepText_eq_sepGap (g : Text) : sepText g = sepGap g := by
  unfold sepText sepGap
  cases hg : containsNL g with
  | false => simp [Layout.fromGap, hg]
  | true =>
    simp only [Layout.fromGap, hg, Bool.not_true, Bool.false_eq_true, if_false, if_true, Option.getD_some,
      gapHasEmptyLine_eq_offsets]
    cases hb : gapHasEmptyLineOffsets g <;> simp [vgap, blankGap, hb]

/-- separator, then the branch inline or on its own line, in terms of the normalised tree -/
theorem branch_text {c : Cst} {ce : Expr}
    (hrt : ∀ (na : Bool) (i : Nat) (inl : Bool), ce.rebuildA na i inl = spacesIf inl i ++ (c.norm i).flatten)
    (g : Text) (i : Nat) (rest : Text) :
    brkText g ++ ((if (Layout.fromGap g).onNewline = true then ce.rebuildA false ((Layout.fromGap g).indent.getD i) false
      else ce.rebuildA false i true) ++ rest) = sepGap g ++ ((c.norm (sepIndent g i)).flatten ++ rest) := by
  unfold brkText sepGap sepIndent
  cases hg : containsNL g with
  | false => simp [Layout.fromGap, hg, hrt, spacesIf]
  | true =>
    simp only [Layout.fromGap, hg, Bool.not_true, Bool.false_eq_true, if_false, if_true, Option.getD_some,
      gapHasEmptyLine_eq_offsets, hrt, spacesIf]
    cases hb : gapHasEmptyLineOffsets g <;> simp [vgap, blankGap, hb, List.append_assoc]

theorem branch_text_last {c : Cst} {ce : Expr}
    (hrt : ∀ (na : Bool) (i : Nat) (inl : Bool), ce.rebuildA na i inl = spacesIf inl i ++ (c.norm i).flatten)
    (g : Text) (i : Nat) :
    brkText g ++ (if (Layout.fromGap g).onNewline = true then ce.rebuildA false ((Layout.fromGap g).indent.getD i) false
      else ce.rebuildA false i true) = sepGap g ++ (c.norm (sepIndent g i)).flatten := by
  have := branch_text hrt g i []
  simpa using this

theorem sepGap_noNL {g : Text} (h : containsNL g = false) : sepGap g = [' '] := by simp [sepGap, h]
theorem sepIndent_noNL {g : Text} (h : containsNL g = false) (i : Nat) : sepIndent g i = i := by simp [sepIndent, h]

mutual
theorem cst_rt : (c : Cst) → c.wf = true → c.cf = true →
    ∃ e, c.parse = .ok e ∧ e.before = [] ∧ e.after = [] ∧ e.notBinding = true ∧
      ∀ (na : Bool) (i : Nat) (inl : Bool), e.rebuildA na i inl = spacesIf inl i ++ (c.norm i).flatten
  | .leaf k t, hwf, _ => by
    have hs := leaf_spec (k := k) (t := t) hwf
    refine ⟨_, hs.1, rfl, rfl, rfl, fun na i inl => ?_⟩
    cases na <;> simp [Expr.rebuildA, addTrivia, leafBefore_nil, formatTrivia, formatTriviaGo, applyTrailingTrivia,
      spacesIf, Cst.norm, Cst.flatten]
  | .list its cg, hwf, hcf => by
    have hwf0 := hwf
    simp only [Cst.wf, Bool.and_eq_true] at hwf
    simp only [Cst.cf] at hcf
    obtain ⟨e0, hp0, _⟩ := cst_parse_spec false (.list its cg) hwf0 (fun h => by cases h)
    simp only [Cst.parse] at hp0
    cases hps : its.parseSeq .list { before := openBefore its } with
    | error err => rw [hps] at hp0; cases hp0
    | ok st' =>
      have hinit : InvS { before := openBefore its } its :=
        ⟨fun e he => by simp at he, Or.inl ⟨rfl, rfl, rfl⟩⟩
      have hrt := items_rt its .list cg { before := openBefore its } st' hwf.1 hcf hps (by decide) hinit
      have hpe : (Cst.list its cg).parse = .ok (.list (finishSeq st' (some cg) (!its.isNil)).1
          (containsNL ('[' :: its.flatten ++ cg ++ [']']))
          (emptyInner (finishSeq st' (some cg) (!its.isNil)).1 (finishSeq st' (some cg) (!its.isNil)).2 (its.flatten ++ cg))
          [] []) := by simp only [Cst.parse, hps]
      refine ⟨_, hpe, rfl, rfl, rfl, fun na i inl => ?_⟩
      have hna : (if na = true then ([] : List Trivia) else []) = [] := by cases na <;> rfl
      cases hnil : its.isNil with
      | true =>
        -- no items
        have hst : st' = { before := openBefore its } := hrt.2.2.2.2 hnil
        have hits : its = .nil := by
          cases its with
          | nil => rfl
          | cmt _ _ _ => cases hnil
          | elem _ _ _ => cases hnil
          | bind _ _ _ _ _ _ _ _ _ _ => cases hnil
        subst hits; subst hst
        have hfin : finishSeq { before := openBefore Items.nil } (some cg) false = ([], []) := by
          simp [finishSeq, openBefore, Items.firstGap]
        simp only [Items.isNil, Bool.not_true, hfin, emptyInner, List.isEmpty_nil, Bool.and_self, if_true, Items.flatten,
          List.nil_append, Cst.norm]
        by_cases hb : gapHasEmptyLineOffsets cg = true
        · simp [hb, Expr.rebuildA, multilineBlock, formatTrivia, formatTriviaGo, applyTrailingTrivia, hna, spacesIf,
            Cst.flatten, Items.flatten, vgap, blankGap, endsWithNL]
        · have hb' : gapHasEmptyLineOffsets cg = false := by simpa using hb
          simp [hb', Expr.rebuildA, formatTrivia, formatTriviaGo, applyTrailingTrivia, hna, spacesIf,
            Cst.flatten, Items.flatten]
      | false =>
        obtain ⟨hbef, hne⟩ := hrt.2.2.2.1 hnil
        have hall := hrt.2.2.1
        have hml0 : ∀ j, rendML st'.items j = (its.normML j).flatten := by
          intro j; rw [hrt.1 j]; simp [rendML]
        have hcontains : containsNL ('[' :: its.flatten ++ cg ++ [']']) = containsNL (its.flatten ++ cg) := by
          rw [show ('[' :: its.flatten ++ cg ++ [']']) = ['['] ++ ((its.flatten ++ cg) ++ [']']) from by simp,
            containsNL_append, containsNL_append]
          simp [containsNL]
        rw [finishSeq_cf st' cg _ hbef]
        simp only [hnil, Bool.not_false, Bool.true_and, Cst.norm, Bool.false_eq_true, if_false, hcontains]
        by_cases hml : containsNL (its.flatten ++ cg) = true
        · -- several lines
          simp only [hml, if_true]
          have hbody := fun tl => ml_body_text' (cg := cg) hne hall (hml0 (i + 2))
            (normML_solid its .list cg (i + 2) hwf.1 hcf hnil) i tl
          by_cases hb : gapHasEmptyLineOffsets cg = true
          · have hst'e : st'.items.isEmpty = false := by
              cases hx : st'.items with
              | nil => exact absurd hx hne
              | cons _ _ => rfl
            simp only [hb, if_true, hst'e, Bool.false_eq_true, if_false] at hbody ⊢
            cases hx : modifyLast (fun e => e.addAfter [Trivia.emptyLine]) st'.items with
            | nil => exact absurd hx (modifyLast_ne_nil _ hne)
            | cons y ys =>
              rw [hx] at hbody
              simp only [emptyInner, List.isEmpty_cons, Bool.false_and, Bool.false_eq_true, if_false, Expr.rebuildA,
                if_true, Bool.not_true, multilineBlock, formatTrivia, formatTriviaGo, applyTrailingTrivia, hna]
              simp only [List.nil_append, List.append_assoc]
              rw [hbody]
              simp [spacesIf, Cst.flatten, List.append_assoc]
          · have hb' : gapHasEmptyLineOffsets cg = false := by simpa using hb
            simp only [hb', Bool.false_eq_true, if_false] at hbody ⊢
            cases hx : st'.items with
            | nil => exact absurd hx hne
            | cons y ys =>
              rw [hx] at hbody
              simp only [emptyInner, List.isEmpty_cons, Bool.false_and, Bool.false_eq_true, if_false, Expr.rebuildA,
                if_true, Bool.not_true, multilineBlock, formatTrivia, formatTriviaGo, applyTrailingTrivia, hna]
              simp only [List.nil_append, List.append_assoc]
              rw [hbody]
              simp [spacesIf, Cst.flatten, List.append_assoc]
        · -- one line
          have hml' : containsNL (its.flatten ++ cg) = false := by simpa using hml
          have hcg : containsNL cg = false := (containsNL_append_false hml').2
          have hfl : rendFlat st'.items i = (its.normFlat i).flatten := by
            rw [hrt.2.1 (containsNL_append_false hml').1 i]; simp [rendFlat]
          simp only [hml', Bool.false_eq_true, if_false, emptyLineOffsets_false hcg]
          cases hx : st'.items with
          | nil => exact absurd hx hne
          | cons y ys =>
            have hj := join_sp_eq (y :: ys) i (by simp)
            rw [← hx, hfl] at hj
            simp only [emptyInner, List.isEmpty_cons, Bool.false_and, Bool.false_eq_true, if_false, Expr.rebuildA,
              Bool.not_false, formatTrivia, formatTriviaGo, applyTrailingTrivia, hna, List.nil_append]
            rw [hx] at hj
            have hj' : ∀ X, ' ' :: (joinWith [' '] (rebuildAll (y :: ys) i true) ++ X) = (its.normFlat i).flatten ++ X := by
              intro X; rw [← hj]; rfl
            simp only [List.append_assoc, List.cons_append, List.nil_append, hj']
            cases inl <;> simp [spacesIf, Cst.flatten, List.append_assoc]
  | .set isRec rg its cg, hwf, hcf => by
    have hwf0 := hwf
    simp only [Cst.wf, Bool.and_eq_true] at hwf
    simp only [Cst.cf] at hcf
    obtain ⟨e0, hp0, _⟩ := cst_parse_spec false (.set isRec rg its cg) hwf0 (fun h => by cases h)
    simp only [Cst.parse] at hp0
    cases hps : its.parseSeq .set { before := openBefore its } with
    | error err => rw [hps] at hp0; cases hp0
    | ok st' =>
      have hinit : InvS { before := openBefore its } its :=
        ⟨fun e he => by simp at he, Or.inl ⟨rfl, rfl, rfl⟩⟩
      have hrt := items_rt its .set cg { before := openBefore its } st' hwf.1.2 hcf hps (by decide) hinit
      have hpe : (Cst.set isRec rg its cg).parse = .ok (.set (finishSeq st' (some cg) (!its.isNil)).1
          (containsNL (Cst.flatten (.set isRec rg its cg))) isRec
          (emptyInner (finishSeq st' (some cg) (!its.isNil)).1 (finishSeq st' (some cg) (!its.isNil)).2 (its.flatten ++ cg))
          [] []) := by simp only [Cst.parse, hps]
      refine ⟨_, hpe, rfl, rfl, rfl, fun na i inl => ?_⟩
      have hna : (if na = true then ([] : List Trivia) else []) = [] := by cases na <;> rfl
      have hpre : (if isRec = true then ['r', 'e', 'c', ' '] else ([] : Text)) =
          (if isRec = true then ['r', 'e', 'c'] ++ (if isRec = true then [' '] else []) else []) := by
        cases isRec <;> rfl
      cases hnil : its.isNil with
      | true =>
        have hst : st' = { before := openBefore its } := hrt.2.2.2.2 hnil
        have hits : its = .nil := by
          cases its with
          | nil => rfl
          | cmt _ _ _ => cases hnil
          | elem _ _ _ => cases hnil
          | bind _ _ _ _ _ _ _ _ _ _ => cases hnil
        subst hits; subst hst
        have hfin : finishSeq { before := openBefore Items.nil } (some cg) false = ([], []) := by
          simp [finishSeq, openBefore, Items.firstGap]
        simp only [Items.isNil, Bool.not_true, hfin, emptyInner, List.isEmpty_nil, Bool.and_self, if_true, Items.flatten,
          List.nil_append, Cst.norm]
        by_cases hb : gapHasEmptyLineOffsets cg = true
        · cases isRec <;> simp [hb, Expr.rebuildA, multilineBlock, formatTrivia, formatTriviaGo, applyTrailingTrivia, hna,
            spacesIf, Cst.flatten, Items.flatten, vgap, blankGap, endsWithNL]
        · have hb' : gapHasEmptyLineOffsets cg = false := by simpa using hb
          cases isRec <;> simp [hb', Expr.rebuildA, addTrivia, formatTrivia, formatTriviaGo, applyTrailingTrivia, hna,
            spacesIf, Cst.flatten, Items.flatten]
      | false =>
        obtain ⟨hbef, hne⟩ := hrt.2.2.2.1 hnil
        have hall := hrt.2.2.1
        have hml0 : ∀ j, rendML st'.items j = (its.normML j).flatten := by
          intro j; rw [hrt.1 j]; simp [rendML]
        have hcontains : containsNL (Cst.flatten (.set isRec rg its cg)) =
            containsNL ((if isRec then rg else []) ++ its.flatten ++ cg) := by
          simp only [Cst.flatten]
          cases isRec
          · simp only [Bool.false_eq_true, if_false, List.nil_append]
            rw [show ('{' :: its.flatten ++ cg ++ ['}']) = ['{'] ++ ((its.flatten ++ cg) ++ ['}']) from by simp,
              containsNL_append, containsNL_append]
            simp [containsNL]
          · simp only [if_true]
            rw [show ((['r', 'e', 'c'] ++ rg) ++ '{' :: its.flatten ++ cg ++ ['}']) =
              ['r', 'e', 'c'] ++ (rg ++ (['{'] ++ ((its.flatten ++ cg) ++ ['}']))) from by simp]
            simp only [containsNL_append]
            simp [containsNL, Bool.or_assoc]
        rw [finishSeq_cf st' cg _ hbef]
        simp only [hnil, Bool.not_false, Bool.true_and, Cst.norm, Bool.false_eq_true, if_false, hcontains]
        by_cases hml : containsNL ((if isRec then rg else []) ++ its.flatten ++ cg) = true
        · simp only [hml, if_true]
          have hbody := fun tl => ml_body_text' (cg := cg) hne hall (hml0 (i + 2))
            (normML_solid its .set cg (i + 2) hwf.1.2 hcf hnil) i tl
          by_cases hb : gapHasEmptyLineOffsets cg = true
          · have hst'e : st'.items.isEmpty = false := by
              cases hx : st'.items with
              | nil => exact absurd hx hne
              | cons _ _ => rfl
            simp only [hb, if_true, hst'e, Bool.false_eq_true, if_false] at hbody ⊢
            cases hx : modifyLast (fun e => e.addAfter [Trivia.emptyLine]) st'.items with
            | nil => exact absurd hx (modifyLast_ne_nil _ hne)
            | cons y ys =>
              rw [hx] at hbody
              simp only [emptyInner, List.isEmpty_cons, Bool.false_and, Bool.false_eq_true, if_false, Expr.rebuildA,
                if_true, Bool.not_true, multilineBlock, formatTrivia, formatTriviaGo, applyTrailingTrivia, hna]
              simp only [List.nil_append, List.append_assoc]
              rw [hbody]
              cases isRec <;> simp [spacesIf, Cst.flatten, List.append_assoc]
          · have hb' : gapHasEmptyLineOffsets cg = false := by simpa using hb
            simp only [hb', Bool.false_eq_true, if_false] at hbody ⊢
            cases hx : st'.items with
            | nil => exact absurd hx hne
            | cons y ys =>
              rw [hx] at hbody
              simp only [emptyInner, List.isEmpty_cons, Bool.false_and, Bool.false_eq_true, if_false, Expr.rebuildA,
                if_true, Bool.not_true, multilineBlock, formatTrivia, formatTriviaGo, applyTrailingTrivia, hna]
              simp only [List.nil_append, List.append_assoc]
              rw [hbody]
              cases isRec <;> simp [spacesIf, Cst.flatten, List.append_assoc]
        · have hml' : containsNL ((if isRec then rg else []) ++ its.flatten ++ cg) = false := by simpa using hml
          have hcg : containsNL cg = false := (containsNL_append_false hml').2
          have hitsn : containsNL its.flatten = false := (containsNL_append_false (containsNL_append_false hml').1).2
          have hfl : rendFlat st'.items (i + 2) = (its.normFlat (i + 2)).flatten := by
            rw [hrt.2.1 hitsn (i + 2)]; simp [rendFlat]
          simp only [hml', Bool.false_eq_true, if_false, emptyLineOffsets_false hcg]
          cases hx : st'.items with
          | nil => exact absurd hx hne
          | cons y ys =>
            have hj := join_sp_eq (y :: ys) (i + 2) (by simp)
            rw [← hx, hfl] at hj
            rw [hx] at hj
            have hj' : ∀ X, ' ' :: (joinWith [' '] (rebuildAll (y :: ys) (i + 2) true) ++ X) =
                (its.normFlat (i + 2)).flatten ++ X := by
              intro X; rw [← hj]; rfl
            simp only [emptyInner, List.isEmpty_cons, Bool.false_and, Bool.false_eq_true, if_false, Expr.rebuildA,
              addTrivia, formatTrivia, formatTriviaGo, applyTrailingTrivia, hna, List.nil_append]
            simp only [List.append_assoc, List.cons_append, List.nil_append, hj']
            cases inl <;> cases isRec <;> simp [spacesIf, Cst.flatten, List.append_assoc]
  | .paren (.elem g c .nil) cg, hwf, hcf => by
    simp only [Cst.wf, Items.wf, Bool.and_eq_true] at hwf
    simp only [Cst.cf, Items.cf, Bool.and_eq_true] at hcf
    obtain ⟨e, hpe, heb, hea, henb, hrt⟩ := cst_rt c hwf.1.1.1.2 hcf.1
    have hparse : (Cst.paren (.elem g c .nil) cg).parse =
        .ok (.paren e g cg (gapHasEmptyLineOffsets g) (gapHasEmptyLineOffsets cg) [] []) := by
      simp [Cst.parse, Items.parseSeq, hpe, pushGap, heb, setBefore_nil_of' heb, finishSeq, Items.preElem,
        Items.postElem, Items.flatten, Items.firstGap, Items.isNil]
    refine ⟨_, hparse, rfl, rfl, rfl, fun na i inl => ?_⟩
    have hna : (if na = true then ([] : List Trivia) else []) = [] := by cases na <;> rfl
    simp only [Expr.rebuildA, hna, addTrivia, formatTrivia, formatTriviaGo, applyTrailingTrivia, List.nil_append, hrt,
      nlSep_eq, Cst.norm, Cst.flatten, Items.flatten, List.append_nil]
    cases hg : containsNL g <;> cases hcg : containsNL cg <;>
      simp [Layout.fromGap, hg, hcg, spacesIf, vgap, List.append_assoc]
  | .paren .nil cg, hwf, _ => by simp [Cst.wf, Items.countElems] at hwf
  | .paren (.cmt ..) cg, _, hcf => by simp [Cst.cf, Items.cf] at hcf
  | .paren (.bind ..) cg, hwf, _ => by simp [Cst.wf, Items.wf] at hwf
  | .paren (.elem g c (.cmt ..)) cg, _, hcf => by simp [Cst.cf, Items.cf] at hcf
  | .paren (.elem g c (.bind ..)) cg, hwf, _ => by simp [Cst.wf, Items.wf] at hwf
  | .paren (.elem g c (.elem ..)) cg, hwf, _ => by simp [Cst.wf, Items.countElems] at hwf
  | .app f cs g a, hwf, hcf => by
    simp only [Cst.wf, Bool.and_eq_true] at hwf
    simp only [Cst.cf, Bool.and_eq_true, List.isEmpty_iff] at hcf
    obtain ⟨⟨hfc, hcs⟩, hac⟩ := hcf
    subst hcs
    obtain ⟨fe, hpf, hfb, hfa, hfnb, hfrt⟩ := cst_rt f hwf.1.1.1 hfc
    obtain ⟨ae, hpa, hab, haa, hanb, hart⟩ := cst_rt a hwf.2 hac
    have hparse : (Cst.app f [] g a).parse = .ok (.app fe ae g [] [] []) := by
      simp only [Cst.parse, hpf, hpa, appFromCst, appSplit, appBeforeArg, flattenGC, List.flatMap_nil, List.nil_append,
        List.isEmpty_nil, if_true, hab, trimLeadingLayoutTrivia, List.dropWhile_nil, ite_self, setBefore_nil_of' hab,
        List.map_nil]
    refine ⟨_, hparse, rfl, rfl, rfl, fun na i inl => ?_⟩
    have hna : (if na = true then ([] : List Trivia) else []) = [] := by cases na <;> rfl
    simp only [Expr.rebuildA, hna, addTrivia, formatTrivia, formatTriviaGo, applyTrailingTrivia, List.nil_append, hfrt,
      hart, fnAfterStr, Cst.norm, Cst.flatten, flattenGC, List.flatMap_nil]
    cases hg : containsNL g with
    | false => simp [Layout.fromGap, hg, spacesIf, List.append_assoc]
    | true =>
      simp only [Layout.fromGap, hg, Bool.not_true, Bool.false_eq_true, if_false, if_true, Option.getD_some, Bool.true_and,
        spacesIf, startsNonSpace_spaces, gapHasEmptyLine_eq_offsets]
      cases hb : gapHasEmptyLineOffsets g <;> simp [vgap, blankGap, hb, List.append_assoc]
  | .un op c g e, hwf, hcf => by
    simp only [Cst.wf, Bool.and_eq_true, List.isEmpty_iff] at hwf
    simp only [Cst.cf, Bool.and_eq_true, List.isEmpty_iff] at hcf
    obtain ⟨⟨⟨hop, hc⟩, _⟩, hew⟩ := hwf
    subst hc
    obtain ⟨ee, hpe, heb, hea, henb, hrt⟩ := cst_rt e hew hcf.1.2
    have hparse : (Cst.un op [] g e).parse = .ok (.un op ee g [] [] []) := by
      simp [Cst.parse, hpe, collectTrivia, collectGo]
    refine ⟨_, hparse, rfl, rfl, rfl, fun na i inl => ?_⟩
    have hna : (if na = true then ([] : List Trivia) else []) = [] := by cases na <;> rfl
    have hop2 : (op == ['+', '+']) = false := by
      simp only [unOpOk, Bool.or_eq_true, beq_iff_eq] at hop
      rcases hop with h | h <;> subst h <;> rfl
    simp only [Expr.rebuildA, hna, addTrivia, formatTrivia, formatTriviaGo, applyTrailingTrivia, List.nil_append, hrt,
      unSep_cases, unLayout_nil, hop2, Bool.false_and, Bool.false_eq_true, if_false, Cst.norm, Cst.flatten, flattenGC,
      List.flatMap_nil, List.append_nil]
    cases hg : containsNL g with
    | false => simp [Layout.fromGap, hg, spacesIf, List.append_assoc]
    | true =>
      simp only [Layout.fromGap, hg, Bool.not_true, Bool.false_eq_true, if_false, if_true, Option.getD_some,
        spacesIf, gapHasEmptyLine_eq_offsets]
      cases hb : gapHasEmptyLineOffsets g <;> simp [vgap, blankGap, hb, List.append_assoc]
  | .sel e c1 g1 gd attrs, hwf, hcf => by
    have hwf0 := hwf
    simp only [Cst.wf, Bool.and_eq_true, List.isEmpty_iff] at hwf
    simp only [Cst.cf, Bool.and_eq_true, List.isEmpty_iff] at hcf
    obtain ⟨hec, hc1⟩ := hcf
    subst hc1
    have hew : e.wf = true := hwf.1.1.1.1.1
    obtain ⟨ee, hpe, heb, hea, henb, hrt⟩ := cst_rt e hew hec
    have hparse : (Cst.sel e [] g1 gd attrs).parse = .ok (.sel ee attrs g1 [] [] []) := by
      simp [Cst.parse, hpe, collectTrivia, collectGo]
    refine ⟨_, hparse, rfl, rfl, rfl, fun na i inl => ?_⟩
    have hna : (if na = true then ([] : List Trivia) else []) = [] := by cases na <;> rfl
    have hsol := norm_flatten_solid e i hew
    simp only [Expr.rebuildA, hna, addTrivia, formatTrivia, formatTriviaGo, applyTrailingTrivia, List.nil_append, hrt,
      spacesIf, if_true, selSep_nil _ _ _ hsol.2, Cst.norm, Cst.flatten, flattenGC, List.flatMap_nil, List.append_nil]
    cases hg : containsNL g1 with
    | false => simp [Layout.fromGap, hg, List.append_assoc]
    | true =>
      simp only [Layout.fromGap, hg, Bool.not_true, Bool.false_eq_true, if_false, if_true, Option.getD_some,
        gapHasEmptyLine_eq_offsets]
      cases hb : gapHasEmptyLineOffsets g1 <;> simp [vgap, blankGap, hb, List.append_assoc]
  | .selOr e c1 g1 gd attrs c2 g2 g3 d, hwf, hcf => by
    simp only [Cst.wf, Bool.and_eq_true, List.isEmpty_iff] at hwf
    simp only [Cst.cf, Bool.and_eq_true, List.isEmpty_iff] at hcf
    obtain ⟨⟨⟨hec, hc1⟩, hc2⟩, hdc⟩ := hcf
    subst hc1; subst hc2
    have hew : e.wf = true := hwf.1.1.1.1.1.1.1.1.1
    obtain ⟨ee, hpe, heb, hea, henb, hrt⟩ := cst_rt e hew hec
    obtain ⟨de, hpd, hdb, hda, hdnb, hdrt⟩ := cst_rt d hwf.2 hdc
    have hparse : (Cst.selOr e [] g1 gd attrs [] g2 g3 d).parse = .ok (.selOr ee attrs g1 [] de g2 [] [] []) := by
      simp [Cst.parse, hpe, hpd, collectTrivia, collectGo]
    refine ⟨_, hparse, rfl, rfl, rfl, fun na i inl => ?_⟩
    have hna : (if na = true then ([] : List Trivia) else []) = [] := by cases na <;> rfl
    have hsol := norm_flatten_solid e i hew
    simp only [Expr.rebuildA, hna, addTrivia, formatTrivia, formatTriviaGo, applyTrailingTrivia, List.nil_append, hrt, hdrt,
      spacesIf, if_true, selSep_nil _ _ _ hsol.2, selOrSep_nil, selOrIndent, Cst.norm, Cst.flatten, flattenGC,
      List.flatMap_nil, List.append_nil]
    cases hg : containsNL g1 <;> cases hg2 : containsNL g2 <;>
      simp only [Layout.fromGap, hg, hg2, Bool.not_true, Bool.not_false, Bool.false_eq_true, if_false, if_true,
        Option.getD_some, gapHasEmptyLine_eq_offsets] <;>
      (try cases hb : gapHasEmptyLineOffsets g1) <;> (try cases hb2 : gapHasEmptyLineOffsets g2) <;>
      simp [vgap, blankGap, *, List.append_assoc]
  | .lam n c1 g1 c2 g2 b, hwf, hcf => by
    simp only [Cst.wf, Bool.and_eq_true, List.isEmpty_iff] at hwf
    simp only [Cst.cf, Bool.and_eq_true, List.isEmpty_iff] at hcf
    obtain ⟨⟨hc1, hc2⟩, hbc⟩ := hcf
    subst hc1; subst hc2
    obtain ⟨be, hpb, hbb, hba, hbnb, hbrt⟩ := cst_rt b hwf.2 hbc
    have hparse : (Cst.lam n [] g1 [] g2 b).parse = .ok (lamFromCst n [] g1 g2 be) := by
      simp [Cst.parse, hpb]
    refine ⟨_, hparse, rfl, rfl, rfl, fun na i inl => ?_⟩
    have hna : (if na = true then ([] : List Trivia) else []) = [] := by cases na <;> rfl
    have hpre : lamColonPrefix [] g1 i = (if containsNL g1 = true then vgap g1 (indentFromGap g1) else []) := by
      rw [lamColonPrefix_nil]
      cases hg : containsNL g1 with
      | false => simp [Layout.fromGap, hg]
      | true =>
        simp only [Layout.fromGap, hg, Bool.not_true, Bool.false_eq_true, if_false, if_true, Option.getD_some,
          gapHasEmptyLine_eq_offsets]
        cases hb : gapHasEmptyLineOffsets g1 <;> simp [vgap, blankGap, hb]
    have hct : collectTrivia [] g1 = [] := by simp [collectTrivia, collectGo]
    unfold lamFromCst
    rw [hct]
    simp only [Expr.rebuildA, hna, addTrivia, formatTrivia, formatTriviaGo, applyTrailingTrivia, List.nil_append,
      hpre, Cst.norm, Cst.flatten, flattenGC, List.flatMap_nil, List.append_nil]
    cases hn : g2.count '\n' with
    | zero =>
      simp [lamBreak, hbrt, spacesIf, List.append_assoc]
    | succ m =>
      cases m with
      | zero =>
        simp [lamBreak, hbrt, spacesIf, List.append_assoc]
      | succ m' =>
        have hsb := rebuildA_setBefore hbb (emptyLines_layout (m' + 1)) false i false
        simp only [Nat.add_sub_cancel, List.isEmpty_replicate, hbb, List.append_nil, Nat.succ_ne_zero, Nat.add_eq_zero_iff,
          and_false, decide_false, Bool.false_eq_true, if_false, Nat.zero_lt_succ, if_true, lamBreak, Nat.one_ne_zero,
          show ((1 : Nat) == 0) = false from rfl]
        rw [hsb, formatTrivia_emptyLines, hbrt]
        simp [spacesIf, List.replicate_succ, List.append_assoc]
  | .bin l c1 g1 op c2 g2 r, hwf, hcf => by
    simp only [Cst.wf, Bool.and_eq_true, List.isEmpty_iff] at hwf
    simp only [Cst.cf, Bool.and_eq_true, List.isEmpty_iff] at hcf
    obtain ⟨⟨⟨hlc, hc1⟩, hc2⟩, hrc⟩ := hcf
    subst hc1; subst hc2
    have hlw : l.wf = true := hwf.1.1.1.1.1.1.1
    have hrw : r.wf = true := hwf.2
    obtain ⟨le, hpl, hlb, hla, hlnb, hlrt⟩ := cst_rt l hlw hlc
    obtain ⟨re, hpr, hrb, hra, hrnb, hrrt⟩ := cst_rt r hrw hrc
    have hparse : (Cst.bin l [] g1 op [] g2 r).parse = .ok (.bin op le re (g1.count '\n') (g2.count '\n') [] []) := by
      simp [Cst.parse, hpl, hpr]
    refine ⟨_, hparse, rfl, rfl, rfl, fun na i inl => ?_⟩
    have hna : (if na = true then ([] : List Trivia) else []) = [] := by cases na <;> rfl
    have hri : binRightIndent op re i = binRightIndentC op r i := by
      unfold binRightIndent binRightIndentC
      rw [parse_sameOpChain hrc hpr, parse_absorbable r hrw hrc re hpr, hrb]
      simp [hasLeadingComment]
    have hpad := ensureIndentPad_head (norm_head r (binRightIndentC op r i) hrw) (binRightIndentC op r i)
    simp only [Expr.rebuildA, hna, addTrivia, formatTrivia, formatTriviaGo, applyTrailingTrivia, List.nil_append, hlrt, hrrt,
      hri, hrb, List.isEmpty_nil, spacesIf, if_true, hpad, Cst.norm, Cst.flatten, flattenGC, List.flatMap_nil, List.append_nil]
    by_cases h1 : g1.count '\n' = 0 <;> by_cases h2 : g2.count '\n' = 0 <;>
      simp [binCore, h1, h2, List.append_assoc]
  | .ite c1 g1 c c2 g2 c3 g3 t c4 g4 c5 g5 e, hwf, hcf => by
    obtain ⟨⟨h1, h2, h3, h4, h5⟩, ⟨hcw, htw, hew⟩, _⟩ := ite_wf hwf
    subst h1; subst h2; subst h3; subst h4; subst h5
    simp only [Cst.cf, Bool.and_eq_true] at hcf
    obtain ⟨ce, hpc, hcb, hca, hcnb, hcrt⟩ := cst_rt c hcw hcf.1.1.1.1.1.1.1
    obtain ⟨te, hpt, htb, hta, htnb, htrt⟩ := cst_rt t htw hcf.1.1.1.1.1.1.2
    obtain ⟨ee, hpe, heb, hea, henb, hert⟩ := cst_rt e hew hcf.1.1.1.1.1.2
    have hparse : (Cst.ite [] g1 c [] g2 [] g3 t [] g4 [] g5 e).parse =
        .ok (.ite ce te ee g1 [] g1 [] g2 [] g3 [] g4 [] g5 [] []) := by
      simp only [Cst.parse, hpc, hpt, hpe, iteFromCst_nil]
    refine ⟨_, hparse, rfl, rfl, rfl, fun na i inl => ?_⟩
    have hna : (if na = true then ([] : List Trivia) else []) = [] := by cases na <;> rfl
    simp only [Expr.rebuildA, hna, addTrivia, formatTrivia, formatTriviaGo, applyTrailingTrivia, List.nil_append, htb, heb,
      iteLayout_nil, branchSep_eq, iteCondPrefix_nil, iteKwPrefix_nil, formatInlineCommentSuffix, List.foldl_nil,
      sepText_eq_sepGap, Cst.norm, Cst.flatten, flattenGC, List.flatMap_nil, List.append_nil, List.append_assoc]
    rw [branch_text hcrt, branch_text htrt, branch_text_last hert]
    simp [spacesIf, kwIf, kwThen, kwElse, List.append_assoc]
  | .has e c1 g1 c2 g2 attrs, hwf, hcf => by
    obtain ⟨⟨h1, h2⟩, hew, _, _, _⟩ := has_wf hwf
    subst h1; subst h2
    simp only [Cst.cf, Bool.and_eq_true] at hcf
    obtain ⟨ee, hpe, heb, hea, henb, hrt⟩ := cst_rt e hew hcf.1.1
    have hparse : (Cst.has e [] g1 [] g2 attrs).parse = .ok (.has ee attrs g1 g2 [] [] [] []) := by
      simp [Cst.parse, hpe, collectTrivia, collectGo]
    refine ⟨_, hparse, rfl, rfl, rfl, fun na i inl => ?_⟩
    have hna : (if na = true then ([] : List Trivia) else []) = [] := by cases na <;> rfl
    have hs1 := hasSep_nil g1 i
    have hs2 := hasSep_nil g2 i
    simp only [Expr.rebuildA, hna, addTrivia, formatTrivia, formatTriviaGo, applyTrailingTrivia, List.nil_append, hrt,
      spacesIf, if_true, Cst.norm, Cst.flatten, flattenGC, List.flatMap_nil, List.append_nil, List.append_assoc]
    rw [← List.append_assoc (formatInterstitialTriviaWithSeparator [] (unLayout [] g1) i (dropBlankIfItems := false)).1,
      hs1, ← List.append_assoc (formatInterstitialTriviaWithSeparator [] (unLayout [] g2) i (dropBlankIfItems := false)).1,
      hs2, sepText_eq_sepGap, sepText_eq_sepGap]
  | .kw false c1 g1 h c2 g2 c3 g3 b, _, hcf => by simp [Cst.cf] at hcf
  | .kw true c1 g1 h c2 g2 c3 g3 b, hwf, hcf => by
    simp only [Cst.wf, Bool.and_eq_true, List.isEmpty_iff] at hwf
    simp only [Cst.cf, Bool.and_eq_true] at hcf
    obtain ⟨⟨⟨⟨⟨⟨⟨hc1, _⟩, hhw⟩, hc2⟩, _⟩, hc3⟩, _⟩, hbw⟩ := hwf
    subst hc1; subst hc2; subst hc3
    obtain ⟨⟨⟨⟨_, hhc⟩, _⟩, _⟩, hbc⟩ := hcf
    obtain ⟨he, hph, hhb, hha, hhnb, hhrt⟩ := cst_rt h hhw hhc
    obtain ⟨be, hpb, hbb, hba, hbnb, hbrt⟩ := cst_rt b hbw hbc
    have hparse : (Cst.kw true [] g1 h [] g2 [] g3 b).parse =
        .ok (.wth he (if (appendGapTrivia [] (g2 ++ ';' :: g3)).isEmpty then be
          else be.setBefore (appendGapTrivia [] (g2 ++ ';' :: g3) ++ be.before)) [] g1 [] [] []) := by
      simp only [Cst.parse, hph, hpb, if_true, withFromCst_shape]
    refine ⟨_, hparse, rfl, rfl, rfl, fun na i inl => ?_⟩
    have hna : (if na = true then ([] : List Trivia) else []) = [] := by cases na <;> rfl
    have habs : be.absorbable = b.absorbableC := parse_absorbable b hbw hbc be hpb
    have habs' : (if (appendGapTrivia [] (g2 ++ ';' :: g3)).isEmpty then be
          else be.setBefore (appendGapTrivia [] (g2 ++ ';' :: g3) ++ be.before)).absorbable = be.absorbable := by
      split
      · rfl
      · exact absorbable_setBefore' _ _
    have hlay : withLayout [] g1 = Layout.fromGap g1 := by simp [withLayout, triviaForcesNewline]
    have hbody := withBody_text hbb (g2 ++ ';' :: g3) (b.norm i).flatten i (fun inl' => hbrt false i inl')
    rw [habs] at hbody
    have hsep := withSep_cases g1 i
    rw [hlay] at hsep
    simp only [Expr.rebuildA, hna, addTrivia, formatTrivia, formatTriviaGo, applyTrailingTrivia, List.nil_append, habs',
      habs, hbody, hlay, hsep, hhrt, Cst.norm, Cst.flatten, flattenGC, List.flatMap_nil, List.append_nil, kwText,
      if_true, kwWith]
    have hsuf : formatInlineCommentSuffix [] = [] := rfl
    rw [hsuf]
    cases hg : containsNL g1 with
    | false => simp [Layout.fromGap, hg, spacesIf, List.append_assoc]
    | true =>
      simp only [Layout.fromGap, hg, Bool.not_true, Bool.false_eq_true, if_false, if_true, Option.getD_some,
        spacesIf, gapHasEmptyLine_eq_offsets]
      cases hb : gapHasEmptyLineOffsets g1 <;> simp [vgap, blankGap, hb, List.append_assoc]
theorem items_rt : (its : Items) → ∀ (m : Mode) (cg : Text) (st st' : SeqSt), its.wf m cg = true → its.cf = true →
    its.parseSeq m st = .ok st' → (m = .list ∨ m = .set) → InvS st its →
    (∀ j, rendML st'.items j = rendML st.items j ++ (its.normML j).flatten) ∧
    (containsNL its.flatten = false → ∀ j, rendFlat st'.items j = rendFlat st.items j ++ (its.normFlat j).flatten) ∧
    AllAfterNil st'.items ∧
    (its.isNil = false → st'.before = [] ∧ st'.items ≠ []) ∧ (its.isNil = true → st' = st)
  | .nil, m, cg, st, st', _, _, hp, _, h => by
    simp only [Items.parseSeq] at hp; injection hp with hp; subst hp
    refine ⟨fun j => by simp [Items.normML, Items.flatten], fun _ j => by simp [Items.normFlat, Items.flatten], h.1,
      ?_, fun _ => rfl⟩
    intro e; simp [Items.isNil] at e
  | .cmt g t rest, m, cg, st, st', _, hcf, _, _, _ => by simp [Items.cf] at hcf
  | .elem g c rest, m, cg, st, st', hwf, hcf, hp, hm, h => by
    simp only [Items.wf, Bool.and_eq_true] at hwf
    simp only [Items.cf, Bool.and_eq_true] at hcf
    obtain ⟨e, hpe, heb, hea, henb, hrt⟩ := cst_rt c hwf.1.2 hcf.1
    simp only [Items.parseSeq, hpe] at hp
    have hpt := fun j => pushGap_text h j
    have hnew : InvS { items := st.items ++ [e.setBefore (pushGap st g)], before := [], prev := .item } rest :=
      ⟨allAfterNil_append h.1 (fun x hx => by
        simp only [List.mem_singleton] at hx; subst hx
        rw [effAfter_setBefore, notAsrt_setBefore]
        exact ⟨effAfter_of_parsed henb hea, cf_parse_notAsrt hcf.1 hpe⟩), Or.inr ⟨rfl, rfl⟩⟩
    cases m with
    | file => rcases hm with h | h <;> cases h
    | paren => rcases hm with h | h <;> cases h
    | set => cases hp
    | list =>
      simp only at hp
      obtain ⟨ih1, ih2, ih3, ih4, ih5⟩ := items_rt rest .list cg _ st' hwf.2 hcf.2 hp (by decide) hnew
      have hst'ne : st'.items ≠ [] := by
        cases hr : rest.isNil with
        | false => exact (ih4 hr).2
        | true => rw [ih5 hr]; simp
      have hbef : st'.before = [] := by
        cases hr : rest.isNil with
        | false => exact (ih4 hr).1
        | true => rw [ih5 hr]
      refine ⟨fun j => ?_, fun hn j => ?_, ih3, fun _ => ⟨hbef, hst'ne⟩, fun e => by simp [Items.isNil] at e⟩
      · rw [ih1 j, rendML_append, rendML_single, rebuildA_setBefore heb (hpt j).2, (hpt j).1, hrt]
        simp [Items.normML, Items.flatten, vgap, spacesIf, List.append_assoc]
      · simp only [Items.flatten] at hn
        have hg := (containsNL_append_false (containsNL_append_false hn).1).1
        have hr := (containsNL_append_false hn).2
        rw [ih2 hr j, rendFlat_append, rendFlat_single, rebuildA_setBefore heb (hpt j).2, (hpt j).1, hrt,
          blankGap_noNL hg]
        simp [Items.normFlat, Items.flatten, spacesIf, List.append_assoc]
  | .bind g n c1 g1 c2 g2 v c3 g3 rest, m, cg, st, st', hwf, hcf, hp, hm, h => by
    simp only [Items.wf, Bool.and_eq_true, beq_iff_eq] at hwf
    obtain ⟨⟨⟨⟨⟨⟨⟨⟨⟨⟨hmm, _⟩, hn⟩, _⟩, _⟩, _⟩, _⟩, hv⟩, _⟩, _⟩, hrest⟩ := hwf
    subst hmm
    simp only [Items.cf, Bool.and_eq_true, List.isEmpty_iff] at hcf
    obtain ⟨⟨⟨⟨hc1, hc2⟩, hc3⟩, hvcf⟩, hrcf⟩ := hcf
    subst hc1; subst hc2; subst hc3
    obtain ⟨ve, hpv, hvb, hva, hvnb, hvrt⟩ := cst_rt v hv hvcf
    simp only [Items.parseSeq, hpv] at hp
    have hpt := fun j => pushGap_text_bind h j
    cases hb : bindingFromCst n [] [] g2 ve [] (pushGap st g) with
    | error err => rw [hb] at hp; cases hp
    | ok b =>
      rw [hb] at hp; simp only at hp
      have hbt := fun j inl => binding_text hn hb hvb hva hvnb hv hvrt (hpt 0).2 j inl
      have hnew : InvS { items := st.items ++ [b], before := [], prev := .item } rest :=
        ⟨allAfterNil_append h.1 (fun x hx => by
          simp only [List.mem_singleton] at hx; subst hx; exact (hbt 0 false).2), Or.inr ⟨rfl, rfl⟩⟩
      obtain ⟨ih1, ih2, ih3, ih4, ih5⟩ := items_rt rest .set cg _ st' hrest hrcf hp (by decide) hnew
      have hst'ne : st'.items ≠ [] := by
        cases hr : rest.isNil with
        | false => exact (ih4 hr).2
        | true => rw [ih5 hr]; simp
      have hbef : st'.before = [] := by
        cases hr : rest.isNil with
        | false => exact (ih4 hr).1
        | true => rw [ih5 hr]
      refine ⟨fun j => ?_, fun hnl j => ?_, ih3, fun _ => ⟨hbef, hst'ne⟩, fun e => by simp [Items.isNil] at e⟩
      · rw [ih1 j, rendML_append, rendML_single, (hbt j false).1, (hpt j).1]
        simp only [Items.normML, valueNorm]
        split <;> simp [Items.flatten, flattenGC, vgap, spacesIf, List.append_assoc]
      · have hn' : containsNL (g ++ (n ++ (g1 ++ (['='] ++ (g2 ++ (v.flatten ++ (g3 ++ ([';'] ++ rest.flatten)))))))) = false := by
          simpa [Items.flatten, flattenGC, List.append_assoc] using hnl
        have a0 := containsNL_append_false hn'
        have a1 := containsNL_append_false (containsNL_append_false (containsNL_append_false (containsNL_append_false a0.2).2).2).2
        have a2 := (containsNL_append_false (containsNL_append_false (containsNL_append_false a1.2).2).2).2
        rw [ih2 a2 j, rendFlat_append, rendFlat_single, (hbt j true).1, (hpt j).1, blankGap_noNL a0.1]
        simp [Items.normFlat, valueNorm, a1.1, Items.flatten, flattenGC, spacesIf, List.append_assoc]
end

def File.cf (f : File) : Bool := f.items.cf

theorem file_shape (f : File) (hwf : f.wf = true) (hcf : f.cf = true) :
    ∃ g c, f.items = .elem g c .nil ∧ c.wf = true ∧ c.cf = true := by
  simp only [File.wf, Bool.and_eq_true, decide_eq_true_eq] at hwf
  simp only [File.cf] at hcf
  obtain ⟨⟨hw, hcount⟩, _⟩ := hwf
  cases hi : f.items with
  | nil => rw [hi] at hcount; simp [Items.countElems] at hcount
  | cmt _ _ _ => rw [hi] at hcf; simp [Items.cf] at hcf
  | bind _ _ _ _ _ _ _ _ _ _ => rw [hi] at hw; simp [Items.wf] at hw
  | elem g c rest =>
    rw [hi] at hw hcf hcount
    simp only [Items.wf, Bool.and_eq_true] at hw
    simp only [Items.cf, Bool.and_eq_true] at hcf
    simp only [Items.countElems] at hcount
    cases rest with
    | nil => exact ⟨g, c, rfl, hw.1.2, hcf.1⟩
    | cmt _ _ _ => simp [Items.cf] at hcf
    | bind _ _ _ _ _ _ _ _ _ _ => simp [Items.wf] at hw
    | elem g' c' r' => simp [Items.countElems] at hcount

theorem setBefore_nil_of {e : Expr} (h : e.before = []) : e.setBefore [] = e := by
  cases e <;> simp_all [Expr.setBefore, Expr.before]

/-- THE ROUND TRIP OF A COMMENT-FREE FILE IS THE TREE NORMALISER -/
theorem file_rt (f : File) (hwf : f.wf = true) (hcf : f.cf = true) : f.roundtrip = .ok f.norm.flatten := by
  obtain ⟨g, c, hi, hcw, hcc⟩ := file_shape f hwf hcf
  obtain ⟨e, hpe, heb, hea, _, hrt⟩ := cst_rt c hcw hcc
  have hsol := norm_flatten_solid c 0 hcw
  have hpg : pushGap ({} : SeqSt) g = [] := by simp [pushGap]
  have hparse : f.parse = .ok { exprs := [e], trailing := appendGapTriviaOff [] f.endGap } := by
    simp only [File.parse, hi, Items.parseSeq, hpe, hpg, heb, List.append_nil, setBefore_nil_of heb]
    simp [finishSeq]
  have hreb : (rebuildAll [e] 0 false).flatten = (c.norm 0).flatten := by
    simp [rebuildAll, hrt, spacesIf]
  simp only [File.roundtrip, hparse, File.norm, hi, File.flatten, Items.flatten, List.nil_append, List.append_nil]
  congr 1
  unfold Src.rebuild
  simp only [hreb]
  have hne : ((c.norm 0).flatten).isEmpty = false := by
    cases hx : (c.norm 0).flatten with
    | nil => exact absurd hx hsol.1
    | cons _ _ => rfl
  rcases trailing_cases f.endGap with h | h | h
  · have hnl : containsNL f.endGap = false := by
      cases hc : containsNL f.endGap with
      | false => rfl
      | true => unfold appendGapTriviaOff at h; simp [hc] at h; split at h <;> simp at h
    simp [h, hnl]
  · have hnl : containsNL f.endGap = true := appendGap_ne_nil_NL (by rw [h]; simp)
    have hbl : gapHasEmptyLineOffsets f.endGap = true := by
      unfold appendGapTriviaOff at h; simp only [hnl, Bool.not_true, Bool.false_eq_true, if_false] at h
      split at h
      · assumption
      · simp at h
    simp [h, hnl, hbl, formatTrivia, formatTriviaGo, trimTrailingLayoutNewline, Trivia.isLayout, hne]
  · have hnl : containsNL f.endGap = true := appendGap_ne_nil_NL (by rw [h]; simp)
    have hbl : gapHasEmptyLineOffsets f.endGap = false := by
      unfold appendGapTriviaOff at h; simp only [hnl, Bool.not_true, Bool.false_eq_true, if_false] at h
      split at h
      · simp at h
      · rename_i hh; simpa using hh
    simp [h, hnl, hbl, formatTrivia, formatTriviaGo, trimTrailingLayoutNewline, Trivia.isLayout, hsol.2]

/-! ### the normaliser is idempotent -/

theorem offsets_nlnl_spaces (k : Nat) : gapHasEmptyLineOffsets ('\n' :: '\n' :: spaces k) = true := by
  rw [gapHasEmptyLineOffsets_eq_re, ← gapHasEmptyLine_eq_re]; exact gapHasEmptyLine_nlnl_spaces k
theorem offsets_nl_spaces (k : Nat) : gapHasEmptyLineOffsets ('\n' :: spaces k) = false := by
  rw [gapHasEmptyLineOffsets_eq_re, ← gapHasEmptyLine_eq_re]; exact gapHasEmptyLine_nl_spaces k

theorem blank_vgap (g : Text) (k : Nat) : gapHasEmptyLineOffsets (vgap g k) = gapHasEmptyLineOffsets g := by
  unfold vgap blankGap
  cases h : gapHasEmptyLineOffsets g with
  | true => simp only [if_true]; exact offsets_nlnl_spaces k
  | false => simp only [Bool.false_eq_true, if_false, List.nil_append]; exact offsets_nl_spaces k

theorem vgap_vgap (g : Text) (k k' : Nat) : vgap (vgap g k) k' = vgap g k' := by
  unfold vgap blankGap; rw [show ('\n' :: (if gapHasEmptyLineOffsets g = true then ['\n'] else []) ++ spaces k) = vgap g k from rfl,
    blank_vgap]

theorem containsNL_vgap (g : Text) (k : Nat) : containsNL (vgap g k) = true := by
  simp [vgap, containsNL]

theorem indentFromGap_vgap (g : Text) (k : Nat) : indentFromGap (vgap g k) = k := by
  unfold vgap blankGap
  split
  · exact indentFromGap_nlnl_spaces k
  · exact indentFromGap_nl_spaces k

theorem isGap_vgap (g : Text) (k : Nat) : isGap (vgap g k) = true := by
  unfold vgap blankGap isGap
  have hs : (spaces k).all isWsChar = true := by
    apply List.all_eq_true.mpr; intro c hc; rw [mem_spaces hc]; rfl
  split <;> simp [isWsChar, hs]

theorem isNil_normML : ∀ (its : Items) (j : Nat), its.cf = true → (its.normML j).isNil = its.isNil
  | .nil, _, _ => rfl
  | .cmt .., _, h => by simp [Items.cf] at h
  | .elem .., _, _ => rfl
  | .bind g n c1 g1 c2 g2 v c3 g3 rest, j, _ => by simp only [Items.normML]; split <;> rfl

theorem isNil_normFlat : ∀ (its : Items) (j : Nat), its.cf = true → (its.normFlat j).isNil = its.isNil
  | .nil, _, _ => rfl
  | .cmt .., _, h => by simp [Items.cf] at h
  | .elem .., _, _ => rfl
  | .bind .., _, _ => rfl

theorem containsNL_cons_ne {c : Char} (hc : c ≠ '\n') (s : Text) : containsNL (c :: s) = containsNL s := by
  rw [containsNL_cons]; simp [hc]

theorem containsNL_sepGap (g : Text) : containsNL (sepGap g) = containsNL g := by
  unfold sepGap
  cases hg : containsNL g with
  | false => rfl
  | true => simp only [if_true]; exact containsNL_vgap _ _

theorem sepGap_sepGap (g : Text) : sepGap (sepGap g) = sepGap g := by
  unfold sepGap
  cases hg : containsNL g with
  | false => rfl
  | true => simp only [if_true, containsNL_vgap, vgap_vgap, indentFromGap_vgap]

theorem sepIndent_sepGap (g : Text) (i : Nat) : sepIndent (sepGap g) i = sepIndent g i := by
  unfold sepIndent
  rw [containsNL_sepGap]
  unfold sepGap
  cases hg : containsNL g with
  | false => rfl
  | true => simp only [if_true, indentFromGap_vgap]

theorem isGap_sepGap (g : Text) : isGap (sepGap g) = true := by
  unfold sepGap
  split
  · exact isGap_vgap _ _
  · rfl

mutual
theorem norm_noNL : (c : Cst) → c.cf = true → containsNL c.flatten = false → ∀ (i : Nat),
    containsNL (c.norm i).flatten = false
  | .leaf _ _, _, h, _ => h
  | .list its cg, hcf, h, i => by
    simp only [Cst.cf] at hcf
    have h1 : containsNL (its.flatten ++ cg) = false := by
      have : containsNL (['['] ++ ((its.flatten ++ cg) ++ [']'])) = false := by simpa [Cst.flatten] using h
      exact (containsNL_append_false (containsNL_append_false this).2).1
    have hcg := (containsNL_append_false h1).2
    simp only [Cst.norm]
    split
    · simp [emptyLineOffsets_false hcg, Cst.flatten, Items.flatten, containsNL]
    · have ih := items_noNL its hcf (containsNL_append_false h1).1 i
      simp only [h1, Bool.false_eq_true, if_false, Cst.flatten]
      rw [show ('[' :: (its.normFlat i).flatten ++ [' '] ++ [']']) = ['['] ++ ((its.normFlat i).flatten ++ [' ', ']']) from by simp,
        containsNL_append, containsNL_append, ih]
      rfl
  | .set r rg its cg, hcf, h, i => by
    simp only [Cst.cf] at hcf
    have h1 : containsNL ((if r then rg else []) ++ its.flatten ++ cg) = false := by
      cases r
      · have : containsNL (['{'] ++ ((its.flatten ++ cg) ++ ['}'])) = false := by simpa [Cst.flatten] using h
        simpa using (containsNL_append_false (containsNL_append_false this).2).1
      · have : containsNL (['r', 'e', 'c'] ++ (rg ++ (['{'] ++ ((its.flatten ++ cg) ++ ['}'])))) = false := by
          simpa [Cst.flatten, List.append_assoc] using h
        have a1 := (containsNL_append_false this).2
        have a2 := containsNL_append_false a1
        have a3 := (containsNL_append_false (containsNL_append_false a2.2).2).1
        simp only [if_true, List.append_assoc, containsNL_append, a2.1, Bool.false_or]
        simpa [containsNL_append] using a3
    have hcg := (containsNL_append_false h1).2
    have hits := (containsNL_append_false (containsNL_append_false h1).1).2
    simp only [Cst.norm]
    split
    · cases r <;> simp [emptyLineOffsets_false hcg, Cst.flatten, Items.flatten, containsNL]
    · have ih := items_noNL its hcf hits (i + 2)
      simp only [h1, Bool.false_eq_true, if_false, Cst.flatten]
      cases r
      · simp only [Bool.false_eq_true, if_false, List.nil_append]
        rw [show ('{' :: (its.normFlat (i + 2)).flatten ++ [' '] ++ ['}']) = ['{'] ++ ((its.normFlat (i + 2)).flatten ++ [' ', '}']) from by simp,
          containsNL_append, containsNL_append, ih]
        rfl
      · simp only [if_true]
        rw [show (['r', 'e', 'c'] ++ [' '] ++ '{' :: (its.normFlat (i + 2)).flatten ++ [' '] ++ ['}']) =
          ['r', 'e', 'c', ' ', '{'] ++ ((its.normFlat (i + 2)).flatten ++ [' ', '}']) from by simp,
          containsNL_append, containsNL_append, ih]
        rfl
  | .paren (.elem g c .nil) cg, hcf, h, i => by
    simp only [Cst.cf, Items.cf, Bool.and_eq_true] at hcf
    have h1 : containsNL (['('] ++ (g ++ (c.flatten ++ (cg ++ [')'])))) = false := by
      simpa [Cst.flatten, Items.flatten, List.append_assoc] using h
    have a1 := containsNL_append_false (containsNL_append_false h1).2
    have a2 := containsNL_append_false a1.2
    have a3 := containsNL_append_false a2.2
    have ih := norm_noNL c hcf.1 a2.1 i
    simp only [Cst.norm, a1.1, a3.1, Bool.false_eq_true, if_false, Cst.flatten, Items.flatten, List.nil_append,
      List.append_nil]
    rw [show ('(' :: (c.norm i).flatten ++ [')']) = ['('] ++ ((c.norm i).flatten ++ [')']) from by simp,
      containsNL_append, containsNL_append, ih]
    rfl
  | .paren .nil cg, _, h, _ => by simpa only [Cst.norm] using h
  | .paren (.cmt ..) cg, _, h, _ => by simpa only [Cst.norm] using h
  | .paren (.bind ..) cg, _, h, _ => by simpa only [Cst.norm] using h
  | .paren (.elem g c (.cmt ..)) cg, _, h, _ => by simpa only [Cst.norm] using h
  | .paren (.elem g c (.bind ..)) cg, _, h, _ => by simpa only [Cst.norm] using h
  | .paren (.elem g c (.elem ..)) cg, _, h, _ => by simpa only [Cst.norm] using h
  | .app f cs g a, hcf, h, i => by
    simp only [Cst.cf, Bool.and_eq_true, List.isEmpty_iff] at hcf
    obtain ⟨⟨hfc, hcs⟩, hac⟩ := hcf
    subst hcs
    have h1 : containsNL (f.flatten ++ (g ++ a.flatten)) = false := by
      simpa [Cst.flatten, flattenGC, List.append_assoc] using h
    have a1 := containsNL_append_false h1
    have a2 := containsNL_append_false a1.2
    simp only [Cst.norm, a2.1, Bool.false_eq_true, if_false, Cst.flatten, flattenGC, List.flatMap_nil, List.append_nil]
    rw [containsNL_append, containsNL_append, norm_noNL f hfc a1.1 i, norm_noNL a hac a2.2 i]
    rfl
  | .un op c g e, hcf, h, i => by
    simp only [Cst.cf, Bool.and_eq_true, List.isEmpty_iff] at hcf
    obtain ⟨⟨hc, hec⟩, _⟩ := hcf
    subst hc
    have h1 : containsNL (op ++ (g ++ e.flatten)) = false := by
      simpa [Cst.flatten, flattenGC, List.append_assoc] using h
    have a1 := containsNL_append_false h1
    have a2 := containsNL_append_false a1.2
    simp only [Cst.norm, a2.1, Bool.false_eq_true, if_false, Cst.flatten, flattenGC, List.flatMap_nil, List.append_nil]
    rw [containsNL_append, a1.1, norm_noNL e hec a2.2 i]
    rfl
  | .sel e c1 g1 gd attrs, hcf, h, i => by
    simp only [Cst.cf, Bool.and_eq_true, List.isEmpty_iff] at hcf
    obtain ⟨hec, hc1⟩ := hcf
    subst hc1
    have h1 : containsNL (e.flatten ++ (g1 ++ (['.'] ++ (gd ++ attrText attrs)))) = false := by
      simpa [Cst.flatten, flattenGC, List.append_assoc] using h
    have a1 := containsNL_append_false h1
    have a2 := containsNL_append_false a1.2
    have a3 := containsNL_append_false (containsNL_append_false a2.2).2
    simp only [Cst.norm, a2.1, Bool.false_eq_true, if_false, Cst.flatten, flattenGC, List.flatMap_nil, List.append_nil]
    rw [show (e.norm i).flatten ++ '.' :: [] ++ attrText attrs = (e.norm i).flatten ++ (['.'] ++ attrText attrs) from by simp,
      containsNL_append, containsNL_append, norm_noNL e hec a1.1 i, a3.2]
    rfl
  | .selOr e c1 g1 gd attrs c2 g2 g3 d, hcf, h, i => by
    simp only [Cst.cf, Bool.and_eq_true, List.isEmpty_iff] at hcf
    obtain ⟨⟨⟨hec, hc1⟩, hc2⟩, hdc⟩ := hcf
    subst hc1; subst hc2
    have h1 : containsNL (e.flatten ++ (g1 ++ (['.'] ++ (gd ++ (attrText attrs ++ (g2 ++ (['o', 'r'] ++ (g3 ++ d.flatten)))))))) = false := by
      simpa [Cst.flatten, flattenGC, List.append_assoc] using h
    have a1 := containsNL_append_false h1
    have a2 := containsNL_append_false a1.2
    have a3 := containsNL_append_false (containsNL_append_false (containsNL_append_false a2.2).2).2
    have a4 := containsNL_append_false a3.2
    have a5 := containsNL_append_false (containsNL_append_false a4.2).2
    simp only [Cst.norm, a2.1, a4.1, Bool.false_eq_true, if_false, Cst.flatten, flattenGC, List.flatMap_nil, List.append_nil]
    rw [show (e.norm i).flatten ++ '.' :: [] ++ attrText attrs ++ [' '] ++ ['o', 'r'] ++ [' '] ++ (d.norm i).flatten =
        (e.norm i).flatten ++ (['.'] ++ (attrText attrs ++ ([' ', 'o', 'r', ' '] ++ (d.norm i).flatten))) from by simp,
      containsNL_append, containsNL_append, containsNL_append, containsNL_append, norm_noNL e hec a1.1 i, a3.1,
      norm_noNL d hdc a5.2 i]
    rfl
  | .lam n c1 g1 c2 g2 b, hcf, h, i => by
    simp only [Cst.cf, Bool.and_eq_true, List.isEmpty_iff] at hcf
    obtain ⟨⟨hc1, hc2⟩, hbc⟩ := hcf
    subst hc1; subst hc2
    have h1 : containsNL (n ++ (g1 ++ ([':'] ++ (g2 ++ b.flatten)))) = false := by
      simpa [Cst.flatten, flattenGC, List.append_assoc] using h
    have a1 := containsNL_append_false h1
    have a2 := containsNL_append_false a1.2
    have a3 := containsNL_append_false (containsNL_append_false a2.2).2
    simp only [Cst.norm, a2.1, count_nl_of_noNL a3.1, Bool.false_eq_true, if_false, if_true, Cst.flatten, flattenGC,
      List.flatMap_nil, List.append_nil]
    rw [show n ++ ':' :: [] ++ [' '] ++ (b.norm i).flatten = n ++ ([':', ' '] ++ (b.norm i).flatten) from by simp,
      containsNL_append, containsNL_append, a1.1, norm_noNL b hbc a3.2 i]
    rfl
  | .bin l c1 g1 op c2 g2 r, hcf, h, i => by
    simp only [Cst.cf, Bool.and_eq_true, List.isEmpty_iff] at hcf
    obtain ⟨⟨⟨hlc, hc1⟩, hc2⟩, hrc⟩ := hcf
    subst hc1; subst hc2
    have h1 : containsNL (l.flatten ++ (g1 ++ (op ++ (g2 ++ r.flatten)))) = false := by
      simpa [Cst.flatten, flattenGC, List.append_assoc] using h
    have a1 := containsNL_append_false h1
    have a2 := containsNL_append_false a1.2
    have a3 := containsNL_append_false a2.2
    have a4 := containsNL_append_false a3.2
    simp only [Cst.norm, count_nl_of_noNL a2.1, count_nl_of_noNL a4.1, if_true, Cst.flatten, flattenGC, List.flatMap_nil,
      List.append_nil]
    rw [show (l.norm i).flatten ++ [' '] ++ op ++ [' '] ++ (r.norm i).flatten =
        (l.norm i).flatten ++ ([' '] ++ (op ++ ([' '] ++ (r.norm i).flatten))) from by simp,
      containsNL_append, containsNL_append, containsNL_append, containsNL_append, norm_noNL l hlc a1.1 i, a3.1,
      norm_noNL r hrc a4.2 i]
    rfl
  | .kw false c1 g1 h c2 g2 c3 g3 b, hcf, _, _ => by simp [Cst.cf] at hcf
  | .kw true c1 g1 h c2 g2 c3 g3 b, hcf, hfl, i => by
    simp only [Cst.cf, Bool.and_eq_true, List.isEmpty_iff] at hcf
    obtain ⟨⟨⟨⟨⟨_, hc1⟩, hhc⟩, hc2⟩, hc3⟩, hbc⟩ := hcf
    subst hc1; subst hc2; subst hc3
    have h1 : containsNL (['w', 'i', 't', 'h'] ++ (g1 ++ (h.flatten ++ ((g2 ++ ';' :: g3) ++ b.flatten)))) = false := by
      simpa [Cst.flatten, flattenGC, kwText, List.append_assoc] using hfl
    have a1 := containsNL_append_false h1
    have a2 := containsNL_append_false a1.2
    have a3 := containsNL_append_false a2.2
    have a4 := containsNL_append_false a3.2
    have ihb := norm_noNL b hbc a4.2 i
    simp only [Cst.norm, a2.1, a4.1, gapHasEmptyLine_of_noNL a4.1, ihb, Bool.false_eq_true, if_false, Cst.flatten, flattenGC,
      List.flatMap_nil, List.append_nil, ite_self, kwText, if_true]
    rw [show ['w', 'i', 't', 'h'] ++ [' '] ++ (h.norm i).flatten ++ [';'] ++ [' '] ++ (b.norm i).flatten =
        ['w', 'i', 't', 'h', ' '] ++ ((h.norm i).flatten ++ ([';', ' '] ++ (b.norm i).flatten)) from by simp,
      containsNL_append, containsNL_append, containsNL_append, norm_noNL h hhc a3.1 i, ihb]
    rfl
  | .ite c1 g1 c c2 g2 c3 g3 t c4 g4 c5 g5 e, hcf, h, i => by
    simp only [Cst.cf, Bool.and_eq_true, List.isEmpty_iff] at hcf
    obtain ⟨⟨⟨⟨⟨⟨⟨hcc, htc⟩, hec⟩, h1⟩, h2⟩, h3⟩, h4⟩, h5⟩ := hcf
    subst h1; subst h2; subst h3; subst h4; subst h5
    obtain ⟨⟨n1, n2, n3⟩, ⟨m1, m2, m3, m4, m5⟩⟩ := ite_flatten_noNL h
    simp only [Cst.norm, sepGap_noNL m1, sepGap_noNL m2, sepGap_noNL m3, sepGap_noNL m4, sepGap_noNL m5,
      sepIndent_noNL m1, sepIndent_noNL m3, sepIndent_noNL m5, Cst.flatten, flattenGC, List.flatMap_nil, List.append_nil]
    simp only [containsNL_append, norm_noNL c hcc n1 i, norm_noNL t htc n2 i, norm_noNL e hec n3 i]
    rfl
  | .has e c1 g1 c2 g2 attrs, hcf, h, i => by
    simp only [Cst.cf, Bool.and_eq_true, List.isEmpty_iff] at hcf
    obtain ⟨⟨hec, h1⟩, h2⟩ := hcf
    subst h1; subst h2
    have hf : containsNL (e.flatten ++ (g1 ++ (['?'] ++ (g2 ++ attrText attrs)))) = false := by
      simpa [Cst.flatten, flattenGC, List.append_assoc] using h
    have a1 := containsNL_append_false hf
    have a2 := containsNL_append_false a1.2
    have a3 := containsNL_append_false a2.2
    have a4 := containsNL_append_false a3.2
    simp only [Cst.norm, sepGap_noNL a2.1, sepGap_noNL a4.1, Cst.flatten, flattenGC, List.flatMap_nil, List.append_nil]
    rw [show (e.norm i).flatten ++ [' '] ++ '?' :: [] ++ [' '] ++ attrText attrs =
        (e.norm i).flatten ++ ([' ', '?', ' '] ++ attrText attrs) from by simp,
      containsNL_append, containsNL_append, norm_noNL e hec a1.1 i, a4.2]
    rfl
theorem items_noNL : (its : Items) → its.cf = true → containsNL its.flatten = false → ∀ (j : Nat),
    containsNL (its.normFlat j).flatten = false
  | .nil, _, _, _ => rfl
  | .cmt .., h, _, _ => by simp [Items.cf] at h
  | .elem g c rest, hcf, h, j => by
    simp only [Items.cf, Bool.and_eq_true] at hcf
    simp only [Items.flatten] at h
    have h1 := containsNL_append_false h
    have h2 := containsNL_append_false h1.1
    simp only [Items.normFlat, Items.flatten]
    rw [containsNL_append, containsNL_append, norm_noNL c hcf.1 h2.2 j, items_noNL rest hcf.2 h1.2 j]
    rfl
  | .bind g n c1 g1 c2 g2 v c3 g3 rest, hcf, h, j => by
    simp only [Items.cf, Bool.and_eq_true] at hcf
    have hn' : containsNL (g ++ (n ++ ((flattenGC c1 ++ g1) ++ (['='] ++ ((flattenGC c2 ++ g2) ++ (v.flatten ++
        ((flattenGC c3 ++ g3) ++ ([';'] ++ rest.flatten)))))))) = false := by
      simpa [Items.flatten, List.append_assoc] using h
    have a0 := containsNL_append_false hn'
    have a1 := containsNL_append_false a0.2
    have a2 := containsNL_append_false (containsNL_append_false (containsNL_append_false a1.2).2).2
    have a2v := containsNL_append_false a2.2
    have a3 := (containsNL_append_false (containsNL_append_false a2v.2).2).2
    have ihv := norm_noNL v hcf.1.2 a2v.1 j
    have ihr := items_noNL rest hcf.2 a3 j
    simp only [Items.normFlat, Items.flatten, flattenGC, List.flatMap_nil, List.append_nil, List.nil_append]
    rw [show ([' '] ++ n ++ [' '] ++ ['='] ++ [' '] ++ (v.norm j).flatten ++ ';' :: (rest.normFlat j).flatten) =
      [' '] ++ (n ++ ([' ', '=', ' '] ++ ((v.norm j).flatten ++ ([';'] ++ (rest.normFlat j).flatten)))) from by simp]
    simp only [containsNL_append, a1.1, ihv, ihr]
    rfl
end

theorem containsNL_append_vgap (a g : Text) (k : Nat) : containsNL (a ++ vgap g k) = true := by
  rw [containsNL_append, containsNL_vgap]; simp

theorem offsets_space : gapHasEmptyLineOffsets [' '] = false := by decide

mutual
theorem norm_idem : (c : Cst) → c.cf = true → ∀ (i : Nat), (c.norm i).norm i = c.norm i
  | .leaf _ _, _, _ => rfl
  | .list its cg, hcf, i => by
    simp only [Cst.cf] at hcf
    simp only [Cst.norm]
    cases hnil : its.isNil with
    | true =>
      simp only [if_true]
      by_cases hb : gapHasEmptyLineOffsets cg = true
      · simp [hb, Cst.norm, Items.isNil, blank_vgap, vgap_vgap]
      · have hb' : gapHasEmptyLineOffsets cg = false := by simpa using hb
        simp [hb', Cst.norm, Items.isNil, offsets_space]
    | false =>
      simp only [Bool.false_eq_true, if_false]
      by_cases hml : containsNL (its.flatten ++ cg) = true
      · simp only [hml, if_true, Cst.norm, isNil_normML its (i + 2) hcf, hnil, Bool.false_eq_true, if_false,
          containsNL_append_vgap, normML_idem its hcf (i + 2), vgap_vgap]
      · have hml' : containsNL (its.flatten ++ cg) = false := by simpa using hml
        have hits := (containsNL_append_false hml').1
        have hno : containsNL ((its.normFlat i).flatten ++ [' ']) = false := by
          rw [containsNL_append, items_noNL its hcf hits i]; rfl
        simp only [hml', Bool.false_eq_true, if_false, Cst.norm, isNil_normFlat its i hcf, hnil, hno,
          normFlat_idem its hcf hits i]
  | .set r rg its cg, hcf, i => by
    simp only [Cst.cf] at hcf
    simp only [Cst.norm]
    cases hnil : its.isNil with
    | true =>
      simp only [if_true]
      by_cases hb : gapHasEmptyLineOffsets cg = true
      · cases r <;> simp [hb, Cst.norm, Items.isNil, blank_vgap, vgap_vgap]
      · have hb' : gapHasEmptyLineOffsets cg = false := by simpa using hb
        cases r <;> simp [hb', Cst.norm, Items.isNil, offsets_space]
    | false =>
      simp only [Bool.false_eq_true, if_false]
      by_cases hml : containsNL ((if r then rg else []) ++ its.flatten ++ cg) = true
      · simp only [hml, if_true, Cst.norm, isNil_normML its (i + 2) hcf, hnil, Bool.false_eq_true, if_false,
          containsNL_append_vgap, normML_idem its hcf (i + 2), vgap_vgap]
      · have hml' : containsNL ((if r then rg else []) ++ its.flatten ++ cg) = false := by simpa using hml
        have hits := (containsNL_append_false (containsNL_append_false hml').1).2
        have hno : containsNL ((if r = true then (if r = true then [' '] else []) else []) ++
            (its.normFlat (i + 2)).flatten ++ [' ']) = false := by
          rw [containsNL_append, containsNL_append, items_noNL its hcf hits (i + 2)]
          cases r <;> rfl
        simp only [hml', Bool.false_eq_true, if_false, Cst.norm, isNil_normFlat its (i + 2) hcf, hnil, hno,
          normFlat_idem its hcf hits (i + 2)]
  | .paren (.elem g c .nil) cg, hcf, i => by
    simp only [Cst.cf, Items.cf, Bool.and_eq_true] at hcf
    have hcg : (if containsNL (if containsNL cg = true then vgap cg i else []) = true
        then vgap (if containsNL cg = true then vgap cg i else []) i else []) =
        (if containsNL cg = true then vgap cg i else []) := by
      split
      · simp [containsNL_vgap, vgap_vgap]
      · rfl
    cases hg : containsNL g with
    | true =>
      simp only [Cst.norm, hg, if_true, containsNL_vgap, indentFromGap_vgap, vgap_vgap, norm_idem c hcf.1 _, hcg]
    | false =>
      simp only [Cst.norm, hg, Bool.false_eq_true, if_false, show containsNL ([] : Text) = false from rfl,
        norm_idem c hcf.1 _, hcg]
  | .paren .nil cg, _, _ => by simp only [Cst.norm]
  | .paren (.cmt ..) cg, _, _ => by simp only [Cst.norm]
  | .paren (.bind ..) cg, _, _ => by simp only [Cst.norm]
  | .paren (.elem g c (.cmt ..)) cg, _, _ => by simp only [Cst.norm]
  | .paren (.elem g c (.bind ..)) cg, _, _ => by simp only [Cst.norm]
  | .paren (.elem g c (.elem ..)) cg, _, _ => by simp only [Cst.norm]
  | .app f cs g a, hcf, i => by
    simp only [Cst.cf, Bool.and_eq_true, List.isEmpty_iff] at hcf
    obtain ⟨⟨hfc, hcs⟩, hac⟩ := hcf
    cases hg : containsNL g with
    | true =>
      simp only [Cst.norm, hg, if_true, containsNL_vgap, indentFromGap_vgap, vgap_vgap, norm_idem f hfc _,
        norm_idem a hac _]
    | false =>
      simp only [Cst.norm, hg, Bool.false_eq_true, if_false, show containsNL [' '] = false from rfl,
        norm_idem f hfc _, norm_idem a hac _]
  | .un op c g e, hcf, i => by
    simp only [Cst.cf, Bool.and_eq_true] at hcf
    simp only [Cst.norm]
    by_cases hg : containsNL g = true
    · simp only [hg, if_true, containsNL_vgap, vgap_vgap, indentFromGap_vgap, norm_idem e hcf.1.2 (indentFromGap g)]
    · have hg' : containsNL g = false := by simpa using hg
      simp only [hg', Bool.false_eq_true, if_false, show containsNL ([] : Text) = false from rfl, norm_idem e hcf.1.2 i]
  | .sel e c1 g1 gd attrs, hcf, i => by
    simp only [Cst.cf, Bool.and_eq_true] at hcf
    simp only [Cst.norm]
    by_cases hg : containsNL g1 = true
    · simp only [hg, if_true, containsNL_vgap, vgap_vgap, indentFromGap_vgap, norm_idem e hcf.1 i]
    · have hg' : containsNL g1 = false := by simpa using hg
      simp only [hg', Bool.false_eq_true, if_false, show containsNL ([] : Text) = false from rfl, norm_idem e hcf.1 i]
  | .selOr e c1 g1 gd attrs c2 g2 g3 d, hcf, i => by
    simp only [Cst.cf, Bool.and_eq_true] at hcf
    simp only [Cst.norm]
    by_cases hg : containsNL g1 = true <;> by_cases hg2 : containsNL g2 = true <;>
      simp only [hg, hg2, if_true, if_false, containsNL_vgap, vgap_vgap, indentFromGap_vgap, norm_idem e hcf.1.1.1 i,
        norm_idem d hcf.2 (indentFromGap g2), norm_idem d hcf.2 i, show containsNL ([] : Text) = false from rfl,
        show containsNL [' '] = false from rfl, Bool.false_eq_true]
  | .lam n c1 g1 c2 g2 b, hcf, i => by
    simp only [Cst.cf, Bool.and_eq_true] at hcf
    simp only [Cst.norm]
    have hg2 : (if (if g2.count '\n' = 0 then [' '] else List.replicate (g2.count '\n') '\n' ++ spaces i).count '\n' = 0 then [' ']
        else List.replicate ((if g2.count '\n' = 0 then [' '] else List.replicate (g2.count '\n') '\n' ++ spaces i).count '\n') '\n' ++
          spaces i) = (if g2.count '\n' = 0 then [' '] else List.replicate (g2.count '\n') '\n' ++ spaces i) := by
      by_cases h0 : g2.count '\n' = 0
      · simp [h0]
      · simp only [h0, if_false, count_nl_breaks]
    rw [hg2, norm_idem b hcf.2 i]
    by_cases hg : containsNL g1 = true
    · simp only [hg, if_true, containsNL_vgap, vgap_vgap, indentFromGap_vgap]
    · simp only [hg, if_false, show containsNL ([] : Text) = false from rfl, Bool.false_eq_true]
  | .bin l c1 g1 op c2 g2 r, hcf, i => by
    simp only [Cst.cf, Bool.and_eq_true] at hcf
    simp only [Cst.norm, breaksGap_count, binRightIndentC_norm, norm_idem l hcf.1.1.1 i]
    by_cases h2 : g2.count '\n' = 0
    · simp only [h2, if_true, norm_idem r hcf.2 i]
    · simp only [h2, if_false, norm_idem r hcf.2 (binRightIndentC op r i)]
  | .kw false c1 g1 h c2 g2 c3 g3 b, hcf, _ => by simp [Cst.cf] at hcf
  | .kw true c1 g1 h c2 g2 c3 g3 b, hcf, i => by
    simp only [Cst.cf, Bool.and_eq_true] at hcf
    obtain ⟨⟨⟨⟨_, hhc⟩, _⟩, _⟩, hbc⟩ := hcf
    have hsp : gapHasEmptyLine ([] ++ ';' :: [' ']) = false ∧ containsNL ([] ++ ';' :: [' ']) = false := by decide
    have hnl : ∀ k, gapHasEmptyLine ([] ++ ';' :: '\n' :: spaces k) = false ∧ containsNL ([] ++ ';' :: '\n' :: spaces k) = true := by
      intro k
      refine ⟨by rw [List.nil_append, gapHasEmptyLine_semi]; exact gapHasEmptyLine_nl_spaces k, ?_⟩
      simp [containsNL_cons]
    have hnn : ∀ k, gapHasEmptyLine ([] ++ ';' :: '\n' :: '\n' :: spaces k) = true := by
      intro k; rw [List.nil_append, gapHasEmptyLine_semi]; exact gapHasEmptyLine_nlnl_spaces k
    simp only [Cst.norm, norm_idem b hbc i, absorbable_norm]
    have hhead : (if containsNL (if containsNL g1 = true then vgap g1 (indentFromGap g1) else [' ']) = true then
          vgap (if containsNL g1 = true then vgap g1 (indentFromGap g1) else [' '])
            (indentFromGap (if containsNL g1 = true then vgap g1 (indentFromGap g1) else [' ']))
        else [' ']) = (if containsNL g1 = true then vgap g1 (indentFromGap g1) else [' ']) ∧
        (h.norm (if containsNL g1 = true then indentFromGap g1 else i)).norm
          (if containsNL (if containsNL g1 = true then vgap g1 (indentFromGap g1) else [' ']) = true then
            indentFromGap (if containsNL g1 = true then vgap g1 (indentFromGap g1) else [' ']) else i) =
        h.norm (if containsNL g1 = true then indentFromGap g1 else i) := by
      by_cases hg : containsNL g1 = true
      · simp only [hg, if_true, containsNL_vgap, vgap_vgap, indentFromGap_vgap, norm_idem h hhc (indentFromGap g1), and_self]
      · have hg' : containsNL g1 = false := by simpa using hg
        simp only [hg', Bool.false_eq_true, if_false, show containsNL [' '] = false from rfl, norm_idem h hhc i, and_self]
    rw [hhead.1, hhead.2]
    congr 1
    by_cases hE : gapHasEmptyLine (g2 ++ ';' :: g3) = true
    · simp only [hE, if_true, hnn]
    · have hE' : gapHasEmptyLine (g2 ++ ';' :: g3) = false := by simpa using hE
      by_cases hN : containsNL (g2 ++ ';' :: g3) = true
      · simp only [hE', hN, Bool.false_eq_true, if_false, if_true, (hnl i).1, (hnl i).2]
      · have hN' : containsNL (g2 ++ ';' :: g3) = false := by simpa using hN
        simp only [hE', hN', Bool.false_eq_true, if_false]
        by_cases hA : b.absorbableC = true
        · simp only [hA, if_true, hsp.1, hsp.2, Bool.false_eq_true, if_false]
        · have hA' : b.absorbableC = false := by simpa using hA
          by_cases hX : containsNL (b.norm i).flatten = true
          · simp only [hA', hX, Bool.false_eq_true, if_false, if_true, (hnl i).1, (hnl i).2]
          · have hX' : containsNL (b.norm i).flatten = false := by simpa using hX
            simp only [hA', hX', Bool.false_eq_true, if_false, hsp.1, hsp.2]
  | .ite c1 g1 c c2 g2 c3 g3 t c4 g4 c5 g5 e, hcf, i => by
    simp only [Cst.cf, Bool.and_eq_true] at hcf
    simp only [Cst.norm, sepGap_sepGap, sepIndent_sepGap, norm_idem c hcf.1.1.1.1.1.1.1 _, norm_idem t hcf.1.1.1.1.1.1.2 _,
      norm_idem e hcf.1.1.1.1.1.2 _]
  | .has e c1 g1 c2 g2 attrs, hcf, i => by
    simp only [Cst.cf, Bool.and_eq_true] at hcf
    simp only [Cst.norm, sepGap_sepGap, norm_idem e hcf.1.1 i]
theorem normML_idem : (its : Items) → its.cf = true → ∀ (j : Nat), (its.normML j).normML j = its.normML j
  | .nil, _, _ => rfl
  | .cmt .., h, _ => by simp [Items.cf] at h
  | .elem g c rest, hcf, j => by
    simp only [Items.cf, Bool.and_eq_true] at hcf
    simp only [Items.normML, vgap_vgap, norm_idem c hcf.1 j, normML_idem rest hcf.2 j]
  | .bind g n c1 g1 c2 g2 v c3 g3 rest, hcf, j => by
    simp only [Items.cf, Bool.and_eq_true] at hcf
    simp only [Items.normML]
    split
    · simp only [Items.normML, containsNL_vgap, if_true, vgap_vgap, indentFromGap_vgap,
        norm_idem v hcf.1.2 (indentFromGap g2), normML_idem rest hcf.2 j]
    · simp only [Items.normML, show containsNL [' '] = false from rfl, Bool.false_eq_true, if_false, vgap_vgap,
        norm_idem v hcf.1.2 j, normML_idem rest hcf.2 j]
theorem normFlat_idem : (its : Items) → its.cf = true → containsNL its.flatten = false → ∀ (j : Nat),
    (its.normFlat j).normFlat j = its.normFlat j
  | .nil, _, _, _ => rfl
  | .cmt .., h, _, _ => by simp [Items.cf] at h
  | .elem g c rest, hcf, h, j => by
    simp only [Items.cf, Bool.and_eq_true] at hcf
    simp only [Items.flatten] at h
    have h1 := containsNL_append_false h
    simp only [Items.normFlat, norm_idem c hcf.1 j, normFlat_idem rest hcf.2 h1.2 j]
  | .bind g n c1 g1 c2 g2 v c3 g3 rest, hcf, h, j => by
    simp only [Items.cf, Bool.and_eq_true] at hcf
    have hn' : containsNL (g ++ (n ++ ((flattenGC c1 ++ g1) ++ (['='] ++ ((flattenGC c2 ++ g2) ++ (v.flatten ++
        ((flattenGC c3 ++ g3) ++ ([';'] ++ rest.flatten)))))))) = false := by
      simpa [Items.flatten, List.append_assoc] using h
    have a0 := containsNL_append_false hn'
    have a1 := containsNL_append_false a0.2
    have a2 := containsNL_append_false (containsNL_append_false (containsNL_append_false a1.2).2).2
    have a2v := containsNL_append_false a2.2
    have a3 := (containsNL_append_false (containsNL_append_false a2v.2).2).2
    simp only [Items.normFlat, norm_idem v hcf.1.2 j, normFlat_idem rest hcf.2 a3 j]
end

theorem isGap_space : isGap [' '] = true := by decide
theorem isGap_nil : isGap [] = true := by decide
theorem gcOk_nil (g : Text) : gcOk [] g = true := rfl

mutual
theorem norm_wf : (c : Cst) → c.wf = true → c.cf = true → ∀ (i : Nat), (c.norm i).wf = true ∧ (c.norm i).cf = true
  | .leaf k t, h, _, _ => ⟨h, rfl⟩
  | .list its cg, hwf, hcf, i => by
    simp only [Cst.wf, Bool.and_eq_true] at hwf
    simp only [Cst.cf] at hcf
    simp only [Cst.norm]
    split
    · split <;> simp [Cst.wf, Cst.cf, Items.wf, Items.cf, isGap_vgap, isGap_space]
    · split
      · have := normML_wf its .list cg hwf.1 hcf (i + 2) (vgap cg i)
        simp [Cst.wf, Cst.cf, this.1, this.2, isGap_vgap]
      · have := normFlat_wf its .list cg hwf.1 hcf i [' ']
        simp [Cst.wf, Cst.cf, this.1, this.2, isGap_space]
  | .set r rg its cg, hwf, hcf, i => by
    simp only [Cst.wf, Bool.and_eq_true] at hwf
    simp only [Cst.cf] at hcf
    have hM := normML_wf its .set cg hwf.1.2 hcf (i + 2) (vgap cg i)
    have hF := normFlat_wf its .set cg hwf.1.2 hcf (i + 2) [' ']
    simp only [Cst.norm]
    by_cases hnil : its.isNil = true
    · simp only [hnil, if_true]
      by_cases hb : gapHasEmptyLineOffsets cg = true
      · cases r <;> simp [hb, Cst.wf, Cst.cf, Items.wf, Items.cf, isGap_vgap, isGap_space, isGap_nil]
      · cases r <;> simp [hb, Cst.wf, Cst.cf, Items.wf, Items.cf, isGap_vgap, isGap_space, isGap_nil]
    · simp only [hnil, Bool.false_eq_true, if_false]
      by_cases hml : containsNL ((if r then rg else []) ++ its.flatten ++ cg) = true
      · simp only [hml, if_true]
        cases r <;> simp [Cst.wf, Cst.cf, hM.1, hM.2, isGap_vgap, isGap_space, isGap_nil]
      · simp only [hml, Bool.false_eq_true, if_false]
        cases r <;> simp [Cst.wf, Cst.cf, hF.1, hF.2, isGap_space, isGap_nil]
  | .paren (.elem g c .nil) cg, hwf, hcf, i => by
    simp only [Cst.wf, Items.wf, Bool.and_eq_true] at hwf
    simp only [Cst.cf, Items.cf, Bool.and_eq_true] at hcf
    have h1 := norm_wf c hwf.1.1.1.2 hcf.1 (if containsNL g = true then indentFromGap g else i)
    have hg : isGap (if containsNL g = true then vgap g (indentFromGap g) else []) = true := by
      split
      · exact isGap_vgap _ _
      · rfl
    have hcg : isGap (if containsNL cg = true then vgap cg i else []) = true := by
      split
      · exact isGap_vgap _ _
      · rfl
    simp [Cst.norm, Cst.wf, Cst.cf, Items.wf, Items.cf, Items.countElems, h1.1, h1.2, hg, hcg]
  | .paren .nil cg, hwf, hcf, _ => by simp only [Cst.norm]; exact ⟨hwf, hcf⟩
  | .paren (.cmt ..) cg, hwf, hcf, _ => by simp only [Cst.norm]; exact ⟨hwf, hcf⟩
  | .paren (.bind ..) cg, hwf, hcf, _ => by simp only [Cst.norm]; exact ⟨hwf, hcf⟩
  | .paren (.elem g c (.cmt ..)) cg, hwf, hcf, _ => by simp only [Cst.norm]; exact ⟨hwf, hcf⟩
  | .paren (.elem g c (.bind ..)) cg, hwf, hcf, _ => by simp only [Cst.norm]; exact ⟨hwf, hcf⟩
  | .paren (.elem g c (.elem ..)) cg, hwf, hcf, _ => by simp only [Cst.norm]; exact ⟨hwf, hcf⟩
  | .app f cs g a, hwf, hcf, i => by
    simp only [Cst.wf, Bool.and_eq_true] at hwf
    simp only [Cst.cf, Bool.and_eq_true, List.isEmpty_iff] at hcf
    obtain ⟨⟨hfc, hcs⟩, hac⟩ := hcf
    subst hcs
    have h1 := norm_wf f hwf.1.1.1 hfc i
    have h2 := norm_wf a hwf.2 hac (if containsNL g = true then indentFromGap g else i)
    have hg : isGap (if containsNL g = true then vgap g (indentFromGap g) else [' ']) = true := by
      split
      · exact isGap_vgap _ _
      · rfl
    simp [Cst.norm, Cst.wf, Cst.cf, gcOk_nil, h1.1, h1.2, h2.1, h2.2, hg]
  | .un op c g e, hwf, hcf, i => by
    simp only [Cst.wf, Bool.and_eq_true] at hwf
    simp only [Cst.cf, Bool.and_eq_true] at hcf
    have h1 := norm_wf e hwf.2 hcf.1.2 (if containsNL g = true then indentFromGap g else i)
    have hg : isGap (if containsNL g = true then vgap g (indentFromGap g) else []) = true := by
      split
      · exact isGap_vgap _ _
      · rfl
    have hfm := hcf.2
    simp only [Cst.norm, Cst.wf, Cst.cf, fusesMinus_norm, hwf.1.1.1, hwf.1.1.2, hcf.1.1, hg, h1.1, h1.2, hfm, Bool.and_self]
    exact ⟨trivial, trivial⟩
  | .sel e c1 g1 gd attrs, hwf, hcf, i => by
    simp only [Cst.wf, Bool.and_eq_true] at hwf
    simp only [Cst.cf, Bool.and_eq_true] at hcf
    have h1 := norm_wf e hwf.1.1.1.1.1 hcf.1 i
    have hg : isGap (if containsNL g1 = true then vgap g1 (indentFromGap g1) else []) = true := by
      split
      · exact isGap_vgap _ _
      · rfl
    simp [Cst.norm, Cst.wf, Cst.cf, hwf.1.1.1.1.2, hwf.1.2, hwf.2, hcf.2, hg, h1.1, h1.2, isGap_nil]
  | .selOr e c1 g1 gd attrs c2 g2 g3 d, hwf, hcf, i => by
    simp only [Cst.wf, Bool.and_eq_true] at hwf
    simp only [Cst.cf, Bool.and_eq_true] at hcf
    obtain ⟨⟨⟨⟨⟨⟨⟨⟨⟨hew, hc1⟩, _⟩, _⟩, hne⟩, hall⟩, hc2⟩, _⟩, _⟩, hdw⟩ := hwf
    have h1 := norm_wf e hew hcf.1.1.1 i
    have h2 := norm_wf d hdw hcf.2 (if containsNL g2 = true then indentFromGap g2 else i)
    have hg : isGap (if containsNL g1 = true then vgap g1 (indentFromGap g1) else []) = true := by
      split
      · exact isGap_vgap _ _
      · rfl
    have hg2 : isGap (if containsNL g2 = true then vgap g2 (indentFromGap g2) else [' ']) = true := by
      split
      · exact isGap_vgap _ _
      · rfl
    simp [Cst.norm, Cst.wf, Cst.cf, hc1, hc2, hne, hall, hg, hg2, h1.1, h1.2, h2.1, h2.2, isGap_nil, isGap_space]
  | .lam n c1 g1 c2 g2 b, hwf, hcf, i => by
    simp only [Cst.wf, Bool.and_eq_true] at hwf
    simp only [Cst.cf, Bool.and_eq_true] at hcf
    obtain ⟨⟨⟨⟨⟨hn, hc1⟩, _⟩, hc2⟩, _⟩, hbw⟩ := hwf
    have h1 := norm_wf b hbw hcf.2 i
    have hg : isGap (if containsNL g1 = true then vgap g1 (indentFromGap g1) else []) = true := by
      split
      · exact isGap_vgap _ _
      · rfl
    have hg2 : isGap (if g2.count '\n' = 0 then [' '] else List.replicate (g2.count '\n') '\n' ++ spaces i) = true := by
      split
      · rfl
      · exact isGap_breaks _ _
    simp [Cst.norm, Cst.wf, Cst.cf, hn, hc1, hc2, hg, hg2, h1.1, h1.2]
  | .bin l c1 g1 op c2 g2 r, hwf, hcf, i => by
    simp only [Cst.wf, Bool.and_eq_true] at hwf
    simp only [Cst.cf, Bool.and_eq_true] at hcf
    obtain ⟨⟨⟨⟨⟨⟨⟨hlw, hc1⟩, _⟩, hop⟩, hch⟩, hc2⟩, _⟩, hrw⟩ := hwf
    have h1 := norm_wf l hlw hcf.1.1.1 i
    have h2 := norm_wf r hrw hcf.2 (if g2.count '\n' = 0 then i else binRightIndentC op r i)
    have hg : ∀ (g : Text) (k : Nat), isGap (if g.count '\n' = 0 then [' '] else List.replicate (g.count '\n') '\n' ++ spaces k) = true := by
      intro g k
      split
      · rfl
      · exact isGap_breaks _ _
    have hnl : containsNL (if g1.count '\n' = 0 then [' '] else List.replicate (g1.count '\n') '\n' ++ spaces i) = containsNL g1 := by
      by_cases h0 : g1.count '\n' = 0
      · simp only [h0, if_true, noNL_of_count_nl h0]; rfl
      · simp only [h0, if_false, containsNL_breaks h0]
        cases hc : containsNL g1 with
        | true => rfl
        | false => exact absurd (count_nl_of_noNL hc) h0
    simp only [Cst.norm, Cst.wf, Cst.cf, hnl, hg, h1.1, h1.2, h2.1, h2.2, hc1, hc2, hop, hch, Bool.and_self, Bool.and_true]
    exact ⟨trivial, trivial⟩
  | .kw false c1 g1 h c2 g2 c3 g3 b, _, hcf, _ => by simp [Cst.cf] at hcf
  | .kw true c1 g1 h c2 g2 c3 g3 b, hwf, hcf, i => by
    simp only [Cst.wf, Bool.and_eq_true] at hwf
    simp only [Cst.cf, Bool.and_eq_true] at hcf
    obtain ⟨⟨⟨⟨⟨⟨⟨hc1, _⟩, hhw⟩, hc2⟩, _⟩, hc3⟩, _⟩, hbw⟩ := hwf
    obtain ⟨⟨⟨⟨_, hhc⟩, _⟩, _⟩, hbc⟩ := hcf
    have h1 := norm_wf h hhw hhc (if containsNL g1 = true then indentFromGap g1 else i)
    have h2 := norm_wf b hbw hbc i
    have hg : isGap (if containsNL g1 = true then vgap g1 (indentFromGap g1) else [' ']) = true := by
      split
      · exact isGap_vgap _ _
      · rfl
    have hbr : ∀ (n : Nat), isGap (List.replicate n '\n' ++ spaces i) = true := fun n => isGap_breaks n i
    have hg3 : isGap (if gapHasEmptyLine (g2 ++ ';' :: g3) = true then '\n' :: '\n' :: spaces i
        else if containsNL (g2 ++ ';' :: g3) = true then '\n' :: spaces i
        else if b.absorbableC = true then [' ']
        else if containsNL (b.norm i).flatten = true then '\n' :: spaces i else [' ']) = true := by
      repeat' split
      · exact hbr 2
      · exact hbr 1
      · rfl
      · exact hbr 1
      · rfl
    simp [Cst.norm, Cst.wf, Cst.cf, hc1, hc2, hc3, hg, hg3, h1.1, h1.2, h2.1, h2.2, isGap_nil]
  | .ite c1 g1 c c2 g2 c3 g3 t c4 g4 c5 g5 e, hwf, hcf, i => by
    obtain ⟨⟨h1, h2, h3, h4, h5⟩, ⟨hcw, htw, hew⟩, _⟩ := ite_wf hwf
    subst h1; subst h2; subst h3; subst h4; subst h5
    simp only [Cst.cf, Bool.and_eq_true] at hcf
    have k1 := norm_wf c hcw hcf.1.1.1.1.1.1.1 (sepIndent g1 i)
    have k2 := norm_wf t htw hcf.1.1.1.1.1.1.2 (sepIndent g3 i)
    have k3 := norm_wf e hew hcf.1.1.1.1.1.2 (sepIndent g5 i)
    simp [Cst.norm, Cst.wf, Cst.cf, isGap_sepGap, k1.1, k1.2, k2.1, k2.2, k3.1, k3.2]
  | .has e c1 g1 c2 g2 attrs, hwf, hcf, i => by
    have hwf0 := hwf
    obtain ⟨⟨h1, h2⟩, hew, _, _, _⟩ := has_wf hwf
    subst h1; subst h2
    simp only [Cst.wf, Bool.and_eq_true] at hwf0
    simp only [Cst.cf, Bool.and_eq_true] at hcf
    have k1 := norm_wf e hew hcf.1.1 i
    simp [Cst.norm, Cst.wf, Cst.cf, isGap_sepGap, k1.1, k1.2, hwf0.1.2, hwf0.2]
theorem normML_wf : (its : Items) → ∀ (m : Mode) (cg : Text), its.wf m cg = true → its.cf = true → ∀ (j : Nat) (cg' : Text),
    (its.normML j).wf m cg' = true ∧ (its.normML j).cf = true
  | .nil, _, _, _, _, _, _ => ⟨rfl, rfl⟩
  | .cmt .., _, _, _, h, _, _ => by simp [Items.cf] at h
  | .elem g c rest, m, cg, hwf, hcf, j, cg' => by
    simp only [Items.wf, Bool.and_eq_true] at hwf
    simp only [Items.cf, Bool.and_eq_true] at hcf
    have h1 := norm_wf c hwf.1.2 hcf.1 j
    have h2 := normML_wf rest m cg hwf.2 hcf.2 j cg'
    simp only [Items.normML, Items.wf, Items.cf, Bool.and_eq_true]
    exact ⟨⟨⟨⟨hwf.1.1.1, isGap_vgap g j⟩, h1.1⟩, h2.1⟩, h1.2, h2.2⟩
  | .bind g n c1 g1 c2 g2 v c3 g3 rest, m, cg, hwf, hcf, j, cg' => by
    simp only [Items.wf, Bool.and_eq_true] at hwf
    obtain ⟨⟨⟨⟨⟨⟨⟨⟨⟨⟨hm, _⟩, hn⟩, _⟩, _⟩, _⟩, _⟩, hv⟩, _⟩, _⟩, hrest⟩ := hwf
    simp only [Items.cf, Bool.and_eq_true] at hcf
    have h2 := normML_wf rest m cg hrest hcf.2 j cg'
    simp only [Items.normML]
    split
    · have h1 := norm_wf v hv hcf.1.2 (indentFromGap g2)
      simp [Items.wf, Items.cf, hm, hn, isGap_vgap, isGap_space, isGap_nil, gcOk_nil, h1.1, h1.2, h2.1, h2.2]
    · have h1 := norm_wf v hv hcf.1.2 j
      simp [Items.wf, Items.cf, hm, hn, isGap_vgap, isGap_space, isGap_nil, gcOk_nil, h1.1, h1.2, h2.1, h2.2]
theorem normFlat_wf : (its : Items) → ∀ (m : Mode) (cg : Text), its.wf m cg = true → its.cf = true → ∀ (j : Nat) (cg' : Text),
    (its.normFlat j).wf m cg' = true ∧ (its.normFlat j).cf = true
  | .nil, _, _, _, _, _, _ => ⟨rfl, rfl⟩
  | .cmt .., _, _, _, h, _, _ => by simp [Items.cf] at h
  | .elem g c rest, m, cg, hwf, hcf, j, cg' => by
    simp only [Items.wf, Bool.and_eq_true] at hwf
    simp only [Items.cf, Bool.and_eq_true] at hcf
    have h1 := norm_wf c hwf.1.2 hcf.1 j
    have h2 := normFlat_wf rest m cg hwf.2 hcf.2 j cg'
    simp only [Items.normFlat, Items.wf, Items.cf, Bool.and_eq_true]
    exact ⟨⟨⟨⟨hwf.1.1.1, isGap_space⟩, h1.1⟩, h2.1⟩, h1.2, h2.2⟩
  | .bind g n c1 g1 c2 g2 v c3 g3 rest, m, cg, hwf, hcf, j, cg' => by
    simp only [Items.wf, Bool.and_eq_true] at hwf
    obtain ⟨⟨⟨⟨⟨⟨⟨⟨⟨⟨hm, _⟩, hn⟩, _⟩, _⟩, _⟩, _⟩, hv⟩, _⟩, _⟩, hrest⟩ := hwf
    simp only [Items.cf, Bool.and_eq_true] at hcf
    have h1 := norm_wf v hv hcf.1.2 j
    have h2 := normFlat_wf rest m cg hrest hcf.2 j cg'
    simp [Items.normFlat, Items.wf, Items.cf, hm, hn, isGap_space, isGap_nil, gcOk_nil, h1.1, h1.2, h2.1, h2.2]
end

theorem file_norm_wf (f : File) (hwf : f.wf = true) (hcf : f.cf = true) :
    f.norm.wf = true ∧ f.norm.cf = true ∧ f.norm.noLeadingWs = true := by
  obtain ⟨g, c, hi, hcw, hcc⟩ := file_shape f hwf hcf
  have h1 := norm_wf c hcw hcc 0
  have hg : isGap (if !containsNL f.endGap then [] else if gapHasEmptyLineOffsets f.endGap then ['\n', '\n'] else ['\n']) = true := by
    split
    · rfl
    · split <;> decide
  simp only [File.norm, hi, File.wf, File.cf, File.noLeadingWs, Items.wf, Items.cf, Items.countElems, Items.firstGap,
    h1.1, h1.2, hg]
  decide

theorem file_norm_idem (f : File) (hwf : f.wf = true) (hcf : f.cf = true) : f.norm.norm = f.norm := by
  obtain ⟨g, c, hi, hcw, hcc⟩ := file_shape f hwf hcf
  have hid := norm_idem c hcc 0
  have hend : ∀ (e : Text), e = [] ∨ e = ['\n', '\n'] ∨ e = ['\n'] →
      (if !containsNL e then [] else if gapHasEmptyLineOffsets e then ['\n', '\n'] else ['\n']) = e := by
    intro e he
    rcases he with h | h | h <;> subst h <;> decide
  have hcase : (if !containsNL f.endGap then ([] : Text) else if gapHasEmptyLineOffsets f.endGap then ['\n', '\n'] else ['\n']) = [] ∨
      (if !containsNL f.endGap then ([] : Text) else if gapHasEmptyLineOffsets f.endGap then ['\n', '\n'] else ['\n']) = ['\n', '\n'] ∨
      (if !containsNL f.endGap then ([] : Text) else if gapHasEmptyLineOffsets f.endGap then ['\n', '\n'] else ['\n']) = ['\n'] := by
    split
    · exact Or.inl rfl
    · split
      · exact Or.inr (Or.inl rfl)
      · exact Or.inr (Or.inr rfl)
  simp only [File.norm, hi, hid, hend _ hcase]

/-- FIXED POINT for comment-free files: the text the round trip writes is the flattening of a
    well-formed comment-free tree (`File.norm f`, the tree tree-sitter returns for it — compared
    with the real tree on every sample), and the round trip of that tree writes the same text. -/
theorem file_fixed_point (f : File) (hwf : f.wf = true) (hcf : f.cf = true) :
    f.norm.wf = true ∧ f.norm.cf = true ∧ f.norm.noLeadingWs = true ∧
    f.roundtrip = .ok f.norm.flatten ∧ f.norm.roundtrip = .ok f.norm.flatten := by
  have h1 := file_norm_wf f hwf hcf
  refine ⟨h1.1, h1.2.1, h1.2.2, file_rt f hwf hcf, ?_⟩
  rw [file_rt f.norm h1.1 h1.2.1, file_norm_idem f hwf hcf]

end Nima.Frag
