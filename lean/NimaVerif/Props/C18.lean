import NimaVerif.Lemmas.Trivia
import NimaVerif.Lemmas.FragNFParse
import NimaVerif.Lemmas.FragFlat
import NimaVerif.Gen.Trivia
/-!
# C18 — rebuilt text is in the formatter's spacing normal form (trivia algebra)

Theorems about `Model/Trivia.lean`, the transliteration of `expressions/trivia.py`, `comment.py`,
`layout.py` that every construct renderer shares. All statements quantify over every gap text,
every layout, every trivia list and every comment (unbounded). SPEC notions (`NormalSep`, `Piece`,
`TriviaLine`, …) are defined in `Model/TriviaSpec.lean`. The per-construct renderers are observed
by the harness, not modelled here.
-/
namespace Nima.C18

/-! ## Translator ties -/

/-- the source text of `_EMPTY_LINE_RE` the model's `hasEmptyLineRe` transliterates -/
def emptyLineReSource : String := "\\n[ \\t]*\\n"
/-- `_GAP_WHITESPACE_BYTES` (sorted) -/
def gapBlankBytes : List Nat := [9, 32]

theorem tie_empty_line_re : Gen.emptyLineRe = some emptyLineReSource := by decide
theorem tie_gap_blank_bytes : Gen.gapBlankBytes = some gapBlankBytes := by decide

/-- The model's blank class is the byte table's. -/
theorem gap_blank_bytes_model (c : Char) : isGapBlank c = gapBlankBytes.contains c.toNat := by
  have h32 : c = ' ' ↔ c.toNat = 32 :=
    ⟨fun h => by rw [h]; rfl, fun h => by rw [← Char.ofNat_toNat c, h]⟩
  have h9 : c = '\t' ↔ c.toNat = 9 :=
    ⟨fun h => by rw [h]; rfl, fun h => by rw [← Char.ofNat_toNat c, h]⟩
  by_cases h1 : c = ' '
  · subst h1; rfl
  · by_cases h2 : c = '\t'
    · subst h2; rfl
    · have n1 : ¬ c.toNat = 32 := fun h => h1 (h32.mpr h)
      have n2 : ¬ c.toNat = 9 := fun h => h2 (h9.mpr h)
      simp [isGapBlank, gapBlankBytes, h1, h2, n1, n2]

/-- The model of the regex search has the regex's meaning: some line break, blanks, line break. -/
theorem empty_line_re_meaning (s : Text) :
    hasEmptyLineRe s = true ↔
      ∃ a b m : Text, (∀ c ∈ b, isGapBlank c = true) ∧ s = a ++ '\n' :: b ++ '\n' :: m :=
  hasEmptyLineRe_iff s

/-! ## The two blank-line detectors are the same function -/

/-- the early exits of `gap_has_empty_line` are redundant -/
theorem gap_has_empty_line_is_regex (g : Text) : gapHasEmptyLine g = hasEmptyLineRe g :=
  gapHasEmptyLine_eq_re g

/-- `_gap_has_empty_line_offsets` (byte scanner; used by `append_gap_trivia_from_offsets` and the
    sequence parser) and `gap_has_empty_line` (regex; used by `Layout.from_gap`) agree on every text. -/
theorem empty_line_impls_agree (g : Text) : gapHasEmptyLineOffsets g = gapHasEmptyLine g := by
  rw [gapHasEmptyLineOffsets_eq_re, gapHasEmptyLine_eq_re]

/-! ## Separators are in normal form -/

theorem normalSep_nil : NormalSep [] := Or.inl rfl
theorem normalSep_space : NormalSep [' '] := Or.inr (Or.inl rfl)
theorem normalSep_nl (k : Nat) : NormalSep ('\n' :: spaces k) := Or.inr (Or.inr ⟨k, Or.inl rfl⟩)
theorem normalSep_nlnl (k : Nat) : NormalSep ('\n' :: '\n' :: spaces k) := Or.inr (Or.inr ⟨k, Or.inr rfl⟩)

/-- `NormalSep` is decidable: it is the Boolean test `isNormalSep`. -/
theorem normalSep_decidable (s : Text) : NormalSep s ↔ isNormalSep s = true := normalSep_iff s

/-- What normal form excludes: only spaces and line breaks (no tab, no CR), at most two line breaks
    (one blank line), and no blank before a line break (no trailing white space). -/
theorem normalSep_clean (s : Text) (h : NormalSep s) :
    (∀ c ∈ s, c = ' ' ∨ c = '\n') ∧ s.count '\n' ≤ 2 ∧
    (∀ a b : Text, s = a ++ ' ' :: b → containsNL b = false) := by
  rcases h with rfl | rfl | ⟨k, rfl | rfl⟩
  · exact ⟨by simp, by simp, fun a b h => by simp at h⟩
  · refine ⟨by simp, by decide, fun a b h => ?_⟩
    have : (a ++ ' ' :: b).length = 1 := by rw [← h]; rfl
    have hb : b = [] := by
      cases b with
      | nil => rfl
      | cons x xs => simp at this; omega
    rw [hb]; rfl
  · refine ⟨?_, ?_, ?_⟩
    · intro c hc
      rcases List.mem_cons.mp hc with rfl | hc
      · exact Or.inr rfl
      · exact Or.inl (mem_spaces hc)
    · rw [List.count_cons_self, count_nl_spaces]; omega
    · intro a b h
      cases a with
      | nil => simp at h
      | cons x a' =>
        simp only [List.cons_append, List.cons.injEq] at h
        have hsub : b.Sublist (spaces k) := by
          rw [h.2]; exact (List.sublist_cons_self _ _).trans (List.sublist_append_right _ _)
        exact containsNL_of_sublist hsub (containsNL_spaces k)
  · refine ⟨?_, ?_, ?_⟩
    · intro c hc
      rcases List.mem_cons.mp hc with rfl | hc
      · exact Or.inr rfl
      · rcases List.mem_cons.mp hc with rfl | hc
        · exact Or.inr rfl
        · exact Or.inl (mem_spaces hc)
    · rw [List.count_cons_self, List.count_cons_self, count_nl_spaces]; omega
    · intro a b h
      cases a with
      | nil => simp at h
      | cons x a' =>
        cases a' with
        | nil => simp at h
        | cons y a'' =>
          simp only [List.cons_append, List.cons.injEq] at h
          have hsub : b.Sublist (spaces k) := by
            rw [h.2.2]; exact (List.sublist_cons_self _ _).trans (List.sublist_append_right _ _)
          exact containsNL_of_sublist hsub (containsNL_spaces k)

/-- `separator_from_layout` (default `inline_sep`) only writes normal-form separators, for every
    layout and indentation. -/
theorem separator_normal (l : Layout) (i : Nat) : NormalSep (separatorFromLayout l i) := by
  unfold separatorFromLayout
  cases l.onNewline
  · exact normalSep_space
  · cases l.blankLine
    · exact normalSep_nl _
    · exact normalSep_nlnl _

/-- Whatever the input gap (tabs, runs of spaces, CRLF, five blank lines, arbitrary text), the
    separator rendered from its classification is in normal form. -/
theorem separator_of_gap_normal (g : Text) (i : Nat) :
    NormalSep (separatorFromLayout (Layout.fromGap g) i) := separator_normal _ i

/-- `separator_from_layout_with_comments` (default `inline_sep`): the white space between the
    rendered comment block `cs` and the next token is in normal form — the separator itself when
    `cs` does not end in a line break, the closing line break of `cs` plus the separator when it does. -/
theorem separator_with_comments_normal (l : Layout) (cs : Text) (includeIndent : Bool) :
    (endsWithNL cs = false → NormalSep (separatorFromLayoutWithComments l cs [' '] includeIndent)) ∧
    (endsWithNL cs = true → NormalSep ('\n' :: separatorFromLayoutWithComments l cs [' '] includeIndent)) := by
  unfold separatorFromLayoutWithComments
  have hne : endsWithNL cs = true → cs.isEmpty = false := by
    intro h; cases cs with
    | nil => simp at h
    | cons x xs => rfl
  cases l.onNewline
  · -- same line
    constructor
    · intro he
      simp only [Bool.false_eq_true, if_false, he, Bool.or_false]
      split
      · split
        · exact normalSep_nil
        · exact normalSep_space
      · exact normalSep_space
    · intro he
      simp only [Bool.false_eq_true, if_false, he, Bool.or_true, hne he, Bool.not_false, if_true]
      exact normalSep_nl 0
  · -- on a new line
    simp only [if_true]
    cases l.blankLine <;> cases includeIndent <;> constructor <;> intro he <;>
      simp only [he, Bool.false_eq_true, if_false, if_true, List.nil_append, List.append_nil,
        List.cons_append]
    all_goals first
      | exact normalSep_nl _
      | exact normalSep_nlnl _
      | exact normalSep_nl 0
      | exact normalSep_nlnl 0

/-- `format_interstitial_trivia_with_separator` (default `inline_sep`): the white space between
    the rendered trivia and the next token is in normal form, whatever the items, the layout and the
    options. -/
theorem interstitial_separator_normal (items : List Trivia) (l : Layout) (i : Nat) (inlineNL includeIndent dropBlank : Bool)
    (strip : Option Text) :
    let r := formatInterstitialTriviaWithSeparator items l i inlineNL [' '] includeIndent dropBlank strip
    (endsWithNL r.1 = false → NormalSep r.2) ∧ (endsWithNL r.1 = true → NormalSep ('\n' :: r.2)) := by
  simp only [formatInterstitialTriviaWithSeparator]
  exact separator_with_comments_normal _ _ _

/-! ## `format_trivia` only writes line breaks and exact indentation runs around comment tokens -/

/-- For a comma-free trivia list, the output of `format_trivia` is the concatenation of pieces that
    form whole lines: an empty line, or an indentation run of exactly the effective indent (`i`,
    or 0 for a comment flagged inline), one comment token, one line break. So every character
    outside the comment tokens is a line break or part of an indentation run at a line start. -/
theorem formatTrivia_ws (ts : List Trivia) (i : Nat) (h : CommaFree ts) :
    formatTrivia ts i = piecesText (triviaPieces i ts) ∧
    ∃ lines : List (List Piece), triviaPieces i ts = lines.flatten ∧ ∀ ln ∈ lines, TriviaLine i ln := by
  refine ⟨?_, triviaPieces_lines i ts h⟩
  rw [formatTrivia_eq_flatMap ts i h, piecesText_triviaPieces]

/-- all comments of the list are line comments as tree-sitter delivers them -/
def LineTrivia (ts : List Trivia) : Prop :=
  ∀ c, Trivia.comment c ∈ ts → c.kind = .line ∧ containsNL c.text = false

theorem line_str_shape (c : Comment) (hnl : containsNL c.text = false) :
    ∃ r, c.str = '#' :: r ∧ containsNL r = false := by
  rw [str_line_of_no_nl c hnl]
  split
  · exact ⟨'!' :: c.text, rfl, by rw [containsNL_cons, hnl]; rfl⟩
  · split
    · exact ⟨[], rfl, rfl⟩
    · split
      · exact ⟨' ' :: c.text, rfl, by rw [containsNL_cons, hnl]; rfl⟩
      · exact ⟨c.text, rfl, hnl⟩

/-- Character-level form for line comments: the output is a sequence of `\n`-terminated lines, each
    empty or exactly `k` spaces (`k = i`, or `0` for an inline-flagged comment) followed by `#…`. -/
theorem formatTrivia_ws_lines (ts : List Trivia) (i : Nat) (h : CommaFree ts) (hl : LineTrivia ts) :
    ∃ lines : List Text, formatTrivia ts i = lines.flatMap (· ++ ['\n']) ∧
      ∀ ln ∈ lines, ln = [] ∨ ∃ k r, (k = 0 ∨ k = i) ∧ ln = spaces k ++ '#' :: r ∧ containsNL r = false := by
  rw [formatTrivia_eq_flatMap ts i h]
  induction ts with
  | nil => exact ⟨[], rfl, by simp⟩
  | cons t ts ih =>
    obtain ⟨lines, he, hw⟩ := ih (commaFree_cons h) (fun c hc => hl c (List.mem_cons_of_mem _ hc))
    rw [List.flatMap_cons, he]
    cases t with
    | emptyLine =>
      refine ⟨[] :: lines, by simp [itemText], ?_⟩
      intro ln hm
      rcases List.mem_cons.mp hm with rfl | hm
      · exact Or.inl rfl
      · exact hw ln hm
    | linebreak => exact ⟨lines, by simp [itemText], hw⟩
    | comma => exact absurd List.mem_cons_self h
    | comment c =>
      obtain ⟨hk, hnl⟩ := hl c List.mem_cons_self
      obtain ⟨r, hr, hrnl⟩ := line_str_shape c hnl
      have htok : c.token (c.effIndent i) = '#' :: r := by simp [Comment.token, hk, hr]
      refine ⟨(spaces (c.effIndent i) ++ '#' :: r) :: lines, ?_, ?_⟩
      · simp [itemText, rebuild_eq_token, htok]
      · intro ln hm
        rcases List.mem_cons.mp hm with rfl | hm
        · refine Or.inr ⟨c.effIndent i, r, ?_, rfl, hrnl⟩
          unfold Comment.effIndent; split <;> simp
        · exact hw ln hm

/-! ## Examples (non-vacuity) -/

/-- a hostile gap: tab, space, CRLF, blank line, three spaces -/
def hostileGap : Text := "\t \r\n\n   ".toList

example : Layout.fromGap hostileGap = { onNewline := true, blankLine := true, indent := some 3 } := by decide
example : separatorFromLayout (Layout.fromGap hostileGap) 2 = "\n\n   ".toList := by decide
example : gapHasEmptyLineOffsets hostileGap = true ∧ gapHasEmptyLine hostileGap = true := by decide
example : NormalSep (separatorFromLayout (Layout.fromGap hostileGap) 2) := by decide
example : ¬ NormalSep hostileGap := by decide
/-- five blank lines collapse to one -/
example : separatorFromLayout (Layout.fromGap "\n\n\n\n\n\n  ".toList) 0 = "\n\n  ".toList := by decide

/-- a trivia list with a blank line, an inline comment and a block comment -/
def sampleTrivia : List Trivia :=
  [.emptyLine, .comment { text := "c".toList, inline := true }, .linebreak,
   .comment { text := "a\nb".toList, kind := .block false (some 3) }]

example : CommaFree sampleTrivia := by decide
example : formatTrivia sampleTrivia 2 = "\n# c\n  /* a\n     b */\n".toList := by decide
example : triviaPieces 2 sampleTrivia =
    [.ws "\n".toList, .ws [], .cmt "# c".toList, .ws "\n".toList,
     .ws "  ".toList, .cmt "/* a\n     b */".toList, .ws "\n".toList] := by decide

section Fragment
open Nima.Frag

/-! ## Container fragment (L3–L5): the output of the whole round trip is in spacing normal form

Same models as `Props/C01.lean` (section Fragment). `summ` reads a piece list as: leading
whitespace, first token, "every whitespace run between two neighbouring tokens/comments is an
acceptable separator for the second one" (`sepOk`: `""`, `" "`, or one line break / one blank line
followed by an indentation run; nothing at all in front of `;`), trailing whitespace. -/

/-- SPACING NORMAL FORM. For every well-formed file of the fragment without `assert` and with at
    most one blank line between the colon of a lambda and its body (`File.basic`: containers,
    parentheses, function calls, `with e; body`, select `e.a.b`, `or default`, lambda `x: body`, unary and
    binary operators, `if c then a else b`, has-attr `e ? a.b`, any nesting — the spacing proof has not been extended to `assert e; body`, whose
    trailing trivia are written between its `;` and its body; no counterexample is known there, the
    decidable conclusion is evaluated on every sample of every run; the lambda clause is needed:
    `cex_blank_lines_after_colon`) in which no one-line container holds
    a comment in front of an item, no comment stands between `(` and a value on the same line, no comment
    touches the function of a call whose argument is on the same line, and at most one blank line stands
    in front of / after a binary operator (`Src.beforeFlatB`: the items of a container without a line
    break, the value of a parenthesis whose leading gap has no line break and the argument of a call whose
    gap has no line break have empty leading trivia; the two gaps of a binary operator hold at most two
    line breaks; see `cex_block_comment_after_opener`, `cex_comment_after_open_paren`,
    `cex_comment_touching_function`, `cex_blank_lines_around_operator`), the rebuilt file has
    no whitespace before its first token, every separator is in the formatter's normal form, `;`
    is attached, and the file ends with at most one blank line. -/
theorem frag_spacing_nf (f : File) (s : Src) (hwf : f.wf = true) (_hws : f.noLeadingWs = true)
    (hbasic : f.basic = true) (hp : f.parse = .ok s) (hclean : s.beforeFlatB = true) :
    (summ s.rebuildP).fileOk = true :=
  file_nf_flat f s hwf hbasic hp hclean

/-- the same with the exclusion as the render-side induction uses it (`inlineCleanB` additionally
    asks that every item's trailing trivia in a one-line container ends with a comment, which
    `Lemmas/FragFlat.lean` proves for everything `fromCst` builds) -/
theorem frag_spacing_nf_clean (f : File) (s : Src) (hwf : f.wf = true) (_hws : f.noLeadingWs = true)
    (hbasic : f.basic = true) (hp : f.parse = .ok s) (hclean : s.inlineCleanB = true) :
    (summ s.rebuildP).fileOk = true :=
  file_nf f s hwf hbasic hp (src_inlineClean hclean)

/-- what `fileOk` says, in terms of the pieces: for any two neighbouring tokens/comments `p`, `q`
    of the output with only whitespace pieces `W` between them, `concat W` is a `NormalSep`, and it
    is empty when `q` is `;`; nothing is written before the first token; the trailing whitespace is
    `""`, one line break or one blank line. -/
theorem frag_spacing_meaning (ps : List FP) (h : (summ ps).fileOk = true) :
    (∀ (pre W post : List FP) (p q : FP), ps = pre ++ [p] ++ W ++ q :: post → p.isWs = false → q.isWs = false →
        W.all FP.isWs = true → NormalSep (concat W) ∧ (q = .tok [';'] → concat W = [])) ∧
    (∀ (W post : List FP) (q : FP), ps = W ++ q :: post → W.all FP.isWs = true → q.isWs = false → concat W = []) := by
  cases hs : summ ps with
  | blank w =>
    refine ⟨fun pre W post p q hps hp _ _ => ?_, fun W post q hps hW hq => ?_⟩
    · exfalso
      obtain ⟨l1, f1, i1, h1⟩ := summ_lexLast pre p hp
      rw [hps, List.append_assoc, summ_append, h1] at hs
      cases hx : summ (W ++ q :: post) <;> rw [hx] at hs <;> cases hs
    · exfalso
      obtain ⟨x, i2, t2, _, h2⟩ := summ_lexHead q hq post
      rw [hps, summ_append, summ_allWs W hW, h2] at hs
      cases hs
  | lexy l f i t =>
    rw [hs] at h
    simp only [Summ.fileOk, Bool.and_eq_true, List.isEmpty_iff] at h
    obtain ⟨⟨hl, hi⟩, _⟩ := h
    subst hl; subst hi
    refine ⟨fun pre W post p q hps hp hq hW => ?_, fun W post q hps hW hq => summ_lead_spec hs W post q hps hW hq⟩
    obtain ⟨x, hx, hsep⟩ := summ_inner_spec hs pre W post p q hps hp hq hW
    unfold sepOk at hsep
    simp only [Bool.and_eq_true, Bool.or_eq_true, bne_iff_ne, ne_eq, List.isEmpty_iff] at hsep
    refine ⟨(normalSep_iff _).mpr hsep.1, fun hq' => ?_⟩
    subst hq'
    simp only [FP.lex?] at hx; injection hx with hx; subst hx
    rcases hsep.2 with h1 | h1
    · exact absurd rfl h1
    · exact h1

/-- full statement (false): without the exclusion -/
def frag_spacing_nf_full : Prop :=
  ∀ (f : File) (s : Src), f.wf = true → f.noLeadingWs = true → f.parse = .ok s → (summ s.rebuildP).fileOk = true

/-- `{ /* c */ a = 1; }`: the comment after `{` becomes leading trivia of the first binding, the set
    stays on one line (no line break in the source), and the binding is written `inline` after
    its own-line rendering of the comment: `{   /* c */⏎a = 1; }` — three spaces, and the binding
    at column 0 (open finding `C18-spacing-space-run-attrset_expression`;
    `expressions/trivia.py:parse_delimited_sequence` / `set.py` one-line branch). -/
def openerCommentFile : File :=
  { items := .elem [] (.set false [] (.cmt " ".toList "/* c */".toList
      (.bind " ".toList "a".toList [] " ".toList [] " ".toList (.leaf .int "1".toList) [] [] .nil)) " ".toList) .nil,
    endGap := [] }

theorem cex_block_comment_after_opener : ¬ frag_spacing_nf_full := by
  intro h
  have := h openerCommentFile _ (by decide) (by decide) rfl
  revert this; decide

example : openerCommentFile.flatten = "{ /* c */ a = 1; }".toList := by decide
example : openerCommentFile.roundtrip = .ok "{   /* c */\na = 1; }".toList := by decide
example : (match openerCommentFile.parse with | .ok s => s.beforeFlatB | _ => true) = false := by decide

/-- the spacing statement for the GROWN fragment (parentheses, calls) under the container exclusion
    alone (`beforeFlatG`: `beforeFlatB` carried through parentheses and calls) — false -/
def frag_spacing_nf_grown_full : Prop :=
  ∀ (f : File) (s : Src), f.wf = true → f.noLeadingWs = true → f.parse = .ok s → s.beforeFlatG = true →
    (summ s.rebuildP).fileOk = true

/-- `[⏎  ( /* c */ x)⏎]`: the comment after `(` becomes leading trivia of the value, the parenthesis
    stays on one line, and the value is rendered `inline` after the own-line rendering of the comment
    at the parenthesis' indentation: `(  /* c */⏎x)` — an indentation run after `(`, the value at
    column 0 (open finding `C18-spacing-space-run-parenthesized_expression`, the parenthesis analogue
    of `cex_block_comment_after_opener`; `expressions/parenthesis.py: rebuild` renders
    `value.rebuild(indent, inline=True)` and `add_trivia` writes `format_trivia(before, indent)`).
    Hence the clause of `beforeFlatB` for parentheses: "the value of a parenthesis whose leading gap
    has no line break has no leading trivia". -/
def parenCommentFile : File :=
  { items := .elem [] (.list (.elem "\n  ".toList (.paren (.cmt " ".toList "/* c */".toList
      (.elem " ".toList (.leaf .ident "x".toList) .nil)) []) .nil) "\n".toList) .nil,
    endGap := [] }

theorem cex_comment_after_open_paren : ¬ frag_spacing_nf_grown_full := by
  intro h
  have := h parenCommentFile _ (by decide) (by decide) rfl (by decide)
  revert this; decide

example : parenCommentFile.flatten = "[\n  ( /* c */ x)\n]".toList := by decide
example : parenCommentFile.roundtrip = .ok "[\n  (  /* c */\nx)\n]".toList := by decide
example : (match parenCommentFile.parse with | .ok s => s.beforeFlatB | _ => true) = false := by decide

/-- the spacing statement under `beforeFlatB` without its clause for calls (`beforeFlatP`) — false -/
def frag_spacing_nf_nocall_full : Prop :=
  ∀ (f : File) (s : Src), f.wf = true → f.noLeadingWs = true → f.parse = .ok s → s.beforeFlatP = true →
    (summ s.rebuildP).fileOk = true

/-- `{⏎  a = f/* c */ x;⏎}`: a comment that touches the function is not an end-of-line comment of the
    function (`start_byte > function_node.end_byte` fails) and becomes leading trivia of the argument;
    the argument stays on the function's line and is rendered `inline` after the own-line rendering of
    the comment at the call's indentation: `a = f   /* c */⏎x;` — an indentation run after the
    separating space, the argument at column 0 (`expressions/function/call.py: from_cst` /
    `rebuild`). Hence the clause of `beforeFlatB` for calls: "the argument of a call whose gap has no
    line break has no leading trivia". -/
def callCommentFile : File :=
  { items := .elem [] (.set false [] (.bind "\n  ".toList "a".toList [] " ".toList [] " ".toList
      (.app (.leaf .ident "f".toList) [([], "/* c */".toList)] " ".toList (.leaf .ident "x".toList)) [] [] .nil)
      "\n".toList) .nil,
    endGap := [] }

theorem cex_comment_touching_function : ¬ frag_spacing_nf_nocall_full := by
  intro h
  have := h callCommentFile _ (by decide) (by decide) rfl (by decide)
  revert this; decide

example : callCommentFile.flatten = "{\n  a = f/* c */ x;\n}".toList := by decide
example : callCommentFile.roundtrip = .ok "{\n  a = f   /* c */\nx;\n}".toList := by decide
example : (match callCommentFile.parse with | .ok s => s.beforeFlatB | _ => true) = false := by decide

/-- `a⏎⏎⏎  + b`: `BinaryExpression.from_cst` counts the line breaks of the gap in front of the operator
    (`gap_line_info`) and `rebuild` writes as many — two blank lines stay (the same after the operator).
    Same root cause as the open finding `C18-spacing-blank-lines-binary_expression`. Hence the clause
    of `beforeFlatB` for binary operators (`beforeFlatG` carries `beforeFlatB` through them without it). -/
def binBlankFile : File :=
  { items := .elem [] (.bin (.leaf .ident "a".toList) [] "\n\n\n  ".toList "+".toList [] " ".toList (.leaf .ident "b".toList)) .nil,
    endGap := "\n".toList }

theorem cex_blank_lines_around_operator : ¬ frag_spacing_nf_grown_full := by
  intro h
  have := h binBlankFile _ (by decide) (by decide) rfl (by decide)
  revert this; decide

example : binBlankFile.flatten = "a\n\n\n  + b\n".toList := by decide
example : binBlankFile.roundtrip = .ok "a\n\n\n+ b\n".toList := by decide
example : binBlankFile.basic = true ∧ (match binBlankFile.parse with | .ok s => s.beforeFlatB | _ => true) = false := by decide

/-- the spacing statement without `File.basic` (`beforeFlatB` keeps `with` / `assert` out by itself) — false -/
def frag_spacing_nf_nobasic_full : Prop :=
  ∀ (f : File) (s : Src), f.wf = true → f.noLeadingWs = true → f.parse = .ok s → s.beforeFlatB = true →
    (summ s.rebuildP).fileOk = true

/-- `x:⏎⏎⏎  y`: `FunctionDefinition.from_cst` (`_collect_colon_trivia`) turns the first line break after
    the colon into `breaks_after_semicolon` and every further one into a blank-line marker in front of
    the body, and `rebuild` writes them all — two blank lines stay. Same root cause as the open finding
    `C18-spacing-blank-lines-function_expression`. Hence the lambda clause of `File.basic`: at most two
    line breaks between the colon and the body. -/
def lamBlankFile : File :=
  { items := .elem [] (.lam "x".toList [] [] [] "\n\n\n  ".toList (.leaf .ident "y".toList)) .nil, endGap := "\n".toList }

theorem cex_blank_lines_after_colon : ¬ frag_spacing_nf_nobasic_full := by
  intro h
  have := h lamBlankFile _ (by decide) (by decide) rfl (by decide)
  revert this; decide

example : lamBlankFile.flatten = "x:\n\n\n  y\n".toList := by decide
example : lamBlankFile.roundtrip = .ok "x:\n\n\ny\n".toList := by decide
example : lamBlankFile.basic = false := by decide

/-- `with` in the three layouts of its body (absorbed set, forced line break, inline), satisfying the hypotheses -/
def withNfSample : File :=
  { items := .elem [] (.list
      (.elem "\n  ".toList (.paren (.elem [] (.kw true [] "  ".toList (.leaf .ident "a".toList) [] " ".toList [] "   ".toList
          (.set false [] (.bind "\n".toList "x".toList [] " ".toList [] " ".toList (.leaf .int "1".toList) [] [] .nil) "\n".toList)) .nil) [])
      (.elem "\n  ".toList (.paren (.elem [] (.kw true [] "\n\n     ".toList (.leaf .ident "b".toList) [] [] [] "\n\n\n ".toList
          (.leaf .ident "y".toList)) .nil) [])
      (.elem "\n  ".toList (.paren (.elem [] (.kw true [] " ".toList (.leaf .ident "c".toList) [] [] [] "\t".toList
          (.leaf .ident "z".toList)) .nil) []) .nil))) "\n".toList) .nil,
    endGap := "\n".toList }

example : withNfSample.flatten =
    "[\n  (with  a ;   {\nx = 1;\n})\n  (with\n\n     b;\n\n\n y)\n  (with c;\tz)\n]\n".toList := by decide
example : withNfSample.roundtrip =
    .ok "[\n  (with a; {\n    x = 1;\n  })\n  (with\n\n     b;\n\n  y)\n  (with c; z)\n]\n".toList := by decide
example : withNfSample.wf = true ∧ withNfSample.noLeadingWs = true ∧ withNfSample.basic = true := by decide
example : (match withNfSample.parse with | .ok s => s.beforeFlatB | _ => false) = true := by decide

/-- select, `or`, lambda, unary and binary operators in non-canonical layouts, satisfying the hypotheses -/
def opsSample : File :=
  { items := .elem [] (.set false [] (.bind "\n  ".toList "a".toList [] " ".toList [] " ".toList
      (.lam "x".toList [] [] [] "  ".toList
        (.bin (.un "!".toList [] " ".toList (.selOr (.leaf .ident "x".toList) [] [] [] ["b".toList, "c".toList] [] "  ".toList " ".toList
            (.leaf .ident "d".toList)))
          [] "\n\n      ".toList "+".toList [] "\t".toList (.un "-".toList [] [] (.sel (.leaf .ident "y".toList) [] " ".toList [] ["e".toList]))))
      [] [] .nil) "\n".toList) .nil,
    endGap := "\n".toList }

example : opsSample.flatten = "{\n  a = x:  ! x.b.c  or d\n\n      +\t-y .e;\n}\n".toList := by decide
example : opsSample.roundtrip = .ok "{\n  a = x: !x.b.c or d\n\n  + -y.e;\n}\n".toList := by decide
example : opsSample.wf = true ∧ opsSample.noLeadingWs = true ∧ opsSample.basic = true := by decide
example : (match opsSample.parse with | .ok s => s.beforeFlatB | _ => false) = true := by decide

/-- parentheses and calls in many layouts, with comments, satisfying the hypotheses -/
def grownSample : File :=
  { items := .elem [] (.set false [] (.bind "\n  ".toList "a".toList [] " ".toList [] " ".toList
      (.app (.app (.leaf .ident "f".toList) [(" ".toList, "/* c */".toList)] " ".toList
          (.paren (.elem "\n\n      ".toList (.leaf .ident "x".toList) (.cmt " ".toList "# e".toList .nil)) "\n   ".toList))
        [("\n".toList, "# d".toList)] "\n\n\t".toList (.paren (.elem [] (.list .nil []) .nil) " ".toList)) [] [] .nil)
      "\n".toList) .nil,
    endGap := [] }

example : grownSample.flatten = "{\n  a = f /* c */ (\n\n      x # e\n   )\n# d\n\n\t([] );\n}".toList := by decide
example : grownSample.roundtrip = .ok "{\n  a = f /* c */ (\n\n      x # e\n  )\n\n # d\n\n ([ ]);\n}".toList := by decide
example : grownSample.wf = true ∧ grownSample.noLeadingWs = true ∧ grownSample.basic = true := by decide
example : (match grownSample.parse with | .ok s => s.beforeFlatB | _ => false) = true := by decide

/-- a file with comments in many gaps that satisfies the hypotheses -/
def fragSample : File :=
  { items := .cmt [] "# h".toList (.elem "\n\n\n".toList
      (.set false [] (.bind "\n\t".toList "a".toList [(" ".toList, "/* n */".toList)] "  ".toList
          [] "\n\n      ".toList (.list (.elem " ".toList (.leaf .int "1".toList) .nil) "\t".toList) [] " ".toList
        (.cmt " ".toList "# e".toList (.cmt "\n\n\n".toList "# o".toList .nil))) "\n\n\n".toList) .nil),
    endGap := "\n\n\n".toList }

example : fragSample.flatten = "# h\n\n\n{\n\ta /* n */  =\n\n      [ 1\t] ; # e\n\n\n# o\n\n\n}\n\n\n".toList := by decide
example : fragSample.wf = true ∧ fragSample.noLeadingWs = true ∧ fragSample.basic = true := by decide
example : (match fragSample.parse with | .ok s => s.beforeFlatB | _ => false) = true := by decide
example : fragSample.roundtrip = .ok "# h\n\n{\n  a =\n      /* n */\n\n      [ 1 ]; # e\n\n  # o\n\n}\n\n".toList := by decide

/-- `if a  ?⏎ b.c⏎⏎⏎then⏎  [ x ]⏎else { }`: `if` and has-attr are inside the spacing theorem -/
def ifNfSample : File :=
  { items := .elem []
      (.ite [] " ".toList (.has (.leaf .ident "a".toList) [] "  ".toList [] "\n ".toList ["b".toList, "c".toList])
        [] "\n\n\n".toList [] "\n  ".toList (.list (.elem " ".toList (.leaf .ident "x".toList) .nil) " ".toList)
        [] "\n".toList [] " ".toList (.set false [] .nil " ".toList)) .nil,
    endGap := [] }

example : ifNfSample.flatten = "if a  ?\n b.c\n\n\nthen\n  [ x ]\nelse { }".toList := by decide
example : ifNfSample.wf = true ∧ ifNfSample.noLeadingWs = true ∧ ifNfSample.basic = true := by decide
example : (match ifNfSample.parse with | .ok s => s.beforeFlatB | _ => false) = true := by decide
example : ifNfSample.roundtrip = .ok "if a ?\n b.c\n\nthen\n  [ x ]\nelse { }".toList := by decide

end Fragment

end Nima.C18
