import NimaVerif.Lemmas.Trivia
import NimaVerif.Lemmas.FragNFParse
import NimaVerif.Lemmas.FragFixed
/-!
# C06 — rebuilt text is a fixed point (trivia algebra)

The gap-level heart of the fixed-point property: classifying a gap, rendering the classification and
classifying the rendered text again gives the same classification (and therefore the same text on
the second pass), for every gap text; the same for the trivia collected from a gap
(`append_gap_trivia` ∘ `format_trivia`) and for comment tokens (`Comment.from_cst` ∘ `rebuild`).
Theorems about `Model/Trivia.lean`; SPEC notions in `Model/TriviaSpec.lean`. The per-construct
renderers are observed by the harness, not modelled.
-/
namespace Nima.C06

/-! ## Layout classification is idempotent -/

/-- the classification a rendered separator has: indentation made explicit -/
def Layout.normalize (l : Layout) (i : Nat) : Layout :=
  if l.onNewline then { onNewline := true, blankLine := l.blankLine, indent := some (l.indent.getD i) } else {}

/-- For every layout value: re-classifying the separator rendered from it gives the layout with the
    indentation default filled in (and nothing else changed). -/
theorem fromGap_separator (l : Layout) (i : Nat) :
    Layout.fromGap (separatorFromLayout l i) = Layout.normalize l i := by
  unfold separatorFromLayout Layout.normalize
  cases l.onNewline
  · rfl
  · cases l.blankLine
    · simp only [Bool.not_true, Bool.false_eq_true, if_false, if_true]
      exact fromGap_nl_spaces _
    · simp only [Bool.not_true, Bool.false_eq_true, if_false, if_true]
      exact fromGap_nlnl_spaces _

/-- For layouts that come from a gap — every layout the parser produces — the classification is a
    fixed point outright, whatever the gap text and the indentation default. -/
theorem fromGap_separator_idem (g : Text) (i : Nat) :
    Layout.fromGap (separatorFromLayout (Layout.fromGap g) i) = Layout.fromGap g := by
  rw [fromGap_separator]
  unfold Layout.normalize Layout.fromGap
  cases containsNL g <;> rfl

/-- Second pass = first pass: the separator rendered from the re-classified separator is the
    separator, byte for byte, for every gap and whatever the indentation defaults of both passes. -/
theorem separator_second_pass (g : Text) (i j : Nat) :
    separatorFromLayout (Layout.fromGap (separatorFromLayout (Layout.fromGap g) i)) j
      = separatorFromLayout (Layout.fromGap g) i := by
  rw [fromGap_separator_idem]
  unfold separatorFromLayout Layout.fromGap
  cases containsNL g <;> rfl

/-- `Layout.from_gap` only ever produces layouts with an explicit indentation on a new line and
    nothing at all otherwise. -/
theorem fromGap_wellformed (g : Text) :
    (Layout.fromGap g).onNewline = containsNL g ∧
    (containsNL g = false → Layout.fromGap g = {}) ∧
    (containsNL g = true → (Layout.fromGap g).indent = some (indentFromGap g)) := by
  unfold Layout.fromGap
  cases containsNL g <;> simp

/-! ## Trivia collected from a gap -/

/-- the text a multi-line container writes between two items whose `before` list is `ts`:
    the joining line break, the rendered trivia, the indentation of the next item -/
def gapText (ts : List Trivia) (i : Nat) : Text := '\n' :: formatTrivia ts i ++ spaces i

theorem gapText_emptyLine (i : Nat) : gapText [.emptyLine] i = '\n' :: '\n' :: spaces i := rfl
theorem gapText_linebreak (i : Nat) : gapText [.linebreak] i = '\n' :: spaces i := rfl
theorem gapText_nil (i : Nat) : gapText [] i = '\n' :: spaces i := rfl

/-- `append_gap_trivia` on a gap that contains a line break: classify, render between two items,
    classify again — the same markers are appended (both `include_linebreak` settings, any list
    appended to, any gap text). `parse_delimited_sequence` uses the byte-offset variant, which is the
    same function by `C18.empty_line_impls_agree`. -/
theorem appendGapTrivia_idem (ts : List Trivia) (g : Text) (i : Nat) (incl1 incl2 : Bool)
    (h : containsNL g = true) :
    appendGapTrivia ts (gapText (appendGapTrivia [] g incl1) i) incl2 = appendGapTrivia ts g incl2 := by
  unfold appendGapTrivia
  cases hb : gapHasEmptyLine g
  · simp only [Bool.false_eq_true, if_false, h, Bool.and_true]
    have e : gapText (if incl1 = true then [] ++ [Trivia.linebreak] else []) i = '\n' :: spaces i := by
      cases incl1 <;> rfl
    rw [e, gapHasEmptyLine_nl_spaces]
    simp [containsNL_cons]
  · simp only [if_true, List.nil_append, gapText_emptyLine, gapHasEmptyLine_nlnl_spaces]

/-- A gap without a line break (two items on one line) contributes no marker; once the container
    is written one item per line the gap is classified as a plain line break … -/
theorem appendGapTrivia_inline_gap (ts : List Trivia) (g : Text) (i : Nat) (incl : Bool)
    (h : containsNL g = false) :
    appendGapTrivia ts g incl = ts ∧
    appendGapTrivia ts (gapText (appendGapTrivia [] g incl) i) true = ts ++ [.linebreak] := by
  have h1 : gapHasEmptyLine g = false := by
    unfold gapHasEmptyLine; simp [h]
  have h2 : ∀ ts', appendGapTrivia ts' g incl = ts' := by
    intro ts'; unfold appendGapTrivia; simp [h1, h]
  refine ⟨h2 ts, ?_⟩
  rw [h2 [], gapText_nil]
  unfold appendGapTrivia
  simp [gapHasEmptyLine_nl_spaces, containsNL_cons]

/-- … which renders to the same text: for EVERY gap the rendered gap text is a fixed point of
    classify-and-render. -/
theorem gapText_fixed_point (g : Text) (i : Nat) :
    gapText (appendGapTrivia [] (gapText (appendGapTrivia [] g) i)) i = gapText (appendGapTrivia [] g) i := by
  cases h : containsNL g
  · rw [(appendGapTrivia_inline_gap [] g i true h).2, (appendGapTrivia_inline_gap [] g i true h).1]
    rfl
  · rw [appendGapTrivia_idem [] g i true true h]

/-- A `before` list as the sequence parser builds it — gap, own-line comment, gap — renders to
    canonical gap texts around the comment token, so that `appendGapTrivia_idem` and
    `block_comment_idem` / `line_comment_idem` apply to each part of the rendered text. -/
theorem before_list_rendering (g1 g2 : Text) (c : Comment) (i : Nat) (hc : c.inline = false) :
    gapText (appendGapTrivia [] g1 ++ [.comment c] ++ appendGapTrivia [] g2) i =
      gapText (appendGapTrivia [] g1) i ++ c.token i ++ gapText (appendGapTrivia [] g2) i := by
  have hcf : ∀ g, CommaFree (appendGapTrivia [] g) := by
    intro g; unfold appendGapTrivia; split
    · decide
    · split <;> decide
  have hall : CommaFree (appendGapTrivia [] g1 ++ [.comment c] ++ appendGapTrivia [] g2) := by
    rw [commaFree_append, commaFree_append]
    exact ⟨⟨hcf g1, by simp [CommaFree]⟩, hcf g2⟩
  unfold gapText
  rw [Nima.formatTrivia_append _ _ i hall, Nima.formatTrivia_append _ _ i (commaFree_append.mp hall).1,
    formatTrivia_eq_flatMap [.comment c] i (by simp [CommaFree])]
  simp [itemText, rebuild_eq_token, Comment.effIndent, hc]

/-! ## Comment normalisation is idempotent (shared with C03) -/

/-- Block comments, every token text after `/*`, every column and indentation: the rendered token is
    read back (at the column it is written at) as the same comment, hence re-rendered identically. -/
theorem block_comment_fixed_point (c1 i : Nat) (t : Text) (h : startsWith ['/', '*'] t = true) :
    (Comment.fromText i ((Comment.fromText c1 t).token i)).token i = (Comment.fromText c1 t).token i := by
  rw [block_token_fixed c1 i t h]

/-- Line comments: rendered text is stable from the first pass on (`# ` included). -/
theorem line_comment_fixed_point (c1 c2 : Nat) (r : Text) (hnl : containsNL r = false) :
    (Comment.fromText c2 ((Comment.fromText c1 ('#' :: r)).rebuild 0)).rebuild 0
      = (Comment.fromText c1 ('#' :: r)).rebuild 0 := by
  rw [line_comment_rebuild c1 0 r hnl]
  by_cases h : r = [' ']
  · subst h
    simp only [if_true, spaces_zero, List.nil_append]
    rw [line_comment_rebuild c2 0 [] rfl]; rfl
  · simp only [h, if_false, spaces_zero, List.nil_append]
    rw [fromText_hash_col c2 c1 r, line_comment_rebuild c1 0 r hnl]; simp [h]

/-- Full statement for comments rendered inline (false): an inline comment is rendered with
    indentation 0 while its token sits at some column `col > 0` after code, so the second pass reads
    the continuation lines relative to another column. -/
def inline_block_fixed_point_full : Prop :=
  ∀ (col : Nat) (t : Text), startsWith ['/', '*'] t = true →
    (Comment.fromText col ((Comment.fromText col t).token 0)).token 0 = (Comment.fromText col t).token 0

/-- `x = 1; /* x⏎␣×14 y */`: first pass re-indents the continuation line to 7 spaces, the second
    pass (token again at column 7) strips them: the text changes on every one of the first two
    passes. A drift of inline multi-line block comments whose continuation lines are indented by at
    least twice the token's column. -/
theorem cex_inline_multiline_block_drift : ¬ inline_block_fixed_point_full := by
  intro h
  have := h 7 "/* x\n              y */".toList rfl
  revert this; decide

/-- Partial: the inline rendering is a fixed point when the token starts in column 0 or the comment
    is a single-line one (decidable side condition). -/
theorem inline_block_fixed_point_partial (col : Nat) (t : Text) (h : startsWith ['/', '*'] t = true)
    (hs : col = 0 ∨ containsNL (blockInner t) = false) :
    (Comment.fromText col ((Comment.fromText col t).token 0)).token 0 = (Comment.fromText col t).token 0 := by
  rcases hs with rfl | hs
  · rw [block_token_fixed 0 0 t h]
  · have : Comment.fromText col ((Comment.fromText col t).token 0) = Comment.fromText col t := by
      rw [fromText_block col t h]
      simp only [hs, Bool.false_eq_true, if_false]
      have hx : containsNL (strip (blockInner t)) = false := containsNL_of_sublist (stripBy_sublist _ _) hs
      have htok : ({ text := strip (blockInner t), kind := .block (blockDoc t) none } : Comment).token 0 =
          blockOpening (blockDoc t) ++ [' '] ++ strip (blockInner t) ++ [' ', '*', '/'] := by
        simp [Comment.token, hx, blockOpening]
      rw [htok]
      exact fromText_single_block col (blockDoc t) _ (stripBy_stripped _ _) hx
    rw [this]

/-! ## Examples (non-vacuity) -/

def hostileGap : Text := "\t \r\n\n   ".toList

example : Layout.fromGap (separatorFromLayout (Layout.fromGap hostileGap) 2) = Layout.fromGap hostileGap := by decide
example : appendGapTrivia [] hostileGap = [.emptyLine] := by decide
example : gapText (appendGapTrivia [] hostileGap) 2 = "\n\n  ".toList := by decide
example : appendGapTrivia [] (gapText (appendGapTrivia [] hostileGap) 2) = [.emptyLine] := by decide
example : gapText (appendGapTrivia [] " \t".toList ++ [.comment { text := "c".toList }] ++ appendGapTrivia [] "\n\n\n".toList) 2
    = "\n  # c\n\n  ".toList := by decide
example : (Comment.fromText 2 "/* a\n       b\n  */".toList).token 2 = "/* a\n       b\n  */".toList := by decide
example : (Comment.fromText 7 "/* x\n          y */".toList).token 0 = "/* x\n   y */".toList := by decide

section Fragment
open Nima.Frag

/-! ## Container fragment (L3–L5): the second pass

Same models as `Props/C01.lean` (section Fragment). The second pass reads the OUTPUT of the first
one: tree-sitter returns some well-formed tree `f2` whose `flatten` is that text (the parser
contract, checked on every sample by `harness/cstdump.py`), and the fixed-point property says
that parsing and rebuilding `f2` gives the same text again. The statement below quantifies over
EVERY such `f2`, so no function "the CST of the output" is needed to state it. -/

/-- full statement: the rebuilt text is a fixed point, whatever tree the parser returns for it -/
def frag_fixed_point_full : Prop :=
  ∀ (f f2 : File) (s s2 : Src), f.wf = true → f.noLeadingWs = true → f.parse = .ok s →
    f2.wf = true → f2.flatten = s.rebuild → f2.parse = .ok s2 → s2.rebuild = s.rebuild

/-- first pass input `{ a = 1 # c⏎; # d⏎}` (both comments are end-of-line comments) -/
def semiFile : File :=
  { items := .elem [] (.set false [] (.bind " ".toList "a".toList [] " ".toList [] " ".toList (.leaf .int "1".toList)
      [(" ".toList, "# c".toList)] "\n".toList (.cmt " ".toList "# d".toList .nil)) "\n".toList) .nil,
    endGap := [] }

/-- the tree of its output `{⏎  a = 1; # c⏎# d⏎}` -/
def semiFile2 : File :=
  { items := .elem [] (.set false [] (.bind "\n  ".toList "a".toList [] " ".toList [] " ".toList (.leaf .int "1".toList)
      [] [] (.cmt " ".toList "# c".toList (.cmt "\n".toList "# d".toList .nil))) "\n".toList) .nil,
    endGap := [] }

example : semiFile.flatten = "{ a = 1 # c\n; # d\n}".toList := by decide
example : semiFile.roundtrip = .ok "{\n  a = 1; # c\n# d\n}".toList := by decide
example : semiFile2.flatten = "{\n  a = 1; # c\n# d\n}".toList := by decide
example : semiFile2.roundtrip = .ok "{\n  a = 1; # c\n  # d\n}".toList := by decide

/-- A comment in front of `;` and another one after it (open findings `C06-fixed-point-x-binding`,
    `C06-pair-fixed-point-*`): the first becomes the end-of-line comment of the binding, the second
    — an `inline` comment of the binding, rendered by `format_trivia` with indentation 0 — lands on
    its own line at column 0; the second pass reads it as an own-line comment and indents it.
    (`expressions/binding.py`: `Binding.rebuild` concatenates `value.after + self.after`;
    `comment.py`: `rebuild` forces indent 0 for `inline` comments.) -/
theorem cex_comment_around_semicolon : ¬ frag_fixed_point_full := by
  intro h
  have := h semiFile semiFile2 _ _ (by decide) (by decide) rfl (by decide) (by decide) rfl
  revert this; decide

/-- full statement (false): the fixed-point statement for ALL comment-free files of the fragment (every lexical
    item of the tree is a code token), i.e. `frag_fixed_point_comment_free` without the restriction of
    `Cst.cf` to the constructs other than `assert` -/
def frag_fixed_point_nocomment_full : Prop :=
  ∀ (f f2 : File) (s s2 : Src), f.wf = true → f.noLeadingWs = true → f.items.lex.length = f.codeTokens.length →
    f.parse = .ok s → f2.wf = true → f2.flatten = s.rebuild → f2.parse = .ok s2 → s2.rebuild = s.rebuild

/-- `{ a = assert x; y; }` -/
def assertSetFile : File :=
  { items := .elem [] (.set false [] (.bind " ".toList "a".toList [] " ".toList [] " ".toList
      (.kw false [] " ".toList (.leaf .ident "x".toList) [] [] [] " ".toList (.leaf .ident "y".toList)) [] [] .nil) " ".toList) .nil,
    endGap := "\n".toList }

/-- the tree of its output `{ a = assert x;⏎  y; }` -/
def assertSetFile2 : File :=
  { items := .elem [] (.set false [] (.bind " ".toList "a".toList [] " ".toList [] " ".toList
      (.kw false [] " ".toList (.leaf .ident "x".toList) [] [] [] "\n  ".toList (.leaf .ident "y".toList)) [] [] .nil) " ".toList) .nil,
    endGap := "\n".toList }

/-- NEW FINDING `C06-fragment-assert-in-one-line-container`: `Assertion.rebuild` (expressions/assertion.py)
    always writes the body on a line of its own. Inside a container written on one line the first pass
    therefore puts a line break into the container (`{ a = assert x; y; }` -> `{ a = assert x;⏎  y; }`), and
    the second pass, which reads the container as spanning several lines, lays it out again
    (-> `{⏎  a = assert x;⏎  y;⏎}`): not a fixed point, without any comment. Hence `assert` stays outside
    `Cst.cf`; a normaliser for it would need the exclusion "no `assert` inside a one-line container". -/
theorem cex_assert_in_one_line_container : ¬ frag_fixed_point_nocomment_full := by
  intro h
  have := h assertSetFile assertSetFile2 _ _ (by decide) (by decide) (by decide) rfl (by decide) (by decide) rfl
  revert this; decide

example : assertSetFile.flatten = "{ a = assert x; y; }\n".toList := by decide
example : assertSetFile.roundtrip = .ok "{ a = assert x;\n  y; }\n".toList := by decide
example : assertSetFile2.roundtrip = .ok "{\n  a = assert x;\n  y;\n}\n".toList := by decide

/-- The second pass is always defined and keeps tokens and (when no comment overtakes another)
    comments of the tree it reads — the instance of `C01.frag_parse_total` /
    `C01.frag_tokens_preserved` for `f2`. What is NOT proved is the equality of the whitespace. -/
theorem frag_second_pass_tokens (f2 : File) (hwf : f2.wf = true) :
    ∃ s2, f2.parse = .ok s2 ∧ toks s2.rebuildP = f2.codeTokens := by
  obtain ⟨s2, hp, hok, hl⟩ := file_parse_spec false f2 hwf (fun h => by cases h)
  refine ⟨s2, hp, ?_⟩
  have h1 := (srcRebuildP_lex s2 hok).1
  show toksL (lexOf s2.rebuildP) = toksL f2.items.lex
  rw [h1, ← toksL_proj_false, hl, toksL_proj_false, items_toks_lexM]

/-- FIXED POINT FOR COMMENT-FREE FILES. For every well-formed file of the fragment without comments
    (nested sets / `rec` sets / lists / bindings / parenthesised expressions / function calls /
    `with e; body` / select `e.a.b` / `or default` / lambda `x: body` / unary and binary operators /
    `if c then a else b` / has-attr `e ? a.b` / leaves
    with arbitrary whitespace, any depth; not `assert`, and no `-` in front of an expression whose first
    token is a path literal, which the output fuses into one token — `Cst.fusesMinus`,
    `C01.cex_unary_minus_path_fused`: `Cst.cf`), the
    text the round trip writes is the flattening of the well-formed comment-free tree `File.norm f`
    — the round trip IS that tree normaliser (`file_rt`: one line break per item of a container
    that spans lines, blank lines kept as one, two-space indentation, values on their own line
    keep the indentation read from their gap, one-line containers joined by single spaces; a
    parenthesised value stays on the line of `(` or goes on its own line at the indentation read from
    the gap, `)` stays or goes on its own line at the current indentation; function and argument are
    separated by one space or a line break with the argument at the indentation read from the gap; the
    `.` of a select, the `or`, the `:` of a lambda and the operand of a unary operator stay on the line or
    go on their own line at the indentation read from the gap; the body of a lambda and the two sides of a
    binary operator keep the NUMBER of line breaks of the source — cf. `C18.cex_blank_lines_after_colon`
    / `cex_blank_lines_around_operator` — at the current indentation, the right operand at the
    indentation `_resolve_right_operand` gives it: `binRightIndentC`; the environment of a `with` follows
    after one space or on its own line at the indentation read from the gap, `;` attached, the body on its
    own line at the current indentation when the source has a line break around the `;`, else after one
    space when it is a set / list, else on its own line when it spans several lines, else after one space;
    the condition, `then`, the consequence, `else` and the alternative of an `if`, the `?` of a has-attr and its
    attrpath each follow after one space or on their own line — one blank line kept — at the indentation read
    from the gap: `sepGap` / `sepIndent`)
    — and
    the round trip of that tree writes the same text again (`File.norm` is idempotent). `File.norm f`
    is the tree tree-sitter returns for the output: compared with the real tree, node by node, on
    every comment-free sample of every run (`fragment_correspondence`), which is the parser-contract
    step. With comments the statement is false (`cex_comment_around_semicolon`) and its proof for
    line-level comments is open. -/
theorem frag_fixed_point_comment_free (f : File) (hwf : f.wf = true) (_hws : f.noLeadingWs = true)
    (hcf : f.cf = true) :
    f.norm.wf = true ∧ f.norm.noLeadingWs = true ∧ f.norm.cf = true ∧
    f.roundtrip = .ok f.norm.flatten ∧ f.norm.roundtrip = .ok f.norm.flatten := by
  have h := file_fixed_point f hwf hcf
  exact ⟨h.1, h.2.2.1, h.2.1, h.2.2.2.1, h.2.2.2.2⟩

/-- the normaliser is a projection -/
theorem frag_norm_idempotent (f : File) (hwf : f.wf = true) (hcf : f.cf = true) : f.norm.norm = f.norm :=
  file_norm_idem f hwf hcf

/-- `rec⏎ {⏎⏎⏎⇥a  =⏎⏎      [ 1⏎⏎[⏎⏎  ]⇥] ; b={c= x;};⏎⏎⏎}⏎⏎⏎` -/
def wsSample : File :=
  { items := .elem [] (.set true "\n ".toList
      (.bind "\n\n\n\t".toList "a".toList [] "  ".toList [] "\n\n      ".toList
          (.list (.elem " ".toList (.leaf .int "1".toList) (.elem "\n\n".toList (.list .nil "\n\n  ".toList) .nil)) "\t".toList) [] " ".toList
        (.bind " ".toList "b".toList [] [] [] [] (.set false [] (.bind [] "c".toList [] [] [] " ".toList (.leaf .ident "x".toList) [] [] .nil) [])
          [] [] .nil)) "\n\n\n".toList) .nil,
    endGap := "\n\n\n".toList }

example : wsSample.wf = true ∧ wsSample.cf = true ∧ wsSample.noLeadingWs = true := by decide
example : wsSample.norm.flatten =
    "rec {\n\n  a =\n\n      [\n        1\n\n        [\n\n        ]\n      ];\n  b = { c = x; };\n\n}\n\n".toList := by
  decide

/-- `f  (⏎⏎     g x⏎  )⏎⏎   [ (1) ]` -/
def callSample : File :=
  { items := .elem [] (.app (.app (.leaf .ident "f".toList) [] "  ".toList
      (.paren (.elem "\n\n     ".toList (.app (.leaf .ident "g".toList) [] " ".toList (.leaf .ident "x".toList)) .nil) "\n  ".toList))
      [] "\n\n   ".toList (.list (.elem " ".toList (.paren (.elem [] (.leaf .int "1".toList) .nil) []) .nil) " ".toList)) .nil,
    endGap := [] }

example : callSample.flatten = "f  (\n\n     g x\n  )\n\n   [ (1) ]".toList := by decide
example : callSample.wf = true ∧ callSample.cf = true ∧ callSample.noLeadingWs = true := by decide
example : callSample.norm.flatten = "f (\n\n     g x\n)\n\n   [ (1) ]".toList := by decide

/-- `{⏎  a = x:⏎⏎⏎     ! x. b.c⏎        or  d⏎⏎      +⏎⇥-y .e;⏎}⏎` -/
def opsCfSample : File :=
  { items := .elem [] (.set false [] (.bind "\n  ".toList "a".toList [] " ".toList [] " ".toList
      (.lam "x".toList [] [] [] "\n\n\n     ".toList
        (.bin (.un "!".toList [] " ".toList (.selOr (.leaf .ident "x".toList) [] [] " ".toList ["b".toList, "c".toList] []
            "\n        ".toList "  ".toList (.leaf .ident "d".toList)))
          [] "\n\n      ".toList "+".toList [] "\n\t".toList
          (.un "-".toList [] [] (.sel (.leaf .ident "y".toList) [] " ".toList [] ["e".toList]))))
      [] [] .nil) "\n".toList) .nil,
    endGap := "\n".toList }

example : opsCfSample.flatten = "{\n  a = x:\n\n\n     ! x. b.c\n        or  d\n\n      +\n\t-y .e;\n}\n".toList := by decide
example : opsCfSample.wf = true ∧ opsCfSample.cf = true ∧ opsCfSample.noLeadingWs = true := by decide
example : opsCfSample.norm.flatten = "{\n  a = x:\n\n\n  !x.b.c\n        or d\n\n  +\n    -y.e;\n}\n".toList := by decide

/-- fixed points of the model (line-level comments, canonical layout): decidable per file -/
def isFixedPoint (f : File) : Bool := decide (f.roundtrip = .ok f.flatten)

/-- `# h⏎{⏎  a = 1; # e⏎  # o⏎⏎  b = [⏎    x⏎  ];⏎}⏎` -/
def canonicalSample : File :=
  { items := .cmt [] "# h".toList (.elem "\n".toList
      (.set false [] (.bind "\n  ".toList "a".toList [] " ".toList [] " ".toList (.leaf .int "1".toList) [] []
        (.cmt " ".toList "# e".toList (.cmt "\n  ".toList "# o".toList
        (.bind "\n\n  ".toList "b".toList [] " ".toList [] " ".toList
          (.list (.elem "\n    ".toList (.leaf .ident "x".toList) .nil) "\n  ".toList) [] [] .nil)))) "\n".toList) .nil),
    endGap := "\n".toList }

example : canonicalSample.flatten = "# h\n{\n  a = 1; # e\n  # o\n\n  b = [\n    x\n  ];\n}\n".toList := by decide
example : canonicalSample.wf = true ∧ isFixedPoint canonicalSample = true := by decide

/-- `if a  ?⏎ b.c⏎⏎⏎then⏎  [ x ]⏎else { }`: the normaliser on `if` and has-attr -/
def ifCfSample : File :=
  { items := .elem []
      (.ite [] " ".toList (.has (.leaf .ident "a".toList) [] "  ".toList [] "\n ".toList ["b".toList, "c".toList])
        [] "\n\n\n".toList [] "\n  ".toList (.list (.elem " ".toList (.leaf .ident "x".toList) .nil) " ".toList)
        [] "\n".toList [] " ".toList (.set false [] .nil " ".toList)) .nil,
    endGap := [] }

example : ifCfSample.wf = true ∧ ifCfSample.cf = true ∧ ifCfSample.noLeadingWs = true := by decide
example : ifCfSample.norm.flatten = "if a ?\n b.c\n\nthen\n  [ x ]\nelse { }".toList := by decide
example : ifCfSample.roundtrip = .ok ifCfSample.norm.flatten := by decide

end Fragment

end Nima.C06
