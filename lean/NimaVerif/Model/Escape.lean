import NimaVerif.Model.Basic
/-!
L1 (a): string escaping (`primitive._escape_nix_string`) and the *spec* of how Nix reads the
body of a double-quoted string / attribute-name token (`decodeBody`, mirroring the Nix lexer rule
`([^\$\"\\]|\$[^\{\"\\]|\\{ANY}|\$\\{ANY})*`).
-/
namespace Nima

/-- The `if ch == …: escaped.append(…)` chain of `_escape_nix_string`, as a table.
    `Gen/Tables.lean` re-extracts it from the Python source on every run; `Props/C12.lean` proves the
    two equal (`decide`), so a change to the Python chain breaks a proof obligation. -/
def escapeTable : List (Char × Text) :=
  [('\\', ['\\', '\\']), ('"', ['\\', '"']), ('\n', ['\\', 'n']), ('\r', ['\\', 'r']),
   ('\t', ['\\', 't'])]

/-- The replacement emitted for `${` when `escape_interpolation` is set. -/
def interpEscape : Text := ['\\', '$', '{']

/-- `_escape_nix_string(value, escape_interpolation=interp)`. -/
def escapeNix (interp : Bool) : Text → Text
  | [] => []
  | '\\' :: cs => '\\' :: '\\' :: escapeNix interp cs
  | '"' :: cs => '\\' :: '"' :: escapeNix interp cs
  | '\n' :: cs => '\\' :: 'n' :: escapeNix interp cs
  | '\r' :: cs => '\\' :: 'r' :: escapeNix interp cs
  | '\t' :: cs => '\\' :: 't' :: escapeNix interp cs
  | '$' :: '{' :: cs =>
      if interp then '\\' :: '$' :: '{' :: escapeNix interp cs
      else '$' :: '{' :: escapeNix interp cs
  | c :: cs => c :: escapeNix interp cs

/-- Nix's reading of `\c` inside a double-quoted string. -/
def unescChar (c : Char) : Char :=
  if c = 'n' then '\n' else if c = 'r' then '\r' else if c = 't' then '\t' else c

/-- SPEC. How Nix reads the body (between the quotes) of a `"…"` token. `none`: the body
    contains an interpolation, an unescaped quote, or a dangling backslash. -/
def decodeBody : Text → Option Text
  | [] => some []
  | ['\\'] => none
  | '\\' :: c :: cs => (decodeBody cs).map (unescChar c :: ·)
  | '"' :: _ => none
  | '$' :: '{' :: _ => none
  | ['$'] => some ['$']
  | '$' :: c :: cs =>
      if c = '"' ∨ c = '\\' then (decodeBody (c :: cs)).map ('$' :: ·)
      else (decodeBody cs).map (fun r => '$' :: c :: r)
  | c :: cs => (decodeBody cs).map (c :: ·)
termination_by s => s.length

end Nima
