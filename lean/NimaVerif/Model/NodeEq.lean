import NimaVerif.Model.Doc
/-!
Boolean structural equality of `Node` (the `deriving DecidableEq` handler does not cover nested
inductive types). Lawfulness is proved in `Lemmas/NodeEq.lean`, which also provides the
`DecidableEq Node` / `DecidableEq Layer` instances used by decidable side conditions.
-/
namespace Nima
namespace Node

mutual
  def beq : Node → Node → Bool
    | atom a, atom b => a == b
    | ident a, ident b => a == b
    | set s vs o m r, set s' vs' o' m' r' =>
        s == s' && beqL vs vs' && beqL o o' && m == m' && r == r'
    | bind i n ne v b a, bind i' n' ne' v' b' a' =>
        i == i' && n == n' && ne == ne' && beq v v' && b == b' && a == a'
    | inherit i ns, inherit i' ns' => i == i' && ns == ns'
    | entry segs l b a, entry segs' l' b' a' => segs == segs' && beq l l' && b == b' && a == a'
    | _, _ => false
  def beqL : List Node → List Node → Bool
    | [], [] => true
    | x :: xs, y :: ys => beq x y && beqL xs ys
    | _, _ => false
end

end Node
end Nima
