"""Gen/Registry.lean: the shape of the context registry and of the scope-chain code (C10).

Extracted by role from nix_manipulator/resolution.py and expressions/identifier.py:

* registryKeyIsId      `_store_context` keys the module-level dict by `id(<its first parameter>)`
* registryWeakCallback the stored value is a tuple whose first element is `ref(<param>, <callback>)`
* registryGuardCallback the callback pops only under `<stored ref> is <callback parameter>`
* registryValidateGet  `_get_context` serves the context only under `<stored ref>() is <parameter>`
* registryPopsStale    … and pops the entry otherwise
* clearPopsId          `clear_resolution_context` pops `id(<parameter>)`
* scopeChainOrder      the order in which `scopes_for_owner` appends to the chain it returns:
                       inherited context, the owner's own let layers, the rec set itself, the with
                       environment, the call's parameter scope
* resolveInnermostFirst `_resolve_identifier` walks `reversed(scopes)`
"""
from __future__ import annotations

import ast

from .translate import ExtractError, Result, find_function, parse_file, run_table


def _names(node):
    return {n.id for n in ast.walk(node) if isinstance(n, ast.Name)}


def _module_dict_name(mod: ast.Module) -> str:
    """the module-level `X: dict[...] = {}`"""
    for st in mod.body:
        if isinstance(st, ast.AnnAssign) and isinstance(st.value, ast.Dict) and isinstance(st.target, ast.Name):
            return st.target.id
        if isinstance(st, ast.Assign) and isinstance(st.value, ast.Dict) and isinstance(st.targets[0], ast.Name):
            return st.targets[0].id
    raise ExtractError("no module-level registry dict in resolution.py")


def _is_id_of(node, param: str, aliases: dict[str, ast.AST]) -> bool:
    """node is `id(param)` or a local bound to it"""
    if isinstance(node, ast.Name) and node.id in aliases:
        node = aliases[node.id]
    return (isinstance(node, ast.Call) and isinstance(node.func, ast.Name) and node.func.id == "id"
            and len(node.args) == 1 and isinstance(node.args[0], ast.Name) and node.args[0].id == param)


def _local_aliases(fn: ast.FunctionDef) -> dict[str, ast.AST]:
    out = {}
    for st in ast.walk(fn):
        if isinstance(st, ast.Assign) and len(st.targets) == 1 and isinstance(st.targets[0], ast.Name):
            out[st.targets[0].id] = st.value
    return out


def _function_by_role(mod, name, pred):
    try:
        return find_function(mod, name)
    except ExtractError:
        for node in ast.walk(mod):
            if isinstance(node, ast.FunctionDef) and pred(node):
                return node
    raise ExtractError(f"function {name} not found (by name or role)")


def extract_registry() -> dict:
    mod = parse_file("resolution.py")
    reg = _module_dict_name(mod)

    # ---- store
    def stores(fn):
        return any(isinstance(n, ast.Subscript) and isinstance(n.ctx, ast.Store) and isinstance(n.value, ast.Name)
                   and n.value.id == reg for n in ast.walk(fn))

    store = _function_by_role(mod, "_store_context", stores)
    param = store.args.args[0].arg
    aliases = _local_aliases(store)
    key_is_id = False
    weak_cb = False
    cb_name = None
    for n in ast.walk(store):
        if isinstance(n, ast.Assign) and isinstance(n.targets[0], ast.Subscript):
            t = n.targets[0]
            if isinstance(t.value, ast.Name) and t.value.id == reg:
                key_is_id = _is_id_of(t.slice, param, aliases)
                v = n.value
                if isinstance(v, ast.Tuple) and v.elts and isinstance(v.elts[0], ast.Call):
                    c = v.elts[0]
                    fname = c.func.id if isinstance(c.func, ast.Name) else getattr(c.func, "attr", "")
                    if fname == "ref" and c.args and isinstance(c.args[0], ast.Name) and c.args[0].id == param:
                        if len(c.args) >= 2 and isinstance(c.args[1], ast.Name):
                            weak_cb = True
                            cb_name = c.args[1].id
    guard = False
    if cb_name is not None:
        cb = next((n for n in ast.walk(store) if isinstance(n, ast.FunctionDef) and n.name == cb_name), None)
        if cb is None:
            raise ExtractError("weak reference callback not found")
        cparam = cb.args.args[0].arg
        for n in ast.walk(cb):
            if isinstance(n, ast.If) and isinstance(n.test, ast.Compare) and len(n.test.ops) == 1 \
                    and isinstance(n.test.ops[0], ast.Is):
                sides = _names(n.test)
                pops = any(isinstance(c, ast.Call) and getattr(c.func, "attr", "") in ("pop", "__delitem__")
                           for b in n.body for c in ast.walk(b)) or any(isinstance(b, ast.Delete) for b in n.body)
                if cparam in sides and pops:
                    guard = True
        if not guard:
            # an unguarded pop anywhere in the callback
            pass

    # ---- get
    def gets(fn):
        return fn is not store and any(
            isinstance(n, ast.Call) and getattr(n.func, "attr", "") == "get" and isinstance(n.func.value, ast.Name)
            and n.func.value.id == reg for n in ast.walk(fn)) and not any(
            isinstance(x, ast.FunctionDef) for x in fn.body)

    get = _function_by_role(mod, "_get_context", gets)
    gparam = get.args.args[0].arg
    validate = False
    pops_stale = False
    for n in ast.walk(get):
        if isinstance(n, ast.If) and isinstance(n.test, ast.Compare) and len(n.test.ops) == 1 \
                and isinstance(n.test.ops[0], ast.Is):
            left, right = n.test.left, n.test.comparators[0]
            call, name = (left, right) if isinstance(left, ast.Call) else (right, left)
            if isinstance(call, ast.Call) and not call.args and isinstance(name, ast.Name) and name.id == gparam:
                returns = any(isinstance(b, ast.Return) and b.value is not None for b in n.body)
                if returns:
                    validate = True
    # statements after the validating `if` (or its else) pop the entry
    for n in ast.walk(get):
        if isinstance(n, ast.Call) and getattr(n.func, "attr", "") == "pop" and isinstance(n.func.value, ast.Name) \
                and n.func.value.id == reg:
            pops_stale = True
    # an unconditional `return context` defeats the validation
    for st in get.body:
        if isinstance(st, ast.Return) and st.value is not None and not (
                isinstance(st.value, ast.Constant) and st.value.value is None):
            idx = get.body.index(st)
            guarded_before = any(isinstance(b, ast.If) and any(isinstance(x, ast.Return) for x in ast.walk(b))
                                 for b in get.body[:idx])
            if not validate or not guarded_before:
                validate = False

    # ---- clear
    def clears(fn):
        return fn.name.startswith("clear") and any(
            isinstance(n, ast.Call) and getattr(n.func, "attr", "") == "pop" for n in ast.walk(fn))

    clear = _function_by_role(mod, "clear_resolution_context", clears)
    cparam = clear.args.args[0].arg
    cal = _local_aliases(clear)
    clear_pops = any(
        isinstance(n, ast.Call) and getattr(n.func, "attr", "") == "pop" and isinstance(n.func.value, ast.Name)
        and n.func.value.id == reg and n.args and _is_id_of(n.args[0], cparam, cal) for n in ast.walk(clear))
    return {"keyIsId": key_is_id, "weakCallback": weak_cb, "guardCallback": guard, "validateGet": validate,
            "popsStale": pops_stale, "clearPopsId": clear_pops}


def extract_chain_order() -> list[str]:
    """kinds of scopes in the order `scopes_for_owner` adds them to the list it returns"""
    mod = parse_file("resolution.py")
    fn = find_function(mod, "scopes_for_owner")
    ret = None
    for st in fn.body:
        if isinstance(st, ast.Return):
            ret = st.value
    if ret is None:
        raise ExtractError("scopes_for_owner: no return")
    names = [n.id for n in ast.walk(ret) if isinstance(n, ast.Name) and n.id != "tuple"]
    if len(names) != 1:
        raise ExtractError("scopes_for_owner: cannot identify the returned list")
    var = names[0]
    order: list[str] = []

    def guard_kind(test) -> str | None:
        ids = _names(test)
        attrs = {n.attr for n in ast.walk(test) if isinstance(n, ast.Attribute)}
        if "AttributeSet" in ids and "recursive" in attrs:
            return "rec"
        if "WithStatement" in ids:
            return "with"
        if "FunctionCall" in ids:
            return "call"
        return None

    def adds(st) -> ast.Call | None:
        for n in ast.walk(st):
            if isinstance(n, ast.Call) and isinstance(n.func, ast.Attribute) and n.func.attr in ("append", "extend") \
                    and isinstance(n.func.value, ast.Name) and n.func.value.id == var:
                return n
        return None

    def visit(stmts, kind):
        for st in stmts:
            if isinstance(st, (ast.FunctionDef, ast.ImportFrom, ast.Import)):
                continue
            if isinstance(st, ast.If):
                k = guard_kind(st.test) or kind
                if k is None and adds(st) is not None:
                    c = adds(st)
                    arg = _names(c.args[0]) if c.args else set()
                    k = "inherited" if any("inherit" in a for a in arg) else "own"
                    order.append(k)
                    continue
                visit(st.body, k)
                visit(st.orelse, k)
                continue
            c = adds(st) if isinstance(st, ast.Expr) else None
            if c is not None:
                if kind is not None:
                    if not order or order[-1] != kind:
                        order.append(kind)
                else:
                    arg = _names(c.args[0]) if c.args else set()
                    order.append("inherited" if any("inherit" in a for a in arg) else "own")

    visit(fn.body, None)
    return order


def extract_innermost_first() -> bool:
    mod = parse_file("expressions/identifier.py")
    fn = find_function(mod, "_resolve_identifier")
    param = fn.args.args[1].arg
    # the loop variable list must be built from reversed(<scopes parameter>)
    for n in ast.walk(fn):
        if isinstance(n, ast.Call) and isinstance(n.func, ast.Name) and n.func.id == "reversed" and n.args \
                and isinstance(n.args[0], ast.Name) and n.args[0].id == param:
            return True
    return False


def _opt_bool(v) -> str:
    return "none" if v is None else f"some {'true' if v else 'false'}"


def emit(res: Result) -> dict[str, str]:
    out = [
        "/- GENERATED by harness/translate/translate.py from /repo on every run. Do not edit. -/",
        "namespace Nima.Gen",
        "",
    ]
    reg = run_table(res, "registry", extract_registry)
    for field in ("keyIsId", "weakCallback", "guardCallback", "validateGet", "popsStale", "clearPopsId"):
        name = "registry" + field[0].upper() + field[1:]
        out.append(f"def {name} : Option Bool := {_opt_bool(None if reg is None else reg[field])}")
    order = run_table(res, "scope_chain", extract_chain_order)
    if order is None:
        out.append("def scopeChainOrder : Option (List String) := none")
    else:
        out.append("def scopeChainOrder : Option (List String) := some [" + ", ".join(f'"{k}"' for k in order) + "]")
    inner = run_table(res, "resolve_order", extract_innermost_first)
    out.append(f"def resolveInnermostFirst : Option Bool := {_opt_bool(inner)}")
    out += ["", "end Nima.Gen", ""]
    return {"Registry.lean": "\n".join(out)}
