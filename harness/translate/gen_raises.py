"""Gen/Raises.lean: explicit raise sites of nix_manipulator/** and what can escape parse + rebuild (C20).

* every `raise X(...)` / `raise X` / `assert` (AssertionError) site with its enclosing function;
* a call graph: `self.m()` / `cls.m()` through the class's MRO, `Class.m()`, module-level and imported
  functions, nested functions, constructors (`__init__`/`__post_init__`/`__new__`), properties read
  through `self`; any other `x.m()` (and `x.prop` for package properties) by name over all classes —
  which is how the `from_cst` / `rebuild` dispatch is followed;
* `try/except` in the caller filters what propagates through the calls (and raises) in its body;
* roots: `parse`, `parse_to_ast`, every `from_cst`, every `rebuild`, `tree_sitter_node_to_expression`,
  `parse_let_expression`.

Not followed: operator dispatch (`x[k]`, `x + y`, `==`, iteration), `getattr` strings, callbacks stored
in data. Implicit exceptions (IndexError from `xs[-1]`, AttributeError on None, TypeError from a wrong
argument, StopIteration from `next`) have no raise site: they are covered by the exception-class oracle
of the check on generated inputs, not by this table.
"""
from __future__ import annotations

import ast
import builtins

from .translate import PKG, ExtractError, Result, lean_str, run_table

ROOT_FUNCS = {"parse", "parse_to_ast", "tree_sitter_node_to_expression", "parse_let_expression"}
ROOT_METHODS = {"from_cst", "rebuild"}
CTOR = ("__new__", "__init__", "__post_init__")


class Fn:
    def __init__(self, fid, module, cls, node, parent):
        self.fid, self.module, self.cls, self.node, self.parent = fid, module, cls, node, parent
        self.nested: dict[str, "Fn"] = {}
        self.raises: list[tuple[str, int, frozenset]] = []  # (class, line, caught-by-enclosing-try)
        self.edges: list[tuple[str, frozenset]] = []  # (callee fid, caught)
        self.is_property = False


def exc_name(node):
    if node is None:
        return None
    if isinstance(node, ast.Call):
        node = node.func
    if isinstance(node, ast.Name):
        return node.id
    if isinstance(node, ast.Attribute):
        return node.attr
    return None


def load_all():
    mods = {}
    files = sorted(PKG.rglob("*.py"))
    if not files:
        raise ExtractError("no sources under nix_manipulator")
    for p in files:
        rel = str(p.relative_to(PKG))
        try:
            mods[rel] = ast.parse(p.read_text(encoding="utf-8"), filename=str(p))
        except SyntaxError as exc:
            raise ExtractError(f"cannot parse {rel}: {exc}")
    return mods


def module_of(dotted: str) -> str | None:
    """nix_manipulator.expressions.set -> expressions/set.py"""
    if not dotted.startswith("nix_manipulator"):
        return None
    parts = dotted.split(".")[1:]
    if not parts:
        return "__init__.py"
    cand = "/".join(parts) + ".py"
    if (PKG / cand).exists():
        return cand
    cand = "/".join(parts) + "/__init__.py"
    if (PKG / cand).exists():
        return cand
    return None


def build():
    mods = load_all()
    fns: dict[str, Fn] = {}
    classes: dict[str, dict] = {}  # class name -> {module, bases, methods{name: fid}, props:set}
    mod_funcs: dict[str, dict[str, str]] = {}  # module -> name -> fid
    mod_imports: dict[str, dict[str, tuple[str, str]]] = {}  # module -> local name -> (module, name)
    exc_bases: dict[str, list[str]] = {}

    def add_fn(fid, module, cls, node, parent):
        fn = Fn(fid, module, cls, node, parent)
        fn.is_property = any(
            (isinstance(d, ast.Name) and d.id == "property") or (isinstance(d, ast.Attribute) and d.attr in ("setter", "getter"))
            for d in node.decorator_list
        )
        fns[fid] = fn
        for sub in iter_defs(node.body):
            child = add_fn(f"{fid}>{sub.name}", module, cls, sub, fn)
            fn.nested[sub.name] = child
        return fn

    def iter_defs(body):
        """function definitions directly inside `body` (through if/for/with/try, not through defs)"""
        todo = list(body)
        while todo:
            n = todo.pop(0)
            if isinstance(n, (ast.FunctionDef, ast.AsyncFunctionDef)):
                yield n
                continue
            if isinstance(n, (ast.ClassDef, ast.Lambda)):
                continue
            for ch in ast.iter_child_nodes(n):
                if isinstance(ch, (ast.stmt, ast.ExceptHandler, ast.match_case)):
                    todo.append(ch)

    for rel, mod in mods.items():
        mod_funcs[rel] = {}
        imports = mod_imports[rel] = {}
        for n in ast.walk(mod):
            if isinstance(n, ast.ImportFrom) and n.module:
                target = module_of(n.module)
                if target:
                    for a in n.names:
                        imports[a.asname or a.name] = (target, a.name)
        for n in mod.body:
            if isinstance(n, (ast.FunctionDef, ast.AsyncFunctionDef)):
                fid = f"{rel}:{n.name}"
                add_fn(fid, rel, None, n, None)
                mod_funcs[rel][n.name] = fid
            elif isinstance(n, ast.ClassDef):
                bases = [exc_name(b) or "?" for b in n.bases]
                info = classes.setdefault(n.name, {"module": rel, "bases": bases, "methods": {}, "props": set()})
                exc_bases[n.name] = bases
                for m in n.body:
                    if isinstance(m, (ast.FunctionDef, ast.AsyncFunctionDef)):
                        fid = f"{rel}:{n.name}.{m.name}"
                        if fid in fns:  # property setter after getter: keep both bodies reachable
                            fid = fid + "#set"
                        fn = add_fn(fid, rel, n.name, m, None)
                        info["methods"].setdefault(m.name, []).append(fid)
                        if fn.is_property:
                            info["props"].add(m.name)

    def mro(cls):
        out, todo = [], [cls]
        while todo:
            c = todo.pop(0)
            if c in out or c not in classes:
                continue
            out.append(c)
            todo += classes[c]["bases"]
        return out

    def method(cls, name):
        for c in mro(cls):
            if name in classes[c]["methods"]:
                return classes[c]["methods"][name]
        return []

    by_name: dict[str, list[str]] = {}
    props_by_name: dict[str, list[str]] = {}
    for cname, info in classes.items():
        for m, fids in info["methods"].items():
            (props_by_name if m in info["props"] else by_name).setdefault(m, []).extend(fids)

    def ancestors(exc: str) -> list[str]:
        out, todo = [], [exc]
        while todo:
            c = todo.pop(0)
            if c in out:
                continue
            out.append(c)
            if c in exc_bases:
                todo += exc_bases[c]
            else:
                b = getattr(builtins, c, None)
                if isinstance(b, type) and issubclass(b, BaseException):
                    todo += [k.__name__ for k in b.__mro__[1:] if k is not object]
        return out

    def resolve_name(fn: Fn, name: str) -> list[str]:
        f = fn
        while f is not None:
            if name in f.nested:
                return [f.nested[name].fid]
            f = f.parent
        if name in mod_funcs[fn.module]:
            return [mod_funcs[fn.module][name]]
        if name in ("cls",) and fn.cls:
            return [x for c in CTOR for x in method(fn.cls, c)]
        target = None
        if name in mod_imports[fn.module]:
            target = mod_imports[fn.module][name]
        if target is not None:
            tmod, tname = target
            if tname in mod_funcs.get(tmod, {}):
                return [mod_funcs[tmod][tname]]
            if tname in classes:
                return [x for c in CTOR for x in method(tname, c)]
            # re-export (`from nix_manipulator.parser import parse` in __init__)
            if tname in mod_imports.get(tmod, {}):
                t2 = mod_imports[tmod][tname]
                if t2[1] in mod_funcs.get(t2[0], {}):
                    return [mod_funcs[t2[0]][t2[1]]]
            return []
        if name in classes:
            return [x for c in CTOR for x in method(name, c)]
        return []

    def class_ref(fn: Fn, node) -> str | None:
        """`Identifier` in `Identifier.from_cst(...)`"""
        if isinstance(node, ast.Name):
            if node.id in classes and (node.id in mod_imports[fn.module] or classes[node.id]["module"] == fn.module):
                return node.id
            imp = mod_imports[fn.module].get(node.id)
            if imp and imp[1] in classes:
                return imp[1]
        return None

    def scan(fn: Fn):
        def visit(n, caught: frozenset):
            if isinstance(n, (ast.FunctionDef, ast.AsyncFunctionDef, ast.ClassDef)) and n is not fn.node:
                return
            if isinstance(n, ast.Lambda):
                pass  # lambda bodies run when called; treat as part of the function
            if isinstance(n, ast.Try):
                names = set()
                for h in n.handlers:
                    if h.type is None:
                        names.add("BaseException")
                    elif isinstance(h.type, ast.Tuple):
                        names.update(exc_name(t) or "?" for t in h.type.elts)
                    else:
                        names.add(exc_name(h.type) or "?")
                for s in n.body:
                    visit(s, caught | frozenset(names))
                for h in n.handlers:
                    for s in h.body:
                        visit(s, caught)
                for s in n.orelse + n.finalbody:
                    visit(s, caught)
                return
            if isinstance(n, ast.Raise):
                name = exc_name(n.exc)
                if name is not None:
                    fn.raises.append((name, n.lineno, caught))
            if isinstance(n, ast.Assert):
                fn.raises.append(("AssertionError", n.lineno, caught))
            if isinstance(n, ast.Call):
                f = n.func
                targets: list[str] = []
                if isinstance(f, ast.Name):
                    targets = resolve_name(fn, f.id)
                elif isinstance(f, ast.Attribute):
                    m = f.attr
                    recv = f.value
                    if isinstance(recv, ast.Name) and recv.id in ("self", "cls") and fn.cls:
                        targets = method(fn.cls, m) or by_name.get(m, [])
                    elif isinstance(recv, ast.Call) and isinstance(recv.func, ast.Name) and recv.func.id == "super" and fn.cls:
                        for c in mro(fn.cls)[1:]:
                            if m in classes[c]["methods"]:
                                targets = classes[c]["methods"][m]
                                break
                    else:
                        cref = class_ref(fn, recv)
                        if cref is not None:
                            targets = method(cref, m)
                        else:
                            targets = by_name.get(m, [])
                for t in targets:
                    fn.edges.append((t, caught))
            if isinstance(n, ast.Attribute) and isinstance(n.ctx, ast.Load) and n.attr in props_by_name:
                recv = n.value
                if isinstance(recv, ast.Name) and recv.id == "self" and fn.cls:
                    ts = [x for x in method(fn.cls, n.attr)] if any(
                        n.attr in classes[c]["props"] for c in mro(fn.cls)) else []
                else:
                    ts = props_by_name[n.attr]
                for t in ts:
                    fn.edges.append((t, caught))
            for ch in ast.iter_child_nodes(n):
                visit(ch, caught)

        for s in fn.node.body:
            visit(s, frozenset())
        for child in fn.nested.values():
            fn.edges.append((child.fid, frozenset()))  # a nested function is (conservatively) called

    for fn in fns.values():
        scan(fn)

    roots = []
    for fid, fn in fns.items():
        name = fn.node.name
        if fn.parent is None and ((fn.cls is None and name in ROOT_FUNCS) or (fn.cls is not None and name in ROOT_METHODS)):
            roots.append(fid)
    if not roots or not any(f.endswith(":parse") for f in roots):
        raise ExtractError("entry points (parse, from_cst, rebuild) not found")

    def catches(caught: frozenset, exc: str) -> bool:
        anc = ancestors(exc)
        return any(c in anc for c in caught)

    # escaping(F) = own uncaught raises ∪ (escaping(callee) − caught at the call), least fixpoint
    esc: dict[str, set] = {fid: set() for fid in fns}
    for fid, fn in fns.items():
        for name, line, caught in fn.raises:
            if not catches(caught, name):
                esc[fid].add((name, fid, line))
    changed = True
    while changed:
        changed = False
        for fid, fn in fns.items():
            for callee, caught in fn.edges:
                for item in esc.get(callee, ()):
                    if item not in esc[fid] and not catches(caught, item[0]):
                        esc[fid].add(item)
                        changed = True
    reach = set()
    todo = list(roots)
    while todo:
        f = todo.pop()
        if f in reach:
            continue
        reach.add(f)
        todo += [c for c, _ in fns[f].edges if c in fns]
    partial = sorted(set(x for fid in reach for x in partial_sites(fns[fid])))
    escaping_sites = set()
    for r in roots:
        escaping_sites |= esc[r]
    all_sites = sorted(
        (name, fid, line, fid in reach) for fid, fn in fns.items() for name, line, _c in fn.raises
    )
    names = sorted({s[0] for s in all_sites} | set(exc_bases))
    hier = {n: ancestors(n) for n in names if "BaseException" in ancestors(n)}
    return {
        "sites": all_sites,
        "escaping_sites": sorted((n, f) for n, f, _l in escaping_sites),
        "escaping": sorted({n for n, _f, _l in escaping_sites}),
        "hierarchy": hier,
        "partial": partial,
        "roots": sorted(roots),
        "functions": len(fns),
        "reachable": len(reach),
    }


SAFE_SEQ_CALLS = {"split", "rsplit", "partition", "rpartition"}
EXITS = (ast.Return, ast.Raise, ast.Continue, ast.Break)


def partial_sites(fn: Fn) -> list[tuple[str, str, str]]:
    """Unguarded partial operations in one function: `xs[<const>]` and one-argument `next(it)`.

    A site is *guarded* when the sequence expression (compared textually) occurs in the test of an
    enclosing `if`/`while`/conditional expression/`and` chain/comprehension condition, or in the test
    of an earlier `if` of an enclosing block whose body leaves (`raise`/`return`/`continue`/`break`),
    or — for `next` — when it sits in a `try` that handles StopIteration. `s.split(..)[i]` and friends
    are total for i in {0, -1}, also through a local that is only ever assigned such a call or a
    non-empty list literal and never shrunk. -> (kind, function, source text)"""
    out = []

    # local names that only ever hold a non-empty sequence: `x = s.split(..)`, `x = [a, …]`
    assigned: dict[str, list] = {}
    for n in ast.walk(fn.node):
        if isinstance(n, ast.Assign):
            for t in n.targets:
                if isinstance(t, ast.Subscript) and not isinstance(t.slice, ast.Slice):
                    continue  # `x[i] = v` keeps the length
                for y in ast.walk(t):
                    if isinstance(y, ast.Name):
                        assigned.setdefault(y.id, []).append(n.value if t is y else None)
        elif isinstance(n, (ast.AnnAssign, ast.AugAssign, ast.NamedExpr)) and isinstance(n.target, ast.Name):
            assigned.setdefault(n.target.id, []).append(n.value if isinstance(n, ast.AnnAssign) else None)
        elif isinstance(n, (ast.For, ast.comprehension)):
            for y in ast.walk(n.target):
                if isinstance(y, ast.Name):
                    assigned.setdefault(y.id, []).append(None)
    params = {a.arg for a in fn.node.args.posonlyargs + fn.node.args.args + fn.node.args.kwonlyargs}

    def nonempty_value(v) -> bool:
        if isinstance(v, (ast.List, ast.Tuple)) and v.elts and not any(isinstance(e, ast.Starred) for e in v.elts):
            return True
        return (isinstance(v, ast.Call) and isinstance(v.func, ast.Attribute) and v.func.attr in SAFE_SEQ_CALLS)

    nonempty_names = {
        name for name, vals in assigned.items()
        if name not in params and vals and all(v is not None and nonempty_value(v) for v in vals)
    }
    # shrinking mutations (`x.pop()`, `del x[i]`, `x.clear()`, `x.remove(..)`) void the guarantee
    for n in ast.walk(fn.node):
        if isinstance(n, ast.Call) and isinstance(n.func, ast.Attribute) and isinstance(n.func.value, ast.Name) \
                and n.func.attr in ("pop", "clear", "remove"):
            nonempty_names.discard(n.func.value.id)
        if isinstance(n, ast.Delete):
            for t in n.targets:
                for y in ast.walk(t):
                    if isinstance(y, ast.Name):
                        nonempty_names.discard(y.id)

    def mentions(test, target: str) -> bool:
        return target in ast.unparse(test)

    def visit(n, guards: list):
        if isinstance(n, (ast.FunctionDef, ast.AsyncFunctionDef, ast.ClassDef)) and n is not fn.node:
            return
        if isinstance(n, ast.Subscript) and isinstance(n.ctx, ast.Load):
            idx = n.slice
            if isinstance(idx, ast.UnaryOp) and isinstance(idx.op, ast.USub) and isinstance(idx.operand, ast.Constant):
                idx = ast.Constant(value=-idx.operand.value)
            if isinstance(idx, ast.Constant) and isinstance(idx.value, int):
                base = n.value
                safe = idx.value in (0, -1) and (
                    (isinstance(base, ast.Call) and isinstance(base.func, ast.Attribute)
                     and base.func.attr in SAFE_SEQ_CALLS)
                    or (isinstance(base, ast.Name) and base.id in nonempty_names))
                target = ast.unparse(base)
                if not safe and not any(mentions(g, target) for g in guards):
                    out.append(("index", fn.fid, ast.unparse(n)))
        if isinstance(n, ast.Call) and isinstance(n.func, ast.Name) and n.func.id == "next" and len(n.args) == 1 \
                and not n.keywords:
            if not any(isinstance(g, str) and g == "StopIteration" for g in guards):
                out.append(("next", fn.fid, ast.unparse(n)))
        # guard-introducing constructs
        if isinstance(n, (ast.If, ast.While)):
            visit(n.test, guards)
            for s_ in n.body:
                pass
            block(n.body, guards + [n.test])
            block(n.orelse, guards + [n.test])
            return
        if isinstance(n, ast.IfExp):
            visit(n.test, guards)
            visit(n.body, guards + [n.test])
            visit(n.orelse, guards + [n.test])
            return
        if isinstance(n, ast.BoolOp):
            acc = list(guards)
            for v in n.values:
                visit(v, acc)
                acc = acc + [v]
            return
        if isinstance(n, (ast.ListComp, ast.SetComp, ast.GeneratorExp, ast.DictComp)):
            acc = list(guards)
            for g in n.generators:
                visit(g.iter, acc)
                for c in g.ifs:
                    visit(c, acc)
                    acc = acc + [c]
            for part in ([n.key, n.value] if isinstance(n, ast.DictComp) else [n.elt]):
                visit(part, acc)
            return
        if isinstance(n, ast.Try):
            names = []
            for h in n.handlers:
                if h.type is None:
                    names += ["StopIteration"]
                else:
                    ts = h.type.elts if isinstance(h.type, ast.Tuple) else [h.type]
                    for t in ts:
                        nm = exc_name(t)
                        if nm in ("StopIteration", "Exception", "BaseException"):
                            names.append("StopIteration")
            block(n.body, guards + names)
            for h in n.handlers:
                block(h.body, guards)
            block(n.orelse, guards)
            block(n.finalbody, guards)
            return
        if isinstance(n, (ast.For, ast.AsyncFor)):
            visit(n.iter, guards)
            block(n.body, guards)
            block(n.orelse, guards)
            return
        if isinstance(n, (ast.With, ast.AsyncWith)):
            for it in n.items:
                visit(it.context_expr, guards)
            block(n.body, guards)
            return
        for ch in ast.iter_child_nodes(n):
            visit(ch, guards)

    def block(stmts, guards: list):
        acc = list(guards)
        for st in stmts:
            visit(st, acc)
            # `if <test>: … raise/return/continue/break` guards what follows in this block
            if isinstance(st, ast.If) and st.body and isinstance(st.body[-1], EXITS):
                acc = acc + [st.test]
            if isinstance(st, ast.Assert):
                acc = acc + [st.test]

    block(fn.node.body, [])
    return out


def extract() -> dict:
    return build()


def emit(res: Result) -> dict[str, str]:
    out = [
        "/- GENERATED by harness/translate/gen_raises.py from /repo on every run. Do not edit. -/",
        "namespace Nima.Gen",
        "",
    ]
    data = run_table(res, "raises", extract)
    if data is None:
        out += [
            "def raiseSites : Option (List (String × String × Bool)) := none",
            "def escapingSites : Option (List (String × String)) := none",
            "def escapingClasses : Option (List String) := none",
            "def excAncestors : Option (List (String × List String)) := none",
            "def partialSites : Option (List (String × String × String)) := none",
        ]
    else:
        seen = set()
        rows = []
        for name, fid, _line, reach in data["sites"]:
            if (name, fid) in seen:
                continue
            seen.add((name, fid))
            rows.append(f"({lean_str(name)}, {lean_str(fid)}, {'true' if reach else 'false'})")
        out += [
            "/-- (exception class, enclosing function, reachable from parse/from_cst/rebuild by the call graph) -/",
            "def raiseSites : Option (List (String × String × Bool)) := some [\n  " + ",\n  ".join(rows) + "]",
            "/-- sites whose exception is not caught on some call path from an entry point -/",
            "def escapingSites : Option (List (String × String)) := some [\n  "
            + ",\n  ".join(f"({lean_str(n)}, {lean_str(f)})" for n, f in sorted(set(data["escaping_sites"]))) + "]",
            "def escapingClasses : Option (List String) := some ["
            + ", ".join(lean_str(n) for n in data["escaping"]) + "]",
            "def excAncestors : Option (List (String × List String)) := some [\n  "
            + ",\n  ".join(
                f"({lean_str(n)}, [{', '.join(lean_str(a) for a in anc)}])" for n, anc in sorted(data["hierarchy"].items())
            ) + "]",
            "/-- unguarded partial operations (`xs[<const>]`, one-argument `next`) in reachable functions:"
            " (kind, function, source text) -/",
            "def partialSites : Option (List (String × String × String)) := some [\n  "
            + ",\n  ".join(f"({lean_str(k)}, {lean_str(f)}, {lean_str(t)})" for k, f, t in data["partial"]) + "]",
        ]
    out += ["", "end Nima.Gen", ""]
    return {"Raises.lean": "\n".join(out)}


if __name__ == "__main__":
    d = extract()
    print("functions", d["functions"], "reachable", d["reachable"], "roots", len(d["roots"]))
    print("escaping classes:", d["escaping"])
    from collections import Counter

    print(Counter(n for n, _f in d["escaping_sites"]))
    for n, f in d["escaping_sites"]:
        if n not in ("ValueError",):
            print("  ", n, f)
    print(d["hierarchy"])
    for x in d["partial"]:
        print("  partial", x)
