import NimaVerif.Model.DataReader
import NimaVerif.Lemmas.Escape
import NimaVerif.Model.Value
/-! Lemmas about the SPEC data reader (`lexStep`, `lexData`, `pElem`, …). -/
namespace Nima

theorem scanStr_length : ∀ (s b r : Text), scanStr s = some (b, r) → r.length < s.length := by
  intro s
  induction s using scanStr.induct with
  | case1 => intro b r h; simp [scanStr] at h
  | case2 rest => intro b r h; simp [scanStr] at h; obtain ⟨_, rfl⟩ := h; simp
  | case3 c cs ih =>
    intro b r h
    simp only [scanStr, Option.map_eq_some_iff] at h
    obtain ⟨⟨b', r'⟩, h1, h2⟩ := h
    simp only [Prod.mk.injEq] at h2
    obtain ⟨_, rfl⟩ := h2
    have := ih b' r' h1
    simp; omega
  | case4 c cs hq hb ih =>
    intro b r h
    rw [scanStr.eq_4 c cs hq hb] at h
    simp only [Option.map_eq_some_iff] at h
    obtain ⟨⟨b', r'⟩, h1, h2⟩ := h
    simp only [Prod.mk.injEq] at h2
    obtain ⟨_, rfl⟩ := h2
    have := ih b' r' h1
    simp; omega


theorem isNumChar_of_start (c : Char) (h : (isAsciiDigit c || decide (c = '.')) = true) : isNumChar c = true := by
  simp only [Bool.or_eq_true, decide_eq_true_eq] at h
  rcases h with h | h
  · simp [isNumChar, h]
  · subst h; decide

theorem lexStep_length (s : Text) (t : Option Tok) (rest : Text) (h : lexStep s = some (t, rest)) :
    rest.length < s.length := by
  cases s with
  | nil => simp [lexStep] at h
  | cons c cs =>
    simp only [lexStep] at h
    have easy : ∀ (x : Option Tok), some (x, cs) = some (t, rest) → rest.length < (c :: cs).length := by
      intro x hx
      simp only [Option.some.injEq, Prod.mk.injEq] at hx
      obtain ⟨_, rfl⟩ := hx
      simp
    by_cases hc0 : isWs c = true
    · rw [if_pos hc0] at h; exact easy _ h
    rw [if_neg hc0] at h
    by_cases hc1 : c = '['
    · rw [if_pos hc1] at h; exact easy _ h
    rw [if_neg hc1] at h
    by_cases hc2 : c = ']'
    · rw [if_pos hc2] at h; exact easy _ h
    rw [if_neg hc2] at h
    by_cases hc3 : c = '{'
    · rw [if_pos hc3] at h; exact easy _ h
    rw [if_neg hc3] at h
    by_cases hc4 : c = '}'
    · rw [if_pos hc4] at h; exact easy _ h
    rw [if_neg hc4] at h
    by_cases hc5 : c = '='
    · rw [if_pos hc5] at h; exact easy _ h
    rw [if_neg hc5] at h
    by_cases hc6 : c = ';'
    · rw [if_pos hc6] at h; exact easy _ h
    rw [if_neg hc6] at h
    by_cases hc7 : c = '('
    · rw [if_pos hc7] at h; exact easy _ h
    rw [if_neg hc7] at h
    by_cases hc8 : c = ')'
    · rw [if_pos hc8] at h; exact easy _ h
    rw [if_neg hc8] at h
    by_cases hc9 : c = '-'
    · rw [if_pos hc9] at h; exact easy _ h
    rw [if_neg hc9] at h
    by_cases hq : c = '"'
    · rw [if_pos hq] at h
      split at h
      · cases h
      · rename_i body rest' hs
        split at h
        · simp only [Option.map_eq_some_iff, Prod.mk.injEq] at h
          obtain ⟨_, _, _, rfl⟩ := h
          have := scanStr_length _ _ _ hs
          simp; omega
        · cases h
    rw [if_neg hq] at h
    by_cases hstart : (isAsciiDigit c || decide (c = '.')) = true
    · rw [if_pos hstart] at h
      have hnc := isNumChar_of_start c hstart
      have hlen : (List.dropWhile isNumChar (c :: cs)).length ≤ cs.length := by
        rw [List.dropWhile_cons_of_pos hnc]
        exact (List.dropWhile_sublist (l := cs) isNumChar).length_le
      split at h
      · cases h
      split at h
      · split at h
        · simp only [Option.some.injEq, Prod.mk.injEq] at h
          obtain ⟨_, rfl⟩ := h
          simp only [List.length_cons]; omega
        · cases h
      split at h
      · simp only [Option.some.injEq, Prod.mk.injEq] at h
        obtain ⟨_, rfl⟩ := h
        simp only [List.length_cons]; omega
      · cases h
    rw [if_neg hstart] at h
    split at h
    · split at h
      · simp only [Option.some.injEq, Prod.mk.injEq] at h
        obtain ⟨_, rfl⟩ := h
        have := (List.dropWhile_sublist (l := cs) nixIdentRest).length_le
        simp only [List.length_cons]; omega
      · cases h
    · cases h

theorem lexF_fuel : ∀ (n m : Nat) (s : Text), s.length < n → s.length < m → lexF n s = lexF m s := by
  intro n
  induction n with
  | zero => intro m s h; omega
  | succ n ih =>
    intro m s hn hm
    cases m with
    | zero => omega
    | succ m =>
      cases s with
      | nil => simp [lexF]
      | cons c cs =>
        simp only [lexF]
        cases hstep : lexStep (c :: cs) with
        | none => rfl
        | some p =>
          obtain ⟨t, rest⟩ := p
          have hl := lexStep_length _ _ _ hstep
          simp only [List.length_cons] at hl hn hm
          simp only
          rw [ih m rest (by omega) (by omega)]

theorem lexData_nil : lexData [] = some [] := by simp [lexData, lexF]

theorem lexData_step (s : Text) (t : Option Tok) (rest : Text) (h : lexStep s = some (t, rest)) :
    lexData s = (lexData rest).map (t.toList ++ ·) := by
  cases s with
  | nil => simp [lexStep] at h
  | cons c cs =>
    have hl := lexStep_length _ _ _ h
    simp only [lexData, lexF, h, List.length_cons]
    rw [lexF_fuel (cs.length + 1) (rest.length + 1) rest (by simp at hl; omega) (by omega)]


/-! ### character classes -/

theorem isAsciiDigit_toNat (c : Char) : isAsciiDigit c = true ↔ 48 ≤ c.toNat ∧ c.toNat ≤ 57 := by
  simp only [isAsciiDigit, Bool.and_eq_true, decide_eq_true_eq, Char.le_def, Char.toNat]
  have h0 : ('0' : Char).val.toNat = 48 := by decide
  have h9 : ('9' : Char).val.toNat = 57 := by decide
  rw [UInt32.le_iff_toNat_le, UInt32.le_iff_toNat_le, h0, h9]

theorem isAsciiDigit_eq_isDigit (c : Char) : isAsciiDigit c = c.isDigit := by
  have h0 : ('0' : Char).val = 48 := by decide
  have h9 : ('9' : Char).val = 57 := by decide
  simp only [isAsciiDigit, Char.isDigit, Char.le_def, h0, h9, ge_iff_le]

theorem identStart_toNat (c : Char) : identStart c = true ↔
    (65 ≤ c.toNat ∧ c.toNat ≤ 90) ∨ c.toNat = 95 ∨ (97 ≤ c.toNat ∧ c.toNat ≤ 122) := by
  simp [identStart, inRanges, identStartRanges]
  omega

theorem identStart_not_digit (c : Char) (h : identStart c = true) : isAsciiDigit c = false := by
  cases hd : isAsciiDigit c with
  | false => rfl
  | true =>
    rw [isAsciiDigit_toNat] at hd
    rw [identStart_toNat] at h
    omega

theorem isWs_cases (c : Char) (h : isWs c = true) : c = ' ' ∨ c = '\n' ∨ c = '\t' ∨ c = '\r' := by
  simpa [isWs, or_assoc] using h

/-- A character that starts a number or an identifier is none of the characters `lexStep` tests first. -/
structure NotSpecial (c : Char) : Prop where
  ws : isWs c = false
  lbrack : c ≠ '['
  rbrack : c ≠ ']'
  lbrace : c ≠ '{'
  rbrace : c ≠ '}'
  eq : c ≠ '='
  semi : c ≠ ';'
  lparen : c ≠ '('
  rparen : c ≠ ')'
  minus : c ≠ '-'
  quote : c ≠ '"'

theorem notSpecial_of (c : Char) (p : Char → Bool) (hp : p c = true)
    (h : p ' ' = false ∧ p '\n' = false ∧ p '\t' = false ∧ p '\r' = false ∧ p '[' = false ∧ p ']' = false ∧
      p '{' = false ∧ p '}' = false ∧ p '=' = false ∧ p ';' = false ∧ p '(' = false ∧ p ')' = false ∧
      p '-' = false ∧ p '"' = false) :
    NotSpecial c := by
  obtain ⟨h1, h2, h3, h4, h5, h6, h7, h8, h9, h10, h13, h14, h11, h12⟩ := h
  have ne : ∀ d : Char, p d = false → c ≠ d := by
    intro d hd hc; subst hc; rw [hp] at hd; cases hd
  refine ⟨?_, ne _ h5, ne _ h6, ne _ h7, ne _ h8, ne _ h9, ne _ h10, ne _ h13, ne _ h14, ne _ h11, ne _ h12⟩
  cases hw : isWs c with
  | false => rfl
  | true =>
    rcases isWs_cases c hw with rfl | rfl | rfl | rfl
    · rw [hp] at h1; cases h1
    · rw [hp] at h2; cases h2
    · rw [hp] at h3; cases h3
    · rw [hp] at h4; cases h4

theorem notSpecial_digit (c : Char) (h : isAsciiDigit c = true) : NotSpecial c :=
  notSpecial_of c isAsciiDigit h (by decide)

theorem notSpecial_dot : NotSpecial '.' := by
  constructor <;> decide

theorem notSpecial_identStart (c : Char) (h : identStart c = true) : NotSpecial c :=
  notSpecial_of c identStart h (by decide)

/-- `lexStep` on a character that is none of the special ones: only the number / identifier branches remain. -/
theorem lexStep_notSpecial (c : Char) (cs : Text) (h : NotSpecial c) :
    lexStep (c :: cs) =
      if isAsciiDigit c || c = '.' then
        let t := (c :: cs).takeWhile isNumChar
        let rest := (c :: cs).dropWhile isNumChar
        if !litEnd rest then none
        else if isIntTok t then
          let n := Nat.ofDigitChars 10 t 0
          if n ≤ nixIntMax then some (some (.int n), rest) else none
        else if isNixFloat t then some (some (.float t), rest)
        else none
      else if identStart c then
        let t := c :: cs.takeWhile nixIdentRest
        let rest := cs.dropWhile nixIdentRest
        if identEnd rest then some (some (.ident t), rest) else none
      else none := by
  simp only [lexStep]
  rw [if_neg (by simp [h.ws]), if_neg h.lbrack, if_neg h.rbrack, if_neg h.lbrace, if_neg h.rbrace,
    if_neg h.eq, if_neg h.semi, if_neg h.lparen, if_neg h.rparen, if_neg h.minus, if_neg h.quote]

/-! ### white space and punctuation -/

theorem lexData_ws (c : Char) (s : Text) (h : isWs c = true) : lexData (c :: s) = lexData s := by
  rw [lexData_step (c :: s) none s (by simp [lexStep, h])]
  cases lexData s <;> simp

theorem lexData_spaces (n : Nat) (s : Text) : lexData (spaces n ++ s) = lexData s := by
  induction n with
  | zero => simp [spaces]
  | succ n ih =>
    have : spaces (n + 1) ++ s = ' ' :: (spaces n ++ s) := by simp [spaces, List.replicate_succ]
    rw [this, lexData_ws _ _ (by decide), ih]

theorem lexData_punct (c : Char) (tok : Tok) (s : Text) (h : ∀ cs, lexStep (c :: cs) = some (some tok, cs)) :
    lexData (c :: s) = (lexData s).map (tok :: ·) := by
  rw [lexData_step (c :: s) (some tok) s (h s)]
  rfl

theorem lexData_lbrack (s : Text) : lexData ('[' :: s) = (lexData s).map (Tok.lbrack :: ·) :=
  lexData_punct _ _ s (by intro cs; simp [lexStep, isWs])
theorem lexData_rbrack (s : Text) : lexData (']' :: s) = (lexData s).map (Tok.rbrack :: ·) :=
  lexData_punct _ _ s (by intro cs; simp [lexStep, isWs])
theorem lexData_lbrace (s : Text) : lexData ('{' :: s) = (lexData s).map (Tok.lbrace :: ·) :=
  lexData_punct _ _ s (by intro cs; simp [lexStep, isWs])
theorem lexData_rbrace (s : Text) : lexData ('}' :: s) = (lexData s).map (Tok.rbrace :: ·) :=
  lexData_punct _ _ s (by intro cs; simp [lexStep, isWs])
theorem lexData_eq (s : Text) : lexData ('=' :: s) = (lexData s).map (Tok.eq :: ·) :=
  lexData_punct _ _ s (by intro cs; simp [lexStep, isWs])
theorem lexData_semi (s : Text) : lexData (';' :: s) = (lexData s).map (Tok.semi :: ·) :=
  lexData_punct _ _ s (by intro cs; simp [lexStep, isWs])
theorem lexData_lparen (s : Text) : lexData ('(' :: s) = (lexData s).map (Tok.lparen :: ·) :=
  lexData_punct _ _ s (by intro cs; simp [lexStep, isWs])
theorem lexData_rparen (s : Text) : lexData (')' :: s) = (lexData s).map (Tok.rparen :: ·) :=
  lexData_punct _ _ s (by intro cs; simp [lexStep, isWs])
theorem lexData_minus (s : Text) : lexData ('-' :: s) = (lexData s).map (Tok.minus :: ·) :=
  lexData_punct _ _ s (by intro cs; simp [lexStep, isWs])

/-! ### strings -/

theorem escapeNix_noInterp (s : Text) (h : hasInterp s = false) : escapeNix false s = escapeNix true s := by
  induction s using escapeNix.induct (interp := true) with
  | case1 => simp [escapeNix]
  | case2 cs ih => simp [hasInterp] at h; simp [escapeNix, ih h]
  | case3 cs ih => simp [hasInterp] at h; simp [escapeNix, ih h]
  | case4 cs ih => simp [hasInterp] at h; simp [escapeNix, ih h]
  | case5 cs ih => simp [hasInterp] at h; simp [escapeNix, ih h]
  | case6 cs ih => simp [hasInterp] at h; simp [escapeNix, ih h]
  | case7 cs _ ih => simp [hasInterp] at h
  | case8 cs h' ih => simp at h'
  | case9 c cs h1 h2 h3 h4 h5 h6 ih =>
    have hh : hasInterp cs = false := by
      rw [hasInterp.eq_3 _ _ (by intro cs' hc hcs; exact h6 cs' hc hcs)] at h
      exact h
    rw [escapeNix.eq_8 _ _ _ h1 h2 h3 h4 h5 h6, escapeNix.eq_8 _ _ _ h1 h2 h3 h4 h5 h6, ih hh]

theorem scanStr_escape (rest : Text) (s : Text) :
    scanStr (escapeNix true s ++ '"' :: rest) = some (escapeNix true s, rest) := by
  induction s using escapeNix.induct (interp := true) with
  | case1 => simp [escapeNix, scanStr]
  | case2 cs ih => simp [escapeNix, scanStr, ih]
  | case3 cs ih => simp [escapeNix, scanStr, ih]
  | case4 cs ih => simp [escapeNix, scanStr, ih]
  | case5 cs ih => simp [escapeNix, scanStr, ih]
  | case6 cs ih => simp [escapeNix, scanStr, ih]
  | case7 cs h ih => simp [escapeNix, scanStr, ih]
  | case8 cs h ih => simp at h
  | case9 c cs h1 h2 h3 h4 h5 h6 ih =>
    rw [escapeNix.eq_8 _ _ _ h1 h2 h3 h4 h5 h6]
    simp only [List.cons_append]
    rw [scanStr.eq_4 _ _ (by intro hc; exact h2 hc) (by intro c' cs' hc _; exact h1 hc)]
    simp [ih]

theorem escapeNix_no_cr (s : Text) : (escapeNix true s).contains '\r' = false := by
  induction s using escapeNix.induct (interp := true) with
  | case1 => simp [escapeNix]
  | case2 cs ih => simp only [List.contains_eq_mem, decide_eq_false_iff_not] at ih ⊢; simp [escapeNix, ih]
  | case3 cs ih => simp only [List.contains_eq_mem, decide_eq_false_iff_not] at ih ⊢; simp [escapeNix, ih]
  | case4 cs ih => simp only [List.contains_eq_mem, decide_eq_false_iff_not] at ih ⊢; simp [escapeNix, ih]
  | case5 cs ih => simp only [List.contains_eq_mem, decide_eq_false_iff_not] at ih ⊢; simp [escapeNix, ih]
  | case6 cs ih => simp only [List.contains_eq_mem, decide_eq_false_iff_not] at ih ⊢; simp [escapeNix, ih]
  | case7 cs h ih => simp only [List.contains_eq_mem, decide_eq_false_iff_not] at ih ⊢; simp [escapeNix, ih]
  | case8 cs h ih => simp at h
  | case9 c cs h1 h2 h3 h4 h5 h6 ih =>
    rw [escapeNix.eq_8 _ _ _ h1 h2 h3 h4 h5 h6]
    simp only [List.contains_eq_mem, decide_eq_false_iff_not, List.mem_cons, not_or] at ih ⊢
    exact ⟨fun hc => h4 hc.symm, ih⟩

/-- A rendered string literal is read back as one string token holding exactly the original text. -/
theorem lexData_str (s rest : Text) (hi : hasInterp s = false) (he : litEnd rest = true) :
    lexData ('"' :: escapeNix false s ++ '"' :: rest) = (lexData rest).map (Tok.str s :: ·) := by
  rw [escapeNix_noInterp s hi]
  have hstep : lexStep ('"' :: (escapeNix true s ++ '"' :: rest)) = some (some (Tok.str s), rest) := by
    have hcr : ¬ '\r' ∈ escapeNix true s := by
      have := escapeNix_no_cr s
      simpa using this
    simp [lexStep, isWs, scanStr_escape, he, escape_decode, hcr]
  have := lexData_step _ _ _ hstep
  simpa using this

/-! ### numbers -/

theorem litEnd_head_not_num (c : Char) (r : Text) (h : litEnd (c :: r) = true) : isNumChar c = false := by
  simp only [litEnd, Bool.or_eq_true, beq_iff_eq] at h
  rcases h with (((h | h) | h) | h) | h
  · rcases isWs_cases c h with rfl | rfl | rfl | rfl <;> decide
  · subst h; decide
  · subst h; decide
  · subst h; decide
  · subst h; decide

theorem takeWhile_stop {p : Char → Bool} (t rest : Text) (hall : ∀ a ∈ t, p a = true)
    (hrest : ∀ c r, rest = c :: r → p c = false) :
    (t ++ rest).takeWhile p = t ∧ (t ++ rest).dropWhile p = rest := by
  rw [List.takeWhile_append_of_pos hall, List.dropWhile_append_of_pos hall]
  cases rest with
  | nil => simp
  | cons c r =>
    have := hrest c r rfl
    simp [this]

/-- The number branch of `lexStep` on a maximal run `t` of number characters followed by a
    literal boundary. -/
theorem lexStep_num (c : Char) (cs rest : Text) (hstart : isAsciiDigit c = true ∨ c = '.')
    (hall : ∀ a ∈ c :: cs, isNumChar a = true) (he : litEnd rest = true) :
    lexStep (c :: cs ++ rest) =
      if isIntTok (c :: cs) then
        if Nat.ofDigitChars 10 (c :: cs) 0 ≤ nixIntMax then
          some (some (.int (Nat.ofDigitChars 10 (c :: cs) 0)), rest) else none
      else if isNixFloat (c :: cs) then some (some (.float (c :: cs)), rest)
      else none := by
  have hns : NotSpecial c := by
    rcases hstart with h | h
    · exact notSpecial_digit c h
    · subst h; exact notSpecial_dot
  have hs : (isAsciiDigit c || decide (c = '.')) = true := by
    rcases hstart with h | h <;> simp [h]
  have hsplit := takeWhile_stop (p := isNumChar) (c :: cs) rest hall
    (by intro d r hr; subst hr; exact litEnd_head_not_num d r he)
  have hcons : c :: (cs ++ rest) = (c :: cs) ++ rest := rfl
  rw [List.cons_append, lexStep_notSpecial _ _ hns, if_pos hs]
  simp only [hcons, hsplit.1, hsplit.2, he, Bool.not_true, Bool.false_eq_true, if_false]

theorem toDigits_all_digit (n : Nat) : ∀ a ∈ Nat.toDigits 10 n, isAsciiDigit a = true := by
  intro a ha
  rw [isAsciiDigit_eq_isDigit]
  exact Nat.isDigit_of_mem_toDigits (by decide) (by decide) ha

theorem isNumChar_of_digit (a : Char) (h : isAsciiDigit a = true) : isNumChar a = true := by
  simp [isNumChar, h]

/-- A rendered non-negative integer is read back as one integer token with the same value. -/
theorem lexData_int (n : Nat) (rest : Text) (hn : n ≤ nixIntMax) (he : litEnd rest = true) :
    lexData (Nat.toDigits 10 n ++ rest) = (lexData rest).map (Tok.int n :: ·) := by
  have hne : Nat.toDigits 10 n ≠ [] := Nat.toDigits_ne_nil
  have hd := toDigits_all_digit n
  match hds : Nat.toDigits 10 n with
  | [] => exact absurd hds hne
  | c :: cs =>
    rw [hds] at hd
    have hstep := lexStep_num c cs rest (Or.inl (hd c (by simp)))
      (fun a ha => isNumChar_of_digit a (hd a ha)) he
    have hint : isIntTok (c :: cs) = true := by
      simp only [isIntTok, List.isEmpty_cons, Bool.not_false, Bool.true_and, List.all_eq_true]
      exact hd
    have hval : Nat.ofDigitChars 10 (c :: cs) 0 = n := by
      rw [← hds]; exact Nat.ofDigitChars_ten_toDigits
    rw [hint, hval] at hstep
    simp only [if_true, hn] at hstep
    have := lexData_step _ _ _ hstep
    simpa using this

theorem mem_takeWhile_imp' {p : Char → Bool} : ∀ (l : Text) (a : Char), a ∈ l.takeWhile p → p a = true
  | [], a, h => by simp at h
  | x :: xs, a, h => by
    by_cases hx : p x = true
    · rw [List.takeWhile_cons_of_pos hx] at h
      rcases List.mem_cons.mp h with rfl | h
      · exact hx
      · exact mem_takeWhile_imp' xs a h
    · rw [List.takeWhile_cons_of_neg hx] at h
      cases h

/-! ### floats -/

theorem isExpPart_all (ex : Text) (h : isExpPart ex = true) : ∀ a ∈ ex, isNumChar a = true := by
  cases ex with
  | nil => intro a ha; cases ha
  | cons e rest =>
    simp only [isExpPart, Bool.and_eq_true, Bool.or_eq_true, beq_iff_eq] at h
    obtain ⟨he, hr⟩ := h
    have he' : isNumChar e = true := by rcases he with rfl | rfl <;> decide
    have hrest : ∀ a ∈ rest, isNumChar a = true := by
      split at hr
      · rename_i ds
        simp only [Bool.and_eq_true, List.all_eq_true] at hr
        intro a ha
        rcases List.mem_cons.mp ha with rfl | ha
        · decide
        · exact isNumChar_of_digit a (hr.2 a ha)
      · rename_i ds
        simp only [Bool.and_eq_true, List.all_eq_true] at hr
        intro a ha
        rcases List.mem_cons.mp ha with rfl | ha
        · decide
        · exact isNumChar_of_digit a (hr.2 a ha)
      · simp only [Bool.and_eq_true, List.all_eq_true] at hr
        intro a ha
        exact isNumChar_of_digit a (hr.2 a ha)
    intro a ha
    rcases List.mem_cons.mp ha with rfl | ha
    · exact he'
    · exact hrest a ha

theorem isNixFloat_props (t : Text) (h : isNixFloat t = true) :
    (∃ c cs, t = c :: cs ∧ (isAsciiDigit c = true ∨ c = '.')) ∧ (∀ a ∈ t, isNumChar a = true) ∧
      isIntTok t = false := by
  have hsplit : t = t.takeWhile isAsciiDigit ++ t.dropWhile isAsciiDigit :=
    (List.takeWhile_append_dropWhile).symm
  unfold isNixFloat at h
  simp only at h
  split at h
  · rename_i r hdr
    have hsplit2 : r = r.takeWhile isAsciiDigit ++ r.dropWhile isAsciiDigit :=
      (List.takeWhile_append_dropWhile).symm
    simp only [Bool.and_eq_true] at h
    have hex := isExpPart_all _ h.1
    have hip : ∀ a ∈ t.takeWhile isAsciiDigit, isAsciiDigit a = true := fun a ha => mem_takeWhile_imp' _ a ha
    have hfp : ∀ a ∈ r.takeWhile isAsciiDigit, isAsciiDigit a = true := fun a ha => mem_takeWhile_imp' _ a ha
    have hdot : '.' ∈ t := by rw [hsplit, hdr]; simp
    refine ⟨?_, ?_, ?_⟩
    · cases hip' : t.takeWhile isAsciiDigit with
      | nil =>
        refine ⟨'.', r, ?_, Or.inr rfl⟩
        rw [hsplit, hip', hdr]; rfl
      | cons c cs =>
        refine ⟨c, cs ++ '.' :: r, ?_, Or.inl (hip c (by rw [hip']; simp))⟩
        rw [hsplit, hip', hdr]; rfl
    · intro a ha
      rw [hsplit, hdr] at ha
      rcases List.mem_append.mp ha with ha | ha
      · exact isNumChar_of_digit a (hip a ha)
      · rcases List.mem_cons.mp ha with rfl | ha
        · decide
        · rw [hsplit2] at ha
          rcases List.mem_append.mp ha with ha | ha
          · exact isNumChar_of_digit a (hfp a ha)
          · exact hex a ha
    · cases hi : isIntTok t with
      | false => rfl
      | true =>
        simp only [isIntTok, Bool.and_eq_true, List.all_eq_true] at hi
        have := hi.2 '.' hdot
        revert this; decide
  · cases h

/-- A Nix float token followed by a literal boundary is read back as that float token. -/
theorem lexData_float (t rest : Text) (hf : isNixFloat t = true) (he : litEnd rest = true) :
    lexData (t ++ rest) = (lexData rest).map (Tok.float t :: ·) := by
  obtain ⟨⟨c, cs, rfl, hstart⟩, hall, hint⟩ := isNixFloat_props t hf
  have hstep := lexStep_num c cs rest hstart hall he
  rw [hint, hf] at hstep
  simp only [Bool.false_eq_true, if_false, if_true] at hstep
  have := lexData_step _ _ _ hstep
  simpa using this

/-! ### identifiers -/

theorem identEnd_head_not_rest (c : Char) (r : Text) (h : identEnd (c :: r) = true) : nixIdentRest c = false := by
  simp only [identEnd, Bool.or_eq_true, beq_iff_eq] at h
  rcases h with ((((h | h) | h) | h) | h) | h
  · rcases isWs_cases c h with rfl | rfl | rfl | rfl <;> decide
  · subst h; decide
  · subst h; decide
  · subst h; decide
  · subst h; decide
  · subst h; decide

/-- An identifier followed by an identifier boundary is read back as that identifier. -/
theorem lexData_ident (k rest : Text) (hk : isNixIdent k = true) (he : identEnd rest = true) :
    lexData (k ++ rest) = (lexData rest).map (Tok.ident k :: ·) := by
  match k with
  | [] => simp [isNixIdent] at hk
  | c :: cs =>
    simp only [isNixIdent, Bool.and_eq_true, List.all_eq_true] at hk
    have hns := notSpecial_identStart c hk.1
    have hnd : (isAsciiDigit c || decide (c = '.')) = false := by
      have h1 := identStart_not_digit c hk.1
      have h2 : c ≠ '.' := by
        intro hc; subst hc; have := hk.1; revert this; decide
      simp [h1, h2]
    have hsplit := takeWhile_stop (p := nixIdentRest) cs rest hk.2
      (by intro d r hr; subst hr; exact identEnd_head_not_rest d r he)
    have hstep : lexStep (c :: cs ++ rest) = some (some (Tok.ident (c :: cs)), rest) := by
      rw [List.cons_append, lexStep_notSpecial _ _ hns, hnd]
      simp only [Bool.false_eq_true, if_false, hk.1, if_true, hsplit.1, hsplit.2, he]
    have := lexData_step _ _ _ hstep
    simpa using this

end Nima
