import NimaVerif.Model.Edit
/-!
The syntax-error gate: `NixSourceCode.from_cst` (`has_error ↦ [RawExpression(text)]`, no trailing
trivia), `RawExpression.rebuild`, `NixSourceCode.rebuild`, and how a raw document looks to the edit
code. The shape facts the model relies on are re-extracted from the Python AST on every run
(`Gen/Gate.lean`) and compared with `expectedGateShape` (`C07.tie_gate`).
-/
namespace Nima
-- name tokens are compared by spelling in this file (see `NameCmp` in Model/Edit.lean)
attribute [local instance] NameCmp.spelled

/-- what the translator must find in the source for this model to be the code's -/
def expectedGateShape : List (String × Bool) :=
  [("gateBeforeTrivia", true), ("parseKeepsWholeInput", true), ("rawFlagTrue", true), ("rawFromNodeText", true),
   ("rawRebuildReturnsText", true), ("rawTrailingEmpty", true), ("rebuildJoinNoTrailing", true),
   ("targetRejectsRaw", true), ("usesHasError", true), ("valueChecksFirst", true)]

/-- a top-level expression, as far as the gate is concerned -/
inductive TopExpr where
  | raw (text : Text) (before after : Payload) (hasScope : Bool)
  | cooked (rendered : Text)
deriving Repr

structure Source where
  exprs : List TopExpr
  trailing : Payload
  containsError : Bool
deriving Repr

/-- `parse(source_code)` = `NixSourceCode.from_cst(node)` followed by the whole-input override:
    `hasError` is tree-sitter's verdict (`node.has_error`), `text` is the whole input (`from_cst`
    alone would keep `node.text`, which lacks leading whitespace — the repaired defect),
    `structured` is what the rest of `from_cst` would build. -/
def fromCstTop (hasError : Bool) (text : Text) (structured : Source) : Source :=
  if hasError then { exprs := [.raw text [] [] false], trailing := [], containsError := true }
  else structured

/-- `expr.rebuild()` of a top-level expression; `other` stands for every path that involves
    trivia or scope rendering (none of them is reachable from the gate). -/
def TopExpr.rebuild (other : TopExpr → Text) : TopExpr → Text
  | e@(.raw text before after hasScope) =>
      if hasScope then other e
      else if before.isEmpty && after.isEmpty then text
      else other e
  | .cooked r => r

/-- `NixSourceCode.rebuild()` -/
def Source.rebuild (other : TopExpr → Text) (renderTrailing : Text → Payload → Text) (s : Source) : Text :=
  let rebuilt := (s.exprs.map (TopExpr.rebuild other)).foldr (· ++ ·) []
  if s.trailing.isEmpty then rebuilt else renderTrailing rebuilt s.trailing

/-- the edit code's view of a source -/
def Source.noTarget (s : Source) : Option NoTarget :=
  match s.exprs with
  | [] => some .empty
  | [.raw ..] => some .raw
  | [_] => none
  | _ => some .multi

end Nima
