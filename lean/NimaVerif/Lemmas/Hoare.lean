import NimaVerif.Lemmas.EditPlain
/-!
A small Hoare logic over `EditM` (`Triple`): an invariant that the primitive writes keep (`Prim`) is kept
by every function of the edit model, on success and on failure. Two instances: the frame invariant
(`FInv`: no operation fabricates or alters the name / nested flag / trivia of a binding) and any
projection of the document that identity updates do not touch (`wrappers_prim`). Then the scope-layer
machinery (`onLayer`, `writeScopeLayers`, the tail of scoped `remove_value`) for `FInv`.
-/
namespace Nima
-- name tokens are compared by spelling in this file (see `NameCmp` in Model/Edit.lean)
attribute [local instance] NameCmp.spelled
open Node

/-- Hoare triple over `EditM`: the state invariant `I` is kept whether the computation succeeds or
    fails, and a successful result satisfies `Q`. -/
def Triple (I : Doc → Prop) {α : Type} (m : EditM α) (Q : α → Prop) : Prop :=
  ∀ d, I d → I (m d).2 ∧ ∀ a, (m d).1 = .ok a → Q a

namespace Triple
variable {I : Doc → Prop} {α β : Type}

theorem pure (a : α) {Q : α → Prop} (h : Q a) : Triple I (Pure.pure a : EditM α) Q := by
  intro d hd; exact ⟨hd, fun a' h' => by cases h'; exact h⟩

theorem bind {m : EditM α} {f : α → EditM β} {Q : α → Prop} {Q' : β → Prop}
    (hm : Triple I m Q) (hf : ∀ a, Q a → Triple I (f a) Q') : Triple I (m >>= f) Q' := by
  intro d hd
  rw [EditM.bind_apply]
  obtain ⟨h1, h2⟩ := hm d hd
  cases hmd : m d with
  | mk r d' =>
    rw [hmd] at h1 h2
    cases r with
    | ok a => exact hf a (h2 a rfl) d' h1
    | error e => exact ⟨h1, fun a h => by cases h⟩

theorem throw (e : Err) {Q : α → Prop} : Triple I (EditM.throw e : EditM α) Q := by
  intro d hd; exact ⟨hd, fun a h => by cases h⟩

theorem get : Triple I EditM.get (fun _ => True) := by
  intro d hd; exact ⟨hd, fun _ _ => trivial⟩

theorem modify (f : Doc → Doc) (h : ∀ d, I d → I (f d)) : Triple I (EditM.modify f) (fun _ => True) := by
  intro d hd; exact ⟨h d hd, fun _ _ => trivial⟩

theorem weaken {m : EditM α} {Q Q' : α → Prop} (h : Triple I m Q) (hQ : ∀ a, Q a → Q' a) :
    Triple I m Q' := by
  intro d hd; exact ⟨(h d hd).1, fun a ha => hQ a ((h d hd).2 a ha)⟩

theorem ite {c : Prop} [Decidable c] {t e : EditM α} {Q : α → Prop}
    (ht : Triple I t Q) (he : Triple I e Q) : Triple I (if c then t else e) Q := by
  split <;> assumption

theorem triv {m : EditM α} {Q : α → Prop} (h : Triple I m Q) : Triple I m (fun _ => True) :=
  h.weaken (fun _ _ => trivial)

end Triple

/-- what an invariant `I` (with `V` the matching condition on nodes written into the document) has
    to satisfy for every operation of the edit model to keep it -/
structure Prim (I : Doc → Prop) (V : Node → Prop) : Prop where
  assign : ∀ d id v, I d → V v → I (d.updBind id v)
  fresh : ∀ d, I d → I { d with next := d.next + 1 } ∧
    ∀ key ne v, V v → V (.bind d.next key ne v [] [])
  emptySet : ∀ sid m r, V (.set sid [] [] m r)
  entry : ∀ segs nb, V nb → V (.entry segs nb none none)
  updSet : ∀ d sid f, I d → (∀ x, V x → V (f x)) → I (d.updSet sid f)
  appendV : ∀ s vs o m r b, V (.set s vs o m r) → V b → V (.set s (vs ++ [b]) o m r)
  appendO : ∀ s vs o m r b, V (.set s vs o m r) → V b → V (.set s vs (o ++ [b]) m r)
  subset : ∀ s vs o vs' o' m r, V (.set s vs o m r) → (∀ x ∈ vs', x ∈ vs) → (∀ x ∈ o', x ∈ o) →
    V (.set s vs' o' m r)

section ops
variable {I : Doc → Prop} {V : Node → Prop} (pr : Prim I V)
include pr

theorem fresh_triple : Triple I fresh (fun bid => ∀ key ne v, V v → V (.bind bid key ne v [] [])) := by
  intro d hd
  refine ⟨(pr.fresh d hd).1, fun a h => ?_⟩
  simp only [fresh_apply] at h
  cases h
  exact (pr.fresh d hd).2

theorem assign_triple (bid : Nat) (v : Node) (hv : V v) : Triple I (assign bid v) (fun _ => True) :=
  Triple.modify _ (fun d hd => pr.assign d bid v hd hv)

theorem appendValue_triple (sid : Nat) (b : Node) (hb : V b) :
    Triple I (appendValue sid b) (fun _ => True) := by
  refine Triple.modify _ (fun d hd => pr.updSet d sid _ hd ?_)
  intro x hx
  cases x <;> first | exact hx | exact pr.appendV _ _ _ _ _ _ hx hb

theorem appendOrder_triple (sid : Nat) (b : Node) (hb : V b) :
    Triple I (appendOrderIfNonEmpty sid b) (fun _ => True) := by
  refine Triple.modify _ (fun d hd => pr.updSet d sid _ hd ?_)
  intro x hx
  cases x with
  | set s vs o m r =>
    dsimp only
    split
    · exact hx
    · exact pr.appendO _ _ _ _ _ _ hx hb
  | _ => exact hx

theorem removeValueById_triple (sid bid : Nat) : Triple I (removeValueById sid bid) (fun _ => True) := by
  refine Triple.modify _ (fun d hd => pr.updSet d sid _ hd ?_)
  intro x hx
  cases x with
  | set s vs o m r =>
    exact pr.subset _ _ _ _ _ _ _ hx (fun y hy => List.mem_of_mem_eraseP hy) (fun y hy => hy)
  | _ => exact hx

theorem setSetItem_triple (s : Node) (key : Text) (v : Node) (hv : V v) :
    Triple I (setSetItem s key v) (fun _ => True) := by
  unfold setSetItem
  split
  · split
    · exact assign_triple pr _ _ hv
    · exact Triple.pure _ trivial
  · refine Triple.bind (fresh_triple pr) (fun bid hb => ?_)
    have hnb := hb key false v hv
    exact Triple.bind (appendValue_triple pr _ _ hnb) (fun _ _ => appendOrder_triple pr _ _ hnb)
  · exact Triple.throw _

theorem setDelItem_triple (s : Node) (key : Text) : Triple I (setDelItem s key) (fun _ => True) := by
  unfold setDelItem
  split
  · split
    · refine Triple.modify _ (fun d hd => pr.updSet d _ _ hd ?_)
      intro x hx
      cases x with
      | set s vs o m r =>
        refine pr.subset _ _ _ _ _ _ _ hx (fun y hy => List.mem_of_mem_eraseP hy) (fun y hy => ?_)
        split at hy
        · exact hy
        · exact List.mem_of_mem_eraseP hy
      | _ => exact hx
    · exact Triple.pure _ trivial
  · exact Triple.throw _


theorem setAttrpathWalk_triple (segs : List Text) : ∀ (current : Node),
    Triple I (setAttrpathWalk current segs) (fun _ => True) := by
  induction segs with
  | nil => intro current; unfold setAttrpathWalk; exact Triple.pure _ trivial
  | cons seg more ih =>
    intro current
    unfold setAttrpathWalk
    split
    · split
      · exact ih _
      · exact Triple.throw _
    · split
      · exact Triple.throw _
      · split
        · exact Triple.throw _
        · refine Triple.bind (fresh_triple pr) (fun sid _ => ?_)
          refine Triple.bind (fresh_triple pr) (fun bid hb => ?_)
          exact Triple.bind (appendValue_triple pr _ _ (hb seg true _ (pr.emptySet _ _ _)))
            (fun _ _ => ih _)

theorem setAttrpathValue_triple (tsSid : Nat) (root : Node) (segs : List Text) (v : Node) (hv : V v) :
    Triple I (setAttrpathValue tsSid root segs v) (fun _ => True) := by
  unfold setAttrpathValue
  split
  · refine Triple.bind (setAttrpathWalk_triple pr _ _) (fun current _ => ?_)
    split
    · exact Triple.throw _
    · split
      · exact Triple.throw _
      · split
        · split
          · exact assign_triple pr _ _ hv
          · exact Triple.pure _ trivial
        · split
          · exact Triple.throw _
          · refine Triple.bind (fresh_triple pr) (fun bid hb => ?_)
            have hnb := hb ‹Text› false v hv
            exact Triple.bind (appendValue_triple pr _ _ hnb)
              (fun _ _ => appendOrder_triple pr _ _ (pr.entry _ _ hnb))
  · exact Triple.throw _

theorem pruneParents_triple (stack : List (Node × Node)) :
    Triple I (pruneParents stack) (fun _ => True) := by
  induction stack with
  | nil => unfold pruneParents; exact Triple.pure _ trivial
  | cons pb rest ih =>
    obtain ⟨parent, b⟩ := pb
    unfold pruneParents
    refine Triple.bind Triple.get (fun d _ => ?_)
    split
    · exact Triple.ite (Triple.bind (removeValueById_triple pr _ _) (fun _ _ => ih)) (Triple.pure _ trivial)
    · exact Triple.pure _ trivial

theorem removeAttrpathValue_triple (ts : Node) (segs : List Text) :
    Triple I (removeAttrpathValue ts segs) (fun _ => True) := by
  unfold removeAttrpathValue
  split
  · exact Triple.throw _
  · exact Triple.throw _
  · split
    · split
      · refine Triple.bind (removeValueById_triple pr _ _) (fun _ _ => ?_)
        refine Triple.bind (Triple.modify _ (fun d hd => pr.updSet d _ _ hd ?_)) (fun _ _ => pruneParents_triple pr _)
        intro x hx
        cases x with
        | set s vs o m r =>
          exact pr.subset _ _ _ _ _ _ _ hx (fun y hy => hy) (fun y hy => List.mem_of_mem_eraseP hy)
        | _ => exact hx
      · exact Triple.throw _
    · exact Triple.throw _

theorem resolveParentWalk_triple (cm : Bool) (segs : List Text) : ∀ (current : Node),
    Triple I (resolveParentWalk cm current segs) (fun _ => True) := by
  induction segs with
  | nil => intro current; unfold resolveParentWalk; exact Triple.pure _ trivial
  | cons key more ih =>
    intro current
    unfold resolveParentWalk
    split
    · exact ih _
    · exact Triple.throw _
    · split
      · exact Triple.throw _
      · split
        · exact Triple.throw _
        · refine Triple.bind (fresh_triple pr) (fun sid _ => ?_)
          exact Triple.bind (setSetItem_triple pr _ _ _ (pr.emptySet _ _ _)) (fun _ _ => ih _)

theorem assignThrough_triple (ts : Node) (wl : Bool) (name : Text) (v : Node) (hv : V v) :
    Triple I (assignThrough ts wl name v) (fun _ => True) := by
  unfold assignThrough
  refine Triple.bind Triple.get (fun d _ => ?_)
  dsimp only
  split
  · exact Triple.pure _ trivial
  · split
    · exact Triple.bind (assign_triple pr _ _ hv) (fun _ _ => Triple.pure _ trivial)
    · exact Triple.pure _ trivial

theorem assignExisting_triple (ts parent : Node) (wl : Bool) (b v : Node) (hv : V v) :
    Triple I (assignExisting ts parent wl b v) (fun _ => True) := by
  unfold assignExisting
  split
  · refine Triple.bind (assignThrough_triple pr _ _ _ _ hv) (fun r _ => ?_)
    split
    · exact Triple.pure _ trivial
    · refine Triple.bind Triple.get (fun d _ => ?_)
      dsimp only
      split
      · split
        · exact assign_triple pr _ _ hv
        · exact Triple.pure _ trivial
      · split
        · split
          · exact assign_triple pr _ _ hv
          · exact Triple.pure _ trivial
        · exact assign_triple pr _ _ hv
  · exact assign_triple pr _ _ hv
  · exact Triple.pure _ trivial

theorem setValueInAttrset_triple (ts : Node) (wl : Bool) (p : Text) (v : Node) (hv : V v) :
    Triple I (setValueInAttrset ts wl p v) (fun _ => True) := by
  unfold setValueInAttrset
  split
  · exact Triple.throw _
  · exact Triple.throw _
  · exact Triple.throw _
  · split
    · split
      · exact assign_triple pr _ _ hv
      · exact Triple.pure _ trivial
    · dsimp only
      split
      · split
        · exact Triple.throw _
        · split
          · exact assignExisting_triple pr _ _ _ _ _ hv
          · exact setSetItem_triple pr _ _ _ hv
      · split
        · exact setAttrpathValue_triple pr _ _ _ _ hv
        · refine Triple.bind (resolveParentWalk_triple pr _ _ _) (fun parent _ => ?_)
          split
          · exact Triple.throw _
          · split
            · exact assignExisting_triple pr _ _ _ _ _ hv
            · exact setSetItem_triple pr _ _ _ hv

theorem removeValueInAttrset_triple (ts : Node) (p : Text) :
    Triple I (removeValueInAttrset ts p) (fun _ => True) := by
  unfold removeValueInAttrset
  split
  · exact Triple.throw _
  · exact Triple.throw _
  · split
    · exact removeAttrpathValue_triple pr _ _
    · dsimp only
      split
      · split
        · exact Triple.throw _
        · split
          · exact Triple.throw _
          · exact setDelItem_triple pr _ _
      · split
        · exact removeAttrpathValue_triple pr _ _
        · refine Triple.bind (resolveParentWalk_triple pr _ _ _) (fun parent _ => ?_)
          split
          · exact Triple.throw _
          · exact setDelItem_triple pr _ _

end ops

theorem mem_allFramesL {x : Frame} : ∀ {l : List Node}, x ∈ allFramesL l ↔ ∃ n ∈ l, x ∈ allFrames n
  | [] => by simp [allFramesL]
  | y :: ys => by simp [allFramesL, mem_allFramesL (l := ys)]

theorem AllF_set {P : Frame → Prop} {s : Nat} {vs o : List Node} {m r : Bool} :
    AllF P (.set s vs o m r) ↔ (∀ n ∈ vs, AllF P n) ∧ (∀ n ∈ o, AllF P n) := by
  simp only [AllF, allFrames, List.mem_append, mem_allFramesL]
  constructor
  · intro h
    exact ⟨fun n hn x hx => h x (Or.inl ⟨n, hn, hx⟩), fun n hn x hx => h x (Or.inr ⟨n, hn, hx⟩)⟩
  · rintro ⟨h1, h2⟩ x (⟨n, hn, hx⟩ | ⟨n, hn, hx⟩)
    · exact h1 n hn x hx
    · exact h2 n hn x hx

theorem AllF_bind {P : Frame → Prop} {i : Nat} {n : Text} {ne : Bool} {v : Node} {b a : Payload} :
    AllF P (.bind i n ne v b a) ↔ P (i, n, ne, b, a) ∧ AllF P v := by
  simp [AllF, allFrames]

theorem AllF_entry {P : Frame → Prop} {sg : List Text} {l : Node} {b a : Option Payload} :
    AllF P (.entry sg l b a) ↔ AllF P l := by
  simp [AllF, allFrames]

theorem AllF_leaf {P : Frame → Prop} : (∀ t, AllF P (.atom t)) ∧ (∀ t, AllF P (.ident t)) ∧
    (∀ i ns, AllF P (.inherit i ns)) := by
  simp [AllF, allFrames]

mutual
theorem AllF_updBind {P : Frame → Prop} (id : Nat) (v : Node) (hv : AllF P v) :
    ∀ n : Node, AllF P n → AllF P (updBind id v n)
  | .atom _, h => by simpa [updBind] using h
  | .ident _, h => by simpa [updBind] using h
  | .set s vs o m r, h => by
      rw [AllF_set] at h
      simp only [updBind, AllF_set]
      exact ⟨AllFL_updBind id v hv vs h.1, AllFL_updBind id v hv o h.2⟩
  | .bind i n ne val b a, h => by
      rw [AllF_bind] at h
      by_cases hi : i = id
      · simp only [updBind, hi, if_true, AllF_bind]; exact ⟨hi ▸ h.1, hv⟩
      · simp only [updBind, hi, if_false, AllF_bind]; exact ⟨h.1, AllF_updBind id v hv val h.2⟩
  | .inherit _ _, h => by simpa [updBind] using h
  | .entry segs leaf b a, h => by
      rw [AllF_entry] at h
      simp only [updBind, AllF_entry]
      exact AllF_updBind id v hv leaf h
theorem AllFL_updBind {P : Frame → Prop} (id : Nat) (v : Node) (hv : AllF P v) :
    ∀ l : List Node, (∀ n ∈ l, AllF P n) → ∀ n ∈ updBindL id v l, AllF P n
  | [], _ => by simp
  | x :: xs, h => by
      intro n hn
      simp only [updBindL, List.mem_cons] at hn
      rcases hn with rfl | hn
      · exact AllF_updBind id v hv x (h x (by simp))
      · exact AllFL_updBind id v hv xs (fun y hy => h y (by simp [hy])) n hn
end

mutual
theorem AllF_updSet {P : Frame → Prop} (sid : Nat) (f : Node → Node)
    (hf : ∀ x, AllF P x → AllF P (f x)) : ∀ n : Node, AllF P n → AllF P (updSet sid f n)
  | .atom _, h => by simpa [updSet] using h
  | .ident _, h => by simpa [updSet] using h
  | .set s vs o m r, h => by
      by_cases hs : s = sid
      · simp only [updSet, hs, if_true]; exact hf _ (hs ▸ h)
      · rw [AllF_set] at h
        simp only [updSet, hs, if_false, AllF_set]
        exact ⟨AllFL_updSet sid f hf vs h.1, AllFL_updSet sid f hf o h.2⟩
  | .bind i n ne val b a, h => by
      rw [AllF_bind] at h
      simp only [updSet, AllF_bind]; exact ⟨h.1, AllF_updSet sid f hf val h.2⟩
  | .inherit _ _, h => by simpa [updSet] using h
  | .entry segs leaf b a, h => by
      rw [AllF_entry] at h
      simp only [updSet, AllF_entry]
      exact AllF_updSet sid f hf leaf h
theorem AllFL_updSet {P : Frame → Prop} (sid : Nat) (f : Node → Node)
    (hf : ∀ x, AllF P x → AllF P (f x)) :
    ∀ l : List Node, (∀ n ∈ l, AllF P n) → ∀ n ∈ updSetL sid f l, AllF P n
  | [], _ => by simp
  | x :: xs, h => by
      intro n hn
      simp only [updSetL, List.mem_cons] at hn
      rcases hn with rfl | hn
      · exact AllF_updSet sid f hf x (h x (by simp))
      · exact AllFL_updSet sid f hf xs (fun y hy => h y (by simp [hy])) n hn
end

theorem Layer.nodes_mapNodes (g : Node → Node) (l : Layer) : (l.mapNodes g).nodes = l.nodes.map g := by
  simp [Layer.mapNodes, Layer.nodes]

theorem Doc.nodes_mapNodes (g : Node → Node) (d : Doc) : (d.mapNodes g).nodes = d.nodes.map g := by
  simp only [Doc.mapNodes, Doc.nodes, List.map_cons, List.map_append, List.flatMap_map, List.map_flatMap,
    Layer.nodes_mapNodes]
  cases d.topScope <;> cases d.scratch <;> simp

/-- the frame invariant: identities are allocated from `N` upwards and every binding of the document
    has a frame satisfying `P` -/
def FInv (P : Frame → Prop) (N : Nat) (d : Doc) : Prop := N ≤ d.next ∧ ∀ n ∈ d.nodes, AllF P n

theorem FInv_mapNodes {P : Frame → Prop} {N : Nat} (g : Node → Node) (hg : ∀ x, AllF P x → AllF P (g x))
    (d : Doc) (h : FInv P N d) : FInv P N (d.mapNodes g) := by
  refine ⟨h.1, fun n hn => ?_⟩
  rw [Doc.nodes_mapNodes, List.mem_map] at hn
  obtain ⟨m, hm, rfl⟩ := hn
  exact hg m (h.2 m hm)


theorem FInv.prim (P : Frame → Prop) (N : Nat)
    (hP : ∀ i key ne, N ≤ i → P (i, key, ne, [], [])) : Prim (FInv P N) (AllF P) where
  assign d id v h hv := by
    rw [Doc.updBind_eq_mapNodes]
    exact FInv_mapNodes _ (AllF_updBind id v hv) d h
  fresh d h := by
    refine ⟨⟨Nat.le_succ_of_le h.1, h.2⟩, fun key ne v hv => ?_⟩
    rw [AllF_bind]
    exact ⟨hP _ _ _ h.1, hv⟩
  emptySet sid m r := by simp [AllF, allFrames, allFramesL]
  entry segs nb h := AllF_entry.2 h
  updSet d sid f h hf := by
    rw [Doc.updSet_eq_mapNodes]
    exact FInv_mapNodes _ (AllF_updSet sid f hf) d h
  appendV s vs o m r b h hb := by
    rw [AllF_set] at h ⊢
    refine ⟨fun n hn => ?_, h.2⟩
    rcases List.mem_append.1 hn with hn | hn
    · exact h.1 n hn
    · simp only [List.mem_singleton] at hn; exact hn ▸ hb
  appendO s vs o m r b h hb := by
    rw [AllF_set] at h ⊢
    refine ⟨h.1, fun n hn => ?_⟩
    rcases List.mem_append.1 hn with hn | hn
    · exact h.2 n hn
    · simp only [List.mem_singleton] at hn; exact hn ▸ hb
  subset s vs o vs' o' m r h h1 h2 := by
    rw [AllF_set] at h ⊢
    exact ⟨fun n hn => h.1 n (h1 n hn), fun n hn => h.2 n (h2 n hn)⟩

theorem wrappers_prim {W : Type} (w : W) (proj : Doc → W)
    (h1 : ∀ d id v, proj (d.updBind id v) = proj d)
    (h2 : ∀ d sid f, proj (d.updSet sid f) = proj d)
    (h3 : ∀ d : Doc, proj { d with next := d.next + 1 } = proj d) :
    Prim (fun d => proj d = w) (fun _ => True) where
  assign d id v h _ := by rw [h1]; exact h
  fresh d h := ⟨by rw [h3]; exact h, fun _ _ _ _ => trivial⟩
  emptySet _ _ _ := trivial
  entry _ _ _ := trivial
  updSet d sid f h _ := by rw [h2]; exact h
  appendV _ _ _ _ _ _ _ _ := trivial
  appendO _ _ _ _ _ _ _ _ := trivial
  subset _ _ _ _ _ _ _ _ _ _ := trivial


/-- all nodes of a list of nodes have frames satisfying `P` -/
def AllFL (P : Frame → Prop) (l : List Node) : Prop := ∀ n ∈ l, AllF P n
def Layer.OK (P : Frame → Prop) (l : Layer) : Prop := AllFL P l.scope ∧ AllFL P l.order

theorem FInv_iff {P : Frame → Prop} {N : Nat} {d : Doc} :
    FInv P N d ↔ N ≤ d.next ∧ AllF P d.target ∧ AllFL P d.scope ∧ AllFL P d.stOrder ∧
      (∀ l ∈ d.stack, l.OK P) ∧ (∀ s, d.topScope = some s → AllFL P s) ∧
      (∀ s, d.scratch = some s → AllF P s) := by
  unfold FInv Doc.nodes AllFL Layer.OK
  simp only [List.mem_cons, List.mem_append, List.mem_flatMap, Layer.nodes, Option.mem_toList]
  constructor
  · rintro ⟨h0, h⟩
    refine ⟨h0, h _ (Or.inl rfl), fun n hn => h n (Or.inr (Or.inl (Or.inl (Or.inl (Or.inl hn))))),
      fun n hn => h n (Or.inr (Or.inl (Or.inl (Or.inl (Or.inr hn))))),
      fun l hl => ⟨fun n hn => h n (Or.inr (Or.inl (Or.inl (Or.inr ⟨l, hl, Or.inl hn⟩)))),
        fun n hn => h n (Or.inr (Or.inl (Or.inl (Or.inr ⟨l, hl, Or.inr hn⟩))))⟩,
      fun s hs n hn => h n (Or.inr (Or.inl (Or.inr (by simp [hs, hn])))),
      fun s hs => h s (Or.inr (Or.inr (by simp [hs])))⟩
  · rintro ⟨h0, h1, h2, h3, h4, h5, h6⟩
    refine ⟨h0, ?_⟩
    rintro n (rfl | ((((hn | hn) | ⟨l, hl, hn | hn⟩) | hn) | hn))
    · exact h1
    · exact h2 n hn
    · exact h3 n hn
    · exact (h4 l hl).1 n hn
    · exact (h4 l hl).2 n hn
    · cases hs : d.topScope with
      | none => simp [hs] at hn
      | some s => simp [hs] at hn; exact h5 s hs n hn
    · exact h6 n (by simpa using hn)

section layers
variable {P : Frame → Prop} {N : Nat}

theorem collectScopeLayers_ok {d : Doc} (h : FInv P N d) : ∀ l ∈ collectScopeLayers d, l.OK P := by
  obtain ⟨_, _, h2, h3, h4, _, _⟩ := FInv_iff.1 h
  intro l hl
  simp only [collectScopeLayers, List.mem_append, List.mem_filter] at hl
  rcases hl with hl | hl
  · split at hl
    · cases hl
    · simp only [List.mem_singleton] at hl; subst hl; exact ⟨h2, h3⟩
  · exact h4 l hl.1

theorem writeScopeLayers_inv {d : Doc} (h : FInv P N d) (ls : List Layer) (hl : ∀ l ∈ ls, l.OK P)
    (r : Option Layer) : FInv P N (writeScopeLayers ls r d) := by
  obtain ⟨h0, h1, h2, h3, h4, h5, h6⟩ := FInv_iff.1 h
  unfold writeScopeLayers
  cases ls with
  | nil =>
    cases r <;>
    · refine FInv_iff.2 ⟨h0, h1, ?_, ?_, ?_, h5, h6⟩ <;> simp [AllFL]
  | cons outer rest =>
    refine FInv_iff.2 ⟨h0, h1, (hl outer (by simp)).1, (hl outer (by simp)).2, ?_, h5, h6⟩
    intro l hl'
    exact hl l (List.mem_cons_of_mem _ (List.mem_filter.1 hl').1)

theorem setNthNonEmpty_ok (sc : List Node) (hsc : AllFL P sc) :
    ∀ (k : Nat) (ls : List Layer), (∀ l ∈ ls, l.OK P) → ∀ l ∈ setNthNonEmpty sc k ls, l.OK P := by
  intro k ls
  induction ls generalizing k with
  | nil => intro _ l hl; simp [setNthNonEmpty] at hl
  | cons x xs ih =>
    intro h l hl
    unfold setNthNonEmpty at hl
    split at hl
    · rcases List.mem_cons.1 hl with rfl | hl
      · exact h _ (by simp)
      · exact ih k (fun y hy => h y (by simp [hy])) l hl
    · cases k with
      | zero =>
        rcases List.mem_cons.1 hl with rfl | hl
        · exact ⟨hsc, (h x (by simp)).2⟩
        · exact h l (by simp [hl])
      | succ k =>
        rcases List.mem_cons.1 hl with rfl | hl
        · exact h _ (by simp)
        · exact ih k (fun y hy => h y (by simp [hy])) l hl

theorem setLayerScope_inv {d : Doc} (h : FInv P N d) (idx : Nat) (sc : List Node) (hsc : AllFL P sc) :
    FInv P N (d.setLayerScope idx sc) := by
  obtain ⟨h0, h1, h2, h3, h4, h5, h6⟩ := FInv_iff.1 h
  unfold Doc.setLayerScope
  split
  · exact FInv_iff.2 ⟨h0, h1, h2, h3, setNthNonEmpty_ok sc hsc _ _ h4, h5, h6⟩
  · cases idx with
    | zero => exact FInv_iff.2 ⟨h0, h1, hsc, h3, h4, h5, h6⟩
    | succ k => exact FInv_iff.2 ⟨h0, h1, h2, h3, setNthNonEmpty_ok sc hsc _ _ h4, h5, h6⟩

theorem AllFL_setValues {n : Node} (h : AllF P n) : AllFL P n.setValues ∧ AllFL P n.setOrder := by
  cases n <;> simp [setValues, setOrder, AllFL]
  exact AllF_set.1 h

theorem onLayer_inv (layers : List Layer) (fromDoc : Bool) (idx : Nat) (op : Node → EditM Unit)
    (hop : ∀ s, Triple (FInv P N) (op s) (fun _ => True))
    (hl : ∀ l ∈ layers, l.OK P) (d : Doc) (h : FInv P N d) :
    FInv P N (onLayer layers fromDoc idx op d).2 ∧
      ∀ ls, (onLayer layers fromDoc idx op d).1 = .ok ls → ∀ l ∈ ls, l.OK P := by
  unfold onLayer
  cases hli : layers[idx]? with
  | none => exact ⟨h, fun ls hls => by cases hls⟩
  | some l =>
    have hlok : l.OK P := hl l (List.mem_of_getElem? hli)
    obtain ⟨h0, h1, h2, h3, h4, h5, h6⟩ := FInv_iff.1 h
    have hsc : AllF P (layerAsSet d.next l) := AllF_set.2 hlok
    have hd0 : FInv P N { d with next := d.next + 1, scratch := some (layerAsSet d.next l) } :=
      FInv_iff.2 ⟨Nat.le_succ_of_le h0, h1, h2, h3, h4, h5, fun s hs => by
        simp only [Option.some.injEq] at hs; exact hs ▸ hsc⟩
    have hd1 := (hop (layerAsSet d.next l) _ hd0).1
    simp only
    generalize op (layerAsSet d.next l)
      { d with next := d.next + 1, scratch := some (layerAsSet d.next l) } = res at hd1
    obtain ⟨r, d1⟩ := res
    simp only at hd1 ⊢
    obtain ⟨g0, g1, g2, g3, g4, g5, g6⟩ := FInv_iff.1 hd1
    have hd2 : FInv P N { d1 with scratch := none } :=
      FInv_iff.2 ⟨g0, g1, g2, g3, g4, g5, fun s hs => by cases hs⟩
    have hscr' : AllF P (d1.scratch.getD (layerAsSet d.next l)) := by
      cases hs : d1.scratch with
      | none => exact hsc
      | some s => exact g6 s hs
    have hl1 : ∀ l' ∈ (if fromDoc then collectScopeLayers { d1 with scratch := none } else layers), l'.OK P := by
      split
      · exact collectScopeLayers_ok hd2
      · exact hl
    cases r with
    | ok u =>
      cases u
      dsimp only
      refine ⟨hd2, fun ls hls => ?_⟩
      simp only [Except.ok.injEq] at hls
      subst hls
      intro l' hl'
      rcases List.mem_or_eq_of_mem_set hl' with hl' | rfl
      · exact hl1 l' hl'
      · exact AllFL_setValues hscr'
    | error e =>
      dsimp only
      split
      · exact ⟨setLayerScope_inv hd2 _ _ (AllFL_setValues hscr').1, fun ls hls => by cases hls⟩
      · exact ⟨hd2, fun ls hls => by cases hls⟩

end layers

theorem setValue_unscoped_triple {I : Doc → Prop} {V : Node → Prop} (pr : Prim I V) (p : Text) (v : Node)
    (hv : V v) (hsp : splitScopeNpath p = .ok none) :
    Triple I (setValue p (.one v)) (fun _ => True) := by
  intro d hd
  unfold setValue
  simp only [hsp]
  repeat' split
  all_goals first
    | exact ⟨hd, fun _ _ => trivial⟩
    | exact setValueInAttrset_triple pr _ _ _ _ hv d hd

theorem removeValue_unscoped_eq (p : Text) (d : Doc) (hsp : splitScopeNpath p = .ok none) :
    removeValue p d =
      match d.noTarget with
      | some .empty => (.error .value, d)
      | some .multi => (.error .value, d)
      | _ => match resolveTarget d with
        | .error e => (.error e, d)
        | .ok ts => removeValueInAttrset ts p d := by
  unfold removeValue removeValueInAttrset
  simp only [hsp]
  repeat' split
  all_goals first
    | rfl
    | simp_all


theorem removeValue_unscoped_triple {I : Doc → Prop} {V : Node → Prop} (pr : Prim I V) (p : Text)
    (hsp : splitScopeNpath p = .ok none) :
    Triple I (removeValue p) (fun _ => True) := by
  intro d hd
  rw [removeValue_unscoped_eq p d hsp]
  repeat' split
  all_goals first
    | exact ⟨hd, fun _ _ => trivial⟩
    | exact removeValueInAttrset_triple pr _ _ d hd

section general
variable {P : Frame → Prop} {N : Nat} (hP : ∀ i key ne, N ≤ i → P (i, key, ne, [], []))
include hP

theorem setValue_inv (p : Text) (v : Node) (hv : AllF P v) (d : Doc) (h : FInv P N d) :
    FInv P N (setValue p (.one v) d).2 := by
  have pr := FInv.prim P N hP
  cases hsp : splitScopeNpath p with
  | error e => unfold setValue; simp only [hsp]; repeat' split <;> exact h
  | ok o =>
    cases o with
    | none => exact (setValue_unscoped_triple pr p v hv hsp d h).1
    | some ds =>
      obtain ⟨depth, sp⟩ := ds
      unfold setValue
      simp only [hsp]
      split
      · exact h
      · exact h
      · split
        · exact h
        · rename_i ts _
          generalize hst : (if ((collectScopeLayers d).isEmpty && depth == 1) = true then _ else _ :
            Except Err (Option (List Layer × Bool × Doc))) = step1
          have hst' : ∀ ls fd d0, step1 = .ok (some (ls, fd, d0)) → FInv P N d0 ∧ ∀ l ∈ ls, l.OK P := by
            subst hst
            intro ls fd d0 heq
            split at heq
            · split at heq
              · cases heq
              · split at heq
                · cases heq
                · simp only [Except.ok.injEq, Option.some.injEq, Prod.mk.injEq] at heq
                  obtain ⟨rfl, _, rfl⟩ := heq
                  obtain ⟨h0, h1, h2, h3, h4, h5, h6⟩ := FInv_iff.1 h
                  refine ⟨FInv_iff.2 ⟨h0, h1, h2, h3, h4, h5, h6⟩, ?_⟩
                  intro l hl
                  simp only [List.mem_singleton] at hl
                  subst hl
                  exact ⟨by simp [AllFL], by simp [AllFL]⟩
            · simp only [Except.ok.injEq, Option.some.injEq, Prod.mk.injEq] at heq
              obtain ⟨rfl, _, rfl⟩ := heq
              exact ⟨h, collectScopeLayers_ok h⟩
          cases step1 with
          | error e => exact h
          | ok o =>
            cases o with
            | none => exact (setValueInAttrset_triple pr _ _ _ _ hv d h).1
            | some t =>
              obtain ⟨ls, fd, d0⟩ := t
              obtain ⟨hd0, hls⟩ := hst' ls fd d0 rfl
              dsimp only
              split
              · exact hd0
              · have hon := onLayer_inv ls fd (ls.length - depth) (fun s => setValueInAttrset s false sp v)
                  (fun s => setValueInAttrset_triple pr s false sp v hv) hls d0 hd0
                generalize onLayer ls fd (ls.length - depth) (fun s => setValueInAttrset s false sp v) d0 = res at hon
                obtain ⟨r, d'⟩ := res
                cases r with
                | ok ls' => exact writeScopeLayers_inv hon.1 ls' (hon.2 ls' rfl) none
                | error e => exact hon.1

end general

/-! the part of scoped `remove_value` after the scratch-set run, cut into steps (same text as in
the model; `removeValue_scoped_eq` is by `rfl`) -/
def popTrailing (c : Bool) (d1 : Doc) : Doc :=
  if c then { d1 with trailing := (d1.trailing.reverse.dropWhile (fun t => t == 0 || t == 1)).reverse }
  else d1
def restoreBodyAfter (removed : Option Layer) (d2 : Doc) : Doc :=
  match removed with
  | some r => if !r.bodyAfter.isEmpty then
      (if d2.trailing.isEmpty then { d2 with trailing := r.bodyAfter }
       else { d2 with trailing := d2.trailing ++ r.bodyAfter.filter (!d2.trailing.contains ·) })
    else d2
  | none => d2
def keepOriginalTrailing (orig : Payload) (d3 : Doc) : Doc :=
  if d3.trailing.isEmpty && !orig.isEmpty then { d3 with trailing := orig } else d3

def removedOf (layers' : List Layer) (idx : Nat) : Option Layer :=
  match layers'[idx]? with
  | some l => if l.scope.isEmpty then some l else none
  | none => none
def layersAfter (layers' : List Layer) (idx : Nat) : List Layer :=
  if (removedOf layers' idx).isSome then layers'.eraseIdx idx else layers'

def removeTail (d : Doc) (idx : Nat) (layers' : List Layer) (d' : Doc) : Except Err Unit × Doc :=
  let removed : Option Layer := removedOf layers' idx
  let layers'' := layersAfter layers' idx
  let d1 := writeScopeLayers layers'' removed d'
  let d2 := popTrailing (removed.isSome && layers''.isEmpty) d1
  let d3 := restoreBodyAfter removed d2
  let d4 := keepOriginalTrailing d.trailing d3
  let rs := match removed with
    | some r => layers''.isEmpty && !r.bodyBefore.isEmpty
    | none => false
  (.ok (), { d4 with rstripped := rs })

theorem removeValue_scoped_eq (p sp : Text) (depth : Nat) (d : Doc)
    (hsp : splitScopeNpath p = .ok (some (depth, sp))) (hnt : d.noTarget = none)
    (hd : ¬ depth > (collectScopeLayers d).length) :
    removeValue p d =
      match onLayer (collectScopeLayers d) true ((collectScopeLayers d).length - depth)
          (fun s => removeValueInAttrset s sp) d with
      | (.error e, d') => (.error e, d')
      | (.ok layers', d') => removeTail d ((collectScopeLayers d).length - depth) layers' d' := by
  unfold removeValue
  simp only [hsp, hnt, resolveTarget, hd, if_false]
  rfl

/-- two documents hold the same nodes and allocate from the same identity -/
def SameNodes (a b : Doc) : Prop :=
  a.target = b.target ∧ a.scope = b.scope ∧ a.stOrder = b.stOrder ∧ a.stack = b.stack ∧
  a.topScope = b.topScope ∧ a.scratch = b.scratch ∧ a.next = b.next

theorem SameNodes.refl (a : Doc) : SameNodes a a := ⟨rfl, rfl, rfl, rfl, rfl, rfl, rfl⟩
theorem SameNodes.trans {a b c : Doc} (h1 : SameNodes a b) (h2 : SameNodes b c) : SameNodes a c := by
  obtain ⟨a1, a2, a3, a4, a5, a6, a7⟩ := h1
  obtain ⟨b1, b2, b3, b4, b5, b6, b7⟩ := h2
  exact ⟨a1.trans b1, a2.trans b2, a3.trans b3, a4.trans b4, a5.trans b5, a6.trans b6, a7.trans b7⟩

theorem popTrailing_same (c : Bool) (d : Doc) : SameNodes (popTrailing c d) d := by
  unfold popTrailing; split <;> exact ⟨rfl, rfl, rfl, rfl, rfl, rfl, rfl⟩
theorem restoreBodyAfter_same (r : Option Layer) (d : Doc) : SameNodes (restoreBodyAfter r d) d := by
  unfold restoreBodyAfter; repeat' split
  all_goals exact ⟨rfl, rfl, rfl, rfl, rfl, rfl, rfl⟩
theorem keepOriginalTrailing_same (o : Payload) (d : Doc) : SameNodes (keepOriginalTrailing o d) d := by
  unfold keepOriginalTrailing; split <;> exact ⟨rfl, rfl, rfl, rfl, rfl, rfl, rfl⟩

theorem FInv_of_same {P : Frame → Prop} {N : Nat} {a b : Doc} (h : SameNodes a b) (hb : FInv P N b) :
    FInv P N a := by
  obtain ⟨a1, a2, a3, a4, a5, a6, a7⟩ := h
  rw [FInv_iff] at hb ⊢
  rw [a1, a2, a3, a4, a5, a6, a7]; exact hb

theorem removeTail_same (d : Doc) (idx : Nat) (ls : List Layer) (d' : Doc) :
    ∃ ls'' r, (∀ l ∈ ls'', l ∈ ls) ∧ SameNodes (removeTail d idx ls d').2 (writeScopeLayers ls'' r d') := by
  refine ⟨layersAfter ls idx, removedOf ls idx, ?_, ?_⟩
  · intro l hl
    unfold layersAfter at hl
    split at hl
    · exact List.mem_of_mem_eraseIdx hl
    · exact hl
  · unfold removeTail
    dsimp only
    refine SameNodes.trans ⟨rfl, rfl, rfl, rfl, rfl, rfl, rfl⟩ ?_
    exact (keepOriginalTrailing_same _ _).trans ((restoreBodyAfter_same _ _).trans (popTrailing_same _ _))

section general
variable {P : Frame → Prop} {N : Nat} (hP : ∀ i key ne, N ≤ i → P (i, key, ne, [], []))
include hP

theorem removeValue_inv (p : Text) (d : Doc) (h : FInv P N d) : FInv P N (removeValue p d).2 := by
  have pr := FInv.prim P N hP
  cases hsp : splitScopeNpath p with
  | error e => unfold removeValue; simp only [hsp]; repeat' split <;> exact h
  | ok o =>
    cases o with
    | none => exact (removeValue_unscoped_triple pr p hsp d h).1
    | some ds =>
      obtain ⟨depth, sp⟩ := ds
      by_cases hnt : d.noTarget = none
      · by_cases hd : depth > (collectScopeLayers d).length
        · unfold removeValue; simp only [hsp, hnt, resolveTarget, hd, if_true]; exact h
        · rw [removeValue_scoped_eq p sp depth d hsp hnt hd]
          have hon := onLayer_inv (collectScopeLayers d) true ((collectScopeLayers d).length - depth)
            (fun s => removeValueInAttrset s sp) (fun s => removeValueInAttrset_triple pr s sp)
            (collectScopeLayers_ok h) d h
          generalize onLayer (collectScopeLayers d) true ((collectScopeLayers d).length - depth)
            (fun s => removeValueInAttrset s sp) d = res at hon
          obtain ⟨r, d'⟩ := res
          cases r with
          | error e => exact hon.1
          | ok ls' =>
            obtain ⟨ls'', r, hsub, hsame⟩ := removeTail_same d ((collectScopeLayers d).length - depth) ls' d'
            exact FInv_of_same hsame (writeScopeLayers_inv hon.1 ls'' (fun l hl => hon.2 ls' rfl l (hsub l hl)) r)
      · cases hnt' : d.noTarget with
        | none => exact absurd hnt' hnt
        | some nt =>
          unfold removeValue
          cases nt <;> simp only [hnt', hsp, resolveTarget] <;> exact h

end general
end Nima
