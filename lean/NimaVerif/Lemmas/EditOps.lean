import NimaVerif.Lemmas.EditTree
/-! The operations of `cli/manipulations.py` (model: `Model/Edit.lean`) read through `denote`. -/
namespace Nima
open Node

theorem setValue_unscoped (p : Text) (v : Node) (d : Doc) (h1 : d.noTarget = none)
    (h2 : splitScopeNpath p = .ok none) :
    setValue p (.one v) d = setValueInAttrset d.target true p v d := by
  simp [setValue, h1, h2, resolveTarget]

theorem removeValue_unscoped (p : Text) (d : Doc) (h1 : d.noTarget = none)
    (h2 : splitScopeNpath p = .ok none) :
    removeValue p d = removeValueInAttrset d.target p d := by
  simp only [removeValue, h1, h2, resolveTarget, removeValueInAttrset]
  cases formatNPath currentAnchor p with
  | error e => rfl
  | ok segs =>
    cases segs with
    | nil => rfl
    | cons a r =>
      simp only
      split
      · rfl
      · split
        · split
          · rfl
          · split <;> rfl
        · split
          · rfl
          · rfl

theorem findAttrpathLeaf_single (ts : Node) (k : Text) : findAttrpathLeaf ts [k] = none := by
  simp [findAttrpathLeaf, walkAttrpathStack]

/-- invariants the walks maintain: identities unique, names unique, the next `K` identities unused -/
structure Inv (T : Node) (n K : Nat) : Prop where
  ids : IdsOK T
  keys : KeysOK T
  fresh : FreshFor T n K

/-- One creation step of a walk: a fresh binding `k = <fresh empty set>` is appended to the set found at
    path `p`. -/
theorem step_append (T : Node) (n K : Nat) (hinv : Inv T n (K + 2)) (p : List Text) (c : Nat)
    (vs o : List Node) (m r : Bool) (hp : subAt T p = some (.set c vs o m r))
    (k : Text) (hk : k ∉ Kids.keys (denoteL vs)) (hnone : ∀ x ∈ vs, isNamed k x = false)
    (ne ml : Bool) (f : Node → Node)
    (hf : ∀ vs o m r, ∃ o', f (.set c vs o m r) = .set c (vs ++ [.bind (n + 1) k ne (.set n [] [] ml false) [] []]) o' m r) :
    Inv (updSet c f T) (n + 2) K ∧
    subAt (updSet c f T) (p ++ [k]) = some (.set n [] [] ml false) ∧
    denote (updSet c f T) = graft p (.node (denoteL vs ++ [(k, .node [])])) (denote T) := by
  obtain ⟨o', e⟩ := hf vs o m r
  have hden : denote (updSet c f T) = graft p (.node (denoteL vs ++ [(k, .node [])])) (denote T) := by
    rw [denote_updSet_at f p T _ c hinv.ids hinv.keys hp rfl, e]; simp
  have hperm := vIds_updSet_app _ f c hf p T _ hinv.ids hp rfl
  have htp := treeAt_denote p T _ hinv.keys hp
  refine ⟨⟨?_, ?_, ?_⟩, ?_, hden⟩
  · -- identities
    unfold IdsOK
    rw [hperm.nodup_iff, List.nodup_append]
    refine ⟨hinv.ids, by simp [vIds], ?_⟩
    intro a ha b hb
    have := hinv.fresh a ha
    simp [vIds] at hb
    omega
  · -- names
    unfold KeysOK
    rw [hden]
    refine nodup_graft p _ _ _ htp hinv.keys ?_
    have hcur := nodup_treeAt p _ _ htp hinv.keys
    simp only [denote_set, AttrTree.nodup_node] at hcur ⊢
    exact AttrTree.nodupL_append_new k _ _ hcur (by simp [AttrTree.nodupL]) hk
  · intro i hi
    rw [hperm.mem_iff, List.mem_append] at hi
    rcases hi with hi | hi
    · have := hinv.fresh i hi; omega
    · simp [vIds] at hi; omega
  · rw [subAt_append, subAt_updSet f p T _ c hinv.ids hp rfl, e]
    simp only [Option.bind_some, subAt]
    have := (stepInto_of_split c o' m r (n + 1) k ne (.set n [] [] ml false) [] [] vs [] hnone).2
    rw [this]

theorem isNamed_bindValue (k : Text) (b : Node) (h : isNamed k b = true) : ∃ v, b.bindValue? = some v := by
  obtain ⟨i, ne, val, bf, af, rfl⟩ := (isNamed_iff k b).mp h
  exact ⟨val, rfl⟩

theorem findBinding_isNamed (vs : List Node) (k : Text) (b : Node) (h : findBinding vs k = some b) :
    isNamed k b = true := by
  rw [findBinding_eq] at h; exact List.find?_some h

theorem setGetItem_err (cur : Node) (k : Text) (e : Err) (h : setGetItem cur k = .error e) :
    findBinding cur.setValues k = none ∧ inheritMentions cur.setValues k = false := by
  unfold setGetItem at h
  cases hf : findBinding cur.setValues k with
  | some b =>
    obtain ⟨v, hv⟩ := isNamed_bindValue k b (findBinding_isNamed _ _ _ hf)
    simp [hf, hv] at h
  | none =>
    simp only [hf] at h
    cases hi : inheritMentions cur.setValues k with
    | true => simp [hi] at h
    | false => exact ⟨rfl, rfl⟩

theorem setGetItem_ok (cur : Node) (k : Text) (v : Node) (hk : plainKey k = true)
    (h : setGetItem cur k = .ok v) :
    stepInto cur k = some v ∨
    (findBinding cur.setValues k = none ∧ inheritMentions cur.setValues k = true ∧ v = .ident k) := by
  unfold setGetItem at h
  cases hf : findBinding cur.setValues k with
  | some b =>
    obtain ⟨v', hv⟩ := isNamed_bindValue k b (findBinding_isNamed _ _ _ hf)
    simp only [hf, hv] at h
    injection h with h; subst h
    exact Or.inl (by simp [stepInto, hf, hv])
  | none =>
    simp only [hf] at h
    cases hi : inheritMentions cur.setValues k with
    | true => simp only [hi, if_true] at h; injection h with h; exact Or.inr ⟨rfl, rfl, h.symm⟩
    | false =>
      simp only [hi, Bool.false_eq_true, if_false] at h
      unfold plainKey at hk
      cases hs : splitAttrpath k with
      | error e => simp [hs] at h
      | ok segs =>
        simp only [hs, decide_eq_true_eq] at hk
        simp [hs, hk] at h

/-- what the last step of `set` needs of the set it lands in -/
def FinalOK (par : Node) (final : Text) : Prop :=
  (∀ b, findBinding par.setValues final = some b → ∀ val, b.bindValue? = some val → isIdentNode val = false) ∧
  inheritMentions par.setValues final = false

/-- the last step of `set` ran on `par` from `d1` and ended in `d'` -/
def FinalStep (ts par : Node) (wl : Bool) (final : Text) (v : Node) (d1 d' : Doc) : Prop :=
  (∀ b, findBinding par.setValues final = some b → assignExisting ts par wl b v d1 = (.ok (), d')) ∧
  (findBinding par.setValues final = none → setSetItem par final v d1 = (.ok (), d'))

theorem FreshFor.mono {T : Node} {n K K' : Nat} (h : FreshFor T n K) (hk : K' ≤ K) : FreshFor T n K' := by
  intro i hi; have := h i hi; omega

theorem resolveParentWalk_nil (cm : Bool) (cur : Node) (d : Doc) :
    resolveParentWalk cm cur [] d = (.ok cur, d) := rfl

theorem subAt_empty_set (n : Nat) (ml r : Bool) (o : List Node) (q : List Text) (par : Node)
    (h : subAt (.set n [] o ml r) q = some par) : q = [] ∧ par = .set n [] o ml r := by
  cases q with
  | nil => simp at h; exact ⟨rfl, h.symm⟩
  | cons k ks => simp [subAt, stepInto, setValues, findBinding] at h

/-- Lemma N: `_resolve_npath_parent(create_missing=True)` from the set at path `p`, followed by the last
    step, refines `specSetK` below `p`. -/
theorem nested_set_refines (ts : Node) (wl : Bool) (final : Text) (v : Node) (ks : List Text) :
    ∀ (d : Doc) (cur : Node) (p : List Text) (parent : Node) (d1 d' : Doc),
    Inv d.target d.next (2 * ks.length) → subAt d.target p = some cur → cur.isSet = true →
    (∀ k ∈ ks, plainKey k = true) →
    (∀ par, subAt d.target (p ++ ks) = some par → FinalOK par final) →
    resolveParentWalk true cur ks d = (.ok parent, d1) →
    FinalStep ts parent wl final v d1 d' →
    Frame d d' ∧ ∃ Y, specSetK v (denote cur).kids (ks ++ [final]) = some Y ∧
      denote d'.target = graft p (.node Y) (denote d.target) := by
  induction ks with
  | nil =>
    intro d cur p parent d1 d' hinv hp hset _ hfin hw hfs
    rw [resolveParentWalk_nil] at hw
    injection hw with h1 h2; injection h1 with h1; subst h1; subst h2
    have hok := hfin cur (by simpa using hp)
    obtain ⟨d'', e1, e2, hfr, _, hd⟩ := finalSet_denote ts cur wl p final v d hinv.ids hinv.keys hp hset hok.1 hok.2
    have : d' = d'' := by
      cases hf : findBinding cur.setValues final with
      | some b => have a := hfs.1 b hf; rw [e1 b hf] at a; injection a with _ a; exact a.symm
      | none => have a := hfs.2 hf; rw [e2 hf] at a; injection a with _ a; exact a.symm
    subst this
    exact ⟨hfr, _, by simp [specSetK], hd⟩
  | cons k ks ih =>
    intro d cur p parent d1 d' hinv hp hset hplain hfin hw hfs
    obtain ⟨c, vs, o, m, r, rfl⟩ := (isSet_iff cur).mp hset
    have htp := treeAt_denote p d.target _ hinv.keys hp
    have hcurn := nodup_treeAt p _ _ htp hinv.keys
    simp only [denote_set, AttrTree.nodup_node] at hcurn
    simp only [resolveParentWalk] at hw
    cases hg : setGetItem (.set c vs o m r) k with
    | ok val =>
      simp only [hg] at hw
      cases val with
      | set s2 vs2 o2 m2 r2 =>
        simp only at hw
        rcases setGetItem_ok _ k _ (hplain k (by simp)) hg with hst | ⟨_, _, hbad⟩
        · -- descend into an existing set
          obtain ⟨_, _, _, _, i, ne, bf, af, pre, post, e, hpre⟩ := stepInto_some _ k _ hst
          injection e with e1 e2 e3 e4 e5; subst e1 e2 e3 e4 e5
          have hp2 : subAt d.target (p ++ [k]) = some (.set s2 vs2 o2 m2 r2) := by
            rw [subAt_append, hp]; simp [subAt, hst]
          have hinv2 : Inv d.target d.next (2 * ks.length) :=
            ⟨hinv.ids, hinv.keys, hinv.fresh.mono (by simp only [List.length_cons]; omega)⟩
          obtain ⟨hfr, Y, hY, hd⟩ := ih d _ (p ++ [k]) parent d1 d' hinv2 hp2 rfl
            (fun k' hk' => hplain k' (by simp [hk'])) (by simpa using hfin) hw hfs
          obtain ⟨hk, _⟩ := keys_split k pre post i ne _ bf af hcurn
          obtain ⟨hl, hu, _⟩ := lookup_split k (denoteL pre) (denoteL post) (denote (.set s2 vs2 o2 m2 r2)) hk
          refine ⟨hfr, Kids.upsert k (.node Y) (denoteL (pre ++ .bind i k ne (.set s2 vs2 o2 m2 r2) bf af :: post)), ?_, ?_⟩
          · have hne : ks ++ [final] ≠ [] := by simp
            simp only [denote_set, AttrTree.kids] at hY
            rw [List.cons_append, denote_set, AttrTree.kids,
              specSetK_node v _ (denoteL vs2) k _ hne (by simpa using hl), hY]
            rfl
          · rw [hd, graft_append p [k] _ _ _ htp, denote_set, graft_single]
        · cases hbad
      | _ => simp [EditM.throw] at hw
    | error e =>
      obtain ⟨hnone, hinh⟩ := setGetItem_err _ k e hg
      simp only [hg, Bool.not_true, Bool.false_eq_true, if_false, setSid?, EditM.bind_apply, fresh_apply,
        setMultiline] at hw
      obtain ⟨d2, e2, hfr2, hn2, ht2⟩ := setSetItem_fresh (.set c vs o m r) k (.set d.next [] [] m false) c
        { d with next := d.next + 1 } hnone rfl
      simp only [e2] at hw
      have hkk : k ∉ Kids.keys (denoteL vs) := not_mem_keys_denoteL k vs (findBinding_none _ _ hnone) hinh
      have hinvK : Inv d.target d.next (2 * ks.length + 2) :=
        ⟨hinv.ids, hinv.keys, hinv.fresh.mono (by simp only [List.length_cons]; omega)⟩
      obtain ⟨hinv2, hp2, hden2⟩ := step_append d.target d.next (2 * ks.length) hinvK p c vs o m r hp k hkk
        (findBinding_none _ _ hnone) false m
        (ordF (.bind (d.next + 1) k false (.set d.next [] [] m false) [] []) ∘
          appF (.bind (d.next + 1) k false (.set d.next [] [] m false) [] []))
        (fun vs o m r => by simp only [Function.comp, appF, ordF]; split <;> exact ⟨_, rfl⟩)
      simp only at ht2 hn2
      rw [← ht2] at hinv2 hp2 hden2
      have hn2' : d2.next = d.next + 2 := by omega
      rw [← hn2'] at hinv2
      have hfin2 : ∀ par, subAt d2.target ((p ++ [k]) ++ ks) = some par → FinalOK par final := by
        intro par hpar
        rw [subAt_append, hp2] at hpar
        obtain ⟨_, rfl⟩ := subAt_empty_set _ _ _ _ _ _ hpar
        exact ⟨fun b hb => by simp [setValues, findBinding] at hb, by simp [setValues, inheritMentions]⟩
      obtain ⟨hfr, Y, hY, hd⟩ := ih d2 _ (p ++ [k]) parent d1 d' hinv2 hp2 rfl
        (fun k' hk' => hplain k' (by simp [hk'])) hfin2 hw hfs
      refine ⟨((Frame.next d _).trans hfr2).trans hfr, Kids.upsert k (.node Y) (denoteL vs), ?_, ?_⟩
      · have hne : ks ++ [final] ≠ [] := by simp
        simp only [denote_set, AttrTree.kids, denoteL_nil] at hY
        rw [List.cons_append, denote_set, AttrTree.kids,
          specSetK_none v _ k _ hne ((Kids.lookup_eq_none_iff k _).mpr hkk), hY]
        rfl
      · rw [hd, hden2, graft_append_graft p [k] _ _ _ _ htp, graft_single, Kids.upsert_of_not_mem k _ _ hkk,
          Kids.upsert_append_right k _ _ _ hkk]
        simp

end Nima
