import NimaVerif.Props.C05
open Nima.C05
#print axioms placeholder_rm_missing_key
