#!/usr/bin/env python3
"""Writes MANIFEST.json from the table below (one entry per claimed property)."""
import json
from pathlib import Path

ROOT = Path(__file__).resolve().parent.parent
ALL = [f"C{i:02d}" for i in range(1, 21)]

TB = ("Trusted: Lean 4.33 kernel (axioms propext, Classical.choice, Quot.sound only; no native_decide, no sorry); "
      "the translator harness/translate and the correspondence harness; tree-sitter-nix as independent reader; "
      "the SPEC definitions named in Props/{pid}.lean. ")

CLAIMED = {}
for _f in sorted((ROOT / "tools" / "manifest.d").glob("C*.json")):
    _c = json.loads(_f.read_text())
    CLAIMED[_c["property_id"]] = _c

REASON_PENDING = "not yet built in this round: the Lean model and check for this property are still to be written (see DESIGN.md section 13)"


def main():
    checks = []
    for pid, c in CLAIMED.items():
        checks.append({
            "property_id": pid,
            "quick_cmd": f"./check {pid} --tier quick",
            "thorough_cmd": f"./check {pid} --tier thorough",
            "evidence_file": f"evidence/{pid}.json",
            "replay_cmd_template": f"./check {pid} --replay {{path}}",
            "engine": "nima-lean",
            "level_claimed": {"category": "proof", "text": c["text"], "design_ref": c["design"]},
            "level_note": c["note"].replace("{pid}", pid) if c["note"].startswith("Trusted") else TB.replace("{pid}", pid) + c["note"],
            "technique": c["technique"],
        })
    man = {
        "version": 1,
        "setup_cmd": "./setup.sh",
        "hooks": {
            "guard": "NIMA_VERIF",
            "enable": "no source hooks are used; checks import /repo's working tree (editable install) and observe it from outside",
            "baseline_off_cmd": "cd /repo && /venv/bin/python -m pytest -ra -q -p no:cacheprovider --timeout=900 --continue-on-collection-errors",
            "source_commits": [],
            "add_only": True,
        },
        "engines": [{
            "name": "nima-lean",
            "path": "lean/",
            "serves_properties": sorted(CLAIMED),
            "kind_free_text": "Lean 4 library (model + theorems) regenerated/checked against /repo by harness/ (translator + correspondence + oracle)",
        }],
        "checks": checks,
        "notes": "Repairs of genuine defects are `fix:` commits in /repo, listed in known_findings.json (status fixed).",
        "not_applicable": [{"property_id": p, "reason": REASON_PENDING} for p in ALL if p not in CLAIMED],
    }
    (ROOT / "MANIFEST.json").write_text(json.dumps(man, indent=1) + "\n")


if __name__ == "__main__":
    main()
