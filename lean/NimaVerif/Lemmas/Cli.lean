import NimaVerif.Model.Cli
/-!
Helper lemmas for C16: closed forms of the current command-line programs (symbolic execution of
`run` on `testProg`, `setProg`, `rmProg`, the repaired programs), generic facts about the
interpreter that hold for EVERY program (`Prog` is unbounded: induction over the program tree),
and the text lemmas (`ensureNewline`, `translateNewlines`).
-/
set_option linter.unusedSimpArgs false
namespace Nima.Cli
open Nima

variable {σ : Type}

/-! ## Closed forms -/

def okRes : Res := ⟨sOK ++ ['\n'], 0, none, false⟩
def failRes : Res := ⟨sFail ++ ['\n'], 1, none, false⟩
def tracebackRes (e : Err) : Res := ⟨[], 1, some e, false⟩

/-- closed form of the current (guarded) `test`: every failure is the verdict `Fail` -/
def testClosed (lib : Lib σ) (content : Except Err Text) : Res :=
  match content with
  | .error _ => failRes
  | .ok t =>
    match lib.parse t with
    | .error _ => failRes
    | .ok s =>
      if lib.containsError s then failRes
      else match lib.rebuild s with
        | .error _ => failRes
        | .ok r => if r = t then okRes else failRes

theorem run_test_eq (lib : Lib σ) (content : Except Err Text) (chan : Channel) (np v : Text) :
    run lib content chan np v testProg {} = testClosed lib content := by
  unfold testProg testClosed failExit okRes failRes
  cases content with
  | error e => simp [run, evalRhs, argText, evalArg, asText, bind, Except.bind]
  | ok t =>
    cases hp : lib.parse t with
    | error e => simp [run, evalRhs, argText, evalArg, asText, hp, bind, Except.bind]
    | ok s =>
      cases he : lib.containsError s with
      | true =>
        simp [run, evalRhs, evalCond, argText, argSrc, evalArg, asText, asSrc, hp, he, bind,
          Except.bind, pure, Except.pure]
      | false =>
        cases hr : lib.rebuild s with
        | error e =>
          simp [run, evalRhs, evalCond, argText, argSrc, evalArg, asText, asSrc, hp, he, hr,
            bind, Except.bind, pure, Except.pure]
        | ok r =>
          by_cases h : r = t
          · subst h
            simp [run, evalRhs, evalCond, argText, argSrc, evalArg, asText, asSrc, hp, he, hr,
              bind, Except.bind, pure, Except.pure]
          · have hb : (r == t) = false := by simpa using h
            simp [run, evalRhs, evalCond, argText, argSrc, evalArg, asText, asSrc, hp, he, hr,
              hb, h, bind, Except.bind, pure, Except.pure]

theorem cli_test_eq (lib : Lib σ) (inv : Inv) : cli lib .test inv = testClosed lib inv.content :=
  run_test_eq lib _ _ _ _

theorem cliWith_test_eq (fo : FileOpt) (lib : Lib σ) (inv : Inv) :
    cliWith fo lib .test inv = testClosed lib (contentWith fo inv.chan inv.raw) :=
  run_test_eq lib _ _ _ _

/-! ### `test` before /repo 1526c34 (exceptions escape) -/

def oldTestClosed (lib : Lib σ) (content : Except Err Text) : Res :=
  match content with
  | .error e => tracebackRes e
  | .ok t =>
    match lib.parse t with
    | .error e => tracebackRes e
    | .ok s =>
      if lib.containsError s then failRes
      else match lib.rebuild s with
        | .error e => tracebackRes e
        | .ok r => if t = r then okRes else failRes

theorem run_oldTest_eq (lib : Lib σ) (content : Except Err Text) (chan : Channel) (np v : Text) :
    run lib content chan np v oldTestProg {} = oldTestClosed lib content := by
  unfold oldTestProg oldTestClosed okRes failRes tracebackRes
  cases content with
  | error e => simp [run, evalRhs, crash]
  | ok t =>
    cases hp : lib.parse t with
    | error e => simp [run, evalRhs, crash, argText, evalArg, asText, hp, bind, Except.bind]
    | ok s =>
      cases he : lib.containsError s with
      | true =>
        simp [run, evalRhs, evalCond, crash, argText, argSrc, evalArg, asText, asSrc, hp, he, bind,
          Except.bind, pure, Except.pure]
      | false =>
        cases hr : lib.rebuild s with
        | error e =>
          simp [run, evalRhs, evalCond, crash, argText, argSrc, evalArg, asText, asSrc, hp, he, hr,
            bind, Except.bind, pure, Except.pure]
        | ok r =>
          by_cases h : t = r
          · subst h
            simp [run, evalRhs, evalCond, crash, argText, argSrc, evalArg, asText, asSrc, hp, he, hr,
              bind, Except.bind, pure, Except.pure]
          · have hb : (t == r) = false := by simpa using h
            simp [run, evalRhs, evalCond, crash, argText, argSrc, evalArg, asText, asSrc, hp, he, hr,
              hb, h, bind, Except.bind, pure, Except.pure]

theorem oldCli_test_eq (lib : Lib σ) (inv : Inv) : oldCli lib .test inv = oldTestClosed lib inv.content :=
  run_oldTest_eq lib _ _ _ _

/-! ## Text lemmas -/

theorem endsWith_newline_iff (t : Text) : endsWith t ['\n'] = true ↔ t.getLast? = some '\n' := by
  unfold endsWith
  rw [List.isSuffixOf_iff_suffix, List.getLast?_eq_some_iff]
  constructor
  · rintro ⟨k, hk⟩; exact ⟨k, hk.symm⟩
  · rintro ⟨k, hk⟩; exact ⟨k, hk.symm⟩

theorem ensureNewline_of_endsWith (t : Text) (h : t.getLast? = some '\n') : ensureNewline t = t := by
  simp [ensureNewline, h]

theorem ensureNewline_of_not (t : Text) (h : t.getLast? ≠ some '\n') : ensureNewline t = t ++ ['\n'] := by
  simp [ensureNewline, h]

theorem ensureNewline_endsWith (t : Text) : (ensureNewline t).getLast? = some '\n' := by
  unfold ensureNewline
  split
  · assumption
  · simp

theorem ensureNewline_idem (t : Text) : ensureNewline (ensureNewline t) = ensureNewline t :=
  ensureNewline_of_endsWith _ (ensureNewline_endsWith t)

theorem endsInOneNewline_getLast (t : Text) (h : endsInOneNewline t = true) : t.getLast? = some '\n' := by
  unfold endsInOneNewline at h
  rw [List.getLast?_eq_head?_reverse]
  split at h <;> simp_all

/-- appending a newline to a text that ends in one newline gives a text that ends in two -/
theorem endsInOneNewline_append (t : Text) (h : t.getLast? = some '\n') :
    endsInOneNewline (t ++ ['\n']) = false := by
  obtain ⟨k, rfl⟩ := List.getLast?_eq_some_iff.mp h
  simp [endsInOneNewline]

theorem trNl_of_noCR (t : Text) (h : hasCR t = false) : trNl false t = t := by
  induction t with
  | nil => rfl
  | cons c rest ih =>
    have hc : c ≠ '\r' := by
      intro hc; subst hc; simp [hasCR] at h
    have hr : hasCR rest = false := by
      simp only [hasCR, List.contains_cons, Bool.or_eq_false_iff] at h ⊢
      exact h.2
    simp only [trNl, hc, if_false, ih hr]
    split <;> simp_all

theorem translateNewlines_of_noCR (t : Text) (h : hasCR t = false) : translateNewlines t = t :=
  trNl_of_noCR t h

theorem contentWith_of_noCR (fo : FileOpt) (c : Channel) (t : Text) (h : hasCR t = false) :
    contentWith fo c (.ok t) = .ok t := by
  cases c with
  | stdin => rfl
  | file =>
    simp only [contentWith]
    split
    · simp [Except.map, translateNewlines_of_noCR t h]
    · rfl

/-- the current wiring delivers the bytes' text untouched on both channels -/
theorem contentWith_fileOpt (c : Channel) (raw : Except Err Text) : contentWith fileOpt c raw = raw := by
  cases c <;> rfl

theorem content_eq_raw (inv : Inv) : inv.content = inv.raw := contentWith_fileOpt _ _

theorem contentWith_error (fo : FileOpt) (c : Channel) (e : Err) :
    contentWith fo c (.error e : Except Err Text) = .error e := by
  cases c with
  | stdin => rfl
  | file => simp only [contentWith]; split <;> rfl

/-! ## Facts about every program -/

def Cond.chanFree : Cond → Bool
  | .isStdin => false
  | _ => true

/-- the program never asks which channel delivered the input -/
def Prog.chanFree : Prog → Bool
  | .bind _ k => k.chanFree
  | .print _ k => k.chanFree
  | .write _ k => k.chanFree
  | .helpStderr k => k.chanFree
  | .ite c t e => c.chanFree && t.chanFree && e.chanFree
  | .tryBind _ k h => k.chanFree && h.chanFree
  | .tryIte c t e h => c.chanFree && t.chanFree && e.chanFree && h.chanFree
  | .ret _ => true
  | .done => true

theorem run_chanFree (lib : Lib σ) (content : Except Err Text) (c1 c2 : Channel) (np v : Text)
    (p : Prog) (h : p.chanFree = true) (st : St σ) :
    run lib content c1 np v p st = run lib content c2 np v p st := by
  induction p generalizing st with
  | bind r k ih =>
    simp only [Prog.chanFree] at h
    simp only [run]
    split
    · exact ih h _
    · rfl
  | print x k ih =>
    simp only [Prog.chanFree] at h
    simp only [run]
    split
    · exact ih h _
    · rfl
  | write x k ih =>
    simp only [Prog.chanFree] at h
    simp only [run]
    split
    · exact ih h _
    · rfl
  | helpStderr k ih =>
    simp only [Prog.chanFree] at h
    simp only [run]
    exact ih h _
  | ite c t e iht ihe =>
    simp only [Prog.chanFree, Bool.and_eq_true] at h
    obtain ⟨⟨hc, ht⟩, he⟩ := h
    have hcond : evalCond lib c1 st c = evalCond lib c2 st c := by
      cases c <;> first | rfl | simp [Cond.chanFree] at hc
    simp only [run, hcond]
    split
    · exact iht ht _
    · exact ihe he _
    · rfl
  | tryBind r k hh ihk ihh =>
    simp only [Prog.chanFree, Bool.and_eq_true] at h
    simp only [run]
    split
    · exact ihk h.1 _
    · exact ihh h.2 _
  | tryIte c t e hh iht ihe ihh =>
    simp only [Prog.chanFree, Bool.and_eq_true] at h
    obtain ⟨⟨⟨hc, ht⟩, he⟩, hh'⟩ := h
    have hcond : evalCond lib c1 st c = evalCond lib c2 st c := by
      cases c <;> first | rfl | simp [Cond.chanFree] at hc
    simp only [run, hcond]
    split
    · exact iht ht _
    · exact ihe he _
    · exact ihh hh' _
  | ret n => rfl
  | done => rfl

/-- an uncaught exception always ends the process with status 1 -/
theorem run_raised_exit (lib : Lib σ) (content : Except Err Text) (c : Channel) (np v : Text)
    (p : Prog) (st : St σ) (e : Err) (h : (run lib content c np v p st).raised = some e) :
    (run lib content c np v p st).exit = 1 := by
  induction p generalizing st with
  | bind r k ih =>
    simp only [run] at h ⊢
    split
    · rename_i heq; rw [heq] at h; exact ih _ h
    · rfl
  | print x k ih =>
    simp only [run] at h ⊢
    split
    · rename_i heq; rw [heq] at h; exact ih _ h
    · rfl
  | write x k ih =>
    simp only [run] at h ⊢
    split
    · rename_i heq; rw [heq] at h; exact ih _ h
    · rfl
  | helpStderr k ih => simp only [run] at h ⊢; exact ih _ h
  | ite c t e iht ihe =>
    simp only [run] at h ⊢
    split
    · rename_i heq; rw [heq] at h; exact iht _ h
    · rename_i heq; rw [heq] at h; exact ihe _ h
    · rfl
  | tryBind r k hh ihk ihh =>
    simp only [run] at h ⊢
    split
    · rename_i heq; rw [heq] at h; exact ihk _ h
    · rename_i heq; rw [heq] at h; exact ihh _ h
  | tryIte c t e hh iht ihe ihh =>
    simp only [run] at h ⊢
    split
    · rename_i heq; rw [heq] at h; exact iht _ h
    · rename_i heq; rw [heq] at h; exact ihe _ h
    · rename_i heq; rw [heq] at h; exact ihh _ h
  | ret n => simp [run] at h
  | done => simp [run] at h

/-- cannot raise: only constants are emitted -/
def Prog.cannotRaise : Prog → Bool
  | .print (.lit _) k => k.cannotRaise
  | .write (.lit _) k => k.cannotRaise
  | .helpStderr k => k.cannotRaise
  | .ret _ => true
  | .done => true
  | _ => false

/-- everything that can raise happens before the first byte is written -/
def Prog.emitsLast : Prog → Bool
  | .bind _ k => k.emitsLast
  | .print _ k => k.cannotRaise
  | .write _ k => k.cannotRaise
  | .helpStderr k => k.emitsLast
  | .ite _ t e => t.emitsLast && e.emitsLast
  | .tryBind _ k h => k.emitsLast && h.emitsLast
  | .tryIte _ t e h => t.emitsLast && e.emitsLast && h.emitsLast
  | .ret _ => true
  | .done => true

theorem run_cannotRaise (lib : Lib σ) (content : Except Err Text) (c : Channel) (np v : Text)
    (p : Prog) (h : p.cannotRaise = true) (st : St σ) :
    (run lib content c np v p st).raised = none := by
  induction p generalizing st with
  | bind r k ih => simp [Prog.cannotRaise] at h
  | print x k ih =>
    cases x with
    | var i => simp [Prog.cannotRaise] at h
    | lit s =>
      simp only [Prog.cannotRaise] at h
      simp only [run, argText, evalArg, asText, bind, Except.bind]
      exact ih h _
  | write x k ih =>
    cases x with
    | var i => simp [Prog.cannotRaise] at h
    | lit s =>
      simp only [Prog.cannotRaise] at h
      simp only [run, argText, evalArg, asText, bind, Except.bind]
      exact ih h _
  | helpStderr k ih => simp only [Prog.cannotRaise] at h; simp only [run]; exact ih h _
  | ite c t e _ _ => simp [Prog.cannotRaise] at h
  | tryBind r k hh _ _ => simp [Prog.cannotRaise] at h
  | tryIte c t e hh _ _ _ => simp [Prog.cannotRaise] at h
  | ret n => rfl
  | done => rfl

/-- "on any error stdout stays empty", for every program in which all emits come last -/
theorem run_emitsLast_silent (lib : Lib σ) (content : Except Err Text) (c : Channel) (np v : Text)
    (p : Prog) (h : p.emitsLast = true) (st : St σ)
    (hr : (run lib content c np v p st).raised ≠ none) :
    (run lib content c np v p st).stdout = st.out := by
  induction p generalizing st with
  | bind r k ih =>
    simp only [Prog.emitsLast] at h
    simp only [run] at hr ⊢
    split
    · rename_i heq; rw [heq] at hr; exact ih h _ hr
    · rfl
  | print x k ih =>
    simp only [Prog.emitsLast] at h
    simp only [run] at hr ⊢
    split
    · rename_i heq; rw [heq] at hr
      exact absurd (run_cannotRaise lib content c np v k h _) hr
    · rfl
  | write x k ih =>
    simp only [Prog.emitsLast] at h
    simp only [run] at hr ⊢
    split
    · rename_i heq; rw [heq] at hr
      exact absurd (run_cannotRaise lib content c np v k h _) hr
    · rfl
  | helpStderr k ih =>
    simp only [Prog.emitsLast] at h
    simp only [run] at hr ⊢
    exact ih h _ hr
  | ite cnd t e iht ihe =>
    simp only [Prog.emitsLast, Bool.and_eq_true] at h
    simp only [run] at hr ⊢
    split
    · rename_i heq; rw [heq] at hr; exact iht h.1 _ hr
    · rename_i heq; rw [heq] at hr; exact ihe h.2 _ hr
    · rfl
  | tryBind r k hh ihk ihh =>
    simp only [Prog.emitsLast, Bool.and_eq_true] at h
    simp only [run] at hr ⊢
    split
    · rename_i heq; rw [heq] at hr; exact ihk h.1 _ hr
    · rename_i heq; rw [heq] at hr; exact ihh h.2 _ hr
  | tryIte cnd t e hh iht ihe ihh =>
    simp only [Prog.emitsLast, Bool.and_eq_true] at h
    simp only [run] at hr ⊢
    split
    · rename_i heq; rw [heq] at hr; exact iht h.1.1 _ hr
    · rename_i heq; rw [heq] at hr; exact ihe h.1.2 _ hr
    · rename_i heq; rw [heq] at hr; exact ihh h.2 _ hr
  | ret n => simp [run] at hr
  | done => simp [run] at hr

/-- stdout only grows -/
theorem run_stdout_prefix (lib : Lib σ) (content : Except Err Text) (c : Channel) (np v : Text)
    (p : Prog) (st : St σ) : ∃ suf, (run lib content c np v p st).stdout = st.out ++ suf := by
  induction p generalizing st with
  | bind r k ih =>
    simp only [run]
    split
    · exact ih _
    · exact ⟨[], by simp [crash]⟩
  | print x k ih =>
    simp only [run]
    split
    · rename_i t _
      obtain ⟨suf, hs⟩ := ih { st with out := st.out ++ (t ++ ['\n']) }
      exact ⟨(t ++ ['\n']) ++ suf, by rw [hs]; simp⟩
    · exact ⟨[], by simp [crash]⟩
  | write x k ih =>
    simp only [run]
    split
    · rename_i t _
      obtain ⟨suf, hs⟩ := ih { st with out := st.out ++ t }
      exact ⟨t ++ suf, by rw [hs]; simp⟩
    · exact ⟨[], by simp [crash]⟩
  | helpStderr k ih => simp only [run]; exact ih _
  | ite cnd t e iht ihe =>
    simp only [run]
    split
    · exact iht _
    · exact ihe _
    · exact ⟨[], by simp [crash]⟩
  | tryBind r k hh ihk ihh =>
    simp only [run]
    split
    · exact ihk _
    · exact ihh _
  | tryIte cnd t e hh iht ihe ihh =>
    simp only [run]
    split
    · exact iht _
    · exact ihe _
    · exact ihh _
  | ret n => exact ⟨[], by simp [run]⟩
  | done => exact ⟨[], by simp [run]⟩

/-! ## Closed form of the current `set` / `rm` -/

def editClosed (lib : Lib σ) (cmd : Cmd) (inv : Inv) : Res :=
  match inv.content with
  | .error e => tracebackRes e
  | .ok t =>
    match libEdit lib cmd inv.npath inv.value t with
    | .error e => tracebackRes e
    | .ok text => ⟨ensureNewline text, 0, none, false⟩

theorem cli_set_eq (lib : Lib σ) (inv : Inv) :
    cli lib .set inv = editClosed lib .set inv := by
  unfold cli runProg progOf setProg editProg editClosed tracebackRes libEdit
  cases hc : inv.content with
  | error e => simp [run, evalRhs, crash]
  | ok t =>
    cases hp : lib.parse t with
    | error e => simp [run, evalRhs, crash, argText, evalArg, asText, hp, bind, Except.bind]
    | ok s =>
      cases hs : lib.setValue s inv.npath inv.value with
      | error e =>
        simp [run, evalRhs, crash, argText, argSrc, evalArg, asText, asSrc, cliArgVal, hp, hs, bind,
          Except.bind, pure, Except.pure]
      | ok text =>
        by_cases hn : text.getLast? = some '\n'
        · have h1 := (endsWith_newline_iff text).mpr hn
          simp [run, evalRhs, evalCond, crash, argText, argSrc, evalArg, asText, asSrc, cliArgVal, hp, hs,
            h1, ensureNewline, hn, bind, Except.bind, pure, Except.pure]
        · have h1 : endsWith text ['\n'] = false := by
            cases h : endsWith text ['\n'] with
            | false => rfl
            | true => exact absurd ((endsWith_newline_iff text).mp h) hn
          simp [run, evalRhs, evalCond, crash, argText, argSrc, evalArg, asText, asSrc, cliArgVal, hp, hs,
            h1, ensureNewline, hn, bind, Except.bind, pure, Except.pure]

theorem cli_rm_eq (lib : Lib σ) (inv : Inv) :
    cli lib .rm inv = editClosed lib .rm inv := by
  unfold cli runProg progOf rmProg editProg editClosed tracebackRes libEdit
  cases hc : inv.content with
  | error e => simp [run, evalRhs, crash]
  | ok t =>
    cases hp : lib.parse t with
    | error e => simp [run, evalRhs, crash, argText, evalArg, asText, hp, bind, Except.bind]
    | ok s =>
      cases hs : lib.removeValue s inv.npath with
      | error e =>
        simp [run, evalRhs, crash, argText, argSrc, evalArg, asText, asSrc, cliArgVal, hp, hs, bind,
          Except.bind, pure, Except.pure]
      | ok text =>
        by_cases hn : text.getLast? = some '\n'
        · have h1 := (endsWith_newline_iff text).mpr hn
          simp [run, evalRhs, evalCond, crash, argText, argSrc, evalArg, asText, asSrc, cliArgVal, hp, hs,
            h1, ensureNewline, hn, bind, Except.bind, pure, Except.pure]
        · have h1 : endsWith text ['\n'] = false := by
            cases h : endsWith text ['\n'] with
            | false => rfl
            | true => exact absurd ((endsWith_newline_iff text).mp h) hn
          simp [run, evalRhs, evalCond, crash, argText, argSrc, evalArg, asText, asSrc, cliArgVal, hp, hs,
            h1, ensureNewline, hn, bind, Except.bind, pure, Except.pure]

/-- `set` and `rm` have the same closed form. -/
theorem cli_edit_eq (lib : Lib σ) (cmd : Cmd) (h : cmd ≠ .test) (inv : Inv) :
    cli lib cmd inv = editClosed lib cmd inv := by
  cases cmd with
  | test => exact absurd rfl h
  | set => exact cli_set_eq lib inv
  | rm => exact cli_rm_eq lib inv

/-! ### the programs before /repo 9670208 (print-based) -/

def oldEditClosed (lib : Lib σ) (cmd : Cmd) (inv : Inv) : Res :=
  match inv.content with
  | .error e => tracebackRes e
  | .ok t =>
    match libEdit lib cmd inv.npath inv.value t with
    | .error e => tracebackRes e
    | .ok text => ⟨text ++ ['\n'], 0, none, false⟩

theorem oldCli_set_eq (lib : Lib σ) (inv : Inv) : oldCli lib .set inv = oldEditClosed lib .set inv := by
  unfold oldCli runProg oldProgOf oldSetProg oldEditProg oldEditClosed tracebackRes libEdit
  cases hc : inv.content with
  | error e => simp [run, evalRhs, crash]
  | ok t =>
    cases hp : lib.parse t with
    | error e => simp [run, evalRhs, crash, argText, evalArg, asText, hp, bind, Except.bind]
    | ok s =>
      cases hs : lib.setValue s inv.npath inv.value with
      | error e =>
        simp [run, evalRhs, crash, argText, argSrc, evalArg, asText, asSrc, cliArgVal, hp, hs, bind,
          Except.bind, pure, Except.pure]
      | ok text =>
        simp [run, evalRhs, crash, argText, argSrc, evalArg, asText, asSrc, cliArgVal, hp, hs, bind,
          Except.bind, pure, Except.pure]

theorem oldCli_rm_eq (lib : Lib σ) (inv : Inv) : oldCli lib .rm inv = oldEditClosed lib .rm inv := by
  unfold oldCli runProg oldProgOf oldRmProg oldEditProg oldEditClosed tracebackRes libEdit
  cases hc : inv.content with
  | error e => simp [run, evalRhs, crash]
  | ok t =>
    cases hp : lib.parse t with
    | error e => simp [run, evalRhs, crash, argText, evalArg, asText, hp, bind, Except.bind]
    | ok s =>
      cases hs : lib.removeValue s inv.npath with
      | error e =>
        simp [run, evalRhs, crash, argText, argSrc, evalArg, asText, asSrc, cliArgVal, hp, hs, bind,
          Except.bind, pure, Except.pure]
      | ok text =>
        simp [run, evalRhs, crash, argText, argSrc, evalArg, asText, asSrc, cliArgVal, hp, hs, bind,
          Except.bind, pure, Except.pure]

/-- the old `set` and `rm` have the same closed form. -/
theorem oldCli_edit_eq (lib : Lib σ) (cmd : Cmd) (h : cmd ≠ .test) (inv : Inv) :
    oldCli lib cmd inv = oldEditClosed lib cmd inv := by
  cases cmd with
  | test => exact absurd rfl h
  | set => exact oldCli_set_eq lib inv
  | rm => exact oldCli_rm_eq lib inv

end Nima.Cli
