import NimaVerif.Props.C01
#print axioms Nima.C01.formatTrivia_newline_terminated
#print axioms Nima.C01.formatTrivia_newline_terminated_all
#print axioms Nima.C01.formatTrivia_empty_iff
#print axioms Nima.C01.formatTrivia_comment_closed
#print axioms Nima.C01.comment_rendering_open
#print axioms Nima.C01.trailing_extends
#print axioms Nima.C01.trailing_last_is_comment
#print axioms Nima.C01.trailing_last_is_layout
#print axioms Nima.C01.trailing_open_comment_iff
#print axioms Nima.C01.trailing_open_ends_with_comment
#print axioms Nima.C01.trailing_closed_otherwise
#print axioms Nima.C01.cex_trailing_comment_left_open
#print axioms Nima.C01.frag_output_is_pieces
#print axioms Nima.C01.frag_parse_total
#print axioms Nima.C01.frag_tokens_preserved
#print axioms Nima.C01.frag_pieces_solid
#print axioms Nima.C01.frag_name_check_is_splitter
