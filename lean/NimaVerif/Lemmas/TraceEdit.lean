import NimaVerif.Lemmas.Trace
/-!
Footprints of the attrset-level edit functions: `setValueInAttrset` / `removeValueInAttrset` run on
a set `ts` only mutate Binding / AttributeSet objects that occur in `ts` or are fresh (plus, when a
binding's value is an identifier, the binding the reference resolves to).
-/
namespace Nima
-- name tokens are compared by spelling in this file (see `NameCmp` in Model/Edit.lean)
attribute [local instance] NameCmp.spelled

open Node EditM

def Node.isIdent : Node → Bool | .ident _ => true | _ => false

mutual
  /-- every Binding identity in the node is in `A`, every AttributeSet identity in `S`, and
      (with `ni`) no binding's value is an identifier -/
  def Node.Within (A S : Nat → Prop) (ni : Bool) : Node → Prop
    | .atom _ => True
    | .ident _ => True
    | .set sid vs o _ _ => S sid ∧ WithinL A S ni vs ∧ WithinL A S ni o
    | .bind i _ _ v _ _ => A i ∧ (ni = true → v.isIdent = false) ∧ Node.Within A S ni v
    | .inherit _ _ => True
    | .entry _ leaf _ _ => Node.Within A S ni leaf
  def WithinL (A S : Nat → Prop) (ni : Bool) : List Node → Prop
    | [] => True
    | x :: xs => Node.Within A S ni x ∧ WithinL A S ni xs
end

section
variable {A S : Nat → Prop} {ni : Bool}

theorem withinL_mem {xs : List Node} (h : WithinL A S ni xs) {x : Node} (hx : x ∈ xs) :
    x.Within A S ni := by
  induction xs with
  | nil => cases hx
  | cons y ys ih =>
    simp only [WithinL] at h
    rcases List.mem_cons.1 hx with rfl | hm
    · exact h.1
    · exact ih h.2 hm

theorem within_values {n : Node} (h : n.Within A S ni) : WithinL A S ni n.setValues := by
  cases n <;> simp_all [Node.Within, setValues, WithinL]

theorem within_sid {n : Node} {sid : Nat} (h : n.Within A S ni) (hs : n.setSid? = some sid) :
    S sid := by
  cases n <;> simp_all [Node.Within, setSid?]

theorem within_bindId {b : Node} {bid : Nat} (h : b.Within A S ni) (hb : b.bindId? = some bid) :
    A bid := by
  cases b <;> simp_all [Node.Within, bindId?]

theorem within_bindValue {b v : Node} (h : b.Within A S ni) (hb : b.bindValue? = some v) :
    v.Within A S ni := by
  cases b <;> simp_all [Node.Within, bindValue?]

theorem within_notIdent {b v : Node} (h : b.Within A S ni) (hb : b.bindValue? = some v)
    (hni : ni = true) : v.isIdent = false := by
  cases b <;> simp_all [Node.Within, bindValue?]

theorem within_findBinding {n b : Node} {k : Text} (h : n.Within A S ni)
    (hb : findBinding n.setValues k = some b) : b.Within A S ni :=
  withinL_mem (within_values h) (findBinding_some hb).1

theorem within_find {xs : List Node} {p : Node → Bool} {b : Node} (h : WithinL A S ni xs)
    (hb : xs.find? p = some b) : b.Within A S ni :=
  withinL_mem h (List.mem_of_find?_eq_some hb)

theorem within_findNamed {n b : Node} {k : Text} {ne : Option Bool} (h : n.Within A S ni)
    (hb : findNamedBinding n.setValues k ne = some b) : b.Within A S ni :=
  within_find (within_values h) hb

theorem within_findRoot {n b : Node} {k : Text} (h : n.Within A S ni)
    (hb : findAttrpathRoot n.setValues k = some b) : b.Within A S ni :=
  within_find (within_values h) hb

theorem within_empty_set {sid : Nat} {m r : Bool} (h : S sid) :
    (Node.set sid [] [] m r).Within A S ni := by
  simp [Node.Within, WithinL, h]

/-- values reached by `__getitem__` are inside -/
theorem within_setGetItem {s : Node} {k : Text} {v : Node} (hs : s.Within A S ni)
    (h : setGetItem s k = .ok v) : v.Within A S ni := by
  have hfind : ∀ {n b w : Node} {key : Text}, n.Within A S ni →
      findBinding n.setValues key = some b → b.bindValue? = some w → w.Within A S ni :=
    fun hn hb hw => within_bindValue (within_findBinding hn hb) hw
  unfold setGetItem at h
  split at h
  · rename_i b hb
    split at h
    · rename_i w hw
      injection h with h; subst h
      exact hfind hs hb hw
    · cases h
  · split at h
    · injection h with h; subst h; simp [Node.Within]
    · split at h
      · cases h
      · rename_i segs _
        split at h
        · cases h
        · have hwalk : ∀ (segs : List Text) (cur : Node), cur.Within A S ni →
              setGetItem.walk cur segs = .ok v → v.Within A S ni := by
            intro segs
            induction segs with
            | nil => intro cur _ hw; simp [setGetItem.walk] at hw
            | cons seg more ih =>
              intro cur hc hw
              cases more with
              | nil =>
                simp only [setGetItem.walk] at hw
                split at hw
                · rename_i b hb
                  split at hw
                  · rename_i w hw'
                    injection hw with hw; subst hw
                    exact hfind hc hb hw'
                  · cases hw
                · cases hw
              | cons seg2 more2 =>
                simp only [setGetItem.walk] at hw
                split at hw
                · rename_i b hb
                  split at hw
                  · rename_i w _ _ _ _ _ hw'
                    exact ih _ (hfind hc hb hw') hw
                  · cases hw
                · cases hw
          exact hwalk _ _ hs h

/-- the stack of `_walk_attrpath_stack` consists of nodes of the tree -/
theorem within_walkGo {leafNested requireRoot : Bool} (segs : List Text) :
    ∀ (current : Node) (stack res : List (Node × Node)),
      current.Within A S ni → (∀ pb ∈ stack, pb.1.Within A S ni ∧ pb.2.Within A S ni) →
      walkAttrpathStack.go leafNested requireRoot current stack segs = .ok (some res) →
      ∀ pb ∈ res, pb.1.Within A S ni ∧ pb.2.Within A S ni := by
  induction segs with
  | nil =>
    intro current stack res _ hst h
    simp only [walkAttrpathStack.go] at h
    injection h with h; injection h with h; subst h; exact hst
  | cons seg more ih =>
    intro current stack res hc hst h
    cases more with
    | nil =>
      simp only [walkAttrpathStack.go] at h
      split at h
      · split at h <;> cases h
      · rename_i b hb
        injection h with h; injection h with h; subst h
        intro pb hpb
        rcases List.mem_append.1 hpb with hpb | hpb
        · exact hst pb hpb
        · simp only [List.mem_singleton] at hpb; subst hpb
          exact ⟨hc, within_findNamed hc hb⟩
    | cons seg2 more2 =>
      simp only [walkAttrpathStack.go] at h
      split at h
      · split at h <;> cases h
      · rename_i b hb
        split at h
        · rename_i w _ _ _ _ _ hw
          refine ih _ _ res (within_bindValue (within_findNamed hc hb) hw) ?_ h
          intro pb hpb
          rcases List.mem_append.1 hpb with hpb | hpb
          · exact hst pb hpb
          · simp only [List.mem_singleton] at hpb; subst hpb
            exact ⟨hc, within_findNamed hc hb⟩
        · split at h <;> cases h

theorem within_walkStack {ts : Node} {segs : List Text} {leafNested requireRoot : Bool}
    {res : List (Node × Node)} (hts : ts.Within A S ni)
    (h : walkAttrpathStack ts segs leafNested requireRoot = .ok (some res)) :
    ∀ pb ∈ res, pb.1.Within A S ni ∧ pb.2.Within A S ni := by
  unfold walkAttrpathStack at h
  split at h
  · split at h <;> cases h
  · split at h <;> cases h
  · rename_i root rest _
    split at h
    · split at h <;> cases h
    · rename_i rootB hroot
      split at h
      · rename_i rv _ _ _ _ _ hrv
        have hb := within_findRoot hts hroot
        refine within_walkGo rest _ _ res (within_bindValue hb hrv) ?_ h
        intro pb hpb
        simp only [List.mem_singleton] at hpb; subst hpb
        exact ⟨hts, hb⟩
      · split at h <;> cases h

theorem within_findLeaf {ts leaf : Node} {segs : List Text} (hts : ts.Within A S ni)
    (h : findAttrpathLeaf ts segs = some leaf) : leaf.Within A S ni := by
  unfold findAttrpathLeaf at h
  split at h
  · rename_i stack hst
    cases hl : stack.getLast? with
    | none => simp [hl] at h
    | some pb =>
      simp only [hl, Option.map_some, Option.some.injEq] at h
      subst h
      exact (within_walkStack hts hst pb (List.mem_of_getLast? hl)).2
  · cases h

end

/-! ### footprints of the edit functions -/

section
variable {grow : Bool} {A S : Nat → Prop} {ni : Bool} {N : Nat}

theorem traced_setSetItem {s : Node} (hs : s.Within A S ni) (key : Text) (v : Node) :
    Traced grow A S N (setSetItem s key v) (fun _ => True) := by
  unfold setSetItem
  split
  · rename_i b _ hb
    split
    · rename_i bid hid
      exact Traced.assign (within_bindId (within_findBinding hs hb) hid)
    · exact Traced.pure trivial
  · rename_i sid hb hsid
    have hS := within_sid hs hsid
    exact Traced.bind Traced.fresh fun bid _ =>
      Traced.bind (Traced.appendValue hS) fun _ _ => Traced.appendOrder hS
  · exact Traced.throw

theorem traced_assignThrough (hAll : ∀ i, A i) (ts : Node) (wl : Bool) (name : Text) (v : Node) :
    Traced grow A S N (assignThrough ts wl name v) (fun _ => True) := by
  unfold assignThrough
  refine Traced.bind Traced.get fun d _ => ?_
  dsimp only
  split
  · exact Traced.pure trivial
  · split
    · rename_i bid _
      exact Traced.bind (Traced.assign (hAll bid)) fun _ _ => Traced.pure trivial
    · exact Traced.pure trivial

theorem traced_assignExisting (hor : ni = true ∨ ∀ i, A i) (ts parent : Node) (wl : Bool)
    {b : Node} (hb : b.Within A S ni) (v : Node) :
    Traced grow A S N (assignExisting ts parent wl b v) (fun _ => True) := by
  unfold assignExisting
  split
  · rename_i bid targetName hid hval
    rcases hor with hni | hAll
    · have := within_notIdent hb hval hni
      simp [Node.isIdent] at this
    · refine Traced.bind (traced_assignThrough hAll ts wl targetName v) fun r _ => ?_
      split
      · exact Traced.pure trivial
      · refine Traced.bind Traced.get fun d _ => ?_
        dsimp only
        split
        · split
          · rename_i oid _
            exact Traced.assign (hAll oid)
          · exact Traced.pure trivial
        · split
          · split
            · rename_i sid' _
              exact Traced.assign (hAll sid')
            · exact Traced.pure trivial
          · exact Traced.assign (hAll bid)
  · rename_i bid _ hid _
    exact Traced.assign (within_bindId hb hid)
  · exact Traced.pure trivial

theorem traced_setAttrpathWalk (hS : ∀ i, N ≤ i → S i) (segs : List Text) :
    ∀ current : Node, current.Within A S ni →
      Traced grow A S N (setAttrpathWalk current segs) (fun n => n.Within A S ni) := by
  induction segs with
  | nil => intro current hc; unfold setAttrpathWalk; exact Traced.pure hc
  | cons seg more ih =>
    intro current hc
    unfold setAttrpathWalk
    split
    · rename_i b hb
      split
      · rename_i w _ _ _ _ _ hw
        exact ih _ (within_bindValue (within_findNamed hc hb) hw)
      · exact Traced.throw
    · split
      · exact Traced.throw
      · split
        · exact Traced.throw
        · rename_i csid hcs
          have hC := within_sid hc hcs
          refine Traced.bind Traced.fresh fun sid hsid => ?_
          refine Traced.bind Traced.fresh fun bid _ => ?_
          refine Traced.bind (Traced.appendValue hC) fun _ _ => ?_
          exact ih _ (within_empty_set (hS sid hsid))

theorem traced_setAttrpathValue (hS : ∀ i, N ≤ i → S i) {tsSid : Nat} (hts : S tsSid)
    {root : Node} (hroot : root.Within A S ni) (segs : List Text) (v : Node) :
    Traced grow A S N (setAttrpathValue tsSid root segs v) (fun _ => True) := by
  unfold setAttrpathValue
  split
  · rename_i rv _ _ _ _ _ hrv
    refine Traced.bind (traced_setAttrpathWalk hS _ _ (within_bindValue hroot hrv)) fun current hc => ?_
    split
    · exact Traced.throw
    · split
      · exact Traced.throw
      · split
        · rename_i b hb
          split
          · rename_i bid hid
            exact Traced.assign (within_bindId (within_findNamed hc hb) hid)
          · exact Traced.pure trivial
        · split
          · exact Traced.throw
          · rename_i csid hcs
            have hC := within_sid hc hcs
            refine Traced.bind Traced.fresh fun bid _ => ?_
            refine Traced.bind (Traced.appendValue hC) fun _ _ => ?_
            exact Traced.appendOrder hts
  · exact Traced.throw

theorem traced_resolveParentWalk (hS : ∀ i, N ≤ i → S i) (cm : Bool) (keys : List Text) :
    ∀ current : Node, current.Within A S ni →
      Traced grow A S N (resolveParentWalk cm current keys) (fun n => n.Within A S ni) := by
  induction keys with
  | nil => intro current hc; unfold resolveParentWalk; exact Traced.pure hc
  | cons key more ih =>
    intro current hc
    unfold resolveParentWalk
    split
    · rename_i w _ _ _ _ _ hw
      exact ih _ (within_setGetItem hc hw)
    · exact Traced.throw
    · split
      · exact Traced.throw
      · split
        · exact Traced.throw
        · refine Traced.bind Traced.fresh fun sid hsid => ?_
          refine Traced.bind (traced_setSetItem hc _ _) fun _ _ => ?_
          exact ih _ (within_empty_set (hS sid hsid))

theorem traced_setValueInAttrset (hS : ∀ i, N ≤ i → S i) (hor : ni = true ∨ ∀ i, A i)
    {ts : Node} (hts : ts.Within A S ni) (wl : Bool) (npath : Text) (v : Node) :
    Traced grow A S N (setValueInAttrset ts wl npath v) (fun _ => True) := by
  unfold setValueInAttrset
  split
  · exact Traced.throw
  · exact Traced.throw
  · exact Traced.throw
  · rename_i segs seg0 segRest tsSid _ htsid
    have hT := within_sid hts htsid
    split
    · rename_i leaf hleaf
      split
      · rename_i lid hlid
        exact Traced.assign (within_bindId (within_findLeaf hts hleaf) hlid)
      · exact Traced.pure trivial
    · dsimp only
      split
      · split
        · exact Traced.throw
        · split
          · rename_i b hb
            exact traced_assignExisting hor ts ts wl (within_findBinding hts hb) v
          · exact traced_setSetItem hts _ _
      · split
        · rename_i root hroot
          exact traced_setAttrpathValue hS hT (within_findRoot hts hroot) _ _
        · refine Traced.bind (traced_resolveParentWalk hS true _ ts hts) fun parent hp => ?_
          split
          · exact Traced.throw
          · split
            · rename_i b hb
              exact traced_assignExisting hor ts parent wl (within_findBinding hp hb) v
            · exact traced_setSetItem hp _ _

/-! removal -/

theorem traced_modify_onSet {sid : Nat} (f : SetFn) {g : Node → Node} (hg : g = f.fn) (h : S sid)
    (hgr : grow = true → f.grows = true) :
    Traced grow A S N (EditM.modify fun d => d.updSet sid g) (fun _ => True) := by
  subst hg; exact Traced.onSet f h hgr

theorem traced_setDelItem {s : Node} (hs : s.Within A S ni) (key : Text) :
    Traced false A S N (setDelItem s key) (fun _ => True) := by
  unfold setDelItem
  split
  · rename_i b sid hb hsid
    split
    · rename_i bid hid
      refine traced_modify_onSet (.delItem bid) ?_ (within_sid hs hsid) (fun h => by cases h)
      funext n; cases n <;> rfl
    · exact Traced.pure trivial
  · exact Traced.throw

theorem traced_pruneParents (l : List (Node × Node)) :
    (∀ pb ∈ l, pb.1.Within A S ni ∧ pb.2.Within A S ni) →
      Traced false A S N (pruneParents l) (fun _ => True) := by
  induction l with
  | nil => intro _; unfold pruneParents; exact Traced.pure trivial
  | cons pb rest ih =>
    intro h
    obtain ⟨parent, b⟩ := pb
    unfold pruneParents
    refine Traced.bind Traced.get fun d _ => ?_
    split
    · rename_i vsid _ _ _ _ psid bid _ hps _
      have hP := within_sid (h (parent, b) (by simp)).1 hps
      have hgo : Traced false A S N (do removeValueById psid bid; pruneParents rest) (fun _ => True) :=
        Traced.bind (Traced.removeValueById hP) fun _ _ => ih fun pb hpb => h pb (by simp [hpb])
      dsimp only
      split
      · split
        · exact hgo
        · exact Traced.pure trivial
      · simp only [if_true]
        exact hgo
    · exact Traced.pure trivial

theorem traced_removeAttrpathValue {ts : Node} (hts : ts.Within A S ni) (segs : List Text) :
    Traced false A S N (removeAttrpathValue ts segs) (fun _ => True) := by
  unfold removeAttrpathValue
  split
  · exact Traced.throw
  · exact Traced.throw
  · rename_i stack hst
    have hstack := within_walkStack hts hst
    split
    · rename_i parent leaf tsSid hlast htsid
      have hpl := hstack (parent, leaf) (List.mem_of_getLast? hlast)
      split
      · rename_i psid lid hps hlid
        refine Traced.bind (Traced.removeValueById (within_sid hpl.1 hps)) fun _ _ => ?_
        refine Traced.bind (traced_modify_onSet (.eraseEntry lid) ?_ (within_sid hts htsid)
          (fun h => by cases h)) fun _ _ => ?_
        · funext n; cases n <;> rfl
        · apply traced_pruneParents
          intro pb hpb
          exact hstack pb (List.dropLast_subset _ (List.mem_reverse.1 hpb))
      · exact Traced.throw
    · exact Traced.throw

theorem traced_removeValueInAttrset (hS : ∀ i, N ≤ i → S i) {ts : Node}
    (hts : ts.Within A S ni) (npath : Text) :
    Traced false A S N (removeValueInAttrset ts npath) (fun _ => True) := by
  unfold removeValueInAttrset
  split
  · exact Traced.throw
  · exact Traced.throw
  · split
    · exact traced_removeAttrpathValue hts _
    · dsimp only
      split
      · split
        · exact Traced.throw
        · split
          · exact Traced.throw
          · exact traced_setDelItem hts _
      · split
        · exact traced_removeAttrpathValue hts _
        · refine Traced.bind (traced_resolveParentWalk hS false _ ts hts) fun parent hp => ?_
          split
          · exact Traced.throw
          · exact traced_setDelItem hp _

end

end Nima
