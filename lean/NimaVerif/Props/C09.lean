import NimaVerif.Model.Edit
/-! # C09 — placeholder until the theorems are in. -/
namespace Nima.C09
theorem split_scope_none : splitScopeNpath "a".toList = .ok none := by decide
end Nima.C09
