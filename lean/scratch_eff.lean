import NimaVerif.Gen.Effects
open Nima.Effects Nima.Gen.Effects
def chk (skip : List Label) : Bool :=
  match rebuildProg, cert with
  | some p, some c => check (p.remove skip) c
  | _, _ => false
#eval (rebuildProg.map fun p => p.stmts.length)
#eval match rebuildProg, cert with | some p, some c => (violations p c, certErrors p c) | _, _ => ([], 0)
theorem t1 : chk [] = false := by decide +kernel
#eval match rebuildProg, cert with | some p, some c => (violations p c).map (labels.getD · "") | _, _ => []
