"""Gen/Paths.lean (C17): the path-resolution recipe of `NixPath.resolved_path` as a term of the
model's `Recipe` IR, and the data flow of the plumbing around it (`parse_file`,
`source_path_context`, `NixPath.from_cst`, `Import._resolve_argument/_follow_import/__getitem__`)
as canonical strings with every local variable inlined.

Both are obtained by symbolic execution of the function bodies (straight-line code, `if … raise`,
conditional assignment, early return), so renaming a local or reordering independent statements
yields the same output, while changing what is joined to what, which path is published through the
context variable, or which exception guards what, yields a different one (or an extraction failure,
which is emitted as `none`). Either way `tie_resolved_path` / `tie_plumbing` stop checking.
"""
from __future__ import annotations

import ast

from .translate import ExtractError, Result, lean_str, lean_text, parse_file, run_table

ERR = {"ValueError": ".value", "TypeError": ".type", "KeyError": ".key", "OSError": ".os",
       "FileNotFoundError": ".os"}


def _find_class(mod: ast.Module, name: str) -> ast.ClassDef:
    for node in mod.body:
        if isinstance(node, ast.ClassDef) and node.name == name:
            return node
    raise ExtractError(f"class {name} not found")


def _method(cls: ast.ClassDef, name: str) -> ast.FunctionDef:
    for node in cls.body:
        if isinstance(node, ast.FunctionDef) and node.name == name:
            return node
    raise ExtractError(f"method {cls.name}.{name} not found")


def _is_doc(st) -> bool:
    return isinstance(st, ast.Expr) and isinstance(st.value, ast.Constant) and isinstance(st.value.value, str)


def _raised(st) -> str | None:
    if isinstance(st, ast.Raise) and st.exc is not None:
        e = st.exc.func if isinstance(st.exc, ast.Call) else st.exc
        if isinstance(e, ast.Name):
            return e.id
    return None


# ------------------------------------------------------------------ resolved_path -> Recipe
# IR as nested tuples: ("ofText",) ("src",) ("cwd",) ("parent", e) ("join", a, b) ("expanduser", e); the pseudo value
# ("text",) stands for `self.path` (only legal under Path(...) / startswith / endswith).
def _pexpr(node, env):
    if isinstance(node, ast.Name):
        if node.id in env:
            return env[node.id]
        raise ExtractError(f"resolved_path: unknown name {node.id}")
    if isinstance(node, ast.Attribute):
        if isinstance(node.value, ast.Name) and node.value.id == "self":
            if node.attr == "path":
                return ("text",)
            if node.attr == "source_path":
                return ("src",)
            raise ExtractError(f"resolved_path: unknown attribute self.{node.attr}")
        if node.attr == "parent":
            return ("parent", _path(node.value, env))
        raise ExtractError(f"resolved_path: unknown attribute .{node.attr}")
    if isinstance(node, ast.Call):
        f = node.func
        if isinstance(f, ast.Name) and f.id in ("Path", "PurePath", "PosixPath") and len(node.args) == 1 \
                and not node.keywords:
            a = _pexpr(node.args[0], env)
            if a == ("text",):
                return ("ofText",)
            if a[0] != "text":
                return a  # Path(p) of a path is that path
        if isinstance(f, ast.Attribute) and f.attr == "cwd" and isinstance(f.value, ast.Name) \
                and f.value.id == "Path" and not node.args:
            return ("cwd",)
        if isinstance(f, ast.Attribute) and f.attr == "joinpath" and len(node.args) == 1:
            return ("join", _path(f.value, env), _path(node.args[0], env))
        if isinstance(f, ast.Attribute) and f.attr == "expanduser" and not node.args and not node.keywords:
            return ("expanduser", _path(f.value, env))
        raise ExtractError(f"resolved_path: unknown call {ast.unparse(node)}")
    if isinstance(node, ast.BinOp) and isinstance(node.op, ast.Div):
        return ("join", _path(node.left, env), _path(node.right, env))
    raise ExtractError(f"resolved_path: unknown expression {ast.unparse(node)}")


def _path(node, env):
    e = _pexpr(node, env)
    if e == ("text",):
        raise ExtractError("resolved_path: raw text used as a path")
    if e[0] == "ite":
        raise ExtractError("resolved_path: nested conditional")
    return e


def _pcond(node, env):
    """-> condition IR: ("isAbs", e) ("srcSome",) ("startsWith", s) ("endsWith", s) ("not", c)
    ("and", [c…]) ("or", [c…])"""
    if isinstance(node, ast.UnaryOp) and isinstance(node.op, ast.Not):
        return ("not", _pcond(node.operand, env))
    if isinstance(node, ast.BoolOp):
        return ("and" if isinstance(node.op, ast.And) else "or", [_pcond(v, env) for v in node.values])
    if isinstance(node, ast.Compare) and len(node.ops) == 1 and isinstance(node.comparators[0], ast.Constant) \
            and node.comparators[0].value is None:
        e = _pexpr(node.left, env)
        if e != ("src",):
            raise ExtractError(f"resolved_path: None test on {ast.unparse(node.left)}")
        if isinstance(node.ops[0], ast.IsNot):
            return ("srcSome",)
        if isinstance(node.ops[0], ast.Is):
            return ("not", ("srcSome",))
    if isinstance(node, ast.Call) and isinstance(node.func, ast.Attribute):
        f = node.func
        if f.attr == "is_absolute" and not node.args:
            return ("isAbs", _path(f.value, env))
        if f.attr in ("startswith", "endswith") and len(node.args) == 1 \
                and isinstance(node.args[0], ast.Constant) and isinstance(node.args[0].value, str):
            if _pexpr(f.value, env) != ("text",):
                raise ExtractError("resolved_path: startswith/endswith on something else than self.path")
            return ("startsWith" if f.attr == "startswith" else "endsWith", node.args[0].value)
    raise ExtractError(f"resolved_path: unknown condition {ast.unparse(node)}")


def _mentions_src(c) -> bool:
    if c[0] == "isAbs":
        return "src" in repr(c[1])
    if c[0] == "not":
        return _mentions_src(c[1])
    if c[0] in ("and", "or"):
        return any(_mentions_src(x) for x in c[1])
    return False


def _negate(c):
    if c[0] == "not":
        return c[1]
    if c[0] == "and":
        return ("or", [_negate(x) for x in c[1]])
    if c[0] == "or":
        return ("and", [_negate(x) for x in c[1]])
    return ("not", c)


def _lean_pexpr(e) -> str:
    if e[0] in ("ofText", "src", "cwd"):
        return "." + e[0]
    if e[0] == "parent":
        return f".parent ({_lean_pexpr(e[1])})"
    if e[0] == "join":
        return f".join ({_lean_pexpr(e[1])}) ({_lean_pexpr(e[2])})"
    if e[0] == "expanduser":
        return f".expanduser ({_lean_pexpr(e[1])})"
    raise ExtractError(f"cannot emit {e!r}")


def _lean_lit(c) -> str:
    if c[0] == "isAbs":
        return f".isAbs ({_lean_pexpr(c[1])})"
    if c[0] == "srcSome":
        return ".srcSome"
    if c[0] in ("startsWith", "endsWith"):
        return f".{c[0]} {lean_text(c[1])}"
    if c[0] == "not":
        if c[1][0] in ("and", "or", "not"):
            raise ExtractError("condition is not a conjunction of literals")
        return f".not ({_lean_lit(c[1])})"
    raise ExtractError("condition is not a conjunction of literals")


def _conj(c) -> list:
    """Flatten a conjunction of literals; operands that cannot fail are put in a canonical order
    (Python's `and` only matters for order when an operand can raise)."""
    if c[0] == "not" and c[1][0] == "not":
        return _conj(c[1][1])
    if c[0] == "not" and c[1][0] == "or":
        return _conj(_negate(c[1]))
    if c[0] == "and":
        out = []
        for x in c[1]:
            out += _conj(x)
        return out
    return [c]


def _lean_cond(c) -> str:
    lits = _conj(c)
    strs = [_lean_lit(x) for x in lits]
    if not any(_mentions_src(x) for x in lits):
        strs.sort()
    out = strs[-1]
    for s in reversed(strs[:-1]):
        out = f".and ({s}) ({out})"
    return out


def _is_disj(c) -> bool:
    return c[0] == "or" or (c[0] == "not" and c[1][0] == "and")


def extract_recipe() -> str:
    imp = parse_file("expressions/import_expression.py")
    # by role: the method `_follow_import` calls on its argument inside `parse_file(…)`
    mname = "resolved_path"
    try:
        fi = _method(_find_class(imp, "Import"), "_follow_import")
        for node in ast.walk(fi):
            if isinstance(node, ast.Call) and isinstance(node.func, ast.Name) and node.func.id == "parse_file" \
                    and node.args and isinstance(node.args[0], ast.Call) \
                    and isinstance(node.args[0].func, ast.Attribute):
                mname = node.args[0].func.attr
    except ExtractError:
        pass
    fn = _method(_find_class(parse_file("expressions/path.py"), "NixPath"), mname)
    env: dict = {}
    guards: list[tuple[str, str]] = []
    earlies: list[tuple] = []   # `if cond: return X` statements seen so far, in order
    result = None

    def run(stmts):
        nonlocal result
        for st in stmts:
            if _is_doc(st) or isinstance(st, ast.Pass):
                continue
            if isinstance(st, ast.If) and len(st.body) == 1 and _raised(st.body[0]) and not st.orelse:
                exc = _raised(st.body[0])
                if exc not in ERR:
                    raise ExtractError(f"resolved_path raises {exc}")
                if earlies:
                    raise ExtractError("raise after an early return")
                guards.append((_lean_cond(_pcond(st.test, env)), ERR[exc]))
                continue
            if isinstance(st, (ast.Assign, ast.AnnAssign)):
                tgt = st.targets[0] if isinstance(st, ast.Assign) else st.target
                if not isinstance(tgt, ast.Name) or st.value is None:
                    raise ExtractError("resolved_path: assignment to a non-local")
                env[tgt.id] = _pexpr(st.value, env)
                continue
            if isinstance(st, ast.If) and st.body and all(isinstance(x, ast.Assign) for x in st.body + st.orelse):
                cond = _pcond(st.test, env)
                env_t, env_e = dict(env), dict(env)
                for x in st.body:
                    env_t[x.targets[0].id] = _path(x.value, env_t)
                for x in st.orelse:
                    env_e[x.targets[0].id] = _path(x.value, env_e)
                for name in set(env_t) | set(env_e):
                    a, b = env_t.get(name), env_e.get(name)
                    if a is None or b is None:
                        raise ExtractError(f"resolved_path: {name} bound on one branch only")
                    if a != b:
                        if a[0] == "ite" or b[0] == "ite":
                            raise ExtractError("resolved_path: nested conditional")
                        env[name] = ("ite", cond, a, b)
                continue
            if isinstance(st, ast.If) and len(st.body) == 1 and isinstance(st.body[0], ast.Return) \
                    and st.body[0].value is not None and not st.orelse:
                earlies.append((_pcond(st.test, env), _path(st.body[0].value, env)))
                continue
            if isinstance(st, ast.If) and len(st.body) == 1 and isinstance(st.body[0], ast.Return) \
                    and len(st.orelse) == 1 and isinstance(st.orelse[0], ast.Return):
                result = ("ite", _pcond(st.test, env), _path(st.body[0].value, env), _path(st.orelse[0].value, env))
                return
            if isinstance(st, ast.Return) and st.value is not None:
                v = _pexpr(st.value, env)
                if v == ("text",):
                    raise ExtractError("resolved_path returns raw text")
                if v[0] != "ite" and earlies:
                    # `if c: return a` … `return b` is the conditional `a if c else b`
                    c, a = earlies.pop()
                    v = ("ite", c, a, v)
                result = v
                return
            raise ExtractError(f"resolved_path: unsupported statement {ast.unparse(st)[:60]!r}")

    run(fn.body)
    if result is None:
        raise ExtractError("resolved_path: no return")
    if result[0] != "ite":
        raise ExtractError("resolved_path: the result is unconditional: " + repr(result))
    _, cond, a, b = result
    if _is_disj(cond):
        cond, a, b = _negate(cond), b, a
    gs = ", ".join(f"({c}, {e})" for c, e in guards)
    es = ", ".join(f"({_lean_cond(c)}, {_lean_pexpr(e)})" for c, e in earlies)
    return (f"{{ guards := [{gs}], early := [{es}], cond := {_lean_cond(cond)}, "
            f"thenE := {_lean_pexpr(a)}, elseE := {_lean_pexpr(b)} }}")


# ------------------------------------------------------------------ plumbing: data flow as strings
class Sym:
    """Canonical source text of an expression with locals inlined."""

    def __init__(self, env):
        self.env = dict(env)

    def s(self, node) -> str:
        if isinstance(node, ast.Name):
            return self.env.get(node.id, node.id)
        if isinstance(node, ast.Attribute):
            return f"{self.s(node.value)}.{node.attr}"
        if isinstance(node, ast.Call):
            args = [self.s(a) for a in node.args]
            if not (isinstance(node.func, ast.Attribute) and node.func.attr == "read_text"):
                args += sorted(f"{k.arg}={self.s(k.value)}" for k in node.keywords)  # (encoding: not our concern)
            return f"{self.s(node.func)}({', '.join(args)})"
        if isinstance(node, ast.Subscript):
            return f"{self.s(node.value)}[{self.s(node.slice)}]"
        if isinstance(node, ast.Constant):
            return repr(node.value)
        if isinstance(node, ast.UnaryOp) and isinstance(node.op, ast.Not):
            return f"not {self.s(node.operand)}"
        if isinstance(node, ast.Compare) and len(node.ops) == 1:
            op = {ast.Is: "is", ast.IsNot: "is not", ast.Eq: "==", ast.NotEq: "!="}.get(type(node.ops[0]))
            if op:
                return f"{self.s(node.left)} {op} {self.s(node.comparators[0])}"
        if isinstance(node, ast.BinOp) and isinstance(node.op, ast.Div):
            return f"({self.s(node.left)} / {self.s(node.right)})"
        raise ExtractError(f"plumbing: unsupported expression {ast.unparse(node)[:60]!r}")


def _flow(fn: ast.FunctionDef, env0: dict, what: str) -> dict:
    """Symbolically run a simple function body. Returns {"returns": str, "guards": [str],
    "calls": [str], "loops": [str]}."""
    sym = Sym(env0)
    out = {"returns": None, "guards": [], "calls": [], "loops": []}

    def run(stmts, ctx):
        for st in stmts:
            if _is_doc(st) or isinstance(st, (ast.Pass, ast.Import, ast.ImportFrom)):
                continue
            if isinstance(st, ast.Expr) and isinstance(st.value, (ast.Yield, ast.YieldFrom)):
                out["calls"].append("yield")
                continue
            if isinstance(st, (ast.Assign, ast.AnnAssign)):
                tgt = st.targets[0] if isinstance(st, ast.Assign) else st.target
                if isinstance(tgt, ast.Name) and st.value is not None:
                    v = sym.s(st.value)
                    sym.env[tgt.id] = f"{ctx}({v})" if ctx else v
                    if isinstance(st.value, ast.Call):
                        out["calls"].append(v)
                    continue
                raise ExtractError(f"{what}: assignment to {ast.unparse(tgt)}")
            if isinstance(st, ast.Expr) and isinstance(st.value, ast.Call):
                out["calls"].append(sym.s(st.value))
                continue
            if isinstance(st, ast.If) and len(st.body) == 1 and _raised(st.body[0]) and not st.orelse:
                out["guards"].append(f"{sym.s(st.test)} -> {_raised(st.body[0])}")
                continue
            if isinstance(st, ast.With) and len(st.items) == 1:
                c = sym.s(st.items[0].context_expr)
                run(st.body, f"within[{c}]")
                continue
            if isinstance(st, ast.Try) and not st.handlers and not st.orelse:
                run(st.body, ctx)
                out["calls"].append("finally")
                run(st.finalbody, ctx)
                continue
            if isinstance(st, ast.While) and len(st.body) == 1 and isinstance(st.body[0], ast.Assign) \
                    and isinstance(st.body[0].targets[0], ast.Name) and not st.orelse:
                var = st.body[0].targets[0].id
                start = sym.env.get(var, var)
                inner = Sym({**sym.env, var: "x"})
                out["loops"].append(f"x={start}; while {inner.s(st.test)}: x={inner.s(st.body[0].value)}")
                sym.env[var] = "loop"
                continue
            if isinstance(st, ast.Return) and st.value is not None:
                out["returns"] = sym.s(st.value)
                return
            raise ExtractError(f"{what}: unsupported statement {ast.unparse(st)[:60]!r}")

    run(fn.body, "")
    return out


def extract_plumbing() -> list[tuple[str, str]]:
    facts: list[tuple[str, str]] = []
    # --- parser.py: parse_file
    parser = parse_file("parser.py")
    pf = next((n for n in parser.body if isinstance(n, ast.FunctionDef) and n.name == "parse_file"), None)
    if pf is None:
        raise ExtractError("parse_file not found")
    arg = pf.args.args[0].arg
    fl = _flow(pf, {arg: "arg"}, "parse_file")
    facts.append(("parse_file.returns", fl["returns"] or "?"))
    # --- path.py: the context variable, source_path_context, NixPath.from_cst
    pathm = parse_file("expressions/path.py")
    cv = None
    for n in pathm.body:
        v = n.value if isinstance(n, (ast.Assign, ast.AnnAssign)) else None
        if isinstance(v, ast.Call) and isinstance(v.func, ast.Name) and v.func.id == "ContextVar":
            tgt = n.targets[0] if isinstance(n, ast.Assign) else n.target
            cv = tgt.id
            default = next((ast.unparse(k.value) for k in v.keywords if k.arg == "default"), "<none>")
            facts.append(("contextvar.default", default))
    if cv is None:
        raise ExtractError("no module-level ContextVar in expressions/path.py")
    spc = next((n for n in pathm.body if isinstance(n, ast.FunctionDef) and n.name == "source_path_context"), None)
    if spc is None:
        raise ExtractError("source_path_context not found")
    fl = _flow(spc, {spc.args.args[0].arg: "arg", cv: "CV"}, "source_path_context")
    facts.append(("source_path_context.calls", "; ".join(fl["calls"])))
    nix_path = _find_class(pathm, "NixPath")
    fc = _method(nix_path, "from_cst")
    # data flow into the constructor call's `path=` and `source_path=` keywords
    sym = Sym({cv: "CV"})
    got = {}
    for st in fc.body:
        if isinstance(st, (ast.Assign, ast.AnnAssign)):
            tgt = st.targets[0] if isinstance(st, ast.Assign) else st.target
            if isinstance(tgt, ast.Name) and st.value is not None:
                try:
                    sym.env[tgt.id] = sym.s(st.value)
                except ExtractError:
                    sym.env[tgt.id] = "?"
        elif isinstance(st, ast.Return) and isinstance(st.value, ast.Call):
            for k in st.value.keywords:
                if k.arg in ("path", "source_path"):
                    got[k.arg] = sym.s(k.value)
    facts.append(("from_cst.path", got.get("path", "?")))
    facts.append(("from_cst.source_path", got.get("source_path", "?")))
    # --- import_expression.py
    imp = _find_class(parse_file("expressions/import_expression.py"), "Import")
    fl = _flow(_method(imp, "_resolve_argument"), {}, "Import._resolve_argument")
    facts.append(("resolve_argument.guards", "; ".join(fl["guards"])))
    facts.append(("resolve_argument.loops", "; ".join(fl["loops"])))
    facts.append(("resolve_argument.returns", fl["returns"] or "?"))
    fl = _flow(_method(imp, "_follow_import"), {}, "Import._follow_import")
    facts.append(("follow_import.guards", "; ".join(fl["guards"])))
    facts.append(("follow_import.returns", fl["returns"] or "?"))
    gi = _method(imp, "__getitem__")
    key = gi.args.args[1].arg
    fl = _flow(gi, {key: "key"}, "Import.__getitem__")
    facts.append(("getitem.returns", fl["returns"] or "?"))
    return facts


# ------------------------------------------------------------------ driver
def emit(res: Result) -> dict[str, str]:
    out = [
        "import NimaVerif.Model.Paths",
        "/- GENERATED by harness/translate/translate.py from /repo on every run. Do not edit. -/",
        "namespace Nima.Gen",
        "",
    ]
    rec = run_table(res, "resolved_path", extract_recipe)
    if rec is None:
        out.append("def resolvedPathRecipe : Option Recipe := none")
    else:
        out.append(f"def resolvedPathRecipe : Option Recipe := some {rec}")
    pl = run_table(res, "import_plumbing", extract_plumbing)
    if pl is None:
        out.append("def plumbing : Option (List (String × String)) := none")
    else:
        rows = ",\n  ".join(f"({lean_str(k)}, {lean_str(v)})" for k, v in pl)
        out.append(f"def plumbing : Option (List (String × String)) := some [\n  {rows}]")
    out += ["", "end Nima.Gen", ""]
    return {"Paths.lean": "\n".join(out)}
