import NimaVerif.Lemmas.NodeUpd
import NimaVerif.Lemmas.NodeEq
import NimaVerif.Model.LayerSpec
/-! Helper lemmas for C09: selector parsing, `collectScopeLayers` / `writeScopeLayers`. -/
namespace Nima
-- name tokens are compared by spelling in this file (see `NameCmp` in Model/Edit.lean)
attribute [local instance] NameCmp.spelled

open Node EditM

/-! ### `_split_scope_npath` -/

theorem takeWhile_atSigns (k : Nat) (name : Text) (hh : name.head? ≠ some '@') :
    (atSigns k ++ name).takeWhile (· == '@') = atSigns k := by
  induction k with
  | zero =>
    cases name with
    | nil => rfl
    | cons c cs =>
      have : c ≠ '@' := by simpa using hh
      simp [atSigns, this]
  | succ k ih =>
    simp only [atSigns, List.replicate_succ, List.cons_append, List.takeWhile_cons, beq_self_eq_true,
      if_true] at ih ⊢
    rw [ih]

theorem splitScopeNpath_ats (k : Nat) (name : Text) (hk : 1 ≤ k) (hne : name ≠ [])
    (hh : name.head? ≠ some '@') :
    splitScopeNpath (atSigns k ++ name) = .ok (some (k, name)) := by
  unfold splitScopeNpath
  simp only [takeWhile_atSigns k name hh]
  have hl : (atSigns k).length = k := by simp [atSigns]
  have hd : (atSigns k ++ name).drop k = name := by
    have h := List.drop_left (l₁ := atSigns k) (l₂ := name)
    rwa [hl] at h
  rw [hl, hd]
  have hk0 : k ≠ 0 := by omega
  have hne' : name.isEmpty = false := by cases name <;> simp_all
  simp only [hk0, if_false, hne', Bool.false_eq_true]

theorem splitScopeNpath_plain (name : Text) (hh : name.head? ≠ some '@') :
    splitScopeNpath name = .ok none := by
  have := takeWhile_atSigns 0 name hh
  simp only [atSigns, List.replicate_zero, List.nil_append] at this
  unfold splitScopeNpath
  simp [this]

/-! ### `_collect_scope_layers` / `_write_scope_layers` -/

theorem collect_write_filter (ls : List Layer) (r : Option Layer) (d : Doc) :
    collectScopeLayers (writeScopeLayers ls r d) = ls.filter Layer.nonEmpty := by
  cases ls with
  | nil =>
    cases r <;> simp [writeScopeLayers, collectScopeLayers]
  | cons outer rest =>
    simp only [writeScopeLayers, collectScopeLayers, List.filter_filter, Bool.and_self,
      List.filter_cons, Layer.nonEmpty]
    have e : (fun x : Layer => !x.scope.isEmpty) = Layer.nonEmpty := rfl
    by_cases h : outer.scope.isEmpty = true
    · simp [h, e]
    · simp [h, e]

theorem filter_nonEmpty_of_all {ls : List Layer} (h : ∀ l ∈ ls, l.nonEmpty = true) :
    ls.filter Layer.nonEmpty = ls := List.filter_eq_self.2 h

theorem collect_nonEmpty (d : Doc) : ∀ l ∈ collectScopeLayers d, l.nonEmpty = true := by
  intro l hl
  simp only [collectScopeLayers, List.mem_append, List.mem_filter] at hl
  rcases hl with hl | hl
  · by_cases h : d.scope.isEmpty = true
    · simp [h] at hl
    · simp only [h, Bool.false_eq_true, if_false, List.mem_singleton] at hl
      subst hl
      simpa [Layer.nonEmpty] using h
  · simpa [Layer.nonEmpty] using hl.2

theorem write_write (ls : List Layer) (d : Doc) :
    writeScopeLayers ls none (writeScopeLayers ls none d) = writeScopeLayers ls none d := by
  cases ls with
  | nil => simp [writeScopeLayers]
  | cons o r => simp [writeScopeLayers]

theorem write_collect_normal (d : Doc) (h : LayersNormal d) :
    writeScopeLayers (collectScopeLayers d) none d = d := by
  obtain ⟨h1, h2⟩ := h
  have hf : d.stack.filter (fun l => !l.scope.isEmpty) = d.stack :=
    List.filter_eq_self.2 (by simpa [Layer.nonEmpty] using h1)
  by_cases he : d.scope.isEmpty = true
  · have hs : d.scope = [] := by simpa using he
    obtain ⟨a, b, c, e, f⟩ := h2 hs
    cases d
    simp_all [collectScopeLayers, writeScopeLayers]
  · cases d
    simp_all [collectScopeLayers, writeScopeLayers]

theorem write_normal (ls : List Layer) (r : Option Layer) (d : Doc)
    (h : ∀ l ∈ ls, l.nonEmpty = true) : LayersNormal (writeScopeLayers ls r d) := by
  cases ls with
  | nil => cases r <;> simp [writeScopeLayers, LayersNormal]
  | cons outer rest =>
    have ho := h outer (by simp)
    simp only [Layer.nonEmpty, Bool.not_eq_eq_eq_not, Bool.not_true, List.isEmpty_eq_false_iff] at ho
    refine ⟨?_, ?_⟩
    · intro l hl
      simp only [writeScopeLayers, List.mem_filter] at hl
      simpa [Layer.nonEmpty] using hl.2
    · intro hs
      simp only [writeScopeLayers] at hs
      exact absurd hs ho

/-! ### negative indexing -/

theorem pyNeg_eq_getElem {α} (xs : List α) (k : Nat) (hk : 1 ≤ k) (hkn : k ≤ xs.length) :
    pyNeg xs k = xs[xs.length - k]? := by simp [pyNeg, hk, hkn]

theorem pyNeg_eq_reverse {α} (xs : List α) (k : Nat) (hk : 1 ≤ k) (hkn : k ≤ xs.length) :
    pyNeg xs k = xs.reverse[k - 1]? := by
  rw [pyNeg_eq_getElem xs k hk hkn, List.getElem?_reverse (by omega)]
  congr 1
  omega

end Nima
