"""Gen/Multiplicity.lean: how often one `rebuild` of a parent renders each of its children (C20).

A small abstract interpreter over the Python AST of `nix_manipulator/expressions/**`:

* abstract value of an expression = the set of *origins* it may alias: access paths from `self`
  (`output`, `value.after`, …; `()` is `self` itself; `@new:Cls` an expression object constructed on
  the spot), each with a *part* (`all` / `first` = `xs[0]` / `rest` = `xs[1:]`) so that
  `after[0].rebuild()` followed by `format_trivia(after[1:])` is not mistaken for a double render;
* `x.rebuild(…)` — or any other method that itself renders its receiver's children
  (`simple_inline_preview`, `_inline_preview`: computed, not listed) — on a value with origins O adds 1
  to every origin in O;
* sequential composition adds, `if/else` / `try` handlers / `match` take the maximum over paths
  (`return`, `continue`, `break`, `raise` end a path), `for x in <child list>` counts per element; a render
  inside a loop of something that does not depend on the loop variable is unbounded (reported as 99);
* calls to methods of `self`, to nested functions and to module-level helpers are inlined with the
  caller's abstract arguments (context-sensitive; recursion unrolled twice);
* `copy`/`model_copy`/`replace`/`coerce_expression`/`list`/`zip`/… return aliases of their arguments.

The result is, per class K and origin path f, the maximum over control-flow paths of the number of
renders of (an alias or copy of) `self.f` during ONE `K.rebuild` (or one render-like helper of K).
It over-approximates (paths are not checked for feasibility); the check cross-validates it against
run-time counts (observed <= table everywhere, equality on each doubled entry's depth family).
"""
from __future__ import annotations

import ast
from dataclasses import dataclass, field

from .translate import PKG, ExtractError, Result, lean_str, run_table

UNBOUNDED = 99
MAX_DEPTH = 2  # origin paths are truncated to two components (longest-prefix matching at run time)
MAX_UNROLL = 2
MAX_FORKS = 6
ALIAS_FUNCS = {
    "list", "tuple", "reversed", "sorted", "enumerate", "zip", "copy", "deepcopy", "replace", "cast",
    "iter", "next", "set", "frozenset", "filter", "getattr", "max", "min",
}
CONTAINER_ADD = {"append", "extend", "insert", "add", "appendleft", "update"}
SKIP_METHODS = {"rebuild_scoped_placeholder"}


# ------------------------------------------------------------------ abstract values
EMPTY: frozenset = frozenset()


class Tup(tuple):
    """A tuple-shaped abstract value (`(a, b)`, `zip(xs, ys)`, a list of such tuples)."""


def flat(v) -> frozenset:
    if isinstance(v, Tup):
        out = EMPTY
        for x in v:
            out = out | flat(x)
        return out
    return v


def vunion(a, b):
    if isinstance(a, Tup) and isinstance(b, Tup) and len(a) == len(b):
        return Tup(vunion(x, y) for x, y in zip(a, b))
    if isinstance(a, Tup) and not b:
        return a
    if isinstance(b, Tup) and not a:
        return b
    return flat(a) | flat(b)


def vunion_all(vals) -> frozenset:
    out = EMPTY
    for v in vals:
        out = out | flat(v)
    return out


def with_part(val, part: str) -> frozenset:
    return frozenset((p, part if q == "all" else ("all" if part != q else q)) for p, q in flat(val))


def render_counts(val) -> dict:
    """One render of every origin in `val`: `all` touches both index classes (F = first element,
    R = the other elements), `xs[0]` only F, `xs[1:]` only R."""
    out = {}
    for p, part in flat(val):
        for k in (("F", "R") if part == "all" else (("F",) if part == "first" else ("R",))):
            out[(p, k)] = 1
    return out


# ------------------------------------------------------------------ counters
def c_add(a: dict, b: dict) -> dict:
    if not b:
        return a
    out = dict(a)
    for k, v in b.items():
        out[k] = min(UNBOUNDED, out.get(k, 0) + v)
    return out


def c_max(a: dict | None, b: dict | None) -> dict | None:
    if a is None:
        return b
    if b is None:
        return a
    out = dict(a)
    for k, v in b.items():
        out[k] = max(out.get(k, 0), v)
    return out


@dataclass
class Flow:
    """Path-maximal render counts of a block, by how the block is left."""
    ft: dict | None  # falls through
    ret: dict | None = None  # `return <value>` / raise
    brk: dict | None = None  # continue / break (ends the current loop iteration)
    retn: dict | None = None  # `return` / `return None`

    def total(self) -> dict:
        return c_max(c_max(self.ft, self.ret), c_max(self.brk, self.retn)) or {}


def seq(a: Flow, b_fn) -> Flow:
    """a ; b   (b is only analysed when a can fall through)"""
    if a.ft is None:
        return a
    b = b_fn()
    g = lambda x: None if x is None else c_add(a.ft, x)
    return Flow(g(b.ft), c_max(a.ret, g(b.ret)), c_max(a.brk, g(b.brk)), c_max(a.retn, g(b.retn)))


def alt(flows: list[Flow]) -> Flow:
    out = Flow(None)
    for f in flows:
        out = Flow(c_max(out.ft, f.ft), c_max(out.ret, f.ret), c_max(out.brk, f.brk), c_max(out.retn, f.retn))
    return out


def prefix(c: dict, f: Flow) -> Flow:
    g = lambda x: None if x is None else c_add(c, x)
    return Flow(g(f.ft), g(f.ret), g(f.brk), g(f.retn))


# ------------------------------------------------------------------ program database
@dataclass
class ClassInfo:
    name: str
    module: str
    node: ast.ClassDef
    bases: list[str]
    methods: dict[str, ast.FunctionDef]
    fields: list[str]


@dataclass
class Program:
    classes: dict[str, ClassInfo] = field(default_factory=dict)
    functions: dict[str, dict[str, ast.FunctionDef]] = field(default_factory=dict)  # name -> module -> def
    expr_classes: set[str] = field(default_factory=set)
    expr_fields: set[str] = field(default_factory=set)

    def mro(self, cls: str) -> list[str]:
        out, todo = [], [cls]
        while todo:
            c = todo.pop(0)
            if c in out or c not in self.classes:
                continue
            out.append(c)
            todo += self.classes[c].bases
        return out

    def method(self, cls: str, name: str):
        for c in self.mro(cls):
            m = self.classes[c].methods.get(name)
            if m is not None:
                return self.classes[c], m
        return None

    def function(self, name: str, module: str):
        cands = self.functions.get(name)
        if not cands:
            return None
        if module in cands:
            return module, cands[module]
        mod = sorted(cands)[0]
        return mod, cands[mod]


def load_program() -> Program:
    prog = Program()
    root = PKG / "expressions"
    files = sorted(root.rglob("*.py"))
    if not files:
        raise ExtractError("no sources under nix_manipulator/expressions")
    for p in files:
        rel = str(p.relative_to(PKG))
        try:
            mod = ast.parse(p.read_text(encoding="utf-8"), filename=str(p))
        except SyntaxError as exc:
            raise ExtractError(f"cannot parse {rel}: {exc}")
        for node in mod.body:
            if isinstance(node, (ast.FunctionDef, ast.AsyncFunctionDef)):
                prog.functions.setdefault(node.name, {})[rel] = node
            elif isinstance(node, ast.ClassDef):
                bases = []
                for b in node.bases:
                    if isinstance(b, ast.Name):
                        bases.append(b.id)
                    elif isinstance(b, ast.Attribute):
                        bases.append(b.attr)
                    elif isinstance(b, ast.Subscript) and isinstance(b.value, ast.Name):
                        bases.append(b.value.id)
                methods = {n.name: n for n in node.body if isinstance(n, (ast.FunctionDef, ast.AsyncFunctionDef))}
                fields = [
                    n.target.id
                    for n in node.body
                    if isinstance(n, ast.AnnAssign) and isinstance(n.target, ast.Name)
                    and "ClassVar" not in ast.dump(n.annotation)
                ]
                prog.classes[node.name] = ClassInfo(node.name, rel, node, bases, methods, fields)
    if "NixExpression" not in prog.classes:
        raise ExtractError("class NixExpression not found")
    for name in prog.classes:
        if "NixExpression" in prog.mro(name):
            prog.expr_classes.add(name)
    # NixSourceCode is the root container: has `rebuild`, is not a NixExpression
    for name, ci in prog.classes.items():
        if "rebuild" in ci.methods:
            prog.expr_classes.add(name)
    for name in prog.expr_classes:
        for c in prog.mro(name):
            prog.expr_fields.update(prog.classes[c].fields)
    return prog


# ------------------------------------------------------------------ abstract interpreter
ROOT = ((), "all")
NOT_HELPERS = ("rebuild", "rebuild_scoped", "add_trivia", "from_cst")


class Env:
    def __init__(self, parent: "Env | None" = None):
        self.vars: dict = {}
        self.funcs: dict = {}
        self.consts: dict = {}  # name -> True / False / None (a known constant), absent = unknown
        self.parent = parent

    def const(self, name: str):
        """-> (known, value)"""
        e = self
        while e is not None:
            if name in e.consts:
                return e.consts[name] != "?", e.consts[name]
            if name in e.vars:
                return False, None
            e = e.parent
        return False, None

    def get(self, name: str):
        e = self
        while e is not None:
            if name in e.vars:
                return e.vars[name]
            e = e.parent
        return EMPTY

    def func(self, name: str):
        e = self
        while e is not None:
            if name in e.funcs:
                return e.funcs[name]
            e = e.parent
        return None

    def set(self, name: str, val, const="?"):
        self.vars[name] = val
        self.consts[name] = const

    def join(self, name: str, val):
        """container mutation / nonlocal write: update where the name lives"""
        e = self
        while e is not None:
            if name in e.vars:
                e.vars[name] = vunion(e.vars[name], val)
                return
            e = e.parent
        self.vars[name] = val


def is_none_test(test):
    """`x is None` -> (x, True); `x is not None` -> (x, False)"""
    if (isinstance(test, ast.Compare) and len(test.ops) == 1 and isinstance(test.left, ast.Name)
            and isinstance(test.comparators[0], ast.Constant) and test.comparators[0].value is None):
        if isinstance(test.ops[0], ast.Is):
            return test.left.id, True
        if isinstance(test.ops[0], ast.IsNot):
            return test.left.id, False
    return None


class Interp:
    def __init__(self, prog: Program, nonnull: dict | None = None):
        self.prog = prog
        self.nonnull = nonnull or {}  # class -> fields that are never None on objects made by from_cst
        self.stack: list[str] = []
        self.render_like_cache: dict = {}
        self.render_like_names: set | None = None
        self.notes: list[str] = []
        self.serial = 0
        self.forks = 0
        self.cls = self.module = None
        self.retval = EMPTY

    # ---- render-like methods (computed, not listed)
    def helper_methods(self):
        for cls in sorted(self.prog.expr_classes):
            for c in self.prog.mro(cls):
                for m, node in self.prog.classes[c].methods.items():
                    if m.startswith("__") or m in NOT_HELPERS:
                        continue
                    if any(isinstance(d, ast.Name) and d.id in ("classmethod", "staticmethod", "property")
                           or isinstance(d, ast.Attribute) and d.attr == "setter" for d in node.decorator_list):
                        continue
                    yield cls, m

    def is_render_like(self, cls: str, meth: str) -> bool:
        key = (cls, meth)
        if key not in self.render_like_cache:
            self.render_like_cache[key] = False  # recursion guard
            counts = self.analyse_method(cls, meth) if self.prog.method(cls, meth) else {}
            self.render_like_cache[key] = any(p != () for (p, _k) in counts)
        return self.render_like_cache[key]

    def render_like_method_names(self) -> set:
        """Names of non-`rebuild` methods of expression classes that render children of their receiver
        (fixpoint: a helper that calls such a helper on a child is one too)."""
        if self.render_like_names is None:
            names: set = set()
            while True:
                self.render_like_names = set(names)
                self.render_like_cache.clear()
                new = {m for cls, m in self.helper_methods() if self.is_render_like(cls, m)}
                if new <= names:
                    break
                names |= new
            self.render_like_names = names
        return self.render_like_names

    # ---- entry point
    def analyse_method(self, cls: str, meth: str) -> dict:
        found = self.prog.method(cls, meth)
        if found is None:
            raise ExtractError(f"{cls}.{meth} not found")
        ci, node = found
        env = Env()
        params = [a.arg for a in node.args.posonlyargs + node.args.args]
        if params:
            env.set(params[0], frozenset([ROOT]))
        flow, _ret = self.run_function(node, env, cls, ci.module, f"{ci.name}.{meth}")
        return flow.total()

    def run_function(self, node, env: Env, cls, module: str, tag: str):
        self.stack.append(tag)
        saved = (self.cls, self.module, self.retval)
        self.cls, self.module, self.retval = cls, module, EMPTY
        try:
            flow = self.block(list(node.body), env)
            ret = self.retval
        finally:
            self.stack.pop()
            self.cls, self.module, self.retval = saved
        return flow, ret

    # ---- three-valued guards (constants, and `self.f is None` for fields from_cst never leaves None)
    def truth(self, t, env: Env):
        if isinstance(t, ast.Constant):
            return bool(t.value)
        if isinstance(t, ast.Name):
            known, v = env.const(t.id)
            return bool(v) if known else None
        if isinstance(t, ast.UnaryOp) and isinstance(t.op, ast.Not):
            v = self.truth(t.operand, env)
            return None if v is None else (not v)
        if isinstance(t, ast.BoolOp):
            vs = [self.truth(x, env) for x in t.values]
            if isinstance(t.op, ast.And):
                return False if any(v is False for v in vs) else (True if all(v is True for v in vs) else None)
            return True if any(v is True for v in vs) else (False if all(v is False for v in vs) else None)
        if isinstance(t, ast.Compare) and len(t.ops) == 1 and isinstance(t.ops[0], (ast.Is, ast.IsNot)) \
                and isinstance(t.comparators[0], ast.Constant) and t.comparators[0].value is None:
            isnone = None
            x = t.left
            if isinstance(x, ast.Name):
                known, v = env.const(x.id)
                if known:
                    isnone = v is None
            elif isinstance(x, ast.Attribute) and isinstance(x.value, ast.Name) and self.cls is not None:
                base = flat(env.get(x.value.id))
                if base and all(p == () for p, _ in base):
                    if any(x.attr in self.nonnull.get(c, ()) for c in self.prog.mro(self.cls)[:1]):
                        isnone = False
            if isnone is None:
                return None
            return isnone if isinstance(t.ops[0], ast.Is) else (not isnone)
        return None

    # ---- statements
    def block(self, stmts, env: Env, k=None) -> Flow:
        """Flow of `stmts` followed by the continuation `k` (what comes after the enclosing block)."""
        if not stmts:
            return k(env) if k is not None else Flow({})
        # `x = f(...)` immediately tested by `if x is [not] None:` — keep the correlation between
        # "f returned None" and "what f rendered on that path" (e.g. `_format_chained_binary`)
        if len(stmts) >= 2 and isinstance(stmts[0], ast.Assign) and isinstance(stmts[1], ast.If) \
                and len(stmts[0].targets) == 1 and isinstance(stmts[0].targets[0], ast.Name) \
                and isinstance(stmts[0].value, ast.Call):
            nt = is_none_test(stmts[1].test)
            if nt is not None and nt[0] == stmts[0].targets[0].id:
                val, c, fl = self.call_inline(stmts[0].value, env)
                if fl is not None:
                    c_none = c_max(fl.ft, fl.retn)
                    c_val = fl.ret
                    if c_none is not None and c_val is not None:
                        env.set(nt[0], val)
                        e1, e2 = Env(env), Env(env)
                        on_none, on_val = (stmts[1].body, stmts[1].orelse) if nt[1] else (stmts[1].orelse, stmts[1].body)
                        f1 = prefix(c_none, self.block(list(on_none), e1))
                        f2 = prefix(c_val, self.block(list(on_val), e2))
                        self.merge_envs(env, [e1, e2])
                        pair = prefix(c, alt([f1, f2]))
                        return seq(pair, lambda: self.block(stmts[2:], env, k))
                    env.set(nt[0], val)
                    first = Flow(c_add(c, fl.total()))
                    return seq(first, lambda: self.block(stmts[1:], env, k))
        head, rest = stmts[0], stmts[1:]
        if isinstance(head, ast.If):
            return self.if_stmt(head, rest, env, k)
        return seq(self.stmt(head, env), lambda: self.block(rest, env, k))

    def rebinds_alias(self, s: ast.If, env: Env) -> bool:
        """Does a branch of `s` (at any depth) re-assign a name that currently aliases a child?"""
        todo = list(s.body) + list(s.orelse)
        while todo:
            n = todo.pop()
            if isinstance(n, (ast.FunctionDef, ast.AsyncFunctionDef, ast.ClassDef, ast.Lambda)):
                continue
            if isinstance(n, (ast.Assign, ast.AnnAssign, ast.AugAssign)):
                targets = n.targets if isinstance(n, ast.Assign) else [n.target]
                for t in targets:
                    for x in ast.walk(t):
                        if isinstance(x, ast.Name) and flat(env.get(x.id)):
                            return True
            todo.extend(ast.iter_child_nodes(n))
        return False

    def if_stmt(self, s, rest, env: Env, k=None) -> Flow:
        _v, c = self.ev(s.test, env)
        t = self.truth(s.test, env)
        if t is not None:
            return prefix(c, self.block(list(s.body if t else s.orelse) + list(rest), env, k))
        e1, e2 = Env(env), Env(env)
        if (rest or k is not None) and self.forks < MAX_FORKS and self.rebinds_alias(s, env):
            # a branch rebinds an alias (`xs = xs[1:]`, `e = e.model_copy()`): analyse the continuation
            # once per branch instead of merging the environments
            self.forks += 1
            kk = lambda e: self.block(list(rest), e, k)
            g1 = self.block(list(s.body), e1, kk)
            g2 = self.block(list(s.orelse), e2, kk)
            self.forks -= 1
            self.merge_envs(env, [e1, e2])
            return prefix(c, alt([g1, g2]))
        f1 = self.block(list(s.body), e1)
        f2 = self.block(list(s.orelse), e2)
        self.merge_envs(env, [e1, e2])
        return seq(prefix(c, alt([f1, f2])), lambda: self.block(list(rest), env, k))

    def bind(self, target, val, env: Env):
        if isinstance(target, ast.Name):
            env.set(target.id, val)
        elif isinstance(target, (ast.Tuple, ast.List)):
            elts = target.elts
            if isinstance(val, Tup) and len(val) == len(elts) and not any(isinstance(t, ast.Starred) for t in elts):
                for t, v in zip(elts, val):
                    self.bind(t, v, env)
            else:
                for t in elts:
                    self.bind(t.value if isinstance(t, ast.Starred) else t, flat(val), env)
        # attribute / subscript stores do not create aliases we track

    def stmt(self, s, env: Env) -> Flow:
        if isinstance(s, ast.Expr):
            _v, c = self.ev(s.value, env)
            return Flow(c)
        if isinstance(s, ast.Assign):
            v, c = self.ev(s.value, env)
            for t in s.targets:
                self.bind(t, v, env)
                if isinstance(t, ast.Name):
                    if isinstance(s.value, ast.Constant) and (s.value.value is None or isinstance(s.value.value, bool)):
                        env.consts[t.id] = s.value.value
                    else:
                        tv = self.truth(s.value, env) if isinstance(s.value, (ast.Name, ast.BoolOp, ast.UnaryOp, ast.Compare)) else None
                        if tv is not None and not isinstance(s.value, ast.Name):
                            env.consts[t.id] = tv
                        elif isinstance(s.value, ast.Name) and env.const(s.value.id)[0]:
                            env.consts[t.id] = env.const(s.value.id)[1]
            return Flow(c)
        if isinstance(s, ast.AnnAssign):
            if s.value is None:
                return Flow({})
            v, c = self.ev(s.value, env)
            self.bind(s.target, v, env)
            return Flow(c)
        if isinstance(s, ast.AugAssign):
            v, c = self.ev(s.value, env)
            if isinstance(s.target, ast.Name):
                env.join(s.target.id, v)
            return Flow(c)
        if isinstance(s, ast.Return):
            if s.value is None or (isinstance(s.value, ast.Constant) and s.value.value is None):
                return Flow(None, None, None, {})
            v, c = self.ev(s.value, env)
            self.retval = vunion(self.retval, v)
            return Flow(None, c, None, None)
        if isinstance(s, ast.Raise):
            c = {}
            if s.exc is not None:
                _v, c = self.ev(s.exc, env)
            return Flow(None, c, None, None)
        if isinstance(s, (ast.Continue, ast.Break)):
            return Flow(None, None, {}, None)
        if isinstance(s, ast.If):
            return self.if_stmt(s, [], env)
        if isinstance(s, (ast.For, ast.AsyncFor)):
            it, c = self.ev(s.iter, env)
            body = self.loop_body(s.target, it, list(s.body), env)
            g = lambda x: None if x is None else c_add(c, x)
            fl = Flow(c_add(c, body.ft or {}), g(body.ret), None, g(body.retn))
            return seq(fl, lambda: self.block(list(s.orelse), env))
        if isinstance(s, ast.While):
            _v, c = self.ev(s.test, env)
            e1 = Env(env)
            f = self.block(list(s.body), e1)
            self.merge_envs(env, [e1], keep_prev=True)
            per_iter = {k: v for k, v in (c_max(f.ft, f.brk) or {}).items() if not k[0][:1] or not k[0][0].startswith("@new:")}
            unb = {k: UNBOUNDED for k in per_iter}
            if unb:
                self.notes.append(f"render inside a while loop in {self.stack[-1]}")
            base = c_add(c, unb)
            g = lambda x: None if x is None else c_add(base, x)
            fl = Flow(base, g(f.ret), None, g(f.retn))
            return seq(fl, lambda: self.block(list(s.orelse), env))
        if isinstance(s, ast.Try):
            fb = self.block(list(s.body), env)
            base = fb.ft if fb.ft is not None else fb.total()
            hs = []
            for h in s.handlers:
                eh = Env(env)
                hs.append(prefix(base, self.block(list(h.body), eh)))
                self.merge_envs(env, [eh], keep_prev=True)
            fe = seq(Flow(fb.ft), lambda: self.block(list(s.orelse), env)) if s.orelse else Flow(fb.ft)
            res = alt([Flow(fe.ft, c_max(fb.ret, fe.ret), c_max(fb.brk, fe.brk), c_max(fb.retn, fe.retn))] + hs)
            if s.finalbody:
                add = self.block(list(s.finalbody), env).total()
                res = prefix(add, res)
            return res
        if isinstance(s, (ast.With, ast.AsyncWith)):
            c = {}
            for item in s.items:
                v, ci = self.ev(item.context_expr, env)
                c = c_add(c, ci)
                if item.optional_vars is not None:
                    self.bind(item.optional_vars, v, env)
            return prefix(c, self.block(list(s.body), env))
        if isinstance(s, (ast.FunctionDef, ast.AsyncFunctionDef)):
            env.funcs[s.name] = (s, env)
            return Flow({})
        if isinstance(s, ast.Match):
            v, c = self.ev(s.subject, env)
            flows, envs = [], []
            for case in s.cases:
                e1 = Env(env)
                for n in ast.walk(case.pattern):
                    for attr in ("name", "rest"):
                        nm = getattr(n, attr, None)
                        if isinstance(nm, str):
                            e1.set(nm, flat(v))
                flows.append(self.block(list(case.body), e1))
                envs.append(e1)
            flows.append(Flow({}))
            self.merge_envs(env, envs, keep_prev=True)
            return prefix(c, alt(flows))
        if isinstance(s, ast.Assert):
            _v, c = self.ev(s.test, env)
            return Flow(c)
        return Flow({})  # pass, import, global, nonlocal, class, del

    def merge_envs(self, env: Env, subs: list, keep_prev: bool = False):
        names = set()
        for e in subs:
            names.update(e.vars)
            for k, v in e.funcs.items():
                env.funcs.setdefault(k, v)
        for n in names:
            val = env.get(n) if keep_prev else EMPTY
            ks = set()
            for e in subs:
                val = vunion(val, e.vars[n] if n in e.vars else env.get(n))
                ks.add(repr(e.consts.get(n, "?")) if n in e.vars else repr(env.const(n)[1] if env.const(n)[0] else "?"))
            k = "?"
            if len(ks) == 1 and not keep_prev:
                for e in subs:
                    if n in e.vars:
                        k = e.consts.get(n, "?")
            env.set(n, val, k)

    @staticmethod
    def invariant(counts: dict) -> dict:
        return {k: v for k, v in counts.items() if not (k[0] and k[0][0].startswith("@new:"))}

    def loop_body(self, target, it, body, env: Env) -> Flow:
        """Per-element analysis; a render that does not depend on the loop variable happens once per
        iteration: unbounded."""
        e_ind = Env(env)
        self.bind(target, EMPTY if not isinstance(it, Tup) else Tup(EMPTY for _ in it), e_ind)
        n_notes, serial = len(self.notes), self.serial
        f_ind = self.block(body, e_ind)
        del self.notes[n_notes:]
        self.serial = serial
        e_dep = Env(env)
        self.bind(target, it, e_dep)
        f_dep = self.block(body, e_dep)
        self.merge_envs(env, [e_dep], keep_prev=True)
        per = dict(c_max(f_dep.ft, f_dep.brk) or {})
        for k in self.invariant(f_ind.total()):
            per[k] = UNBOUNDED
            self.notes.append(f"loop-invariant render of {field_name(k[0])} in {self.stack[-1]}")
        g = lambda x: None if x is None else c_max(x, per)
        return Flow(per, g(f_dep.ret), None, g(f_dep.retn))

    # ---- expressions
    def ev(self, e, env: Env):
        if e is None:
            return EMPTY, {}
        m = getattr(self, "ev_" + type(e).__name__, None)
        if m is not None:
            return m(e, env)
        val, c = EMPTY, {}
        for ch in ast.iter_child_nodes(e):
            if isinstance(ch, ast.expr):
                v, ci = self.ev(ch, env)
                val, c = val | flat(v), c_add(c, ci)
        return val, c

    def ev_Constant(self, e, env):
        return EMPTY, {}

    def ev_Name(self, e, env):
        return env.get(e.id), {}

    def ev_Lambda(self, e, env):
        return EMPTY, {}

    def ev_Tuple(self, e, env):
        vals, c = [], {}
        for x in e.elts:
            v, ci = self.ev(x.value if isinstance(x, ast.Starred) else x, env)
            vals.append(v)
            c = c_add(c, ci)
        return Tup(vals), c

    def ev_Attribute(self, e, env):
        base, c = self.ev(e.value, env)
        base = flat(base)
        if not base:
            return base, c
        if e.attr in self.prog.expr_fields:
            out = set()
            for p, _part in base:
                if p and p[0].startswith("@new:"):
                    continue  # fields of objects made on the spot are rendered in their own frame
                out.add((p, "all") if len(p) >= MAX_DEPTH else (p + (e.attr,), "all"))
            return frozenset(out), c
        return base, c  # wrapper attribute (`slot.expr`, `entry.binding`): same objects

    def ev_Subscript(self, e, env):
        base, c = self.ev(e.value, env)
        sl = e.slice
        if not isinstance(sl, ast.Slice):
            _v, c2 = self.ev(sl, env)
            c = c_add(c, c2)
        part = "all"
        if isinstance(sl, ast.Constant) and sl.value == 0:
            part = "first"
        elif (isinstance(sl, ast.Slice) and sl.upper is None and sl.step is None
              and isinstance(sl.lower, ast.Constant) and sl.lower.value == 1):
            part = "rest"
        if part == "all":
            return flat(base), c
        return with_part(base, part), c

    def ev_IfExp(self, e, env):
        _t, c = self.ev(e.test, env)
        t = self.truth(e.test, env)
        if t is not None:
            v, c1 = self.ev(e.body if t else e.orelse, env)
            return v, c_add(c, c1)
        v1, c1 = self.ev(e.body, env)
        v2, c2 = self.ev(e.orelse, env)
        return vunion(v1, v2), c_add(c, c_max(c1, c2))

    def ev_NamedExpr(self, e, env):
        v, c = self.ev(e.value, env)
        self.bind(e.target, v, env)
        return v, c

    def comp(self, e, env, elts):
        def run(dep: bool):
            sub = Env(env)
            c = {}
            for g in e.generators:
                it, ci = self.ev(g.iter, sub)
                c = c_add(c, ci)
                if not dep:
                    it = Tup(EMPTY for _ in it) if isinstance(it, Tup) else EMPTY
                self.bind(g.target, it, sub)
                for cond in g.ifs:
                    _v, ci = self.ev(cond, sub)
                    c = c_add(c, ci)
            val, body = EMPTY, {}
            for x in elts:
                v, ci = self.ev(x, sub)
                val = vunion(val, v)
                body = c_add(body, ci)
            return val, c, body

        n_notes, serial = len(self.notes), self.serial
        _v, c_ind, body_ind = run(False)
        del self.notes[n_notes:]
        self.serial = serial
        val, c, body = run(True)
        body = dict(body)
        # the iterables themselves are evaluated once; only the element expression repeats
        for k in self.invariant(body_ind):
            body[k] = UNBOUNDED
            self.notes.append(f"comprehension renders loop-invariant {field_name(k[0])} in {self.stack[-1]}")
        return val, c_add(c, body)

    def ev_ListComp(self, e, env):
        return self.comp(e, env, [e.elt])

    ev_SetComp = ev_ListComp
    ev_GeneratorExp = ev_ListComp

    def ev_DictComp(self, e, env):
        return self.comp(e, env, [e.key, e.value])

    def args_of(self, call, env):
        vals, kw, c = [], {}, {}
        for a in call.args:
            v, ci = self.ev(a.value if isinstance(a, ast.Starred) else a, env)
            vals.append(v)
            c = c_add(c, ci)
        for k in call.keywords:
            v, ci = self.ev(k.value, env)
            c = c_add(c, ci)
            if k.arg is None:
                vals.append(v)
            else:
                kw[k.arg] = v
        return vals, kw, c

    def inline(self, node, defenv, self_val, vals, kw, cls, module, tag, call=None, callenv=None):
        """-> (return value, Flow)"""
        if self.stack.count(tag) >= MAX_UNROLL or len(self.stack) > 40:
            return vunion_all(list(vals) + list(kw.values())), Flow({})
        env = Env(defenv)
        a = node.args
        params = [p.arg for p in a.posonlyargs + a.args]
        pos = list(vals)
        if self_val is not None and params:
            env.set(params[0], self_val)
            params = params[1:]
        for i, p in enumerate(params):
            env.set(p, pos[i] if i < len(pos) else kw.get(p, EMPTY))
        if a.vararg is not None:
            env.set(a.vararg.arg, vunion_all(pos[len(params):]))
        kwonly = [q.arg for q in a.kwonlyargs]
        for p in kwonly:
            env.set(p, kw.get(p, EMPTY))
        if a.kwarg is not None:
            env.set(a.kwarg.arg, vunion_all(v for k, v in kw.items() if k not in params and k not in kwonly))
        # constant arguments / defaults (booleans and None) are propagated
        if call is not None and not any(isinstance(x, ast.Starred) for x in call.args) \
                and not any(k.arg is None for k in call.keywords):
            def cval(x):
                if isinstance(x, ast.Constant) and (x.value is None or isinstance(x.value, bool)):
                    return True, x.value
                if isinstance(x, ast.Name) and callenv is not None and callenv.const(x.id)[0]:
                    return True, callenv.const(x.id)[1]
                if callenv is not None and isinstance(x, (ast.BoolOp, ast.UnaryOp, ast.Compare)):
                    saved = self.cls
                    tv = self.truth(x, callenv)
                    if tv is not None:
                        return True, tv
                return False, None
            given = {}
            for i, x in enumerate(call.args):
                if i < len(params):
                    given[params[i]] = x
            for k in call.keywords:
                given[k.arg] = k.value
            defaults = {}
            allpos = [p.arg for p in a.posonlyargs + a.args]
            for p, d in zip(allpos[len(allpos) - len(a.defaults):], a.defaults):
                defaults[p] = d
            for p, d in zip(a.kwonlyargs, a.kw_defaults):
                if d is not None:
                    defaults[p.arg] = d
            for p in params + kwonly:
                src = given.get(p, defaults.get(p))
                if src is not None:
                    ok, v = cval(src) if p in given else (cval(src)[0] and not isinstance(src, ast.Name), cval(src)[1])
                    if ok:
                        env.consts[p] = v
        flow, ret = self.run_function(node, env, cls, module, tag)
        return ret, flow

    def call_inline(self, e, env):
        """A call that is analysed by inlining: -> (value, counts of evaluating the arguments, Flow);
        Flow is None when the call is not inlined (then value/counts are the complete result)."""
        f = e.func
        if isinstance(f, ast.Attribute) and f.attr != "rebuild":
            recv, cr = self.ev(f.value, env)
            recv = flat(recv)
            if recv and all(p == () for p, _ in recv) and self.cls is not None:
                found = self.prog.method(self.cls, f.attr)
                if found is not None and f.attr != "model_copy":
                    vals, kw, c = self.args_of(e, env)
                    ci, node = found
                    ret, fl = self.inline(node, None, recv, vals, kw, self.cls, ci.module, f"{ci.name}.{f.attr}", e, env)
                    return ret, c_add(c, cr), fl
        if isinstance(f, ast.Name):
            local = env.func(f.id)
            if local is not None:
                vals, kw, c = self.args_of(e, env)
                node, defenv = local
                tag = f"{self.stack[0] if self.stack else ''}>{f.id}@{node.lineno}"
                ret, fl = self.inline(node, defenv, None, vals, kw, self.cls, self.module, tag, e, env)
                return ret, c, fl
            if f.id not in self.prog.classes and f.id not in ALIAS_FUNCS:
                found = self.prog.function(f.id, self.module)
                if found is not None:
                    vals, kw, c = self.args_of(e, env)
                    module, node = found
                    ret, fl = self.inline(node, None, None, vals, kw, None, module, f"{module}:{f.id}", e, env)
                    return ret, c, fl
        v, c = self.ev_call_plain(e, env)
        return v, c, None

    def ev_Call(self, e, env):
        v, c, fl = self.call_inline(e, env)
        if fl is not None:
            c = c_add(c, fl.total())
        return v, c

    def ev_call_plain(self, e, env):
        f = e.func
        vals, kw, c = self.args_of(e, env)
        allargs = vunion_all(list(vals) + list(kw.values()))
        if isinstance(f, ast.Attribute):
            recv, cr = self.ev(f.value, env)
            c = c_add(c, cr)
            meth = f.attr
            if meth == "model_copy":
                return flat(recv), c
            if flat(recv) and (meth == "rebuild" or meth in (self.render_like_names or ())):
                return EMPTY, c_add(c, render_counts(recv))
            if meth in CONTAINER_ADD and isinstance(f.value, ast.Name):
                env.join(f.value.id, vals[-1] if (len(vals) >= 1 and meth != "update") else allargs)
                return EMPTY, c
            if meth == "join":
                return EMPTY, c
            return recv, c  # `.get`, `.items`, `.copy`, predicates: same objects (or nothing rendered)
        if isinstance(f, ast.Name):
            name = f.id
            if name in self.prog.classes:
                if name in self.prog.expr_classes:
                    self.serial += 1
                    return frozenset([((f"@new:{name}#{self.serial}",), "all")]), c
                return allargs, c  # helper record (`_OperandSlot`, `_AttrpathEntry`): wraps its arguments
            if name == "zip":
                return Tup(vals), c
            if name == "enumerate" and vals:
                return Tup([EMPTY, vals[0]]), c
            if name == "getattr" and len(e.args) >= 2 and isinstance(e.args[1], ast.Constant) \
                    and isinstance(e.args[1].value, str):
                fake = ast.Attribute(value=e.args[0], attr=e.args[1].value, ctx=ast.Load())
                v, _c = self.ev_Attribute(fake, env)
                return v | (flat(vals[2]) if len(vals) > 2 else EMPTY), c
            if name in ALIAS_FUNCS:
                return (vals[0] if len(vals) == 1 else allargs), c
            return EMPTY, c  # builtin predicates, str, len, …
        _v, cf = self.ev(f, env)  # call of a call (`getattr(x, "has_scope", lambda: False)()`)
        return EMPTY, c_add(c, cf)


# ------------------------------------------------------------------ table
def field_name(path: tuple) -> str:
    return "@self" if path == () else ".".join(x.split("#")[0] for x in path)


def fold_parts(counts: dict) -> dict[str, int]:
    out: dict[str, int] = {}
    for (p, _cls), n in counts.items():
        k = field_name(p)
        out[k] = min(UNBOUNDED, max(out.get(k, 0), n))
    return out


NONNULL_CALLS = {"bool", "str", "int", "len", "list", "dict", "tuple", "set", "sorted", "repr"}


def extract_nonnull(prog: Program) -> dict[str, list[str]]:
    """Fields that are never None on an object produced by the class's `from_cst`: every constructor
    call (`cls(...)`, `cls._fast_construct(...)`) in it passes an expression that cannot be None
    (comparison, literal, str/bool/list call, helper whose return annotation has no None, a local only
    ever assigned such expressions), or the dataclass default is not None."""

    def returns_nonnull(fname: str, module: str) -> bool:
        found = prog.function(fname, module)
        if found is None:
            return False
        ann = found[1].returns
        if ann is None:
            return False
        txt = ast.unparse(ann)
        return "None" not in txt and "Optional" not in txt and "Any" not in txt

    def nonnull_expr(x, fn, module, seen) -> bool:
        if isinstance(x, ast.Constant):
            return x.value is not None
        if isinstance(x, (ast.Compare, ast.JoinedStr, ast.List, ast.Tuple, ast.Dict, ast.Set, ast.ListComp,
                          ast.DictComp, ast.SetComp)):
            return True
        if isinstance(x, ast.UnaryOp) and isinstance(x.op, ast.Not):
            return True
        if isinstance(x, ast.BoolOp):
            if isinstance(x.op, ast.Or):
                return nonnull_expr(x.values[-1], fn, module, seen)
            return all(nonnull_expr(v, fn, module, seen) for v in x.values)
        if isinstance(x, ast.IfExp):
            return nonnull_expr(x.body, fn, module, seen) and nonnull_expr(x.orelse, fn, module, seen)
        if isinstance(x, ast.Call):
            if isinstance(x.func, ast.Name):
                return x.func.id in NONNULL_CALLS or returns_nonnull(x.func.id, module)
            if isinstance(x.func, ast.Attribute):
                return x.func.attr in ("decode", "count", "strip", "join", "format")
            return False
        if isinstance(x, ast.Name):
            if x.id in seen:
                return True
            seen = seen | {x.id}
            assigns = []
            params = {a.arg for a in fn.args.posonlyargs + fn.args.args + fn.args.kwonlyargs}
            if x.id in params:
                return False
            for n in ast.walk(fn):
                if isinstance(n, ast.Assign):
                    for t in n.targets:
                        if isinstance(t, ast.Name) and t.id == x.id:
                            assigns.append(n.value)
                        elif any(isinstance(y, ast.Name) and y.id == x.id for y in ast.walk(t)):
                            return False  # tuple unpacking etc.: unknown
                elif isinstance(n, ast.AnnAssign) and isinstance(n.target, ast.Name) and n.target.id == x.id:
                    if n.value is not None:
                        assigns.append(n.value)
                elif isinstance(n, (ast.AugAssign, ast.For, ast.NamedExpr, ast.With, ast.comprehension)):
                    tgt = getattr(n, "target", None)
                    if tgt is not None and any(isinstance(y, ast.Name) and y.id == x.id for y in ast.walk(tgt)):
                        if not isinstance(n, ast.AugAssign):
                            return False
            return bool(assigns) and all(nonnull_expr(v, fn, module, seen) for v in assigns)
        return False

    def default_nonnull(cls: str, fld: str) -> bool:
        for c in prog.mro(cls):
            for n in prog.classes[c].node.body:
                if isinstance(n, ast.AnnAssign) and isinstance(n.target, ast.Name) and n.target.id == fld:
                    if n.value is None:
                        return False  # required field: must be passed
                    if isinstance(n.value, ast.Constant):
                        return n.value.value is not None
                    return isinstance(n.value, ast.Call)  # field(default_factory=…)
        return False

    out: dict[str, list[str]] = {}
    for cls in sorted(prog.expr_classes):
        found = prog.method(cls, "from_cst")
        if found is None:
            continue
        ci, fn = found
        calls = [
            n for n in ast.walk(fn)
            if isinstance(n, ast.Call) and (
                (isinstance(n.func, ast.Name) and n.func.id == "cls")
                or (isinstance(n.func, ast.Attribute) and isinstance(n.func.value, ast.Name)
                    and n.func.value.id == "cls" and n.func.attr == "_fast_construct"))
        ]
        if not calls:
            continue
        fields = []
        allf = [f for c in prog.mro(cls) for f in prog.classes[c].fields]
        for f in sorted(set(allf)):
            ok = True
            for call in calls:
                if any(k.arg is None for k in call.keywords) or call.args:
                    ok = False
                    break
                kw = {k.arg: k.value for k in call.keywords}
                if f in kw:
                    ok = ok and nonnull_expr(kw[f], fn, ci.module, frozenset())
                else:
                    ok = ok and default_nonnull(cls, f)
            if ok:
                fields.append(f)
        out[cls] = fields
    return out


def run_tables(prog: Program, nonnull: dict) -> dict:
    it = Interp(prog, nonnull)
    names = it.render_like_method_names()
    table: dict[tuple[str, str], int] = {}
    entries: dict[tuple[str, str], dict[str, int]] = {}
    render_like: dict[str, list[str]] = {}
    classes = []
    for cls in sorted(prog.expr_classes):
        if prog.method(cls, "rebuild") is None:
            continue
        classes.append(cls)
        methods = ["rebuild"] + sorted(m for m in names if prog.method(cls, m) is not None and it.is_render_like(cls, m))
        render_like[cls] = methods[1:]
        for m in methods:
            counts = fold_parts(it.analyse_method(cls, m))
            entries[(cls, m)] = counts
            for fld, n in counts.items():
                table[(cls, fld)] = max(table.get((cls, fld), 0), n)
    return {"table": table, "entries": entries, "render_like": render_like, "classes": classes,
            "notes": sorted(set(it.notes))}


def extract() -> dict:
    """table: all control-flow paths (also objects built through the API);
    table_parsed: paths feasible for objects built by from_cst (guards `self.f is None` decided for
    the fields in `nonnull`).  Keys (class, field path) -> max renders per render of the parent."""
    prog = load_program()
    full = run_tables(prog, {})
    nonnull = extract_nonnull(prog)
    parsed = run_tables(prog, nonnull)
    if not full["table"]:
        raise ExtractError("no rebuild method renders anything: extractor out of date")
    for k, n in parsed["table"].items():
        if n > full["table"].get(k, 0):
            raise ExtractError(f"parsed table exceeds the all-paths table at {k}")
    return {
        "table": full["table"],
        "table_parsed": parsed["table"],
        "entries": full["entries"],
        "render_like": full["render_like"],
        "classes": full["classes"],
        "fields": sorted(prog.expr_fields),
        "nonnull": nonnull,
        "notes": sorted(set(full["notes"] + parsed["notes"])),
    }


def emit(res: Result) -> dict[str, str]:
    out = [
        "/- GENERATED by harness/translate/gen_multiplicity.py from /repo on every run. Do not edit. -/",
        "namespace Nima.Gen",
        "",
        "/-- (class, child field path, max number of renders of that child per render of the parent) -/",
    ]
    data = run_table(res, "multiplicity", extract)
    if data is None:
        out += ["def multiplicity : Option (List (String × String × Nat)) := none",
                "def multiplicityParsed : Option (List (String × String × Nat)) := none",
                "def renderLike : Option (List (String × String)) := none"]
    else:
        rows = ",\n  ".join(
            f"({lean_str(k)}, {lean_str(f)}, {n})" for (k, f), n in sorted(data["table"].items())
        )
        out += [f"def multiplicity : Option (List (String × String × Nat)) := some [\n  {rows}]"]
        rows = ",\n  ".join(
            f"({lean_str(k)}, {lean_str(f)}, {n})" for (k, f), n in sorted(data["table_parsed"].items())
        )
        out += ["/-- the same, restricted to control-flow paths feasible for objects built by `from_cst` -/",
                f"def multiplicityParsed : Option (List (String × String × Nat)) := some [\n  {rows}]"]
        rl = ", ".join(f"({lean_str(k)}, {lean_str(m)})" for k, ms in sorted(data["render_like"].items()) for m in ms)
        out += [f"def renderLike : Option (List (String × String)) := some [{rl}]"]
    out += ["", "end Nima.Gen", ""]
    return {"Multiplicity.lean": "\n".join(out)}


if __name__ == "__main__":
    d = extract()
    for (k, f), n in sorted(d["table"].items()):
        print(f"{k:22s} {f:28s} {n} {d['table_parsed'].get((k, f), 0)}")
    print("nonnull:", d["nonnull"])
    print("render-like:", {k: v for k, v in d["render_like"].items() if v})
    print("notes:", d["notes"])
