import NimaVerif.Model.Basic
/-!
L2: the trivia algebra every construct's `from_cst` / `rebuild` shares
(`expressions/trivia.py`, `expressions/comment.py`, `expressions/layout.py`):
gap classification (`Layout.from_gap`, `gap_has_empty_line` in both its implementations,
`indent_from_gap`, `append_gap_trivia`), separators (`separator_from_layout[_with_comments]`),
comment text normalisation and rendering (`Comment.from_cst`, `__str__`, `rebuild`,
`MultilineComment.rebuild`) and the trivia formatters (`format_trivia`,
`format_interstitial_trivia[_with_separator]`, `format_inline_comment_suffix`,
`trim_*`, `apply_trailing_trivia`). Import-free.
-/
namespace Nima

/-! ### text helpers -/

def endsWithNL (s : Text) : Bool := s.getLast? == some '\n'
def startsWithNL (s : Text) : Bool := s.head? == some '\n'
def containsNL (s : Text) : Bool := s.contains '\n'

/-- `s.split("\n")` -/
def splitLines : Text → List Text
  | [] => [[]]
  | c :: cs =>
    match splitLines cs with
    | [] => [[c]]          -- unreachable: splitLines never returns []
    | l :: ls => if c = '\n' then [] :: l :: ls else (c :: l) :: ls

/-- `"\n".join(lines)` -/
def joinLines : List Text → Text
  | [] => []
  | [l] => l
  | l :: ls => l ++ '\n' :: joinLines ls

def lstripSpaces (s : Text) : Text := s.dropWhile (· == ' ')
def rstripSpaces (s : Text) : Text := (s.reverse.dropWhile (· == ' ')).reverse
def stripSpaces (s : Text) : Text := rstripSpaces (lstripSpaces s)
def leadingSpaces (s : Text) : Nat := (s.takeWhile (· == ' ')).length
def startsWith (p s : Text) : Bool := p.isPrefixOf s
def endsWith (p s : Text) : Bool := p.isSuffixOf s

/-! ### gap classification -/

/-- `_GAP_WHITESPACE_BYTES = (32, 9)` -/
def isGapBlank (c : Char) : Bool := c = ' ' || c = '\t'

/-- `_EMPTY_LINE_RE.search(gap)`: some `\n[ \t]*\n` occurs in the text. -/
def hasEmptyLineRe : Text → Bool
  | [] => false
  | c :: cs =>
    (c = '\n' && (cs.dropWhile isGapBlank).head? == some '\n') || hasEmptyLineRe cs

/-- `gap_has_empty_line(gap)` (string version used by `Layout.from_gap`, `append_gap_trivia`) -/
def gapHasEmptyLine (gap : Text) : Bool :=
  if !containsNL gap then false
  else if gap.count '\n' < 2 then false
  else hasEmptyLineRe gap

/-- `_gap_has_empty_line_offsets(source_bytes, start, end)` on the slice: find the first newline,
    require a second one, then scan: after a newline skip blanks; a newline right there is a blank
    line; otherwise continue from the next newline. -/
def emptyLineScan : Nat → Text → Bool
  | 0, _ => false
  | fuel + 1, s =>
    -- `s` starts right after a newline
    let rest := s.dropWhile isGapBlank
    match rest with
    | [] => false
    | c :: _ =>
      if c = '\n' then true
      else
        let after := rest.dropWhile (· != '\n')
        match after with
        | [] => false
        | _ :: more => emptyLineScan fuel more

def gapHasEmptyLineOffsets (gap : Text) : Bool :=
  let afterFirst := (gap.dropWhile (· != '\n'))
  match afterFirst with
  | [] => false
  | _ :: rest =>
    if !rest.contains '\n' then false
    else emptyLineScan (gap.length + 1) rest

/-- `indent_from_gap(gap)` -/
def indentFromGap (gap : Text) : Nat :=
  if !containsNL gap then 0 else (gap.reverse.takeWhile (· != '\n')).length

structure Layout where
  onNewline : Bool := false
  blankLine : Bool := false
  indent : Option Nat := none
deriving DecidableEq, Repr

/-- `Layout.from_gap(gap)` -/
def Layout.fromGap (gap : Text) : Layout :=
  if !containsNL gap then { onNewline := false, blankLine := false, indent := none }
  else { onNewline := true, blankLine := gapHasEmptyLine gap, indent := some (indentFromGap gap) }

/-- `separator_from_layout(layout, indent=…, inline_sep=…)` -/
def separatorFromLayout (l : Layout) (indent : Nat) (inlineSep : Text := [' ']) : Text :=
  if !l.onNewline then inlineSep
  else
    (if l.blankLine then ['\n', '\n'] else ['\n']) ++ spaces (l.indent.getD indent)

/-- `separator_from_layout_with_comments(layout, comment_str, …)` -/
def separatorFromLayoutWithComments (l : Layout) (commentStr : Text) (inlineSep : Text := [' '])
    (includeIndent : Bool := true) : Text :=
  if l.onNewline then
    (if endsWithNL commentStr then [] else ['\n']) ++
    (if l.blankLine then ['\n'] else []) ++
    (if includeIndent then spaces (l.indent.getD 0) else [])
  else if !commentStr.isEmpty then
    (if commentStr.getLast? == some ' ' || endsWithNL commentStr then [] else inlineSep)
  else inlineSep

/-! ### comments -/

inductive CommentKind where
  | line                                   -- `# …`
  | block (doc : Bool) (innerIndent : Option Nat)   -- `/* … */`, `/** … */` (MultilineComment)
deriving DecidableEq, Repr

structure Comment where
  text : Text
  kind : CommentKind := .line
  inline : Bool := false
  shebang : Bool := false
  spaceAfterHash : Bool := true
deriving DecidableEq, Repr

/-- `Comment.__str__` -/
def Comment.str (c : Comment) : Text :=
  if c.shebang then '#' :: '!' :: c.text
  else
    let pre : Text := if c.spaceAfterHash then ['#', ' '] else ['#']
    joinLines ((splitLines c.text).map fun ln => if ln.isEmpty then ['#'] else pre ++ ln)

/-- strip `prefix` from a line when present -/
def dropPrefixIf (p : Text) (ln : Text) : Text :=
  if !p.isEmpty && startsWith p ln then ln.drop p.length else ln

/-- `Comment.from_cst(node)` as a function of the token text and its start column. -/
def Comment.fromText (col : Nat) (t : Text) : Comment :=
  if startsWith ['/', '*'] t then
    let doc := startsWith ['/', '*', '*'] t
    let inner0 := t.drop (if doc then 3 else 2)
    let inner := if endsWith ['*', '/'] inner0 then inner0.take (inner0.length - 2) else inner0
    if containsNL inner then
      let lines := splitLines inner
      -- delimiter padding is re-added by rebuild (repair 9151072)
      let first := stripSpaces (lines.headD [])
      let restRaw := lines.drop 1
      let restRaw := match restRaw.reverse with
        | [] => []
        | l :: ls => (rstripSpaces l :: ls).reverse
      -- a one-line split cannot happen here (inner contains a newline)
      let normalized := restRaw.map (dropPrefixIf (spaces col))
      let nonblank := normalized.filter fun ln => !(strip ln).isEmpty
      let innerIndent := match nonblank.map leadingSpaces with
        | [] => 0
        | x :: xs => xs.foldl min x
      let body := if innerIndent > 0 then normalized.map (dropPrefixIf (spaces innerIndent)) else normalized
      { text := joinLines (first :: body), kind := .block doc (some innerIndent) }
    else
      { text := strip inner, kind := .block doc none }
  else if startsWith ['#', '!'] t then { text := t.drop 2, shebang := true }
  else if startsWith ['#'] t then
    let r := t.drop 1
    if startsWith [' '] r then { text := r.drop 1, spaceAfterHash := true }
    else { text := r, spaceAfterHash := false }
  else { text := t }

/-- `MultilineComment.rebuild(indent)` / `Comment.rebuild(indent)` -/
def Comment.rebuild (c : Comment) (indent : Nat) : Text :=
  let indent := if c.inline then 0 else indent
  match c.kind with
  | .line => spaces indent ++ c.str
  | .block doc innerIndent =>
    let opening : Text := if doc then ['/', '*', '*'] else ['/', '*']
    if containsNL c.text then
      let lines := splitLines c.text
      let head : Text :=
        if startsWithNL c.text then spaces indent ++ opening
        else spaces indent ++ opening ++ [' ']
      let extra := innerIndent.getD 2
      let body := (lines.drop 1).foldl (fun acc ln =>
        if ln.isEmpty then acc ++ ['\n'] else acc ++ '\n' :: spaces (indent + extra) ++ ln) (head ++ lines.headD [])
      if !endsWithNL c.text then body ++ [' ', '*', '/'] else body ++ spaces indent ++ ['*', '/']
    else spaces indent ++ opening ++ [' '] ++ c.text ++ [' ', '*', '/']

/-! ### trivia lists -/

inductive Trivia where
  | emptyLine
  | linebreak
  | comma
  | comment (c : Comment)
deriving DecidableEq, Repr

def Trivia.isLayout : Trivia → Bool
  | .emptyLine => true | .linebreak => true | _ => false

/-- `append_gap_trivia(trivia, gap, include_linebreak=…)` (also the `_from_offsets` variant, which
    differs only in using the offset scanner; see `C18.empty_line_impls_agree`) -/
def appendGapTrivia (ts : List Trivia) (gap : Text) (includeLinebreak : Bool := true) : List Trivia :=
  if gapHasEmptyLine gap then ts ++ [.emptyLine]
  else if includeLinebreak && containsNL gap then ts ++ [.linebreak]
  else ts

/-- `format_trivia(trivia_list, indent)`; the loop state is (parts so far, ends_with_newline). -/
def formatTriviaGo (indent : Nat) : List Trivia → Text → Bool → Text
  | [], acc, _ => acc
  | .emptyLine :: rest, acc, _ => formatTriviaGo indent rest (acc ++ ['\n']) true
  | .linebreak :: rest, acc, e => formatTriviaGo indent rest acc e
  | .comma :: rest, acc, e =>
    let acc1 := if (acc.isEmpty || e) && indent > 0 then acc ++ spaces indent else acc
    let acc2 := acc1 ++ [',']
    match rest with
    | .comment c :: _ =>
      if c.inline then formatTriviaGo indent rest (acc2 ++ [' ']) false
      else formatTriviaGo indent rest acc2 false
    | .linebreak :: _ => formatTriviaGo indent rest (acc2 ++ ['\n']) true
    | [] => formatTriviaGo indent rest (acc2 ++ ['\n']) true
    | _ => formatTriviaGo indent rest acc2 false
  | .comment c :: rest, acc, _ =>
    formatTriviaGo indent rest (acc ++ c.rebuild indent ++ ['\n']) true

def formatTrivia (ts : List Trivia) (indent : Nat := 0) : Text := formatTriviaGo indent ts [] true

/-- `format_interstitial_trivia(items, indent=…, inline_comment_newline=…)` -/
def formatInterstitialGo (indent : Nat) (inlineNL : Bool) : List Trivia → Text → Text
  | [], acc => acc
  | .emptyLine :: rest, acc =>
    formatInterstitialGo indent inlineNL rest ((if endsWithNL acc then acc else acc ++ ['\n']) ++ ['\n'])
  | .linebreak :: rest, acc =>
    formatInterstitialGo indent inlineNL rest (if endsWithNL acc then acc else acc ++ ['\n'])
  | .comma :: rest, acc =>
    -- `getattr(item, "inline", False)` is False for the comma sentinel, and it has no rebuild():
    -- AttributeError in Python; never produced by the callers. Modelled as skipping.
    formatInterstitialGo indent inlineNL rest acc
  | .comment c :: rest, acc =>
    if c.inline then
      let acc1 :=
        if !acc.isEmpty && !(acc.getLast? == some ' ' || endsWithNL acc) then acc ++ [' ']
        else if acc.isEmpty then acc ++ [' '] else acc
      let acc2 := acc1 ++ c.rebuild 0
      formatInterstitialGo indent inlineNL rest (if inlineNL then acc2 ++ ['\n'] else acc2)
    else
      let acc1 := if !acc.isEmpty && !endsWithNL acc then acc ++ ['\n'] else acc
      formatInterstitialGo indent inlineNL rest (acc1 ++ c.rebuild indent ++ ['\n'])

def formatInterstitialTrivia (items : List Trivia) (indent : Nat) (inlineNL : Bool := false) : Text :=
  formatInterstitialGo indent inlineNL items []

/-- `format_interstitial_trivia_with_separator(…)` -/
def formatInterstitialTriviaWithSeparator (items : List Trivia) (l : Layout) (indent : Nat)
    (inlineNL : Bool := false) (inlineSep : Text := [' ']) (includeIndent : Bool := true)
    (dropBlankIfItems : Bool := true) (stripLeadingNLAfter : Option Text := none) : Text × Text :=
  let l := if dropBlankIfItems && !items.isEmpty then { l with blankLine := false } else l
  let rendered := formatInterstitialTrivia items indent inlineNL
  let rendered := match stripLeadingNLAfter with
    | some s => if !s.isEmpty && endsWithNL s && startsWithNL rendered then rendered.drop 1 else rendered
    | none => rendered
  (rendered, separatorFromLayoutWithComments l rendered inlineSep includeIndent)

/-- `format_inline_comment_suffix(items)` -/
def formatInlineCommentSuffix (items : List Comment) : Text :=
  items.foldl (fun acc c => (if acc.getLast? == some ' ' then acc else acc ++ [' ']) ++ c.rebuild 0) []

/-- `trim_trailing_layout_newline(trivia_list, rendered)` -/
def trimTrailingLayoutNewline (ts : List Trivia) (rendered : Text) : Text :=
  match ts.getLast? with
  | some t => if !t.isLayout && endsWithNL rendered then rendered.dropLast else rendered
  | none => rendered

/-- `trim_leading_layout_trivia(trivia)` -/
def trimLeadingLayoutTrivia (ts : List Trivia) : List Trivia := ts.dropWhile Trivia.isLayout

/-- `apply_trailing_trivia(rebuilt, after, indent=…)` -/
def applyTrailingTrivia (rebuilt : Text) (after : List Trivia) (indent : Nat) : Text :=
  match after with
  | [] => rebuilt
  | .comment c :: rest =>
    if c.inline then
      let trailing := trimTrailingLayoutNewline after (formatTrivia rest indent)
      rebuilt ++ [' '] ++ c.rebuild 0 ++ (if trailing.isEmpty then [] else '\n' :: trailing)
    else
      let afterStr := trimTrailingLayoutNewline after (formatTrivia after indent)
      rebuilt ++ (if afterStr.isEmpty then [] else '\n' :: afterStr)
  | _ =>
    let afterStr := trimTrailingLayoutNewline after (formatTrivia after indent)
    rebuilt ++ (if afterStr.isEmpty then [] else '\n' :: afterStr)

end Nima
