import NimaVerif.Model.Frame
/-!
Algebra of update-by-identity over the nested `Node` type (mutual structural induction on
`Node` / `List Node`), lifted to `Layer` and `Doc`. Used by C04 (frame) and C19 (composition).
-/
namespace Nima

open Node

/-! ## list forms -/

theorem updBindL_eq_map (id : Nat) (v : Node) : ∀ l, updBindL id v l = l.map (updBind id v)
  | [] => rfl
  | x :: xs => by simp [updBindL, updBindL_eq_map id v xs]

theorem updSetL_eq_map (sid : Nat) (f : Node → Node) : ∀ l, updSetL sid f l = l.map (updSet sid f)
  | [] => rfl
  | x :: xs => by simp [updSetL, updSetL_eq_map sid f xs]

@[simp] theorem updBindL_nil (id : Nat) (v : Node) : updBindL id v [] = [] := rfl
@[simp] theorem updSetL_nil (sid : Nat) (f : Node → Node) : updSetL sid f [] = [] := rfl

theorem updBindL_append (id : Nat) (v : Node) (xs ys : List Node) :
    updBindL id v (xs ++ ys) = updBindL id v xs ++ updBindL id v ys := by
  simp [updBindL_eq_map]

theorem updSetL_append (sid : Nat) (f : Node → Node) (xs ys : List Node) :
    updSetL sid f (xs ++ ys) = updSetL sid f xs ++ updSetL sid f ys := by
  simp [updSetL_eq_map]

theorem hasBindL_eq_any (j : Nat) : ∀ l, hasBindL j l = l.any (hasBind j)
  | [] => rfl
  | x :: xs => by simp [hasBindL, hasBindL_eq_any j xs]

theorem hasSetL_eq_any (s : Nat) : ∀ l, hasSetL s l = l.any (hasSet s)
  | [] => rfl
  | x :: xs => by simp [hasSetL, hasSetL_eq_any s xs]

theorem hasBindL_append (j : Nat) (xs ys : List Node) :
    hasBindL j (xs ++ ys) = (hasBindL j xs || hasBindL j ys) := by
  simp [hasBindL_eq_any]

theorem hasSetL_append (s : Nat) (xs ys : List Node) :
    hasSetL s (xs ++ ys) = (hasSetL s xs || hasSetL s ys) := by
  simp [hasSetL_eq_any]

/-! ## `updBind`: idempotent, absorbing, commuting on distinct identities -/

mutual
/-- the later write to a Binding object wins: everything but the value slot of `id` is untouched
    by the earlier write. -/
theorem updBind_absorb (id : Nat) (v w : Node) :
    ∀ n : Node, updBind id w (updBind id v n) = updBind id w n
  | .atom _ => by simp [updBind]
  | .ident _ => by simp [updBind]
  | .set s vs o m r => by simp [updBind, updBindL_absorb id v w vs, updBindL_absorb id v w o]
  | .bind i n ne val b a => by
      by_cases h : i = id
      · simp [updBind, h]
      · simp [updBind, h, updBind_absorb id v w val]
  | .inherit _ _ => by simp [updBind]
  | .entry segs leaf b a => by simp [updBind, updBind_absorb id v w leaf]
theorem updBindL_absorb (id : Nat) (v w : Node) :
    ∀ l : List Node, updBindL id w (updBindL id v l) = updBindL id w l
  | [] => rfl
  | x :: xs => by simp [updBindL, updBind_absorb id v w x, updBindL_absorb id v w xs]
end

/-- `updBind id v ∘ updBind id v = updBind id v`, unconditionally -/
theorem updBind_idem (id : Nat) (v : Node) (n : Node) :
    updBind id v (updBind id v n) = updBind id v n := updBind_absorb id v v n

theorem updBindL_idem (id : Nat) (v : Node) (l : List Node) :
    updBindL id v (updBindL id v l) = updBindL id v l := updBindL_absorb id v v l

mutual
/-- no Binding object `j` inside: the write is a no-op -/
theorem updBind_of_not_hasBind (j : Nat) (v : Node) :
    ∀ n : Node, hasBind j n = false → updBind j v n = n
  | .atom _, _ => by simp [updBind]
  | .ident _, _ => by simp [updBind]
  | .set s vs o m r, h => by
      simp only [hasBind, Bool.or_eq_false_iff] at h
      simp [updBind, updBindL_of_not_hasBind j v vs h.1, updBindL_of_not_hasBind j v o h.2]
  | .bind i n ne val b a, h => by
      simp only [hasBind, Bool.or_eq_false_iff, beq_eq_false_iff_ne, ne_eq] at h
      simp [updBind, h.1, updBind_of_not_hasBind j v val h.2]
  | .inherit _ _, _ => by simp [updBind]
  | .entry segs leaf b a, h => by
      simp only [hasBind] at h
      simp [updBind, updBind_of_not_hasBind j v leaf h]
theorem updBindL_of_not_hasBind (j : Nat) (v : Node) :
    ∀ l : List Node, hasBindL j l = false → updBindL j v l = l
  | [], _ => rfl
  | x :: xs, h => by
      simp only [hasBindL, Bool.or_eq_false_iff] at h
      simp [updBindL, updBind_of_not_hasBind j v x h.1, updBindL_of_not_hasBind j v xs h.2]
end

mutual
/-- writes to two different Binding objects commute (the written values do not contain the other
    object — true of freshly parsed values, whose objects are new). -/
theorem updBind_comm (i j : Nat) (v w : Node) (hij : i ≠ j)
    (hv : hasBind j v = false) (hw : hasBind i w = false) :
    ∀ n : Node, updBind i v (updBind j w n) = updBind j w (updBind i v n)
  | .atom _ => by simp [updBind]
  | .ident _ => by simp [updBind]
  | .set s vs o m r => by
      simp [updBind, updBindL_comm i j v w hij hv hw vs, updBindL_comm i j v w hij hv hw o]
  | .bind k n ne val b a => by
      by_cases hki : k = i
      · subst hki
        simp [updBind, hij, updBind_of_not_hasBind j w v hv]
      · by_cases hkj : k = j
        · subst hkj
          simp [updBind, hki, updBind_of_not_hasBind i v w hw]
        · simp [updBind, hki, hkj, updBind_comm i j v w hij hv hw val]
  | .inherit _ _ => by simp [updBind]
  | .entry segs leaf b a => by simp [updBind, updBind_comm i j v w hij hv hw leaf]
theorem updBindL_comm (i j : Nat) (v w : Node) (hij : i ≠ j)
    (hv : hasBind j v = false) (hw : hasBind i w = false) :
    ∀ l : List Node, updBindL i v (updBindL j w l) = updBindL j w (updBindL i v l)
  | [] => rfl
  | x :: xs => by
      simp [updBindL, updBind_comm i j v w hij hv hw x, updBindL_comm i j v w hij hv hw xs]
end

/-! ## `updBind` frame: what a write to object `id` leaves alone -/

/-- every other Binding object keeps identity, name, nested flag, `before`/`after`, and its value is
    changed only inside, by the same write -/
theorem updBind_frame (id i : Nat) (n : Text) (ne : Bool) (v val : Node) (b a : Payload)
    (h : i ≠ id) :
    updBind id v (.bind i n ne val b a) = .bind i n ne (updBind id v val) b a := by
  simp [updBind, h]

/-- the written object keeps identity, name, nested flag and `before`/`after` -/
theorem updBind_self (id : Nat) (n : Text) (ne : Bool) (v val : Node) (b a : Payload) :
    updBind id v (.bind id n ne val b a) = .bind id n ne v b a := by
  simp [updBind]

mutual
/-- the frames (identity, name, nested, before, after — in document order) of all bindings outside
    the value of `id` are invariant under a write to `id` -/
theorem frames_updBind (id : Nat) (v : Node) :
    ∀ n : Node, frames id (updBind id v n) = frames id n
  | .atom _ => by simp [updBind]
  | .ident _ => by simp [updBind]
  | .set s vs o m r => by simp [updBind, frames, framesL_updBind id v vs, framesL_updBind id v o]
  | .bind i n ne val b a => by
      by_cases h : i = id
      · simp [updBind, frames, h]
      · simp [updBind, frames, h, frames_updBind id v val]
  | .inherit _ _ => by simp [updBind]
  | .entry segs leaf b a => by simp [updBind, frames, frames_updBind id v leaf]
theorem framesL_updBind (id : Nat) (v : Node) :
    ∀ l : List Node, framesL id (updBindL id v l) = framesL id l
  | [] => rfl
  | x :: xs => by simp [updBindL, framesL, frames_updBind id v x, framesL_updBind id v xs]
end

/-! ## shape of a node under `updBind` -/

@[simp] theorem isBind_updBind (id : Nat) (v n : Node) : (updBind id v n).isBind = n.isBind := by
  cases n <;> simp only [updBind] <;> (try split) <;> rfl
@[simp] theorem isSet_updBind (id : Nat) (v n : Node) : (updBind id v n).isSet = n.isSet := by
  cases n <;> simp only [updBind] <;> (try split) <;> rfl
@[simp] theorem bindId_updBind (id : Nat) (v n : Node) : (updBind id v n).bindId? = n.bindId? := by
  cases n <;> simp only [updBind] <;> (try split) <;> rfl
@[simp] theorem bindName_updBind (id : Nat) (v n : Node) :
    (updBind id v n).bindName? = n.bindName? := by
  cases n <;> simp only [updBind] <;> (try split) <;> rfl
@[simp] theorem bindNested_updBind (id : Nat) (v n : Node) :
    (updBind id v n).bindNested = n.bindNested := by
  cases n <;> simp only [updBind] <;> (try split) <;> rfl
@[simp] theorem setSid_updBind (id : Nat) (v n : Node) : (updBind id v n).setSid? = n.setSid? := by
  cases n <;> simp only [updBind] <;> (try split) <;> rfl
@[simp] theorem setMultiline_updBind (id : Nat) (v n : Node) :
    (updBind id v n).setMultiline = n.setMultiline := by
  cases n <;> simp only [updBind] <;> (try split) <;> rfl
@[simp] theorem setRecursive_updBind (id : Nat) (v n : Node) :
    (updBind id v n).setRecursive = n.setRecursive := by
  cases n <;> simp only [updBind] <;> (try split) <;> rfl
@[simp] theorem setValues_updBind (id : Nat) (v n : Node) :
    (updBind id v n).setValues = updBindL id v n.setValues := by
  cases n <;> simp only [updBind] <;> (try split) <;> rfl
@[simp] theorem setOrder_updBind (id : Nat) (v n : Node) :
    (updBind id v n).setOrder = updBindL id v n.setOrder := by
  cases n <;> simp only [updBind] <;> (try split) <;> rfl

/-! ## `updSet`: fusion, no-op, idempotence, commutation, frame -/

mutual
/-- two in-place mutations of the same AttributeSet object fuse (the first keeps the identity) -/
theorem updSet_fuse (sid : Nat) (f g : Node → Node)
    (hf : ∀ vs o m r, (f (.set sid vs o m r)).setSid? = some sid) :
    ∀ n : Node, updSet sid g (updSet sid f n) = updSet sid (fun x => g (f x)) n
  | .atom _ => by simp [updSet]
  | .ident _ => by simp [updSet]
  | .set s vs o m r => by
      by_cases h : s = sid
      · subst h
        have := hf vs o m r
        simp only [updSet, if_true]
        cases hx : f (.set s vs o m r) <;> simp [hx, setSid?] at this
        subst this
        simp [updSet]
      · simp [updSet, h, updSetL_fuse sid f g hf vs, updSetL_fuse sid f g hf o]
  | .bind i n ne val b a => by simp [updSet, updSet_fuse sid f g hf val]
  | .inherit _ _ => by simp [updSet]
  | .entry segs leaf b a => by simp [updSet, updSet_fuse sid f g hf leaf]
theorem updSetL_fuse (sid : Nat) (f g : Node → Node)
    (hf : ∀ vs o m r, (f (.set sid vs o m r)).setSid? = some sid) :
    ∀ l : List Node, updSetL sid g (updSetL sid f l) = updSetL sid (fun x => g (f x)) l
  | [] => rfl
  | x :: xs => by simp [updSetL, updSet_fuse sid f g hf x, updSetL_fuse sid f g hf xs]
end

mutual
/-- no AttributeSet object `sid` inside: the mutation is a no-op -/
theorem updSet_of_not_hasSet (sid : Nat) (f : Node → Node) :
    ∀ n : Node, hasSet sid n = false → updSet sid f n = n
  | .atom _, _ => by simp [updSet]
  | .ident _, _ => by simp [updSet]
  | .set s vs o m r, h => by
      simp only [hasSet, Bool.or_eq_false_iff, beq_eq_false_iff_ne, ne_eq] at h
      simp [updSet, h.1.1, updSetL_of_not_hasSet sid f vs h.1.2, updSetL_of_not_hasSet sid f o h.2]
  | .bind i n ne val b a, h => by
      simp only [hasSet] at h
      simp [updSet, updSet_of_not_hasSet sid f val h]
  | .inherit _ _, _ => by simp [updSet]
  | .entry segs leaf b a, h => by
      simp only [hasSet] at h
      simp [updSet, updSet_of_not_hasSet sid f leaf h]
theorem updSetL_of_not_hasSet (sid : Nat) (f : Node → Node) :
    ∀ l : List Node, hasSetL sid l = false → updSetL sid f l = l
  | [], _ => rfl
  | x :: xs, h => by
      simp only [hasSetL, Bool.or_eq_false_iff] at h
      simp [updSetL, updSet_of_not_hasSet sid f x h.1, updSetL_of_not_hasSet sid f xs h.2]
end

mutual
/-- a mutation that fixes every node satisfying `P` is the identity on a tree all of whose
    `sid`-objects satisfy `P` (`P` closed under the sub-node relation is not needed: it is asked
    of the occurrences themselves through `Q`). -/
theorem updSet_eq_self (sid : Nat) (f : Node → Node) (Q : Node → Bool)
    (hQset : ∀ s vs o m r, Q (.set s vs o m r) = true →
      (s = sid → f (.set s vs o m r) = .set s vs o m r) ∧
      (∀ x ∈ vs, Q x = true) ∧ (∀ x ∈ o, Q x = true))
    (hQbind : ∀ i n ne v b a, Q (.bind i n ne v b a) = true → Q v = true)
    (hQentry : ∀ sg l b a, Q (.entry sg l b a) = true → Q l = true) :
    ∀ n : Node, Q n = true → updSet sid f n = n
  | .atom _, _ => by simp [updSet]
  | .ident _, _ => by simp [updSet]
  | .set s vs o m r, h => by
      obtain ⟨h1, h2, h3⟩ := hQset s vs o m r h
      by_cases hs : s = sid
      · simp [updSet, hs]
        exact hs ▸ h1 hs
      · simp [updSet, hs, updSetL_eq_self sid f Q hQset hQbind hQentry vs h2,
          updSetL_eq_self sid f Q hQset hQbind hQentry o h3]
  | .bind i n ne val b a, h => by
      simp [updSet, updSet_eq_self sid f Q hQset hQbind hQentry val (hQbind _ _ _ _ _ _ h)]
  | .inherit _ _, _ => by simp [updSet]
  | .entry segs leaf b a, h => by
      simp [updSet, updSet_eq_self sid f Q hQset hQbind hQentry leaf (hQentry _ _ _ _ h)]
theorem updSetL_eq_self (sid : Nat) (f : Node → Node) (Q : Node → Bool)
    (hQset : ∀ s vs o m r, Q (.set s vs o m r) = true →
      (s = sid → f (.set s vs o m r) = .set s vs o m r) ∧
      (∀ x ∈ vs, Q x = true) ∧ (∀ x ∈ o, Q x = true))
    (hQbind : ∀ i n ne v b a, Q (.bind i n ne v b a) = true → Q v = true)
    (hQentry : ∀ sg l b a, Q (.entry sg l b a) = true → Q l = true) :
    ∀ l : List Node, (∀ x ∈ l, Q x = true) → updSetL sid f l = l
  | [], _ => rfl
  | x :: xs, h => by
      simp [updSetL, updSet_eq_self sid f Q hQset hQbind hQentry x (h x (by simp)),
        updSetL_eq_self sid f Q hQset hQbind hQentry xs (fun y hy => h y (by simp [hy]))]
end

/-- `updSet sid f ∘ updSet sid f = updSet sid f` for an idempotent, identity-keeping `f` -/
theorem updSet_idem (sid : Nat) (f : Node → Node)
    (hf : ∀ vs o m r, (f (.set sid vs o m r)).setSid? = some sid)
    (hff : ∀ vs o m r, f (f (.set sid vs o m r)) = f (.set sid vs o m r)) (n : Node) :
    updSet sid f (updSet sid f n) = updSet sid f n := by
  rw [updSet_fuse sid f f hf]
  -- pointwise equal on `sid`-objects
  suffices h : ∀ (g g' : Node → Node), (∀ vs o m r, g (.set sid vs o m r) = g' (.set sid vs o m r)) →
      (∀ n, updSet sid g n = updSet sid g' n) ∧ (∀ l, updSetL sid g l = updSetL sid g' l) from
    (h _ _ (fun vs o m r => hff vs o m r)).1 n
  intro g g' hg
  have key : ∀ n, updSet sid g n = updSet sid g' n := by
    intro n
    induction n using Node.rec (motive_2 := fun l => updSetL sid g l = updSetL sid g' l) with
    | atom _ => simp [updSet]
    | ident _ => simp [updSet]
    | set s vs o m r ih1 ih2 =>
      by_cases h : s = sid
      · subst h; simp [updSet, hg]
      · simp [updSet, h, ih1, ih2]
    | bind i n ne val b a ih => simp [updSet, ih]
    | inherit _ _ => simp [updSet]
    | entry segs leaf b a ih => simp [updSet, ih]
    | nil => rfl
    | cons x xs ih1 ih2 => simp [updSetL, ih1, ih2]
  exact ⟨key, fun l => by simp [updSetL_eq_map, key]⟩

/-- mutations of two different AttributeSet objects commute when each mutation commutes with the
    other update on the object it is applied to (e.g. appending a node that does not contain the
    other object) -/
theorem updSet_comm (s t : Nat) (f g : Node → Node) (hst : s ≠ t)
    (hf : ∀ vs o m r, f (updSet t g (.set s vs o m r)) = updSet t g (f (.set s vs o m r)))
    (hg : ∀ vs o m r, g (updSet s f (.set t vs o m r)) = updSet s f (g (.set t vs o m r))) (n : Node) :
    updSet s f (updSet t g n) = updSet t g (updSet s f n) := by
  induction n using Node.rec
    (motive_2 := fun l => updSetL s f (updSetL t g l) = updSetL t g (updSetL s f l)) with
  | atom _ => simp [updSet]
  | ident _ => simp [updSet]
  | set k vs o m r ih1 ih2 =>
    by_cases hks : k = s
    · subst hks
      have h1 : updSet t g (.set k vs o m r) = .set k (updSetL t g vs) (updSetL t g o) m r := by
        simp [updSet, hst]
      rw [h1]
      simp only [updSet, if_true]
      rw [← h1, hf]
    · by_cases hkt : k = t
      · subst hkt
        have h1 : updSet s f (.set k vs o m r) = .set k (updSetL s f vs) (updSetL s f o) m r := by
          simp [updSet, hks]
        rw [h1]
        simp only [updSet, if_true]
        rw [← h1, hg]
      · simp [updSet, hks, hkt, ih1, ih2]
  | bind i n ne val b a ih => simp [updSet, ih]
  | inherit _ _ => simp [updSet]
  | entry segs leaf b a ih => simp [updSet, ih]
  | nil => rfl
  | cons x xs ih1 ih2 => simp [updSetL, ih1, ih2]

/-- every Binding object keeps identity, name, nested flag and `before`/`after` under a set
    mutation; its value is changed only inside, by the same mutation -/
theorem updSet_frame (sid i : Nat) (f : Node → Node) (n : Text) (ne : Bool) (val : Node)
    (b a : Payload) :
    updSet sid f (.bind i n ne val b a) = .bind i n ne (updSet sid f val) b a := by
  simp [updSet]

/-- every other AttributeSet object keeps identity and flags; its members are changed only inside -/
theorem updSet_frame_set (sid s : Nat) (f : Node → Node) (vs o : List Node) (m r : Bool)
    (h : s ≠ sid) :
    updSet sid f (.set s vs o m r) = .set s (updSetL sid f vs) (updSetL sid f o) m r := by
  simp [updSet, h]

/-- at the object itself the mutation is just `f` -/
theorem updSet_root (sid : Nat) (f : Node → Node) (vs o : List Node) (m r : Bool) :
    updSet sid f (.set sid vs o m r) = f (.set sid vs o m r) := by
  simp [updSet]

/-! ## identities below a bound do not occur -/

mutual
theorem not_hasBind_of_maxId_lt (j : Nat) : ∀ n : Node, maxId n < j → hasBind j n = false
  | .atom _, _ => rfl
  | .ident _, _ => rfl
  | .set s vs o m r, h => by
      simp only [maxId] at h
      simp [hasBind, not_hasBindL_of_maxIdL_lt j vs (by omega), not_hasBindL_of_maxIdL_lt j o (by omega)]
  | .bind i n ne val b a, h => by
      simp only [maxId] at h
      simp only [hasBind, Bool.or_eq_false_iff, beq_eq_false_iff_ne, ne_eq]
      exact ⟨by omega, not_hasBind_of_maxId_lt j val (by omega)⟩
  | .inherit _ _, _ => rfl
  | .entry segs leaf b a, h => by
      simp only [maxId] at h
      simp [hasBind, not_hasBind_of_maxId_lt j leaf h]
theorem not_hasBindL_of_maxIdL_lt (j : Nat) : ∀ l : List Node, maxIdL l < j → hasBindL j l = false
  | [], _ => rfl
  | x :: xs, h => by
      simp only [maxIdL] at h
      simp [hasBindL, not_hasBind_of_maxId_lt j x (by omega), not_hasBindL_of_maxIdL_lt j xs (by omega)]
end

mutual
theorem not_hasSet_of_maxId_lt (j : Nat) : ∀ n : Node, maxId n < j → hasSet j n = false
  | .atom _, _ => rfl
  | .ident _, _ => rfl
  | .set s vs o m r, h => by
      simp only [maxId] at h
      simp only [hasSet, Bool.or_eq_false_iff, beq_eq_false_iff_ne, ne_eq]
      exact ⟨⟨by omega, not_hasSetL_of_maxIdL_lt j vs (by omega)⟩,
        not_hasSetL_of_maxIdL_lt j o (by omega)⟩
  | .bind i n ne val b a, h => by
      simp only [maxId] at h
      simp [hasSet, not_hasSet_of_maxId_lt j val (by omega)]
  | .inherit _ _, _ => rfl
  | .entry segs leaf b a, h => by
      simp only [maxId] at h
      simp [hasSet, not_hasSet_of_maxId_lt j leaf h]
theorem not_hasSetL_of_maxIdL_lt (j : Nat) : ∀ l : List Node, maxIdL l < j → hasSetL j l = false
  | [], _ => rfl
  | x :: xs, h => by
      simp only [maxIdL] at h
      simp [hasSetL, not_hasSet_of_maxId_lt j x (by omega), not_hasSetL_of_maxIdL_lt j xs (by omega)]
end

end Nima
