import NimaVerif.Model.ResolveSpec
namespace Nima.C10
open Nima.Scope
theorem placeholder : implResolve 0 (.lit 0) [] = .fail .notIdent := by decide
end Nima.C10
