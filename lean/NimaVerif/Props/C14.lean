import NimaVerif.Lemmas.NameAgree
import NimaVerif.Lemmas.MappingLaws
/-!
# C14 — the mapping API obeys the dictionary laws, and the text agrees with the mapping

Model: `setGetItem` / `setSetItem` / `setDelItem` (`AttributeSet.__getitem__/__setitem__/__delitem__`)
and `scopeGetItem` / `scopeSetItem` / `scopeDelItem` (`Scope.__*item__` on `target.scope`) of
`Model/Edit.lean`. SPEC (in `Model/MappingSpec.lean`): `keysMap`, `keysText`, `Coherent`, `NoEntries`,
`Synced`, `Good`, `DocGood`, `MapOp`, `runOps`, `PlainKey`, `DistinctItems`.

The document-level statements are about the document's target set (`NixSourceCode.__*item__`
delegates to it); the invariant statements are about **every** set object of the document, so they
cover sets reached through nested lookups (`src["a"]["b"] = v`) too.

Hypotheses that are used and why they are satisfiable:
* `DistinctItems vs` (decidable): the items of one `values` list are distinct Python objects, none
  stored inside another — true of every parsed tree (objects are created once); `exDoc` has it.
* `PlainKey k` (decidable): the key is not a dotted path (`__getitem__` falls back to a walk for
  `"a.b"`; after `del m["a.b"]` of a binding literally named `a.b` the walk may still succeed).
* `(keysMap s).count k ≤ 1` (decidable): the name is defined once — two definitions of one name
  are invalid Nix (`cex_get_after_del_duplicate` shows the law fails without it).
* `Good s` = `NoEntries s ∧ Synced s` (decidable): `attrpath_order` has no `_AttrpathEntry` and is
  empty or lists exactly the objects of `values`; established by the parser for every set without
  attrpath-derived bindings (`good_of_parse`) and by `from_dict` / new nested sets (empty order).
-/
namespace Nima.C14
-- name tokens are compared by spelling in this file (see `NameCmp` in Model/Edit.lean)
attribute [local instance] NameCmp.spelled

open Node

/-! ## 0. `keysMap` is what `__getitem__` answers at the top level -/

theorem keysMap_iff_top (s : Node) (hne : noEntriesL s.setValues = true) (k : Text) :
    k ∈ keysMap s ↔
      (findBinding s.setValues k).isSome = true ∨ inheritMentions s.setValues k = true :=
  mem_keysOf_iff_top hne k

/-- every name of `keysMap` is answered -/
theorem keysMap_answered (s : Node) (hne : noEntriesL s.setValues = true) (k : Text)
    (h : k ∈ keysMap s) : ∃ v, setGetItem s k = .ok v := by
  rcases (keysMap_iff_top s hne k).1 h with h | h
  · cases hb : findBinding s.setValues k with
    | none => simp [hb] at h
    | some b =>
      obtain ⟨v, hv⟩ := isBind_bindValue (findBinding_some hb).2.1
      exact ⟨v, by simp [setGetItem, hb, hv]⟩
  · cases hb : findBinding s.setValues k with
    | some b =>
      obtain ⟨v, hv⟩ := isBind_bindValue (findBinding_some hb).2.1
      exact ⟨v, by simp [setGetItem, hb, hv]⟩
    | none => exact ⟨.ident k, by simp [setGetItem, hb, h]⟩

/-- and a plain key that is answered is a name of `keysMap` -/
theorem answered_plain_in_keysMap (s : Node) (k : Text) (hp : PlainKey k = true) (v : Node)
    (h : setGetItem s k = .ok v) : k ∈ keysMap s := by
  rw [setGetItem_plain s k hp] at h
  cases hb : findBinding s.setValues k with
  | some b => exact mem_keysOf_of_findBinding hb
  | none =>
    rw [hb] at h
    by_cases hi : inheritMentions s.setValues k = true
    · exact mem_keysOf_of_inherit hi
    · simp [hi] at h

/-! ## 1. Dictionary laws on a set (the document's target) -/

/-- `m[k] = v` succeeds on every set -/
theorem setitem_ok (d : Doc) (k : Text) (v : Node) (hs : d.target.isSet = true) :
    (setSetItem d.target k v d).1 = .ok () := by
  obtain ⟨sid, vs, o, m, r, ht⟩ := target_set hs
  cases hb : findBinding d.target.setValues k with
  | some b =>
    obtain ⟨bid, hid⟩ := isBind_bindId (findBinding_some hb).2.1
    rw [setSetItem_existing v d hb hid]
  | none => rw [setSetItem_new v d hb (sid := sid) (by simp [ht, setSid?])]

/-- get-after-set: `m[k] = v; m[k]` is `v` -/
theorem get_after_set (d : Doc) (k : Text) (v : Node) (hs : d.target.isSet = true) :
    setGetItem (setSetItem d.target k v d).2.target k = .ok v := by
  obtain ⟨sid, vs, o, m, r, ht⟩ := target_set hs
  cases hb : findBinding d.target.setValues k with
  | some b =>
    obtain ⟨bid, hid⟩ := isBind_bindId (findBinding_some hb).2.1
    obtain ⟨b', h1, h2⟩ := findBinding_updBindL_value v hb hid
    simp only [setGetItem, set_existing_values v hb hid, h1, h2]
  | none =>
    have hb' : findBinding vs k = none := by simpa [ht, setValues] using hb
    simp only [setGetItem, set_new_values v ht hb,
      findBinding_append_new vs (.bind d.next k false v [] []) k rfl rfl hb', bindValue?]

/-- the names after `m[k] = v`: unchanged when `k` was bound, `k` appended otherwise
    (in particular the count of every other name is unchanged) -/
theorem keysMap_after_set (d : Doc) (k : Text) (v : Node) (hs : d.target.isSet = true) :
    keysMap (setSetItem d.target k v d).2.target =
      if (findBinding d.target.setValues k).isSome then keysMap d.target
      else keysMap d.target ++ [k] := by
  obtain ⟨sid, vs, o, m, r, ht⟩ := target_set hs
  cases hb : findBinding d.target.setValues k with
  | some b =>
    obtain ⟨bid, hid⟩ := isBind_bindId (findBinding_some hb).2.1
    simp [keysMap, set_existing_values v hb hid]
  | none =>
    have hv := set_new_values v ht hb
    simp only [keysMap, hv]
    simp [ht, setValues, keysOf, itemKeys]

/-- other keys' lookups are unchanged by `m[k] = v` -/
theorem set_other_lookups (d : Doc) (k k' : Text) (v : Node) (hs : d.target.isSet = true)
    (hd : DistinctItems d.target.setValues = true) (hk : k' ≠ k) (hp : PlainKey k' = true) :
    setGetItem (setSetItem d.target k v d).2.target k' = setGetItem d.target k' := by
  obtain ⟨sid, vs, o, m, r, ht⟩ := target_set hs
  rw [setGetItem_plain _ k' hp, setGetItem_plain _ k' hp]
  cases hb : findBinding d.target.setValues k with
  | some b =>
    obtain ⟨bid, hid⟩ := isBind_bindId (findBinding_some hb).2.1
    rw [set_existing_values v hb hid, findBinding_updBindL_other hd v hb hid hk,
      inheritMentions_updBindL]
  | none =>
    rw [set_new_values v ht hb, findBinding_append_of_ne vs (.bind d.next k false v [] []) k k' rfl hk,
      inheritMentions_append_bind vs k' rfl]
    simp [ht, setValues]

/-- every key without `.`, `"` and `$` is plain (so the side condition `PlainKey` is met by all
    identifier-like names) -/
theorem plainKey_simple (k : Text) (h : ∀ c ∈ k, c ≠ '.' ∧ c ≠ '"' ∧ c ≠ '$') : PlainKey k = true :=
  plainKey_of_simple k h

/-- `del m[k]` / `m[k]` of a missing key: KeyError, state unchanged (lookups are pure) -/
theorem del_missing (s : Node) (k : Text) (d : Doc) (h : findBinding s.setValues k = none) :
    setDelItem s k d = (.error .key, d) := setDelItem_missing d h

theorem get_missing (s : Node) (k : Text) (hp : PlainKey k = true) (h : k ∉ keysMap s) :
    setGetItem s k = .error .key := by
  rw [setGetItem_plain s k hp, findBinding_none_of_not_mem h, inheritMentions_false_of_not_mem h]
  rfl

/-- get-after-del: `del m[k]; m[k]` is KeyError, for a name that was defined once -/
theorem get_after_del (d : Doc) (k : Text) (hok : (setDelItem d.target k d).1 = .ok ())
    (hd : DistinctItems d.target.setValues = true) (hu : (keysMap d.target).count k ≤ 1)
    (hp : PlainKey k = true) :
    setGetItem (setDelItem d.target k d).2.target k = .error .key := by
  obtain ⟨sid, o, m, r, b, bid, l₁, l₂, ht, hbb, hbn, _, hv⟩ := del_shape hok hd
  apply get_missing _ _ hp
  simp only [keysMap, hv]
  simp only [keysMap, ht, setValues, keysOf_split l₁ l₂ hbb hbn, List.count_append,
    List.count_cons_self] at hu
  have h1 : (keysOf l₁).count k = 0 := by omega
  have h2 : (keysOf l₂).count k = 0 := by omega
  rw [keysOf_append, List.mem_append]
  rintro (h | h)
  · exact absurd (List.count_pos_iff.2 h) (by omega)
  · exact absurd (List.count_pos_iff.2 h) (by omega)

/-- `del m[k]` removes one occurrence of `k` from the names and leaves every other count alone -/
theorem keysMap_after_del (d : Doc) (k : Text) (hok : (setDelItem d.target k d).1 = .ok ())
    (hd : DistinctItems d.target.setValues = true) (k' : Text) :
    (keysMap (setDelItem d.target k d).2.target).count k' =
      (keysMap d.target).count k' - (if k' = k then 1 else 0) := by
  obtain ⟨sid, o, m, r, b, bid, l₁, l₂, ht, hbb, hbn, _, hv⟩ := del_shape hok hd
  simp only [keysMap, hv]
  simp only [ht, setValues, keysOf_split l₁ l₂ hbb hbn, keysOf_append, List.count_append,
    List.count_cons]
  by_cases h : k' = k
  · subst h; simp
  · have : (k == k') = false := by simp [beq_eq_false_iff_ne]; exact fun e => h e.symm
    simp [h, this]

/-- other keys' lookups are unchanged by `del m[k]` -/
theorem del_other_lookups (d : Doc) (k k' : Text) (hok : (setDelItem d.target k d).1 = .ok ())
    (hd : DistinctItems d.target.setValues = true) (hk : k' ≠ k) (hp : PlainKey k' = true) :
    setGetItem (setDelItem d.target k d).2.target k' = setGetItem d.target k' := by
  obtain ⟨sid, o, m, r, b, bid, l₁, l₂, ht, hbb, hbn, _, hv⟩ := del_shape hok hd
  rw [setGetItem_plain _ k' hp, setGetItem_plain _ k' hp, hv]
  simp only [ht, setValues]
  rw [findBinding_remove_other l₁ l₂ hbn hk, inheritMentions_remove_bind l₁ l₂ k' hbb]

/-- The uniqueness hypothesis of `get_after_del` is needed: in `{ a = 1; a = 2; }` (a duplicate
    definition — invalid Nix, accepted by the parser) the second `a` answers after the delete. -/
def dupDoc : Doc :=
  { target := .set 1 [.bind 2 "a".toList false (.atom "1".toList) [] [],
                      .bind 3 "a".toList false (.atom "2".toList) [] []]
                     [.bind 2 "a".toList false (.atom "1".toList) [] [],
                      .bind 3 "a".toList false (.atom "2".toList) [] []] false false, next := 4 }

theorem cex_get_after_del_duplicate :
    (setDelItem dupDoc.target "a".toList dupDoc).1 = .ok () ∧
    setGetItem (setDelItem dupDoc.target "a".toList dupDoc).2.target "a".toList =
      .ok (.atom "2".toList) := by decide

/-! ## 2. Dictionary laws on the scope mapping (`target.scope`) -/

theorem scope_get_after_set (d : Doc) (k : Text) (v : Node) :
    (scopeSetItem k v d).1 = .ok () ∧ scopeGetItem (scopeSetItem k v d).2 k = .ok v := by
  cases hb : findBinding d.scope k with
  | some b =>
    obtain ⟨bid, hid⟩ := isBind_bindId (findBinding_some hb).2.1
    rw [scopeSetItem_existing v d hb hid]
    obtain ⟨b', h1, h2⟩ := findBinding_updBindL_value v hb hid
    simp [scopeGetItem, Doc.updBind, h1, h2]
  | none =>
    rw [scopeSetItem_new v d hb]
    simp [scopeGetItem, findBinding_append_new d.scope (.bind d.next k false v [] []) k rfl rfl hb, bindValue?]

theorem scope_set_other_lookups (d : Doc) (k k' : Text) (v : Node)
    (hd : DistinctItems d.scope = true) (hk : k' ≠ k) :
    scopeGetItem (scopeSetItem k v d).2 k' = scopeGetItem d k' := by
  cases hb : findBinding d.scope k with
  | some b =>
    obtain ⟨bid, hid⟩ := isBind_bindId (findBinding_some hb).2.1
    rw [scopeSetItem_existing v d hb hid]
    simp only [scopeGetItem, Doc.updBind]
    rw [findBinding_updBindL_other hd v hb hid hk]
  | none =>
    rw [scopeSetItem_new v d hb]
    simp only [scopeGetItem]
    rw [findBinding_append_of_ne d.scope (.bind d.next k false v [] []) k k' rfl hk]

theorem scope_del_missing (d : Doc) (k : Text) (h : findBinding d.scope k = none) :
    scopeDelItem k d = (.error .key, d) ∧ scopeGetItem d k = .error .key := by
  rw [scopeDelItem_missing d h]
  simp [scopeGetItem, h]

theorem scope_get_after_del (d : Doc) (k : Text) (hok : (scopeDelItem k d).1 = .ok ())
    (hd : DistinctItems d.scope = true) (hu : (keysMapScope d).count k ≤ 1) :
    scopeGetItem (scopeDelItem k d).2 k = .error .key := by
  obtain ⟨b, l₁, l₂, hs, hbb, hbn, hv⟩ := scope_del_shape hok hd
  simp only [keysMapScope, hs, keysOf_split l₁ l₂ hbb hbn, List.count_append,
    List.count_cons_self] at hu
  have hnot : k ∉ keysOf (l₁ ++ l₂) := by
    rw [keysOf_append, List.mem_append]
    rintro (h | h)
    · exact absurd (List.count_pos_iff.2 h) (by omega)
    · exact absurd (List.count_pos_iff.2 h) (by omega)
  simp [scopeGetItem, hv, findBinding_none_of_not_mem hnot]

theorem scope_del_other_lookups (d : Doc) (k k' : Text) (hok : (scopeDelItem k d).1 = .ok ())
    (hd : DistinctItems d.scope = true) (hk : k' ≠ k) :
    scopeGetItem (scopeDelItem k d).2 k' = scopeGetItem d k' := by
  obtain ⟨b, l₁, l₂, hs, hbb, hbn, hv⟩ := scope_del_shape hok hd
  simp only [scopeGetItem, hv, hs]
  rw [findBinding_remove_other l₁ l₂ hbn hk]

/-! ## 3. Text agreement -/

/-- For an aligned set the renderer walks the very list the lookups read, so text and mapping
    agree — on names (`Coherent`) and, beyond that, item by item. -/
theorem good_renders_values (s : Node) (h : Good s = true) :
    renderItems s.setValues s.setOrder = s.setValues := by
  simp only [Good, Bool.and_eq_true] at h
  exact renderItems_of_synced h.2

theorem good_coherent (s : Node) (h : Good s = true) : Coherent s := by
  intro k
  simp [keysText, keysMap, good_renders_values s h]

theorem goodScope_coherent (d : Doc) (h : GoodScope d = true) : CoherentScope d := by
  intro k
  simp only [GoodScope, Bool.and_eq_true] at h
  simp [keysTextScope, keysMapScope, renderItems_of_synced h.2]

/-- The parser establishes `Good` for every set without attrpath-derived items: there
    `_collect_attrpath_order` copies `values` item by item (`g` keeps an item or replaces it by an
    `_AttrpathEntry`), and `_merge_attrpath_bindings` has nothing to merge. -/
theorem good_of_parse (sid : Nat) (vs : List Node) (m r : Bool) (g : Node → Node)
    (hg : ∀ v, g v = v ∨ (g v).isEntry = true) (hn : noEntriesL (vs.map g) = true) :
    Good (.set sid vs (vs.map g) m r) = true := by
  rw [good_iff]
  exact ⟨hn, Or.inr (order_eq_values_of_noEntries g vs hg hn)⟩

/-- sets built by `from_dict` / created for missing path segments have no `attrpath_order` -/
theorem good_of_empty_order (sid : Nat) (vs : List Node) (m r : Bool) :
    Good (.set sid vs [] m r) = true := by
  simp [good_iff, noEntriesL, setOrder]

/-- each mapping operation — on ANY set object `s`, wherever it is stored — keeps every set
    object of the document (and the scope mapping) entry-free and aligned -/
theorem setitem_preserves (s : Node) (k : Text) (v : Node) (d : Doc)
    (hv : v.allSets Good = true) (h : DocGood d = true) : DocGood (setSetItem s k v d).2 = true :=
  docGood_setSetItem s k v d hv h

theorem delitem_preserves (s : Node) (k : Text) (d : Doc) (h : DocGood d = true) :
    DocGood (setDelItem s k d).2 = true := docGood_setDelItem s k d h

theorem scopeset_preserves (k : Text) (v : Node) (d : Doc) (hv : v.allSets Good = true)
    (h : DocGood d = true) : DocGood (scopeSetItem k v d).2 = true :=
  docGood_scopeSetItem k v d hv h

theorem scopedel_preserves (k : Text) (d : Doc) (h : DocGood d = true) :
    DocGood (scopeDelItem k d).2 = true := docGood_scopeDelItem k d h

theorem op_preserves (op : MapOp) (d : Doc)
    (hv : ∀ v, op.value? = some v → v.allSets Good = true) (h : DocGood d = true) :
    DocGood (op.apply d).2 = true := by
  cases op with
  | setItem path k v =>
    simp only [MapOp.apply]
    split
    · exact docGood_setSetItem _ k v d (hv v rfl) h
    · exact h
  | delItem path k =>
    simp only [MapOp.apply]
    split
    · exact docGood_setDelItem _ k d h
    · exact h
  | scopeSet k v => exact docGood_scopeSetItem k v d (hv v rfl) h
  | scopeDel k => exact docGood_scopeDelItem k d h

/-- hence for every history of mapping operations, of any length, on sets at any depth -/
theorem history_preserves (ops : List MapOp) (d : Doc)
    (hv : ∀ op ∈ ops, ∀ v, op.value? = some v → v.allSets Good = true) (h : DocGood d = true) :
    DocGood (runOps ops d) = true := by
  induction ops generalizing d with
  | nil => exact h
  | cons op ops ih =>
    simp only [runOps]
    exact ih _ (fun o ho => hv o (by simp [ho])) (op_preserves op d (hv op (by simp)) h)

/-- … and after it, every set that the mapping API can reach from the document, and the scope
    mapping, render exactly the names they answer. -/
theorem history_coherent (ops : List MapOp) (d : Doc)
    (hv : ∀ op ∈ ops, ∀ v, op.value? = some v → v.allSets Good = true) (h : DocGood d = true) :
    (∀ path s, reachFrom (runOps ops d).target path = .ok s → s.isSet = true →
        Coherent s ∧ renderItems s.setValues s.setOrder = s.setValues) ∧
    CoherentScope (runOps ops d) := by
  have hg := (docGood_iff _).1 (history_preserves ops d hv h)
  refine ⟨fun path s hr hs => ?_, goodScope_coherent _ hg.2⟩
  have ht : (runOps ops d).target.allSets Good = true := by
    have := hg.1
    simp only [Doc.allSets, Bool.and_eq_true] at this
    exact this.1.1.1.1.1
  have hsg : s.allSets Good = true := reachFrom_allSets path ht hr
  have : Good s = true := by
    cases s <;> simp_all [isSet, allSets]
  exact ⟨good_coherent s this, good_renders_values s this⟩

/-! ### why the invariant speaks of objects and not only of names -/

/-- `Coherent` + `NoEntries` alone is not inductive: if `attrpath_order` holds a *different*
    binding object with the same name, the names agree, yet `del` removes the binding from
    `values` only. (No parsed document looks like this; it shows why `Synced` is stated on
    objects.) -/
def strayDoc : Doc :=
  { target := .set 1 [.bind 2 "a".toList false (.atom "1".toList) [] [],
                      .bind 3 "b".toList false (.atom "1".toList) [] []]
                     [.bind 7 "a".toList false (.atom "1".toList) [] [],
                      .bind 3 "b".toList false (.atom "1".toList) [] []] false false, next := 8 }

theorem cex_names_not_inductive :
    Coherent strayDoc.target ∧ NoEntries strayDoc.target = true ∧
    ¬ Coherent (setDelItem strayDoc.target "a".toList strayDoc).2.target := by
  refine ⟨?_, by decide, ?_⟩
  · intro k
    have e1 : keysText strayDoc.target = ["a".toList, "b".toList] := by decide
    have e2 : keysMap strayDoc.target = ["a".toList, "b".toList] := by decide
    rw [e1, e2]
  · intro h
    have := (h "a".toList).1 (by decide)
    revert this
    decide

/-! ## 4. FULL statements — false of the current code for attrpath-derived roots -/

/-- deleting through the mapping keeps text and mapping in agreement -/
def del_keeps_coherence_full : Prop :=
  ∀ (d : Doc) (k : Text), Coherent d.target → Coherent (setDelItem d.target k d).2.target

/-- an assignment through the mapping that leaves the rendered items (hence the text) as they
    were leaves the lookup as it was -/
def set_shows_in_text_full : Prop :=
  ∀ (d : Doc) (k : Text) (v : Node),
    let d' := (setSetItem d.target k v d).2
    renderItems d'.target.setValues d'.target.setOrder =
        renderItems d.target.setValues d.target.setOrder →
      setGetItem d'.target k = setGetItem d.target k

/-- `{ a.b = 1; c = 2; }` as parsed: the family `a` is one merged root in `values` and one
    `_AttrpathEntry` in `attrpath_order`. -/
def attrDoc : Doc :=
  { target := .set 1
      [.bind 2 "a".toList true
          (.set 3 [.bind 4 "b".toList false (.atom "1".toList) [] []] [] true false) [] [],
       .bind 5 "c".toList false (.atom "2".toList) [] []]
      [.entry ["a".toList, "b".toList] (.bind 4 "b".toList false (.atom "1".toList) [] []) (some [])
          (some []),
       .bind 5 "c".toList false (.atom "2".toList) [] []] false false,
    next := 6 }

theorem attrDoc_coherent : Coherent attrDoc.target := by
  intro k
  have e1 : keysText attrDoc.target = ["a".toList, "c".toList] := by decide
  have e2 : keysMap attrDoc.target = ["a".toList, "c".toList] := by decide
  rw [e1, e2]

/-- Why `Coherent` compares SETS of names: `{ a.b = 1; c = 2; a.d = 3; }` as parsed has one merged
    root `a` in `values` and two entries in `attrpath_order`; text and mapping agree on the names
    although the lists differ. -/
def familyDoc : Doc :=
  { target := .set 1
      [.bind 2 "a".toList true
          (.set 3 [.bind 4 "b".toList false (.atom "1".toList) [] [],
                   .bind 7 "d".toList false (.atom "3".toList) [] []] [] true false) [] [],
       .bind 5 "c".toList false (.atom "2".toList) [] []]
      [.entry ["a".toList, "b".toList] (.bind 4 "b".toList false (.atom "1".toList) [] []) (some [])
          (some []),
       .bind 5 "c".toList false (.atom "2".toList) [] [],
       .entry ["a".toList, "d".toList] (.bind 7 "d".toList false (.atom "3".toList) [] []) (some [])
          (some [])] false false,
    next := 8 }

theorem coherent_is_about_sets :
    Coherent familyDoc.target ∧ keysText familyDoc.target ≠ keysMap familyDoc.target := by
  refine ⟨?_, by decide⟩
  intro k
  have e1 : keysText familyDoc.target = ["a".toList, "c".toList, "a".toList] := by decide
  have e2 : keysMap familyDoc.target = ["a".toList, "c".toList] := by decide
  rw [e1, e2]
  simp only [List.mem_cons, List.not_mem_nil, or_false]
  constructor
  · rintro (h | h | h) <;> simp [h]
  · rintro (h | h) <;> simp [h]

/-- Open known finding C14-attrpath-family-del: `del src["a"]` removes `a` from the mapping, the
    text still shows `a.b = 1;` (`item is binding` never matches an `_AttrpathEntry`). -/
theorem cex_del_attrpath_root :
    (setDelItem attrDoc.target "a".toList attrDoc).1 = .ok () ∧
    keysMap (setDelItem attrDoc.target "a".toList attrDoc).2.target = ["c".toList] ∧
    keysText (setDelItem attrDoc.target "a".toList attrDoc).2.target = ["a".toList, "c".toList] := by
  decide

theorem del_keeps_coherence_full_false : ¬ del_keeps_coherence_full := by
  intro h
  have hc := h attrDoc "a".toList attrDoc_coherent
  have := (hc "a".toList).1 (by rw [cex_del_attrpath_root.2.2]; decide)
  rw [cex_del_attrpath_root.2.1] at this
  revert this
  decide

/-- Open known finding C14-attrpath-family-set: `src["a"] = 5` changes what the mapping answers
    for `a`; the rendered items are unchanged, so the text still reads `a.b = 1;`. -/
theorem cex_set_attrpath_root :
    let d' := (setSetItem attrDoc.target "a".toList (.atom "5".toList) attrDoc).2
    setGetItem d'.target "a".toList = .ok (.atom "5".toList) ∧
    setGetItem attrDoc.target "a".toList ≠ .ok (.atom "5".toList) ∧
    renderItems d'.target.setValues d'.target.setOrder =
      renderItems attrDoc.target.setValues attrDoc.target.setOrder := by
  decide

theorem set_shows_in_text_full_false : ¬ set_shows_in_text_full := by
  intro h
  have h1 := h attrDoc "a".toList (.atom "5".toList) cex_set_attrpath_root.2.2
  have h2 := cex_set_attrpath_root
  simp only at h1 h2
  rw [h2.1] at h1
  exact h2.2.1 h1.symm

/-- Same root cause, one level down (C14-attrpath-family-other-keys): `src["a"]["z"] = 5` adds `z`
    to the merged nested set; the rendered items of the document's set do not change. -/
theorem cex_set_inside_attrpath_family :
    ∃ s, reachFrom attrDoc.target ["a".toList] = .ok s ∧
      let d' := (setSetItem s "z".toList (.atom "5".toList) attrDoc).2
      (∃ s', reachFrom d'.target ["a".toList] = .ok s' ∧
        setGetItem s' "z".toList = .ok (.atom "5".toList)) ∧
      renderItems d'.target.setValues d'.target.setOrder =
        renderItems attrDoc.target.setValues attrDoc.target.setOrder := by
  refine ⟨.set 3 [.bind 4 "b".toList false (.atom "1".toList) [] []] [] true false, by decide, ?_⟩
  refine ⟨⟨.set 3 [.bind 4 "b".toList false (.atom "1".toList) [] [],
      .bind 6 "z".toList false (.atom "5".toList) [] []] [] true false, by decide, by decide⟩, ?_⟩
  decide

/-- PARTIAL (what does hold, with the decidable side condition that excludes exactly the
    attrpath-derived class): on a document all of whose sets are entry-free and aligned, both
    full statements hold — for the target and, by `history_coherent`, for every reachable set. -/
theorem del_keeps_coherence_partial (d : Doc) (k : Text) (h : DocGood d = true) :
    Coherent (setDelItem d.target k d).2.target ∨ (setDelItem d.target k d).2.target.isSet = false := by
  have hg := (docGood_iff _).1 (docGood_setDelItem d.target k d h)
  have ht : (setDelItem d.target k d).2.target.allSets Good = true := by
    have := hg.1
    simp only [Doc.allSets, Bool.and_eq_true] at this
    exact this.1.1.1.1.1
  cases hs : (setDelItem d.target k d).2.target.isSet with
  | false => exact Or.inr rfl
  | true =>
    left
    apply good_coherent
    revert ht hs
    cases (setDelItem d.target k d).2.target <;> simp_all [isSet, allSets]

theorem set_shows_in_text_partial (d : Doc) (k : Text) (v : Node) (hs : d.target.isSet = true)
    (hv : v.allSets Good = true) (h : DocGood d = true) :
    let d' := (setSetItem d.target k v d).2
    renderItems d'.target.setValues d'.target.setOrder = d'.target.setValues ∧
    setGetItem d'.target k = .ok v := by
  refine ⟨?_, get_after_set d k v hs⟩
  have hg := (docGood_iff _).1 (docGood_setSetItem d.target k v d hv h)
  have ht : (setSetItem d.target k v d).2.target.allSets Good = true := by
    have := hg.1
    simp only [Doc.allSets, Bool.and_eq_true] at this
    exact this.1.1.1.1.1
  revert ht
  generalize (setSetItem d.target k v d).2.target = t
  intro ht
  cases t with
  | set sid vs o m r =>
    apply good_renders_values
    simp only [allSets, Bool.and_eq_true] at ht
    exact ht.1.1
  | _ => simp [renderItems, setValues]

/-! ## Non-vacuity: a three-layer document with nested sets satisfies every hypothesis -/

/-- `let x = 1; in let x = 2; y = { k = 1; }; in let z = 1; in { a = 1; b = { c = 2; }; }` -/
def exDoc : Doc :=
  { target := .set 1
      [.bind 2 "a".toList false (.atom "1".toList) [] [],
       .bind 3 "b".toList false
          (.set 4 [.bind 5 "c".toList false (.atom "2".toList) [] []]
                  [.bind 5 "c".toList false (.atom "2".toList) [] []] false false) [] []]
      [.bind 2 "a".toList false (.atom "1".toList) [] [],
       .bind 3 "b".toList false
          (.set 4 [.bind 5 "c".toList false (.atom "2".toList) [] []]
                  [.bind 5 "c".toList false (.atom "2".toList) [] []] false false) [] []] false false,
    scope := [.bind 6 "x".toList false (.atom "1".toList) [] []],
    stOrder := [.bind 6 "x".toList false (.atom "1".toList) [] []],
    stack := [
      { scope := [.bind 7 "x".toList false (.atom "2".toList) [] [],
                  .bind 8 "y".toList false (.set 9 [.bind 10 "k".toList false (.atom "1".toList) [] []]
                      [.bind 10 "k".toList false (.atom "1".toList) [] []] false false) [] []],
        order := [.bind 7 "x".toList false (.atom "2".toList) [] [],
                  .bind 8 "y".toList false (.set 9 [.bind 10 "k".toList false (.atom "1".toList) [] []]
                      [.bind 10 "k".toList false (.atom "1".toList) [] []] false false) [] []],
        bodyBefore := [], bodyAfter := [], afterLet := none },
      { scope := [.bind 11 "z".toList false (.atom "1".toList) [] []],
        order := [.bind 11 "z".toList false (.atom "1".toList) [] []],
        bodyBefore := [], bodyAfter := [], afterLet := none }],
    next := 12 }

example : DocGood exDoc = true := by decide
example : DistinctItems exDoc.target.setValues = true ∧ DistinctItems exDoc.scope = true := by decide
example : PlainKey "a".toList = true ∧ (keysMap exDoc.target).count "a".toList ≤ 1 :=
  ⟨plainKey_of_simple _ (by decide), by decide⟩
/-- a history that sets, nests, deletes and touches the scope mapping -/
def exOps : List MapOp :=
  [.setItem [] "n".toList (.set 50 [] [] true false), .setItem ["n".toList] "q".toList (.atom "7".toList),
   .delItem [] "a".toList, .setItem ["b".toList] "c".toList (.atom "9".toList),
   .scopeSet "w".toList (.atom "3".toList), .scopeDel "x".toList, .delItem ["b".toList] "zz".toList]
example : ∀ op ∈ exOps, ∀ v, op.value? = some v → v.allSets Good = true := by decide
example : keysMap (runOps exOps exDoc).target = ["b".toList, "n".toList] ∧
    keysText (runOps exOps exDoc).target = ["b".toList, "n".toList] ∧
    keysTextScope (runOps exOps exDoc) = ["w".toList] := by decide

/-! ## For the repaired code (`NameCmp.model`, i.e. lookups through `_same_attr_name`)

Everything above is stated for the name comparison by spelling (`NameCmp.spelled`, declared at the head
of this file). `setValue_model_eq_spelled` / `removeValue_model_eq_spelled` (Lemmas/NameAgree.lean) make
it a statement about the model of the repaired code under the decidable side condition
`NameAgree.noSpellingClash d p`: among the name tokens of the document and the keys of the path no two are
different spellings of one Nix name. The single-operation theorems restated that way (hypotheses about
lookups keep the comparison by spelling, which is the code's on such inputs): -/

theorem repaired_set_is_spelled (p : Text) (v : ValueArg) (d : Doc) (hns : NameAgree.noSpellingClash d p) :
    @setValue NameCmp.model p v d = setValue p v d := NameAgree.setValue_model_eq_spelled p v d hns

theorem repaired_rm_is_spelled (p : Text) (d : Doc) (hns : NameAgree.noSpellingClash d p) :
    @removeValue NameCmp.model p d = removeValue p d := NameAgree.removeValue_model_eq_spelled p d hns

/-- the mapping API on one set object: `m[k]`, `m[k] = v`, `del m[k]` of the repaired code are the
    by-spelling ones when no name token of the set and no reading of the key are different spellings
    of one name -/
theorem repaired_mapping_is_spelled (s : Node) (key : Text) (v : Node)
    (hns : NameAgree.NoSpellingClash (NameAgree.toks s ++ NameAgree.keyToks key)) :
    @setGetItem NameCmp.model s key = setGetItem s key ∧
    @setSetItem NameCmp.model s key v = setSetItem s key v ∧
    @setDelItem NameCmp.model s key = setDelItem s key :=
  NameAgree.mapping_model_eq_spelled s key v hns


end Nima.C14
