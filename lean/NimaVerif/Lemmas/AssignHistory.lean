import NimaVerif.Lemmas.AssignThrough
/-!
C11, histories: a write to the END of a reference chain (a binding whose value is not a reference,
receiving a value that is not a reference) changes no lookup and no derivation of the SPEC, and
keeps every side condition — so a history of edits through references keeps designating the
defining bindings determined in the initial document.
-/
namespace Nima
-- name tokens are compared by spelling in this file (see `NameCmp` in Model/Edit.lean)
attribute [local instance] NameCmp.spelled

open Node

/-! ## the SPEC sees through a write by identity -/

theorem updBindL_isEmpty' (id : Nat) (v : Node) (xs : List Node) :
    (updBindL id v xs).isEmpty = xs.isEmpty := by cases xs <;> rfl

theorem bindsName_updBind (j : Nat) (w : Node) (name : Text) (n : Node) :
    bindsName name (updBind j w n) = bindsName name n := by
  cases n with
  | bind i nm ne v bf af => by_cases h : i = j <;> simp [updBind, h, bindsName]
  | _ => simp [updBind, bindsName]

theorem declName_updBind (j : Nat) (w : Node) (n : Node) : declName (updBind j w n) = declName n := by
  cases n with
  | bind i nm ne v bf af => by_cases h : i = j <;> simp [updBind, h, declName]
  | _ => simp [updBind, declName]

theorem inheritMentions_updBindL' (j : Nat) (w : Node) (vs : List Node) (k : Text) :
    inheritMentions (updBindL j w vs) k = inheritMentions vs k := by
  simp only [inheritMentions, updBindL_eq_map, List.any_map]
  congr 1
  funext n
  cases n with
  | bind i nm ne val b a => by_cases h : i = j <;> simp [updBind, h]
  | _ => simp [updBind]

/-- the environment after `binding.value = w` on object `j` -/
def updEnv (j : Nat) (w : Node) (env : List (List Node)) : List (List Node) :=
  env.map (updBindL j w)

theorem lookupEnv_updEnv (j : Nat) (w : Node) (name : Text) : ∀ env : List (List Node),
    lookupEnv name (updEnv j w env) =
      (lookupEnv name env).map (fun r => (updBind j w r.1, updEnv j w r.2))
  | [] => rfl
  | f :: outer => by
    simp only [updEnv, List.map_cons, lookupEnv]
    rw [find?_updBindL j w _ (bindsName_updBind j w name) f]
    cases f.find? (bindsName name) with
    | some b => rfl
    | none => exact lookupEnv_updEnv j w name outer

/-- object `j` is not a binding of the environment that holds a reference -/
def NotRef (env : List (List Node)) (j : Nat) : Prop :=
  ∀ f ∈ env, ∀ i nm ne n' bf af, Node.bind i nm ne (.ident n') bf af ∈ f → i ≠ j

theorem NotRef.mono {env env' : List (List Node)} {j : Nat} (h : NotRef env j)
    (hsub : ∀ f ∈ env', f ∈ env) : NotRef env' j :=
  fun f hf => h f (hsub f hf)

/-- the end of a chain is a binding of the environment whose value is not a reference -/
theorem Defines.end_mem {env : List (List Node)} {name : Text} {bid : Nat} (h : Defines env name bid) :
    ∃ f ∈ env, ∃ nm ne v bf af, Node.bind bid nm ne v bf af ∈ f ∧ v.isIdent = false := by
  induction h with
  | value hl hv =>
    obtain ⟨hsuf, f, outer, rfl, hf⟩ := lookupEnv_spec hl
    exact ⟨f, suffix_subset hsuf f (by simp), _, _, _, _, _, List.mem_of_find?_eq_some hf, hv⟩
  | ref hl _ ih =>
    obtain ⟨hsuf, _⟩ := lookupEnv_spec hl
    obtain ⟨f, hf, r⟩ := ih
    exact ⟨f, suffix_subset hsuf f hf, r⟩

/-- with distinct identities, the defining binding is not a reference-holding binding -/
theorem NotRef.of_defines {env : List (List Node)} {name : Text} {j : Nat}
    (hn : (envIds env).Nodup) (h : Defines env name j) : NotRef env j := by
  obtain ⟨f, hf, nm, ne, v, bf, af, hm, hv⟩ := h.end_mem
  intro g hg i nm' ne' n' bf' af' hm' hij
  subst hij
  have := eq_of_nodup_filterMap bindId? hn (x := i)
    (List.mem_flatten.2 ⟨f, hf, hm⟩) (List.mem_flatten.2 ⟨g, hg, hm'⟩) rfl rfl
  simp only [Node.bind.injEq] at this
  obtain ⟨_, _, _, rfl, _⟩ := this
  simp [Node.isIdent] at hv

/-- **Invariance of the SPEC.** A write of a non-reference to an object that holds no reference
    keeps every derivation: the same names designate the same Binding objects afterwards. -/
theorem Defines.updEnv {env : List (List Node)} {name : Text} {bid : Nat} (j : Nat) (w : Node)
    (hw : w.isIdent = false) (h : Defines env name bid) (hnr : NotRef env j) :
    Defines (updEnv j w env) name bid := by
  induction h with
  | @value env env' name nm bid ne v bf af hl hv =>
    have hl' := lookupEnv_updEnv j w name env
    rw [hl] at hl'
    by_cases hb : bid = j
    · subst hb
      refine Defines.value (v := w) (by simpa [Node.updBind] using hl') hw
    · refine Defines.value (v := Node.updBind j w v) (by simpa [Node.updBind, hb] using hl') ?_
      rw [isIdent_updBind]; exact hv
  | @ref env env' name nm n' i bid ne bf af hl _ ih =>
    obtain ⟨hsuf, f, outer, rfl, hf⟩ := lookupEnv_spec hl
    have hi : i ≠ j := hnr f (suffix_subset hsuf f (by simp)) _ _ _ _ _ _ (List.mem_of_find?_eq_some hf)
    have hl' := lookupEnv_updEnv j w name env
    rw [hl] at hl'
    exact Defines.ref (by simpa [Node.updBind, hi] using hl')
      (ih (hnr.mono (suffix_subset hsuf)))

/-! ## the side conditions survive the write -/

theorem frameOK_updBindL (j : Nat) (w : Node) (hw : w.isIdent = false) (f : List Node)
    (h : frameOK f = true) : frameOK (updBindL j w f) = true := by
  simp only [frameOK, Bool.and_eq_true, decide_eq_true_eq, List.all_eq_true] at h ⊢
  constructor
  · intro n hn
    rw [updBindL_eq_map, List.mem_map] at hn
    obtain ⟨m, hm, rfl⟩ := hn
    have := h.1 m hm
    cases m with
    | bind i nm ne v bf af =>
      simp only [Bool.and_eq_true] at this
      by_cases hij : i = j
      · simp only [Node.updBind, hij, if_true, Bool.and_eq_true]
        refine ⟨this.1, ?_⟩
        cases w <;> simp [Node.isIdent] at hw ⊢
      · simp only [Node.updBind, hij, if_false, Bool.and_eq_true]
        refine ⟨this.1, ?_⟩
        cases v with
        | ident n' => simpa [Node.updBind] using this.2
        | bind a b c e g h => by_cases hh : a = j <;> simp [Node.updBind, hh]
        | _ => simp [Node.updBind]
    | _ => simp [Node.updBind]
  · have : (updBindL j w f).filterMap declName = f.filterMap declName := by
      rw [updBindL_eq_map, List.filterMap_map]
      congr 1
      funext n
      exact declName_updBind j w n
    rw [this]; exact h.2

theorem envOK_updEnv (j : Nat) (w : Node) (hw : w.isIdent = false) (env : List (List Node))
    (h : envOK env = true) : envOK (updEnv j w env) = true := by
  simp only [envOK, updEnv, List.all_map, List.all_eq_true, Function.comp] at h ⊢
  exact fun f hf => frameOK_updBindL j w hw f (h f hf)

theorem inheritClear_updEnv (j : Nat) (w : Node) (env : List (List Node)) (name : Text) :
    inheritClear (updEnv j w env) name = inheritClear env name := by
  simp only [inheritClear, updEnv, List.all_map]
  congr 1
  funext f
  simp [inheritMentions_updBindL']

theorem inheritFree_updEnv (j : Nat) (w : Node) (hw : w.isIdent = false) (env : List (List Node))
    (name : Text) (h : inheritFree env name = true) : inheritFree (updEnv j w env) name = true := by
  simp only [inheritFree, Bool.and_eq_true, inheritClear_updEnv] at h ⊢
  refine ⟨h.1, ?_⟩
  have h2 := h.2
  simp only [List.all_eq_true] at h2 ⊢
  intro f hf n hn
  simp only [updEnv, List.mem_map] at hf
  obtain ⟨f0, hf0, rfl⟩ := hf
  rw [updBindL_eq_map, List.mem_map] at hn
  obtain ⟨m, hm, rfl⟩ := hn
  have := h2 f0 hf0 m hm
  cases m with
  | bind i nm ne v bf af =>
    by_cases hij : i = j
    · simp only [Node.updBind, hij, if_true]
      cases w <;> simp [Node.isIdent] at hw ⊢
    · simp only [Node.updBind, hij, if_false]
      cases v with
      | ident n' => simpa [Node.updBind] using this
      | bind a b c e g h => by_cases hh : a = j <;> simp [Node.updBind, hh]
      | _ => simp [Node.updBind]
  | _ => simp [Node.updBind]

theorem envIds_updEnv (j : Nat) (w : Node) (env : List (List Node)) :
    envIds (updEnv j w env) = envIds env := by
  simp only [envIds, updEnv]
  have hfun : updBindL j w = List.map (Node.updBind j w) := funext (updBindL_eq_map j w)
  rw [show (env.map (updBindL j w)).flatten = env.flatten.map (Node.updBind j w) by
    rw [hfun, List.map_flatten]]
  rw [List.filterMap_map]
  congr 1
  funext n
  simp

theorem idsNodup_updEnv (j : Nat) (w : Node) (env : List (List Node)) (h : idsNodup env = true) :
    idsNodup (updEnv j w env) = true := by
  rw [idsNodup_iff] at h ⊢
  rw [envIds_updEnv]; exact h

/-! ## the chain of the updated document -/

theorem scopeChain_updBind (j : Nat) (w : Node) (d : Doc) (ts : Node) (wl : Bool) :
    scopeChain (d.updBind j w) (Node.updBind j w ts) wl = (scopeChain d ts wl).map (updBindL j w) := by
  simp only [scopeChain, Doc.updBind_scope, Doc.updBind_stack, updBindL_isEmpty', setRecursive_updBind,
    setValues_updBind, List.map_append]
  congr 1
  · cases wl with
    | false => simp
    | true =>
      simp only [if_true, List.map_append]
      congr 1
      · split <;> simp
      · rw [List.filter_map, List.map_map, List.map_map]
        have : ((fun x : Layer => !x.scope.isEmpty) ∘ Layer.updBind j w) =
            (fun x : Layer => !x.scope.isEmpty) := by
          funext l; simp [Layer.updBind, updBindL_isEmpty']
        rw [this]
        apply List.map_congr_left
        intro l _
        simp [Layer.updBind]
  · split <;> simp

theorem chainEnv_updBind (j : Nat) (w : Node) (d : Doc) (ts : Node) (wl : Bool) :
    chainEnv (d.updBind j w) (Node.updBind j w ts) wl = updEnv j w (chainEnv d ts wl) := by
  simp only [chainEnv, scopeChain_updBind, updEnv, List.map_reverse]

end Nima
