import NimaVerif.Model.Edit
/-!
L6 (c): SPEC-side vocabulary for statements about edit histories (used by C08).
Core Lean only. Nothing here is used by the executable model or the driver.
-/
namespace Nima
-- name tokens are compared by spelling in this file (see `NameCmp` in Model/Edit.lean)
attribute [local instance] NameCmp.spelled

/-- `d'` is `d` up to the allocation counter (`next` is not document state: it only names the
    identities handed out to objects created later). -/
def Doc.same (d d' : Doc) : Prop := { d' with next := d.next } = d

/-- Well-formedness assumed of the state an edit starts in:
    * no scratch set is left over from a scoped edit (`scratch` is only populated *while*
      `onLayer` runs; the parser produces `none`, and every operation ends with `none`);
    * the edit target is an `AttributeSet` object (what `_resolve_target_set` returns).
    Both are decidable and are preserved by every operation (`C08.wf_preserved`). -/
def WF (d : Doc) : Prop := d.scratch.isNone = true ∧ d.target.isSet = true

instance (d : Doc) : Decidable (WF d) := by unfold WF; infer_instance

/-- one CLI edit -/
inductive Op where
  | set (path : Text) (value : ValueArg)
  | rm (path : Text)
deriving Repr

def Op.run : Op → EditM Unit
  | .set p v => setValue p v
  | .rm p => removeValue p

/-- Run a history on one document object; a rejected operation does not stop the history (the
    next operation runs on whatever state the rejected one left). The trace lists, per step, the
    outcome and the state after the step. -/
def runOps : List Op → Doc → List (Except Err Unit × Doc)
  | [], _ => []
  | op :: ops, d => let r := op.run d; r :: runOps ops r.2

/-- the state after a trace that started in `d` -/
def finalDoc (d : Doc) (tr : List (Except Err Unit × Doc)) : Doc :=
  match tr.getLast? with
  | some r => r.2
  | none => d

/-- the state left by the last *successful* step of a trace that started in `d` -/
def lastGood (d : Doc) : List (Except Err Unit × Doc) → Doc
  | [] => d
  | (.ok _, d') :: tr => lastGood d' tr
  | (.error _, _) :: tr => lastGood d tr

/-- the operations of a history that succeed when the history is run from `d` -/
def goodOps : List Op → Doc → List Op
  | [], _ => []
  | op :: ops, d =>
    match op.run d with
    | (.ok _, d') => op :: goodOps ops d'
    | (.error _, d') => goodOps ops d'

def Op.path : Op → Text
  | .set p _ => p
  | .rm p => p

/-- the path of the operation carries no `@` scope selector (`_split_scope_npath` returns `None`) -/
def Op.plain (op : Op) : Prop := op.path.head? ≠ some '@'

instance (op : Op) : Decidable op.plain := by unfold Op.plain; infer_instance

/-- did this step of a trace succeed? -/
def isOk (r : Except Err Unit × Doc) : Bool :=
  match r.1 with
  | .ok _ => true
  | .error _ => false

end Nima
