"""Shared runner for the edit properties (C04 C05 C07 C08 C09 C11 C19, edit half of C06):
runs operation histories on the real code and on the Lean model (`(edit doc op…)`), compares the
object graphs after every operation, and hands the per-operation records to the property oracles."""
from __future__ import annotations

from dataclasses import dataclass, field

from . import docmodel as dm
from . import framework as fw
from .framework import hx


@dataclass
class OpRec:
    op: tuple
    result: str  # "ok" or exception class
    exc: str
    before_text: str  # source.rebuild() before the operation
    after_text: str  # source.rebuild() after the operation
    out: str | None  # text returned by set_value/remove_value
    snap_before: list
    snap_after: list


@dataclass
class HistRec:
    text: str
    info: dict
    ops: list
    recs: list[OpRec] = field(default_factory=list)
    parse_error: str | None = None
    contains_error: bool = False
    doc0: list | None = None
    model: list | None = None  # per op: (result, canon doc)


def run_real(text: str, ops: list, info: dict) -> HistRec:
    from nix_manipulator import parse
    from nix_manipulator.cli import manipulations as M

    h = HistRec(text=text, info=info, ops=ops)
    try:
        src = parse(text)
    except Exception as exc:  # noqa: BLE001
        h.parse_error = dm.exc_class(exc)
        return h
    h.contains_error = src.contains_error
    ids = dm.Ids()
    try:
        h.doc0 = dm.snapshot(src, ids)
    except Exception as exc:  # noqa: BLE001
        h.parse_error = "snapshot:" + type(exc).__name__
        return h
    snap = dm.canon(h.doc0)
    for op in ops:
        try:
            before = src.rebuild()
        except Exception as exc:  # noqa: BLE001
            before = "<rebuild raised " + type(exc).__name__ + ">"
        out = None
        exc_s = ""
        try:
            if op[0] == "set":
                out = M.set_value(src, op[1], op[2])
            else:
                out = M.remove_value(src, op[1])
            res = "ok"
        except Exception as exc:  # noqa: BLE001
            res = dm.exc_class(exc)
            exc_s = f"{type(exc).__name__}: {exc}"
        try:
            after = src.rebuild()
        except Exception as exc:  # noqa: BLE001
            after = "<rebuild raised " + type(exc).__name__ + ">"
        rs = res == "ok" and out != after
        try:
            snap2 = dm.canon(dm.snapshot(src, ids, rs))
        except Exception as exc:  # noqa: BLE001
            snap2 = ["snapshot-raised", type(exc).__name__]
        h.recs.append(OpRec(op, res, exc_s, before, after, out, snap, snap2))
        snap = snap2
        if isinstance(snap2, list) and snap2 and snap2[0] == "doc":
            snap = snap2[:-1] + [False]
    return h


def model_request(h: HistRec):
    req = ["edit", h.doc0[:14]]
    for op in h.ops:
        if op[0] == "set":
            req.append(["set", hx(op[1]), dm.value_arg(op[2])])
        else:
            req.append(["rm", hx(op[1])])
    return req


def correspond(ctx: fw.Ctx, hists: list[HistRec], max_report=5):
    """Model vs implementation on every history; disagreements are tie breaks."""
    # documents whose edit target is reached through a let-bound name are outside the edit model
    # (Doc has no notion of it): the oracles judge them, the correspondence leaves them out
    todo = [h for h in hists if h.doc0 is not None and h.ops and not h.info.get("nomodel")]
    replies = ctx.driver.ask_many([model_request(h) for h in todo])
    bad = 0
    for h, rep in zip(todo, replies):
        if rep[0] != "ok":
            bad += 1
            if bad <= max_report:
                ctx.tie_break("correspondence", f"model rejected the request: {rep}", doc=h.text, ops=h.ops)
            continue
        h.model = []
        for rec, m in zip(h.recs, rep[1:]):
            mr = "ok" if m[0] == "ok" else m[1]
            md = dm.canon(m[-1])
            # the model's flag says `rstrip("\n")` is applied; it shows only if the text ends in a newline
            md[-1] = bool(md[-1]) and rec.after_text.endswith("\n")
            h.model.append((mr, md))
            ctx.corr_checked += 1
            same_res = mr == rec.result
            same_doc = fw.sexp_dump(md) == fw.sexp_dump(rec.snap_after)
            if not (same_res and same_doc):
                bad += 1
                ctx.count("corr_disagree")
                if bad <= max_report:
                    ctx.tie_break(
                        "correspondence",
                        f"edit model and implementation differ after {rec.op!r} on {h.text!r}: "
                        f"result impl={rec.result} model={mr}, same_doc={same_doc}",
                        doc=h.text, ops=h.ops, at=rec.op,
                        implementation=fw.sexp_dump(rec.snap_after)[:2000], model=fw.sexp_dump(md)[:2000],
                    )
                break  # later operations start from different states
    return bad
