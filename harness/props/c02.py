"""C02 — RFC-0166-formatted source is reproduced byte for byte."""
from __future__ import annotations

import os
import subprocess
import sys
import tempfile

from .. import framework as fw
from .. import layoutprops as lp
from ..gen import canon
from ..oracle import cstread

GEN_TABLES = ("trivia",)


def evaluate(ctx, info, text):
    from nix_manipulator import parse

    try:
        out = parse(text).rebuild()
    except Exception as exc:  # noqa: BLE001
        ctx.fail({"clause": "raises", "exc": type(exc).__name__, **key_of(info)}, {"text": text, **info},
                 f"parse/rebuild of canonical text raised {type(exc).__name__}: {exc}")
        return
    if out != text:
        # first differing line, for the classification
        a, b = text.split("\n"), out.split("\n")
        i = next((k for k in range(min(len(a), len(b))) if a[k] != b[k]), min(len(a), len(b)))
        ctx.fail({"clause": "byte-for-byte", **key_of(info)},
                 {"text": text, **info, "output": out, "line": i, "expected_line": a[i] if i < len(a) else None,
                  "got_line": b[i] if i < len(b) else None},
                 f"canonical text changed at line {i}: {(a[i] if i < len(a) else None)!r} -> {(b[i] if i < len(b) else None)!r}")


def key_of(info):
    if "pair" in info:
        return {"pair": "+".join(info["pair"]), "wrapper": info["wrapper"]}
    return {"pair": "random", "wrapper": info.get("wrapper")}


def run(ctx: fw.Ctx):
    ctx.extra["rule"] = (
        "files in RFC-0166 layout generated from the package-file idiom (header comment, lambda head inline or one "
        "formal per line, let block, call head, multi-line and inline sets, attrpaths, inherit, lists, indented "
        "strings, with/if values, own-line / end-of-line / block comments, single blank lines): every ordered pair of "
        "adjacent item kinds x 3 wrappers, plus random documents up to a size bound; non-trivial = more than one item"
    )
    ctx.trusted_base = [
        "Lean 4 kernel; axioms propext, Classical.choice, Quot.sound only",
        "trivia algebra model tied function-by-function (separator_canonical: canonical separators are reproduced)",
        "harness/gen/canon.py as the description of RFC-0166 layout (validated against tests/nix-files/pkgs/trl-default.nix)",
    ]
    ctx.assumptions = ["what is 'RFC-0166 layout' is the generator's reading of the RFC and of nixfmt's output",
                       "multi-line formals end in a trailing comma, which the bundled grammar rejects: such files are in "
                       "pass-through mode (trivially reproduced)"]
    lp.trivia_correspondence(ctx)
    lp.fragment_correspondence(ctx)
    fixture = fw.REPO / "tests" / "nix-files" / "pkgs" / "trl-default.nix"
    if fixture.exists():
        ctx.case({"fixture": str(fixture)}, True)
        evaluate(ctx, {"pair": ["fixture", "trl-default"], "wrapper": "fixture"}, fixture.read_text())
    for info, text in canon.enumerate_pairs():
        if cstread.ts_parse(text).has_error and not cstread.error_free(text):
            ctx.count("generator-invalid")
            continue
        ctx.case({"text": text, **info}, True)
        evaluate(ctx, info, text)
    n = 400 if ctx.quick else 8000
    for i in range(n):
        g = canon.Gen(ctx.rng, max_items=6 if ctx.quick else 40, max_depth=3 if ctx.quick else 6)
        text, wrapper = g.document()
        if text.count("\n") > 220:
            # py-tree-sitter 0.26 Point.row/.column under-count references for values >= 257 and the
            # interpreter crashes (C20 finding): keep generated files below that many lines
            ctx.count("skipped:too-long")
            continue
        if not cstread.error_free(text):
            ctx.count("generator-invalid")
            continue
        ctx.case({"text": text[:400], "wrapper": wrapper}, text.count(";") > 1)
        evaluate(ctx, {"wrapper": wrapper}, text)
    cli(ctx, 6 if ctx.quick else 60)


def cli(ctx, n):
    env = dict(os.environ)
    if os.environ.get("NIMA_REPO"):
        env["PYTHONPATH"] = os.environ["NIMA_REPO"]
    tmp = tempfile.mkdtemp(prefix="nima-c02-")
    try:
        for i in range(n):
            g = canon.Gen(ctx.rng, max_items=5, max_depth=2)
            text, wrapper = g.document(wrapper=ctx.rng.choice(["bare", "lambda", "lambda-call", "let"]))
            pr = subprocess.run([sys.executable, "-m", "nix_manipulator", "test"], input=text, capture_output=True,
                                text=True, timeout=60, env=env, cwd=tmp)
            from nix_manipulator import parse

            same = parse(text).rebuild() == text
            if same != (pr.stdout == "OK\n" and pr.returncode == 0):
                ctx.fail({"clause": "nima-test-verdict"}, {"text": text, "stdout": pr.stdout, "exit": pr.returncode},
                         f"nima test says {pr.stdout!r}/{pr.returncode} but rebuild==text is {same}")
    finally:
        import shutil

        shutil.rmtree(tmp, ignore_errors=True)


def search(ctx: fw.Ctx):
    ctx.quick = False
    run(ctx)


def replay(payload: dict) -> int:
    from nix_manipulator import parse

    t = payload["input"]["text"]
    out = parse(t).rebuild()
    print("identical:", out == t)
    if out != t:
        import difflib

        print("".join(difflib.unified_diff(t.splitlines(True), out.splitlines(True))))
    return 0 if out == t else 1
