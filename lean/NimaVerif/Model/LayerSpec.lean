import NimaVerif.Model.Edit
/-!
SPEC definitions for C09 (scope selectors) and the trace vocabulary used to state "what an edit
may touch": every write of the edit code is an in-place mutation of a `Binding` object
(`binding.value = v`), of an `AttributeSet` object (append / remove in `values` /
`attrpath_order`), or the allocation of a fresh identity.
-/
namespace Nima
-- name tokens are compared by spelling in this file (see `NameCmp` in Model/Edit.lean)
attribute [local instance] NameCmp.spelled

open Node

/-- Python's `xs[-k]` for `k ≥ 1` (IndexError ↦ `none`) -/
def pyNeg {α} (xs : List α) (k : Nat) : Option α :=
  if 1 ≤ k ∧ k ≤ xs.length then xs[xs.length - k]? else none

/-- the selector prefix `@…@` (`k` signs) -/
def atSigns (k : Nat) : Text := List.replicate k '@'

/-- a layer that `_collect_scope_layers` keeps / the renderer emits -/
def Layer.nonEmpty (l : Layer) : Bool := !l.scope.isEmpty

/-- normal form of the layer storage that `_write_scope_layers` produces: no empty layers in the
    stack, and when `scope` is empty nothing else is stored -/
def LayersNormal (d : Doc) : Prop :=
  (∀ l ∈ d.stack, l.nonEmpty = true) ∧
  (d.scope = [] → d.stack = [] ∧ d.stBodyBefore = [] ∧ d.stBodyAfter = [] ∧ d.stOrder = [] ∧
    d.stAfterLet = none)

/-! ### the functions applied to set objects -/

def appendValueFn (b : Node) : Node → Node
  | .set s vs o m r => .set s (vs ++ [b]) o m r
  | n => n
def appendOrderFn (x : Node) : Node → Node
  | .set s vs o m r => if o.isEmpty then .set s vs o m r else .set s vs (o ++ [x]) m r
  | n => n
def delItemFn (bid : Nat) : Node → Node
  | .set s' vs o m r =>
      .set s' (vs.eraseP fun n => n.bindId? == some bid)
        (if o.isEmpty then o else o.eraseP fun n => n.isBind && n.bindId? == some bid) m r
  | n => n
def removeValueFn (bid : Nat) : Node → Node
  | .set s vs o m r => .set s (vs.eraseP fun n => n.bindId? == some bid) o m r
  | n => n
def eraseEntryFn (lid : Nat) : Node → Node
  | .set s vs o m r =>
      .set s vs (o.eraseP fun n => match n with
        | .entry _ l _ _ => l.bindId? == some lid
        | _ => false) m r
  | n => n

inductive SetFn where
  | appendValue (b : Node)
  | appendOrder (x : Node)
  | delItem (bid : Nat)
  | removeValue (bid : Nat)
  | eraseEntry (lid : Nat)

def SetFn.fn : SetFn → Node → Node
  | .appendValue b => appendValueFn b
  | .appendOrder x => appendOrderFn x
  | .delItem bid => delItemFn bid
  | .removeValue bid => removeValueFn bid
  | .eraseEntry lid => eraseEntryFn lid

/-- does the function only add items? -/
def SetFn.grows : SetFn → Bool
  | .appendValue _ => true
  | .appendOrder _ => true
  | _ => false

/-- one write of the edit code -/
inductive Upd where
  | bump                               -- a fresh identity was allocated
  | assign (bid : Nat) (v : Node)      -- `binding.value = v` on the Binding object `bid`
  | onSet (sid : Nat) (f : SetFn)      -- in-place mutation of the AttributeSet object `sid`

def Upd.apply : Upd → Doc → Doc
  | .bump, d => { d with next := d.next + 1 }
  | .assign bid v, d => d.updBind bid v
  | .onSet sid f, d => d.updSet sid f.fn

def applyAll (us : List Upd) (d : Doc) : Doc := us.foldl (fun d u => u.apply d) d

/-- the same writes seen from one node / one layer of the document -/
def Upd.applyNode : Upd → Node → Node
  | .bump, n => n
  | .assign bid v, n => updBind bid v n
  | .onSet sid f, n => updSet sid f.fn n
def applyAllNode (us : List Upd) (n : Node) : Node := us.foldl (fun n u => u.applyNode n) n

def Upd.applyLayer : Upd → Layer → Layer
  | .bump, l => l
  | .assign bid v, l => l.updBind bid v
  | .onSet sid f, l => l.updSet sid f.fn
def applyAllLayer (us : List Upd) (l : Layer) : Layer := us.foldl (fun l u => u.applyLayer l) l

/-- a write is allowed by a footprint: Binding objects in `A`, AttributeSet objects in `S`;
    with `grow` only additions -/
def Upd.Allowed (grow : Bool) (A S : Nat → Prop) : Upd → Prop
  | .bump => True
  | .assign b _ => A b
  | .onSet s f => S s ∧ (grow = true → f.grows = true)

/-! ### identities inside a node -/
namespace Node
mutual
  /-- identities of all Binding objects inside a node -/
  def bindIdList : Node → List Nat
    | atom _ => []
    | ident _ => []
    | set _ vs o _ _ => bindIdListL vs ++ bindIdListL o
    | bind i _ _ v _ _ => i :: bindIdList v
    | inherit _ _ => []
    | entry _ leaf _ _ => bindIdList leaf
  def bindIdListL : List Node → List Nat
    | [] => []
    | x :: xs => bindIdList x ++ bindIdListL xs
end
mutual
  /-- identities of all AttributeSet objects inside a node -/
  def setIdList : Node → List Nat
    | atom _ => []
    | ident _ => []
    | set s vs o _ _ => s :: (setIdListL vs ++ setIdListL o)
    | bind _ _ _ v _ _ => setIdList v
    | inherit _ _ => []
    | entry _ leaf _ _ => setIdList leaf
  def setIdListL : List Node → List Nat
    | [] => []
    | x :: xs => setIdList x ++ setIdListL xs
end
mutual
  /-- is some binding's value an identifier (a reference the edit code would write through)? -/
  def hasIdentValue : Node → Bool
    | atom _ => false
    | ident _ => false
    | set _ vs o _ _ => hasIdentValueL vs || hasIdentValueL o
    | bind _ _ _ v _ _ => (match v with | ident _ => true | _ => false) || hasIdentValue v
    | inherit _ _ => false
    | entry _ leaf _ _ => hasIdentValue leaf
  def hasIdentValueL : List Node → Bool
    | [] => false
    | x :: xs => hasIdentValue x || hasIdentValueL xs
end
end Node

def Layer.bindIds (l : Layer) : List Nat := bindIdListL l.scope ++ bindIdListL l.order
def Layer.setIds (l : Layer) : List Nat := setIdListL l.scope ++ setIdListL l.order

/-- set-identity footprint of an edit addressed at layer `l` from a state with `next = N`:
    the AttributeSet objects of the layer, and fresh ones -/
def Layer.fpSet (l : Layer) (N : Nat) (s : Nat) : Prop := s ∈ l.setIds ∨ N ≤ s
/-- binding-identity footprint: the Binding objects of the layer -/
def Layer.fpBind (l : Layer) (i : Nat) : Prop := i ∈ l.bindIds

/-- decidable side condition: no binding of the layer has an identifier as its value (so the edit
    code has no reference to write through) -/
def Layer.plain (l : Layer) : Bool := !hasIdentValueL l.scope && !hasIdentValueL l.order

/-- Well-formedness used for "the other layers and the body are literally unchanged" (decidable):
    the collected layer `idx` exists, and the Binding / AttributeSet objects of every OTHER layer
    and of the target set are not objects of layer `idx`, and their set identities are below
    `next` (fresh identities are fresh). True of every parsed document: distinct Python objects
    have distinct identities and `next` is above all of them. -/
def layerSeparated (d : Doc) (idx : Nat) : Bool :=
  let L := collectScopeLayers d
  match L[idx]? with
  | none => false
  | some l =>
    let others := L.take idx ++ L.drop (idx + 1)
    let ob := others.flatMap Layer.bindIds ++ bindIdList d.target
    let os := others.flatMap Layer.setIds ++ setIdList d.target
    ob.all (fun i => !l.bindIds.contains i) &&
    os.all (fun s => decide (s < d.next) && !l.setIds.contains s)

end Nima
