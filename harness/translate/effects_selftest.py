"""Self-test of the effect translator on a synthetic package: every line marked `# BAD` must be
flagged by the inferred certificate, every write not marked must be accepted (lines marked
`# IMPRECISE` are pure but flagged: flow-insensitive field abstraction).  Run by the C15 check on
every run; a failure breaks the translator tie."""
from __future__ import annotations

import shutil
import tempfile
from pathlib import Path

from . import effects_ir

SOURCE = '''from __future__ import annotations
import copy
from dataclasses import dataclass, field, replace
from typing import Any

CACHE = {}


@dataclass
class Node:
    kids: list[Any] = field(default_factory=list)
    name: str = ""
    meta: Any = None

    def __post_init__(self):
        if self.meta is not None:
            self.meta.owner = self          # BAD (replace() of a node shares meta with the original)

    def model_copy(self, update=None):
        if not update:
            return copy.copy(self)
        return replace(self, **update)

    def rebuild(self, indent: int = 0) -> str:
        a = helper_default(self)
        b = copy.copy(self)
        b.kids.append(1)                    # BAD b.kids aliases self.kids
        c = copy.copy(self)
        c.kids = list(c.kids)
        c.kids.append(2)                    # IMPRECISE
        object.__setattr__(self, "name", "x")   # BAD
        d = self.kids
        if indent:
            d = list(d)
            d.append(3)
        d.append(4)                         # BAD join of shared and fresh
        e = [k for k in self.kids]
        e.sort()
        for k in self.kids:
            k.name = "y"                    # BAD
        g = replace(self, kids=[])
        g.kids.append(5)
        push(e, 1)
        h = self.model_copy()
        h.name = "z"
        i = self.model_copy(update={"kids": []})
        i.kids.append(6)
        j = self.model_copy(update={"name": "n"})
        j.kids.append(7)                    # BAD kids inherited from self
        CACHE[indent] = e                   # BAD module-level cache
        self.name = "w"                     # BAD
        del self.kids[0]                    # BAD
        self.kids += [1]                    # BAD
        acc = []
        acc += self.kids
        m = {"k": self.kids}
        m["k"].append(8)                    # BAD
        n = sorted(self.kids)
        n.reverse()
        slots = [Slot(x=[], y=k) for k in self.kids]
        slots[0].x.append(9)
        slots[0].y.kids.clear()             # BAD
        return ""


@dataclass
class Slot:
    x: list
    y: Any


def helper_default(n, acc=[]):
    acc.append(n)                           # BAD mutable default argument
    return acc


def push(xs, v):
    xs.append(v)
'''


def run() -> list[str]:
    """problems (empty = ok)"""
    tmp = Path(tempfile.mkdtemp(prefix="c15-selftest-"))
    try:
        (tmp / "m.py").write_text(SOURCE)
        ex = effects_ir.analyse(tmp)
        flagged = {line for v in ex.violations for (_f, line) in ex.label_sites[v]}
        writes = {line for sites in ex.label_sites.values() for (_f, line) in sites}
        problems = []
        for i, text in enumerate(SOURCE.splitlines(), 1):
            bad = "# BAD" in text
            imprecise = "# IMPRECISE" in text
            if bad and i not in flagged:
                problems.append(f"selftest line {i} not flagged: {text.strip()}")
            if not bad and not imprecise and i in flagged:
                problems.append(f"selftest line {i} flagged but pure: {text.strip()}")
            if bad and i not in writes:
                problems.append(f"selftest line {i}: write not extracted: {text.strip()}")
        return problems
    except Exception as exc:  # noqa: BLE001
        return [f"selftest crashed: {type(exc).__name__}: {exc}"]
    finally:
        shutil.rmtree(tmp, ignore_errors=True)


if __name__ == "__main__":
    print(run() or "ok")
