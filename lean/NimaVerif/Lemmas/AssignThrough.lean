import NimaVerif.Model.AssignSpec
import NimaVerif.Lemmas.EditCompose
/-!
C11: the resolver of the edit model (`scanChain` / `resolveIdent`) against the SPEC of
`Model/AssignSpec.lean` (`lookupEnv` / `Defines`), and `assignThrough` / `assignExisting`
characterised as writes by identity.

* §1 list facts (first match under a congruent predicate, injectivity under `Nodup ∘ filterMap`,
  pigeonhole);
* §2 decidable side conditions on an environment (`envOK`, `inheritClear`, `idsNodup`) and their
  `∀`-forms, closed under taking a suffix;
* §3 one frame / the scan: `scanChain` = `lookupEnv`;
* §4 soundness of `resolveIdent`;
* §5 paths (the identities a `Defines` derivation visits): functional, duplicate-free, bounded by
  the number of bindings; completeness of `resolveIdent` with the fuel `assignThrough` passes;
* §6 `assignThrough`, `assignExisting` unfolded.
-/
namespace Nima
-- name tokens are compared by spelling in this file (see `NameCmp` in Model/Edit.lean)
attribute [local instance] NameCmp.spelled

open Node

/-! ## 1. list facts -/

theorem find?_congr' {α} {p q : α → Bool} : ∀ {l : List α}, (∀ x ∈ l, p x = q x) →
    l.find? p = l.find? q
  | [], _ => rfl
  | x :: xs, h => by
    have hx := h x (by simp)
    have ih := find?_congr' (l := xs) (fun y hy => h y (by simp [hy]))
    simp [List.find?_cons, hx, ih]

/-- two members with the same key are the same member when the keys are duplicate-free -/
theorem eq_of_nodup_filterMap {α β} (f : α → Option β) : ∀ {l : List α}, (l.filterMap f).Nodup →
    ∀ {a b : α} {x : β}, a ∈ l → b ∈ l → f a = some x → f b = some x → a = b
  | [], _, _, _, _, ha, _, _, _ => by cases ha
  | c :: l, hnd, a, b, x, ha, hb, hfa, hfb => by
    cases hfc : f c with
    | none =>
      rw [List.filterMap_cons_none hfc] at hnd
      rcases List.mem_cons.1 ha with e1 | ha'
      · rw [e1, hfc] at hfa; cases hfa
      · rcases List.mem_cons.1 hb with e2 | hb'
        · rw [e2, hfc] at hfb; cases hfb
        · exact eq_of_nodup_filterMap f hnd ha' hb' hfa hfb
    | some y =>
      rw [List.filterMap_cons_some hfc, List.nodup_cons] at hnd
      rcases List.mem_cons.1 ha with e1 | ha'
      · rcases List.mem_cons.1 hb with e2 | hb'
        · rw [e1, e2]
        · exfalso
          have : y = x := by rw [e1, hfc] at hfa; exact Option.some.inj hfa
          exact hnd.1 (List.mem_filterMap.2 ⟨b, hb', this ▸ hfb⟩)
      · rcases List.mem_cons.1 hb with e2 | hb'
        · exfalso
          have : y = x := by rw [e2, hfc] at hfb; exact Option.some.inj hfb
          exact hnd.1 (List.mem_filterMap.2 ⟨a, ha', this ▸ hfa⟩)
        · exact eq_of_nodup_filterMap f hnd.2 ha' hb' hfa hfb

/-- pigeonhole: a duplicate-free list drawn from `m` is no longer than `m` -/
theorem length_le_of_nodup_subset {α} [DecidableEq α] : ∀ {l m : List α}, l.Nodup →
    (∀ x ∈ l, x ∈ m) → l.length ≤ m.length
  | [], _, _, _ => Nat.zero_le _
  | x :: l, m, hnd, hsub => by
    rw [List.nodup_cons] at hnd
    have hx : x ∈ m := hsub x (by simp)
    have ih := length_le_of_nodup_subset (l := l) (m := m.erase x) hnd.2 (fun y hy => by
      have hne : y ≠ x := fun h => hnd.1 (h ▸ hy)
      exact (List.mem_erase_of_ne hne).2 (hsub y (by simp [hy])))
    rw [List.length_erase_of_mem hx] at ih
    have : 0 < m.length := List.length_pos_of_mem hx
    simp only [List.length_cons]
    omega

/-! ## 2. side conditions in `∀` form -/

/-- `envOK` unfolded -/
structure EnvWF (env : List (List Node)) : Prop where
  quote : ∀ f ∈ env, ∀ i nm ne v bf af, Node.bind i nm ne v bf af ∈ f → stripQuotes nm = nixName nm
  ident : ∀ f ∈ env, ∀ i nm ne n' bf af, Node.bind i nm ne (.ident n') bf af ∈ f → nixName n' = n'
  names : ∀ f ∈ env, (f.filterMap declName).Nodup

theorem EnvWF.of_envOK {env : List (List Node)} (h : envOK env = true) : EnvWF env := by
  simp only [envOK, List.all_eq_true, frameOK, Bool.and_eq_true, decide_eq_true_eq] at h
  refine ⟨?_, ?_, fun f hf => (h f hf).2⟩
  · intro f hf i nm ne v bf af hm
    have := (h f hf).1 _ hm
    simp only [Bool.and_eq_true, beq_iff_eq] at this
    exact this.1
  · intro f hf i nm ne n' bf af hm
    have := (h f hf).1 _ hm
    simp only [Bool.and_eq_true, beq_iff_eq] at this
    exact this.2

theorem EnvWF.mono {env env' : List (List Node)} (h : EnvWF env) (hsub : ∀ f ∈ env', f ∈ env) :
    EnvWF env' :=
  ⟨fun f hf => h.quote f (hsub f hf), fun f hf => h.ident f (hsub f hf),
   fun f hf => h.names f (hsub f hf)⟩

/-- `inheritFree` unfolded, minus the clause about the start name -/
def InhWF (env : List (List Node)) : Prop :=
  ∀ f ∈ env, ∀ i nm ne n' bf af, Node.bind i nm ne (.ident n') bf af ∈ f →
    ∀ g ∈ env, inheritMentions g n' = false

theorem inheritClear_iff {env : List (List Node)} {name : Text} :
    inheritClear env name = true ↔ ∀ g ∈ env, inheritMentions g name = false := by
  simp [inheritClear]

theorem InhWF.of_inheritFree {env : List (List Node)} {name : Text} (h : inheritFree env name = true) :
    (∀ g ∈ env, inheritMentions g name = false) ∧ InhWF env := by
  simp only [inheritFree, Bool.and_eq_true, List.all_eq_true] at h
  refine ⟨inheritClear_iff.1 h.1, ?_⟩
  intro f hf i nm ne n' bf af hm
  exact inheritClear_iff.1 (h.2 f hf _ hm)

theorem InhWF.mono {env env' : List (List Node)} (h : InhWF env) (hsub : ∀ f ∈ env', f ∈ env) :
    InhWF env' :=
  fun f hf i nm ne n' bf af hm g hg => h f (hsub f hf) i nm ne n' bf af hm g (hsub g hg)

/-- the identities of the Binding objects of an environment, in order -/
def envIds (env : List (List Node)) : List Nat := env.flatten.filterMap bindId?

theorem idsNodup_iff {env : List (List Node)} : idsNodup env = true ↔ (envIds env).Nodup := by
  simp [idsNodup, envIds]

theorem envIds_cons (f : List Node) (env : List (List Node)) :
    envIds (f :: env) = f.filterMap bindId? ++ envIds env := by
  simp [envIds, List.filterMap_append]

theorem envIds_suffix {env env' : List (List Node)} (h : env' <:+ env) :
    (envIds env').Sublist (envIds env) := by
  obtain ⟨pre, rfl⟩ := h
  simp only [envIds, List.flatten_append, List.filterMap_append]
  exact List.sublist_append_right _ _

theorem envIds_nodup_suffix {env env' : List (List Node)} (h : env' <:+ env)
    (hn : (envIds env).Nodup) : (envIds env').Nodup :=
  List.Nodup.sublist (envIds_suffix h) hn

theorem mem_envIds_of_mem {env : List (List Node)} {f : List Node} {b : Node} {i : Nat}
    (hf : f ∈ env) (hb : b ∈ f) (hi : b.bindId? = some i) : i ∈ envIds env :=
  List.mem_filterMap.2 ⟨b, List.mem_flatten.2 ⟨f, hf, hb⟩, hi⟩

theorem envIds_length_le (env : List (List Node)) : (envIds env).length ≤ env.flatten.length :=
  List.length_filterMap_le _ _

/-! ## 3. one frame, and the scan -/

theorem findBinding_spec {vs : List Node} {k : Text} {b : Node} (h : findBinding vs k = some b) :
    b ∈ vs ∧ ∃ i ne v bf af, b = .bind i k ne v bf af := by
  simp only [findBinding_spelled] at h
  have h1 := List.find?_some h
  have h2 := List.mem_of_find?_eq_some h
  refine ⟨h2, ?_⟩
  cases b <;> simp [isBind, bindName?] at h1
  subst h1
  exact ⟨_, _, _, _, _, rfl⟩

/-- what `scanChain` finds in one frame: the binding named `name` as written, else the first
    binding whose name is `name` once `strip('"')`-ed -/
def scanHit (name : Text) (scope : List Node) : Option Node :=
  match findBinding scope name with
  | some b => some b
  | none => scope.find? fun n => n.isBind &&
      (match n.bindName? with | some nm => stripQuotes nm == name | none => false)

theorem scanChain_cons (name : Text) (scope : List Node) (outer : List (List Node)) :
    scanChain name (scope :: outer) =
      match scanHit name scope with
      | some b => some (b, scope :: outer)
      | none => if inheritMentions scope name then none else scanChain name outer := by
  simp only [scanChain, scanHit]
  cases findBinding scope name with
  | some b => rfl
  | none =>
    simp only
    cases List.find? (fun n => n.isBind &&
      (match n.bindName? with | some nm => stripQuotes nm == name | none => false)) scope <;> rfl

theorem mem_of_lookup_frame {name : Text} {f : List Node} {b : Node}
    (h : f.find? (bindsName name) = some b) :
    b ∈ f ∧ ∃ i nm ne v bf af, b = .bind i nm ne v bf af ∧ nixName nm = name := by
  have h1 := List.find?_some h
  refine ⟨List.mem_of_find?_eq_some h, ?_⟩
  cases b <;> simp [bindsName] at h1
  exact ⟨_, _, _, _, _, _, rfl, h1⟩

/-- In a well-formed frame the code's per-frame search and Nix's agree. -/
theorem scanHit_eq {scope : List Node} {name : Text}
    (hq : ∀ i nm ne v bf af, Node.bind i nm ne v bf af ∈ scope → stripQuotes nm = nixName nm)
    (hn : (scope.filterMap declName).Nodup) (hname : nixName name = name) :
    scanHit name scope = scope.find? (bindsName name) := by
  have hP2 : ∀ x ∈ scope, (x.isBind && (match x.bindName? with
      | some nm => stripQuotes nm == name | none => false)) = bindsName name x := by
    intro x hx
    cases x <;> simp only [isBind, bindName?, bindsName, Bool.true_and, Bool.false_and]
    rw [hq _ _ _ _ _ _ hx]
  unfold scanHit
  cases h1 : findBinding scope name with
  | none => exact find?_congr' hP2
  | some h =>
    obtain ⟨hm, i, ne, v, bf, af, rfl⟩ := findBinding_spec h1
    have hb : bindsName name (.bind i name ne v bf af) = true := by simp [bindsName, hname]
    cases h2 : scope.find? (bindsName name) with
    | none => exact absurd hb (List.find?_eq_none.1 h2 _ hm)
    | some s =>
      obtain ⟨hs, j, nm, ne', v', bf', af', rfl, hnm⟩ := mem_of_lookup_frame h2
      have := eq_of_nodup_filterMap declName hn (x := name) hm hs
        (by simp [declName, hname]) (by simp [declName, hnm])
      simp only [this]

theorem scanChain_sound {env0 : List (List Node)} (hwf : EnvWF env0) {name : Text}
    (hname : nixName name = name) :
    ∀ {env : List (List Node)}, (∀ f ∈ env, f ∈ env0) → ∀ {r}, scanChain name env = some r →
      lookupEnv name env = some r
  | [], _, r, h => by simp [scanChain] at h
  | scope :: outer, hsub, r, h => by
    rw [scanChain_cons, scanHit_eq (hwf.quote scope (hsub scope (by simp)))
      (hwf.names scope (hsub scope (by simp))) hname] at h
    simp only [lookupEnv]
    cases hf : scope.find? (bindsName name) with
    | some b => simpa [hf] using h
    | none =>
      simp only [hf] at h ⊢
      split at h
      · cases h
      · exact scanChain_sound hwf hname (fun f hf => hsub f (by simp [hf])) h

theorem scanChain_eq_lookupEnv {env0 : List (List Node)} (hwf : EnvWF env0) {name : Text}
    (hname : nixName name = name) (hinh : ∀ g ∈ env0, inheritMentions g name = false) :
    ∀ {env : List (List Node)}, (∀ f ∈ env, f ∈ env0) → scanChain name env = lookupEnv name env
  | [], _ => rfl
  | scope :: outer, hsub => by
    rw [scanChain_cons, scanHit_eq (hwf.quote scope (hsub scope (by simp)))
      (hwf.names scope (hsub scope (by simp))) hname]
    simp only [lookupEnv]
    cases hf : scope.find? (bindsName name) with
    | some b => rfl
    | none =>
      simp only [hinh scope (hsub scope (by simp)), Bool.false_eq_true, if_false]
      exact scanChain_eq_lookupEnv hwf hname hinh (fun f hf => hsub f (by simp [hf]))

/-- what `lookupEnv` returns: a binding of the head frame of a suffix of the environment -/
theorem lookupEnv_spec {name : Text} : ∀ {env : List (List Node)} {b : Node} {env' : List (List Node)},
    lookupEnv name env = some (b, env') →
    env' <:+ env ∧ ∃ f outer, env' = f :: outer ∧ f.find? (bindsName name) = some b
  | [], _, _, h => by simp [lookupEnv] at h
  | f :: outer, b, env', h => by
    simp only [lookupEnv] at h
    cases hf : f.find? (bindsName name) with
    | some b' =>
      simp only [hf, Option.some.injEq, Prod.mk.injEq] at h
      obtain ⟨rfl, rfl⟩ := h
      exact ⟨List.suffix_refl _, f, outer, rfl, hf⟩
    | none =>
      simp only [hf] at h
      obtain ⟨h1, h2⟩ := lookupEnv_spec h
      exact ⟨List.IsSuffix.trans h1 (List.suffix_cons _ _), h2⟩

theorem suffix_subset {α} {l l' : List α} (h : l' <:+ l) : ∀ x ∈ l', x ∈ l :=
  fun _ hx => (List.IsSuffix.subset h) hx

/-! ## 4. soundness of `resolveIdent` -/

/-- Whatever the fuel and the visited list: an answer of `resolveIdent` is the binding the SPEC
    names. (No condition on `inherit` clauses or on identities is needed for this direction.) -/
theorem resolveIdent_sound_aux {env0 : List (List Node)} (hwf : EnvWF env0) :
    ∀ (fuel : Nat) {env : List (List Node)} {name : Text} {vis : List Nat} {bid : Nat},
      (∀ f ∈ env, f ∈ env0) → nixName name = name →
      resolveIdent fuel env name vis = some bid → Defines env name bid
  | 0, _, _, _, _, _, _, h => by simp [resolveIdent] at h
  | fuel + 1, env, name, vis, bid, hsub, hname, h => by
    simp only [resolveIdent] at h
    cases hs : scanChain name env with
    | none => simp [hs] at h
    | some r =>
      obtain ⟨b, rest⟩ := r
      have hl := scanChain_sound hwf hname hsub hs
      obtain ⟨hsuf, f, outer, rfl, hf⟩ := lookupEnv_spec hl
      obtain ⟨hbf, i, nm, ne, v, bf, af, rfl, hnm⟩ := mem_of_lookup_frame hf
      simp only [hs, bindId?, bindValue?] at h
      split at h
      · cases h
      · have hfm : f ∈ env0 := hsub f (suffix_subset hsuf f (by simp))
        cases v with
        | ident n' =>
          simp only at h
          exact Defines.ref hl (resolveIdent_sound_aux hwf fuel
            (fun g hg => hsub g (suffix_subset hsuf g hg)) (hwf.ident f hfm _ _ _ _ _ _ hbf) h)
        | atom t => simp only [Option.some.injEq] at h; subst h; exact Defines.value hl rfl
        | set a b c d e => simp only [Option.some.injEq] at h; subst h; exact Defines.value hl rfl
        | bind a b c d e g => simp only [Option.some.injEq] at h; subst h; exact Defines.value hl rfl
        | inherit a b => simp only [Option.some.injEq] at h; subst h; exact Defines.value hl rfl
        | entry a b c d => simp only [Option.some.injEq] at h; subst h; exact Defines.value hl rfl

/-! ## 5. paths: the Binding objects a `Defines` derivation visits -/

/-- `Path env name p bid`: the derivation of `Defines env name bid` enters the bindings with
    identities `p` (in that order; the last one is `bid`). Proof device. -/
inductive Path : List (List Node) → Text → List Nat → Nat → Prop
  | value {env env' : List (List Node)} {name nm : Text} {bid : Nat} {ne : Bool} {v : Node}
      {bf af : Payload} :
      lookupEnv name env = some (.bind bid nm ne v bf af, env') → v.isIdent = false →
      Path env name [bid] bid
  | ref {env env' : List (List Node)} {name nm n' : Text} {i bid : Nat} {ne : Bool}
      {bf af : Payload} {p : List Nat} :
      lookupEnv name env = some (.bind i nm ne (.ident n') bf af, env') → Path env' n' p bid →
      Path env name (i :: p) bid

theorem Path.of_defines {env : List (List Node)} {name : Text} {bid : Nat}
    (h : Defines env name bid) : ∃ p, Path env name p bid := by
  induction h with
  | value hl hv => exact ⟨_, Path.value hl hv⟩
  | ref hl _ ih => obtain ⟨p, hp⟩ := ih; exact ⟨_, Path.ref hl hp⟩

theorem Path.defines {env : List (List Node)} {name : Text} {p : List Nat} {bid : Nat}
    (h : Path env name p bid) : Defines env name bid := by
  induction h with
  | value hl hv => exact Defines.value hl hv
  | ref hl _ ih => exact Defines.ref hl ih

/-- the SPEC is functional: one path, one defining binding -/
theorem Path.det {env : List (List Node)} {name : Text} {p q : List Nat} {a b : Nat}
    (h1 : Path env name p a) (h2 : Path env name q b) : p = q ∧ a = b := by
  induction h1 generalizing q b with
  | value hl hv =>
    cases h2 with
    | value hl2 _ =>
      rw [hl] at hl2
      simp only [Option.some.injEq, Prod.mk.injEq, Node.bind.injEq] at hl2
      obtain ⟨⟨rfl, _⟩, _⟩ := hl2
      exact ⟨rfl, rfl⟩
    | ref hl2 _ =>
      rw [hl] at hl2
      simp only [Option.some.injEq, Prod.mk.injEq, Node.bind.injEq] at hl2
      obtain ⟨⟨_, _, _, rfl, _⟩, _⟩ := hl2
      simp [Node.isIdent] at hv
  | ref hl _ ih =>
    cases h2 with
    | value hl2 hv2 =>
      rw [hl] at hl2
      simp only [Option.some.injEq, Prod.mk.injEq, Node.bind.injEq] at hl2
      obtain ⟨⟨_, _, _, rfl, _⟩, _⟩ := hl2
      simp [Node.isIdent] at hv2
    | ref hl2 hp2 =>
      rw [hl] at hl2
      simp only [Option.some.injEq, Prod.mk.injEq, Node.bind.injEq, Node.ident.injEq] at hl2
      obtain ⟨⟨rfl, _, _, rfl, _⟩, rfl⟩ := hl2
      obtain ⟨rfl, rfl⟩ := ih hp2
      exact ⟨rfl, rfl⟩

theorem Defines.det {env : List (List Node)} {name : Text} {a b : Nat}
    (h1 : Defines env name a) (h2 : Defines env name b) : a = b := by
  obtain ⟨p, hp⟩ := Path.of_defines h1
  obtain ⟨q, hq⟩ := Path.of_defines h2
  exact (Path.det hp hq).2

theorem Path.ne_nil {env : List (List Node)} {name : Text} {p : List Nat} {bid : Nat}
    (h : Path env name p bid) : p ≠ [] := by
  cases h <;> simp

/-- every identity on the path is the identity of a Binding object of the environment -/
theorem Path.mem_envIds {env : List (List Node)} {name : Text} {p : List Nat} {bid : Nat}
    (h : Path env name p bid) : ∀ i ∈ p, i ∈ envIds env := by
  induction h with
  | value hl _ =>
    intro i hi
    obtain ⟨hsuf, f, outer, rfl, hf⟩ := lookupEnv_spec hl
    simp only [List.mem_singleton] at hi
    subst hi
    exact mem_envIds_of_mem (suffix_subset hsuf f (by simp)) (List.mem_of_find?_eq_some hf) rfl
  | ref hl _ ih =>
    intro j hj
    obtain ⟨hsuf, f, outer, rfl, hf⟩ := lookupEnv_spec hl
    rcases List.mem_cons.1 hj with rfl | hj
    · exact mem_envIds_of_mem (suffix_subset hsuf f (by simp)) (List.mem_of_find?_eq_some hf) rfl
    · exact (envIds_suffix hsuf).subset (ih j hj)

/-- *Unique position.* With distinct identities, a Binding object with identity `i` that heads a
    suffix of `f :: outer` where `f` already holds an object with identity `i` is that object, and
    the suffix is the whole. -/
theorem unique_position {f : List Node} {outer e' : List (List Node)} {f2 : List Node}
    {o2 : List (List Node)} {b b2 : Node} {i : Nat}
    (hn : (envIds (f :: outer)).Nodup) (hb : b ∈ f) (hbi : b.bindId? = some i)
    (hsuf : e' <:+ f :: outer) (he : e' = f2 :: o2) (hb2 : b2 ∈ f2) (hb2i : b2.bindId? = some i) :
    e' = f :: outer ∧ b2 = b := by
  rw [envIds_cons, List.nodup_append] at hn
  rcases List.suffix_cons_iff.1 hsuf with h | h
  · refine ⟨h, ?_⟩
    rw [he] at h
    injection h with h1 _
    subst h1
    exact eq_of_nodup_filterMap bindId? hn.1 hb2 hb hb2i hbi
  · exfalso
    have h1 : i ∈ f.filterMap bindId? := List.mem_filterMap.2 ⟨b, hb, hbi⟩
    have h2 : i ∈ envIds outer :=
      mem_envIds_of_mem (suffix_subset h f2 (by rw [he]; simp)) hb2 hb2i
    exact hn.2.2 i h1 i h2 rfl

/-- If a path that starts inside `env'` (where the object `i`, holding the reference `n'`, heads
    `env'`) enters object `i`, the path from `(env', n')` is strictly shorter. -/
theorem Path.revisit {env' : List (List Node)} {f : List Node} {outer : List (List Node)}
    (henv : env' = f :: outer) (hn : (envIds env').Nodup) {i : Nat} {nm n' : Text} {ne : Bool}
    {bf af : Payload} (hb : Node.bind i nm ne (.ident n') bf af ∈ f) :
    ∀ {e : List (List Node)} {n : Text} {p : List Nat} {bid : Nat}, Path e n p bid → e <:+ env' →
      i ∈ p → ∃ q, Path env' n' q bid ∧ q.length < p.length := by
  intro e n p bid h
  induction h with
  | value hl hv =>
    intro hsuf hi
    exfalso
    obtain ⟨hs2, f2, o2, he2, hf2⟩ := lookupEnv_spec hl
    simp only [List.mem_singleton] at hi
    subst hi
    have := (unique_position (henv ▸ hn) hb rfl (henv ▸ List.IsSuffix.trans hs2 hsuf) he2
      (List.mem_of_find?_eq_some hf2) rfl).2
    simp only [Node.bind.injEq] at this
    obtain ⟨_, _, _, rfl, _⟩ := this
    simp [Node.isIdent] at hv
  | @ref e e2 n nm2 n2 j bid ne2 bf2 af2 p' hl hp ih =>
    intro hsuf hi
    obtain ⟨hs2, f2, o2, he2, hf2⟩ := lookupEnv_spec hl
    have hsuf2 : e2 <:+ env' := List.IsSuffix.trans hs2 hsuf
    rcases List.mem_cons.1 hi with rfl | hi
    · obtain ⟨h1, h2⟩ := unique_position (henv ▸ hn) hb rfl (henv ▸ hsuf2) he2
        (List.mem_of_find?_eq_some hf2) rfl
      simp only [Node.bind.injEq, Node.ident.injEq] at h2
      obtain ⟨_, _, _, rfl, _⟩ := h2
      rw [← henv] at h1
      subst h1
      exact ⟨p', hp, by simp⟩
    · obtain ⟨q, hq, hlt⟩ := ih hsuf2 hi
      exact ⟨q, hq, by simp only [List.length_cons]; omega⟩

/-- *No revisit.* With distinct identities a path never enters the same Binding object twice. -/
theorem Path.nodup {env : List (List Node)} {name : Text} {p : List Nat} {bid : Nat}
    (h : Path env name p bid) (hn : (envIds env).Nodup) : p.Nodup := by
  induction h with
  | value _ _ => simp
  | @ref e e2 n nm2 n2 j bid ne2 bf2 af2 p' hl hp ih =>
    obtain ⟨hs2, f2, o2, he2, hf2⟩ := lookupEnv_spec hl
    have hn2 := envIds_nodup_suffix hs2 hn
    rw [List.nodup_cons]
    refine ⟨fun hj => ?_, ih hn2⟩
    obtain ⟨q, hq, hlt⟩ := Path.revisit he2 hn2 (List.mem_of_find?_eq_some hf2) hp
      (List.suffix_refl _) hj
    have := (Path.det hq hp).1
    subst this
    omega

/-- The path is no longer than the number of bindings — the fuel bound. -/
theorem Path.length_le {env : List (List Node)} {name : Text} {p : List Nat} {bid : Nat}
    (h : Path env name p bid) (hn : (envIds env).Nodup) : p.length ≤ env.flatten.length :=
  Nat.le_trans (length_le_of_nodup_subset (h.nodup hn) h.mem_envIds) (envIds_length_le env)

/-- Completeness along a path: enough fuel, nothing of the path visited yet. -/
theorem resolveIdent_complete_aux {env0 : List (List Node)} (hwf : EnvWF env0) (hinh : InhWF env0) :
    ∀ {env : List (List Node)} {name : Text} {p : List Nat} {bid : Nat}, Path env name p bid →
      ∀ (fuel : Nat) (vis : List Nat), (∀ f ∈ env, f ∈ env0) → nixName name = name →
      (∀ g ∈ env0, inheritMentions g name = false) → p.Nodup → (∀ i ∈ p, i ∉ vis) →
      p.length ≤ fuel → resolveIdent fuel env name vis = some bid := by
  intro env name p bid h
  induction h with
  | @value env env' name nm bid ne v bf af hl hv =>
    intro fuel vis hsub hname hclear _ hvis hlen
    cases fuel with
    | zero => simp at hlen
    | succ fuel =>
      have hnv : vis.contains bid = false := by
        simpa using hvis bid (by simp)
      simp only [resolveIdent, scanChain_eq_lookupEnv hwf hname hclear hsub, hl, bindId?, bindValue?,
        hnv, Bool.false_eq_true, if_false]
      cases v <;> simp [Node.isIdent] at hv ⊢
  | @ref env env' name nm n' i bid ne bf af p' hl hp ih =>
    intro fuel vis hsub hname hclear hnd hvis hlen
    cases fuel with
    | zero => simp at hlen
    | succ fuel =>
      obtain ⟨hsuf, f, outer, rfl, hf⟩ := lookupEnv_spec hl
      have hbf := List.mem_of_find?_eq_some hf
      have hfm : f ∈ env0 := hsub f (suffix_subset hsuf f (by simp))
      have hnv : vis.contains i = false := by
        simpa using hvis i (by simp)
      rw [List.nodup_cons] at hnd
      simp only [resolveIdent, scanChain_eq_lookupEnv hwf hname hclear hsub, hl, bindId?, bindValue?,
        hnv, Bool.false_eq_true, if_false]
      refine ih fuel (i :: vis) (fun g hg => hsub g (suffix_subset hsuf g hg))
        (hwf.ident f hfm _ _ _ _ _ _ hbf) (hinh f hfm _ _ _ _ _ _ hbf) hnd.2 ?_ ?_
      · intro j hj hm
        rcases List.mem_cons.1 hm with rfl | hm
        · exact hnd.1 hj
        · exact hvis j (by simp [hj]) hm
      · simp only [List.length_cons] at hlen; omega

/-- the fuel `assignThrough` passes: one more than the number of items of the chain -/
theorem chain_fuel (chain : List (List Node)) (a : Nat) :
    chain.foldl (fun n s => n + s.length) a = a + chain.flatten.length := by
  induction chain generalizing a with
  | nil => simp
  | cons s rest ih => simp only [List.foldl_cons, ih, List.flatten_cons, List.length_append]; omega

theorem flatten_reverse_length {α} (chain : List (List α)) :
    chain.reverse.flatten.length = chain.flatten.length := by
  simp [List.length_flatten, List.sum_reverse]

/-! ## 6. `assignThrough` / `assignExisting` unfolded -/

/-- the fuel `assignThrough` hands to the resolver -/
def throughFuel (d : Doc) (ts : Node) (wl : Bool) : Nat :=
  (scopeChain d ts wl).foldl (fun n s => n + s.length) 1

theorem assignThrough_apply (ts : Node) (wl : Bool) (name : Text) (v : Node) (d : Doc) :
    assignThrough ts wl name v d =
      if (scopeChain d ts wl).isEmpty then (.ok false, d)
      else match resolveIdent (throughFuel d ts wl) (chainEnv d ts wl) name [] with
        | some bid => (.ok true, d.updBind bid v)
        | none => (.ok false, d) := by
  simp only [assignThrough, EditM.bind_apply, EditM.get_apply, throughFuel, chainEnv]
  by_cases h : (scopeChain d ts wl).isEmpty = true
  · simp only [h, if_true]; rfl
  · simp only [h]
    cases resolveIdent (List.foldl (fun n s => n + s.length) 1 (scopeChain d ts wl))
      (scopeChain d ts wl).reverse name [] <;> rfl

theorem chainEnv_nil_of_isEmpty {d : Doc} {ts : Node} {wl : Bool}
    (h : (scopeChain d ts wl).isEmpty = true) : chainEnv d ts wl = [] := by
  simp only [chainEnv, List.isEmpty_iff.1 h, List.reverse_nil]

theorem resolveIdent_nil (fuel : Nat) (name : Text) (vis : List Nat) :
    resolveIdent fuel [] name vis = none := by
  cases fuel <;> simp [resolveIdent, scanChain]

/-- `assignThrough` in one match (an empty chain resolves nothing) -/
theorem assignThrough_apply' (ts : Node) (wl : Bool) (name : Text) (v : Node) (d : Doc) :
    assignThrough ts wl name v d =
      match resolveIdent (throughFuel d ts wl) (chainEnv d ts wl) name [] with
      | some bid => (.ok true, d.updBind bid v)
      | none => (.ok false, d) := by
  rw [assignThrough_apply]
  by_cases h : (scopeChain d ts wl).isEmpty = true
  · simp only [h, if_true, chainEnv_nil_of_isEmpty h, resolveIdent_nil]
  · simp only [h]; rfl

theorem throughFuel_ge (d : Doc) (ts : Node) (wl : Bool) :
    (chainEnv d ts wl).flatten.length < throughFuel d ts wl := by
  simp only [throughFuel, chain_fuel, chainEnv, flatten_reverse_length]; omega

/-- SPEC side: the bindings `set_value` hands to `_set_value_in_attrset` as `let_bindings` -/
def letBindings (d : Doc) : List Node :=
  match d.topScope with
  | some s => s.filter (·.isBind)
  | none => d.scope.filter (·.isBind)

/-- `assignExisting` on a binding that holds a reference, in terms of the resolver's answer -/
theorem assignExisting_ref (ts parent : Node) (wl : Bool) (rid : Nat) (nm : Text) (ne : Bool)
    (name : Text) (bf af : Payload) (v : Node) (d : Doc) :
    assignExisting ts parent wl (.bind rid nm ne (.ident name) bf af) v d =
      match resolveIdent (throughFuel d ts wl) (chainEnv d ts wl) name [] with
      | some bid => (.ok (), d.updBind bid v)
      | none =>
        match (letBindings d).find? (·.bindName? == some name) with
        | some outer => match outer.bindId? with
          | some oid => (.ok (), d.updBind oid v)
          | none => (.ok (), d)
        | none =>
          match findBinding parent.setValues name with
          | some sib => match sib.bindId? with
            | some sid' => (.ok (), d.updBind sid' v)
            | none => (.ok (), d)
          | none => (.ok (), d.updBind rid v) := by
  simp only [assignExisting, bindId?, bindValue?, EditM.bind_apply, assignThrough_apply']
  cases resolveIdent (throughFuel d ts wl) (chainEnv d ts wl) name [] with
  | some bid => rfl
  | none =>
    simp only [Bool.false_eq_true, if_false, EditM.bind_apply, EditM.get_apply, letBindings]
    cases d.topScope with
    | some s =>
      simp only
      cases List.find? (fun x => x.bindName? == some name) (List.filter (fun x => x.isBind) s) with
      | some outer => simp only; cases outer <;> rfl
      | none =>
        simp only
        cases findBinding parent.setValues name with
        | some sib => simp only; cases sib <;> rfl
        | none => rfl
    | none =>
      simp only
      cases List.find? (fun x => x.bindName? == some name) (List.filter (fun x => x.isBind) d.scope) with
      | some outer => simp only; cases outer <;> rfl
      | none =>
        simp only
        cases findBinding parent.setValues name with
        | some sib => simp only; cases sib <;> rfl
        | none => rfl

/-- a plain single-segment `set` on a binding that holds a reference is `assignExisting` on it -/
theorem setValue_ref_single (d : Doc) (p k : Text) (v : Node) (rid : Nat) (nm : Text) (ne : Bool)
    (name : Text) (bf af : Payload)
    (hnt : d.noTarget = none) (hsp : splitScopeNpath p = .ok none)
    (hf : formatNPath currentAnchor p = .ok [k])
    (hr : findAttrpathRoot d.target.setValues k = none)
    (hb : findBinding d.target.setValues k = some (.bind rid nm ne (.ident name) bf af)) :
    setValue p (.one v) d =
      assignExisting d.target d.target true (.bind rid nm ne (.ident name) bf af) v d := by
  obtain ⟨sid, hs⟩ := setSid_of_setValues_ne d.target (findBinding_some_ne hb)
  rw [setValue_plain p v d hnt hsp, setValueInAttrset_single d.target true p v k sid hf hs hr, hb]

/-! ## 7. unbound names, environments as prefixes of larger ones -/

theorem lookupEnv_append {name : Text} {extra : List (List Node)} :
    ∀ {env : List (List Node)} {b : Node} {env' : List (List Node)},
      lookupEnv name env = some (b, env') → lookupEnv name (env ++ extra) = some (b, env' ++ extra)
  | [], _, _, h => by simp [lookupEnv] at h
  | f :: outer, b, env', h => by
    simp only [lookupEnv, List.cons_append] at h ⊢
    cases hf : f.find? (bindsName name) with
    | some b' =>
      simp only [hf, Option.some.injEq, Prod.mk.injEq] at h ⊢
      obtain ⟨rfl, rfl⟩ := h
      exact ⟨rfl, rfl⟩
    | none =>
      simp only [hf] at h ⊢
      exact lookupEnv_append h

theorem scanChain_none_of_notBound {env0 : List (List Node)} (hwf : EnvWF env0) {name : Text}
    (hname : nixName name = name) :
    ∀ {env : List (List Node)}, (∀ f ∈ env, f ∈ env0) → NotBound env name → scanChain name env = none
  | [], _, _ => rfl
  | scope :: outer, hsub, hnb => by
    rw [scanChain_cons, scanHit_eq (hwf.quote scope (hsub scope (by simp)))
      (hwf.names scope (hsub scope (by simp))) hname, hnb scope (by simp)]
    simp only
    split
    · rfl
    · exact scanChain_none_of_notBound hwf hname (fun f hf => hsub f (by simp [hf]))
        (fun f hf => hnb f (by simp [hf]))

theorem resolveIdent_none_of_notBound (fuel : Nat) (env : List (List Node)) (name : Text)
    (vis : List Nat) (hok : envOK env = true) (hname : nixName name = name)
    (hnb : NotBound env name) : resolveIdent fuel env name vis = none := by
  cases fuel with
  | zero => rfl
  | succ fuel =>
    simp [resolveIdent, scanChain_none_of_notBound (EnvWF.of_envOK hok) hname (fun _ h => h) hnb]

theorem find_named_none_of_notBound {frame : List Node} {name : Text} (hname : nixName name = name)
    (h : frame.find? (bindsName name) = none) :
    (frame.filter (·.isBind)).find? (·.bindName? == some name) = none := by
  rw [List.find?_eq_none] at h ⊢
  intro x hx
  have hx' := (List.mem_filter.1 hx).1
  have := h x hx'
  cases x <;> simp [bindName?, bindsName] at this ⊢
  intro e; subst e; exact this hname

theorem findBinding_none_of_notBound {frame : List Node} {name : Text} (hname : nixName name = name)
    (h : frame.find? (bindsName name) = none) : findBinding frame name = none := by
  simp only [findBinding_spelled]
  rw [List.find?_eq_none] at h ⊢
  intro x hx
  have := h x hx
  cases x <;> simp [isBind, bindName?, bindsName] at this ⊢
  intro e; subst e; exact this hname

theorem scope_mem_chainEnv (d : Doc) (ts : Node) (h : d.scope ≠ []) :
    d.scope ∈ chainEnv d ts true := by
  have : d.scope.isEmpty = false := by cases hs : d.scope <;> simp_all
  simp [chainEnv, scopeChain, this]

theorem letBindings_none_of_notBound (d : Doc) (name : Text) (hname : nixName name = name)
    (hnb : NotBound (docEnv d) name) :
    (letBindings d).find? (·.bindName? == some name) = none := by
  unfold letBindings
  cases ht : d.topScope with
  | some s =>
    exact find_named_none_of_notBound hname (hnb s (by simp [docEnv, ht]))
  | none =>
    by_cases hs : d.scope = []
    · simp [hs]
    · exact find_named_none_of_notBound hname
        (hnb d.scope (by simp only [docEnv, List.mem_append]; exact Or.inl (scope_mem_chainEnv d _ hs)))

theorem envOK_append_left {a b : List (List Node)} (h : envOK (a ++ b) = true) : envOK a = true := by
  simp only [envOK, List.all_append, Bool.and_eq_true] at h; exact h.1

theorem inheritFree_append_left {a b : List (List Node)} {name : Text}
    (h : inheritFree (a ++ b) name = true) : inheritFree a name = true := by
  simp only [inheritFree, inheritClear, List.all_append, Bool.and_eq_true, List.all_eq_true] at h ⊢
  refine ⟨h.1.1, fun f hf n hn => ?_⟩
  have := h.2.1 f hf n hn
  cases n with
  | bind i nm ne v bf af =>
    cases v with
    | ident n' =>
      simp only [Bool.and_eq_true, List.all_eq_true] at this ⊢
      exact this.1
    | _ => rfl
  | _ => rfl

theorem idsNodup_append_left {a b : List (List Node)} (h : idsNodup (a ++ b) = true) :
    idsNodup a = true := by
  rw [idsNodup_iff] at h ⊢
  simp only [envIds, List.flatten_append, List.filterMap_append] at h
  exact (List.nodup_append.1 h).1

end Nima
