import NimaVerif.Model.Edit
/-! # C05 — placeholder until the theorems are in. -/
namespace Nima.C05
theorem placeholder_rm_missing_key (d : Doc) (h : d.noTarget = some .raw) :
    (removeValue "a".toList d).1 = .error .value := by
  simp [removeValue, h, splitScopeNpath, resolveTarget]
end Nima.C05
