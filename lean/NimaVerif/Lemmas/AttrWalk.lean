import NimaVerif.Lemmas.EditCompose
/-!
The attrpath walk (`_walk_attrpath_stack`) sees through a write to the leaf binding it finds;
hence `set` on an attrpath leaf is idempotent. Used by C19.
-/
namespace Nima
-- name tokens are compared by spelling in this file (see `NameCmp` in Model/Edit.lean)
attribute [local instance] NameCmp.spelled
open Node

/-- componentwise write on the (parent set, binding) pairs of an attrpath walk -/
def updPair (id : Nat) (v : Node) (pb : Node × Node) : Node × Node := (updBind id v pb.1, updBind id v pb.2)

theorem bindValue_updBind_ne (id : Nat) (v b : Node) (h : b.bindId? ≠ some id) :
    (updBind id v b).bindValue? = b.bindValue?.map (updBind id v) := by
  cases b <;> simp [updBind, bindValue?]
  rename_i i _ _ _ _ _
  have : i ≠ id := by simpa [bindId?] using h
  simp [this]

/-- the attrpath walk appends exactly one pair per remaining segment -/
theorem go_append (ln rr : Bool) : ∀ (segs : List Text) (current : Node) (stack st : List (Node × Node)),
    walkAttrpathStack.go ln rr current stack segs = .ok (some st) →
      ∃ new, st = stack ++ new ∧ new.length = segs.length := by
  intro segs
  induction segs with
  | nil =>
    intro current stack st h
    simp only [walkAttrpathStack.go] at h
    cases h; exact ⟨[], by simp, rfl⟩
  | cons seg more ih =>
    intro current stack st h
    cases more with
    | nil =>
      simp only [walkAttrpathStack.go] at h
      split at h
      · split at h <;> cases h
      · cases h; exact ⟨[_], rfl, rfl⟩
    | cons s2 more' =>
      simp only [walkAttrpathStack.go] at h
      split at h
      · split at h <;> cases h
      · split at h
        · obtain ⟨new, h1, h2⟩ := ih _ _ _ h
          rename_i b _ _ _ _ _ _ _ _
          exact ⟨(current, b) :: new, by simp [h1], by simp [h2]⟩
        · split at h <;> cases h

/-- the walk sees through a write to a Binding object that is not one of the intermediate bindings -/
theorem go_updBind (ln rr : Bool) (id : Nat) (v : Node) :
    ∀ (segs : List Text) (current : Node) (stack st : List (Node × Node)),
    walkAttrpathStack.go ln rr current stack segs = .ok (some st) →
    (∀ pb ∈ (st.drop stack.length).dropLast, pb.2.bindId? ≠ some id) →
    walkAttrpathStack.go ln rr (updBind id v current) (stack.map (updPair id v)) segs =
      .ok (some (st.map (updPair id v))) := by
  intro segs
  induction segs with
  | nil =>
    intro current stack st h _
    simp only [walkAttrpathStack.go] at h ⊢
    cases h; rfl
  | cons seg more ih =>
    intro current stack st h hids
    cases more with
    | nil =>
      simp only [walkAttrpathStack.go, setValues_updBind, findNamedBinding_updBindL] at h ⊢
      split at h
      · split at h <;> cases h
      · rename_i b hb
        cases h
        simp [hb, updPair]
    | cons s2 more' =>
      simp only [walkAttrpathStack.go] at h
      simp only [walkAttrpathStack.go, setValues_updBind, findNamedBinding_updBindL]
      split at h
      · split at h <;> cases h
      · rename_i b hb
        split at h
        · rename_i sid vs o m r hval
          obtain ⟨new, h1, h2⟩ := go_append ln rr _ _ _ _ h
          have hne : new ≠ [] := by intro hn; simp [hn] at h2
          have hdrop : st.drop stack.length = (current, b) :: new := by
            rw [h1]; simp
          have hbid : b.bindId? ≠ some id := by
            apply hids (current, b)
            rw [hdrop, List.dropLast_cons_of_ne_nil hne]
            simp
          have hids' : ∀ pb ∈ (st.drop (stack ++ [(current, b)]).length).dropLast, pb.2.bindId? ≠ some id := by
            intro pb hpb
            apply hids pb
            rw [hdrop, List.dropLast_cons_of_ne_nil hne]
            have : st.drop (stack ++ [(current, b)]).length = new := by rw [h1]; simp
            rw [this] at hpb
            exact List.mem_cons_of_mem _ hpb
          have := ih _ _ _ h hids'
          simp only [hb, Option.map_some, bindValue_updBind_ne id v b hbid, hval, updBind]
          simpa [updPair, updBind] using this
        · split at h <;> cases h


theorem walk_updBind (ln rr : Bool) (id : Nat) (v : Node) (ts : Node) (segs : List Text)
    (st : List (Node × Node))
    (h : walkAttrpathStack ts segs ln rr = .ok (some st))
    (hids : ∀ pb ∈ st.dropLast, pb.2.bindId? ≠ some id) :
    walkAttrpathStack (updBind id v ts) segs ln rr = .ok (some (st.map (updPair id v))) := by
  match segs, h with
  | [], h => simp only [walkAttrpathStack] at h; split at h <;> cases h
  | [_], h => simp only [walkAttrpathStack] at h; split at h <;> cases h
  | root :: s2 :: rest, h =>
    simp only [walkAttrpathStack, setValues_updBind, findAttrpathRoot_updBindL] at h ⊢
    split at h
    · split at h <;> cases h
    · rename_i rootB hroot
      split at h
      · rename_i sid vs o m r hval
        obtain ⟨new, h1, h2⟩ := go_append ln rr _ _ _ _ h
        have hne : new ≠ [] := by intro hn; simp [hn] at h2
        have hrid : rootB.bindId? ≠ some id := by
          apply hids (ts, rootB)
          rw [h1, List.singleton_append, List.dropLast_cons_of_ne_nil hne]
          simp
        have := go_updBind ln rr id v _ _ [(ts, rootB)] st h (by
          intro pb hpb
          apply hids pb
          rw [h1] at hpb ⊢
          rw [List.singleton_append, List.dropLast_cons_of_ne_nil hne]
          simp only [List.length_singleton, List.singleton_append, List.drop_succ_cons, List.drop_zero] at hpb
          exact List.mem_cons_of_mem _ hpb)
        simp only [hroot, Option.map_some, bindValue_updBind_ne id v rootB hrid, hval]
        simpa [updPair, updBind] using this
      · split at h <;> cases h

/-- after `leaf.value = v` the same path finds the same leaf object, now holding `v` -/
theorem findAttrpathLeaf_updBind (lid : Nat) (v : Node) (ts : Node) (segs : List Text)
    (pre : List (Node × Node)) (par : Node) (nm : Text) (ne : Bool) (val : Node) (bf af : Payload)
    (h : walkAttrpathStack ts segs false false = .ok (some (pre ++ [(par, .bind lid nm ne val bf af)])))
    (hids : ∀ pb ∈ pre, pb.2.bindId? ≠ some lid) :
    findAttrpathLeaf (updBind lid v ts) segs = some (.bind lid nm ne v bf af) := by
  unfold findAttrpathLeaf
  rw [walk_updBind false false lid v ts segs _ h (by simpa using hids)]
  simp [updPair, updBind]

theorem findAttrpathLeaf_of_walk (ts : Node) (segs : List Text) (pre : List (Node × Node)) (par leaf : Node)
    (h : walkAttrpathStack ts segs false false = .ok (some (pre ++ [(par, leaf)]))) :
    findAttrpathLeaf ts segs = some leaf := by
  unfold findAttrpathLeaf; rw [h]; simp

/-- `set p v` twice = once, attrpath leaf (`a.b.c = …;` families) -/
theorem set_set_idem_attrpath (d : Doc) (p : Text) (segs : List Text) (v : Node) (lid : Nat) (nm : Text)
    (ne : Bool) (val : Node) (bf af : Payload) (pre : List (Node × Node)) (par : Node)
    (hnt : d.noTarget = none) (hsp : splitScopeNpath p = .ok none)
    (hf : formatNPath currentAnchor p = .ok segs)
    (hw : walkAttrpathStack d.target segs false false =
      .ok (some (pre ++ [(par, .bind lid nm ne val bf af)])))
    (hids : ∀ pb ∈ pre, pb.2.bindId? ≠ some lid) :
    setValue p (.one v) (setValue p (.one v) d).2 = setValue p (.one v) d := by
  have hl := findAttrpathLeaf_of_walk _ _ _ _ _ hw
  rw [set_attrpath_leaf d p segs v lid nm ne val bf af hnt hsp hf hl]
  have hl' : findAttrpathLeaf (d.updBind lid v).target segs = some (.bind lid nm ne v bf af) :=
    findAttrpathLeaf_updBind lid v d.target segs pre par nm ne val bf af hw hids
  rw [set_attrpath_leaf (d.updBind lid v) p segs v lid nm ne v bf af (by simpa using hnt) hsp hf hl',
    Doc.updBind_idem]

end Nima
