import NimaVerif.Lemmas.DataReader
import NimaVerif.Model.ValueSpec
/-! Lemmas for C13: the token sequence of a value, parsing it, lexing the rendered text. -/
namespace Nima

/-! ## Token sequences of values (layout-independent) -/

def toksInt (i : Int) : List Tok :=
  if i < 0 then [.minus, .int i.natAbs] else [.int i.toNat]
def toksFloat (r : Text) : List Tok :=
  match r with
  | '-' :: t => [.minus, .float t]
  | t => [.float t]

/-! ## Signed float texts -/

theorem neg_text (t : Text) (h : isNegText t = true) : ∃ u, t = '-' :: u := by
  match t, h with
  | [], h => simp [isNegText] at h
  | c :: u, h =>
    by_cases hc : c = '-'
    · subst hc; exact ⟨u, rfl⟩
    · rw [isNegText.eq_2 _ (by intro t' ht; injection ht with h1 _; exact hc h1)] at h
      cases h

theorem pos_text (t : Text) (h : isNegText t = false) :
    unsignedRepr t = t ∧ toksFloat t = [.float t] ∧ floatData t = .float false (decValue t) := by
  match t, h with
  | [], _ => simp [unsignedRepr, toksFloat, floatData]
  | c :: u, h =>
    have hc : c ≠ '-' := by intro hc; subst hc; simp [isNegText] at h
    have hne : ∀ t', c :: u = '-' :: t' → False := by intro t' ht; injection ht with h1 _; exact hc h1
    exact ⟨unsignedRepr.eq_2 _ hne, toksFloat.eq_2 _ hne, floatData.eq_2 _ hne⟩

theorem head_isNegText (t : Text) : (t.head? == some '-') = isNegText t := by
  match t with
  | [] => rfl
  | c :: u =>
    by_cases hc : c = '-'
    · subst hc; rfl
    · rw [isNegText.eq_2 _ (by intro t' ht; injection ht with h1 _; exact hc h1)]
      simp [hc]

theorem isNegLiteral_float (r : Text) : isNegLiteral (.float r) = isNegText (floatLiteral r) := by
  simp only [isNegLiteral]; exact head_isNegText _

/-- What `floatLitOk` gives when the literal is negative: literal and repr are `-u`, `-v` with `u`, `v`
    denoting the same number. -/
theorem litOk_neg (r : Text) (h : floatLitOk r = true) (hneg : isNegText (floatLiteral r) = true) :
    ∃ u v, floatLiteral r = '-' :: u ∧ r = '-' :: v ∧ decValue u = decValue v ∧ isNixFloat u = true := by
  simp only [floatLitOk, Bool.and_eq_true, beq_iff_eq, decide_eq_true_eq] at h
  obtain ⟨⟨h1, h2⟩, h3⟩ := h
  obtain ⟨u, hu⟩ := neg_text _ hneg
  obtain ⟨v, hv⟩ := neg_text r (by rw [← h2]; exact hneg)
  refine ⟨u, v, hu, hv, ?_, ?_⟩
  · rw [hu] at h3; rw [hv] at h3; simpa [unsignedRepr] using h3
  · rw [hu] at h1; simpa [unsignedRepr] using h1

/-- What `floatLitOk` gives when the literal is not negative. -/
theorem litOk_pos (r : Text) (h : floatLitOk r = true) (hneg : isNegText (floatLiteral r) = false) :
    toksFloat (floatLiteral r) = [.float (floatLiteral r)] ∧
    floatData r = .float false (decValue (floatLiteral r)) ∧ isNixFloat (floatLiteral r) = true := by
  simp only [floatLitOk, Bool.and_eq_true, beq_iff_eq, decide_eq_true_eq] at h
  obtain ⟨⟨h1, h2⟩, h3⟩ := h
  have hr : isNegText r = false := by rw [← h2]; exact hneg
  obtain ⟨a1, a2, _⟩ := pos_text _ hneg
  obtain ⟨b1, _, b3⟩ := pos_text _ hr
  rw [a1] at h1 h3; rw [b1] at h3
  exact ⟨a2, by rw [b3, h3], h1⟩

mutual
def toksE : Elem → List Tok
  | .none => [.ident dNull]
  | .bool b => [.ident (if b then dTrue else dFalse)]
  | .int i => toksInt i
  | .float r => toksFloat (floatLiteral r)
  | .str s => [.str s]
  | .list xs => .lbrack :: (toksEs xs ++ [.rbrack])
/-- list items: a negative number literal stands in parentheses -/
def toksEs : List Elem → List Tok
  | [] => []
  | x :: xs => (if isNegLiteral x then .lparen :: (toksE x ++ [.rparen]) else toksE x) ++ toksEs xs
end

/-- the tokens of one list item -/
def toksItem (x : Elem) : List Tok :=
  if isNegLiteral x then .lparen :: (toksE x ++ [.rparen]) else toksE x

theorem toksEs_cons (x : Elem) (xs : List Elem) : toksEs (x :: xs) = toksItem x ++ toksEs xs := by
  simp [toksEs, toksItem]

mutual
def toksX : Expr → List Tok
  | .raw e => toksE e
  | .aset bs _ => .lbrace :: (toksBs bs ++ [.rbrace])
def toksBs : List (Text × Expr) → List Tok
  | [] => []
  | (k, v) :: rest => .ident k :: .eq :: (toksX v ++ .semi :: toksBs rest)
end

/-! ## Parsing the token sequence of a value -/

theorem toksE_length_pos : ∀ e : Elem, 0 < (toksE e).length
  | .none => by simp [toksE]
  | .bool _ => by simp [toksE]
  | .int i => by simp only [toksE, toksInt]; split <;> simp
  | .float r => by simp only [toksE, toksFloat]; split <;> simp
  | .str _ => by simp [toksE]
  | .list _ => by simp [toksE]

theorem toksItem_length_pos (x : Elem) : 0 < (toksItem x).length := by
  unfold toksItem; split
  · simp
  · exact toksE_length_pos x

theorem toksItem_ne_rbrack (x : Elem) (rest r : List Tok) : toksItem x ++ rest ≠ Tok.rbrack :: r := by
  unfold toksItem; split
  · simp
  · cases x <;> simp [toksE, toksInt, toksFloat] <;> (try split) <;> simp

/-- A negative number literal, in binding position or inside parentheses. -/
theorem pValue_neg (e : Elem) (n : Nat) (rest : List Tok) (h : elemReadable e = true)
    (hneg : isNegLiteral e = true) :
    pValue (n + 1) (toksE e ++ rest) = some (denoteE e, rest) := by
  cases e with
  | int i =>
    have hi : i < 0 := by simpa [isNegLiteral] using hneg
    simp only [toksE, toksInt, hi, if_true, List.cons_append, List.nil_append, pValue, denoteE]
    congr 3
    omega
  | float r =>
    rw [isNegLiteral_float] at hneg
    obtain ⟨u, v, hu, hv, hval, _⟩ := litOk_neg r (by simpa [elemReadable] using h) hneg
    simp only [toksE, denoteE, hu]
    subst hv
    simp [toksFloat, pValue, floatData, hval]
  | none => simp [isNegLiteral] at hneg
  | bool _ => simp [isNegLiteral] at hneg
  | str _ => simp [isNegLiteral] at hneg
  | list _ => simp [isNegLiteral] at hneg

/-- A parenthesised negative number literal is a list element. -/
theorem pElem_paren_neg (e : Elem) (n : Nat) (rest : List Tok) (h : elemReadable e = true)
    (hneg : isNegLiteral e = true) :
    pElem (n + 2) (.lparen :: (toksE e ++ [.rparen]) ++ rest) = some (denoteE e, rest) := by
  have := pValue_neg e n (.rparen :: rest) h hneg
  simp only [List.cons_append, List.append_assoc, List.nil_append, pElem]
  rw [this]; rfl

mutual
theorem pElem_toksE : ∀ (e : Elem) (n : Nat) (rest : List Tok), elemReadable e = true →
    isNegLiteral e = false →
    (toksE e).length ≤ n → pElem n (toksE e ++ rest) = some (denoteE e, rest)
  | .none, n, rest, _, _, hn => by
    cases n with
    | zero => simp [toksE] at hn
    | succ n => simp [toksE, pElem, denoteE, dNull, dTrue, dFalse]
  | .bool b, n, rest, _, _, hn => by
    cases n with
    | zero => simp [toksE] at hn
    | succ n => cases b <;> simp [toksE, pElem, denoteE, dTrue, dFalse]
  | .int i, n, rest, _, hneg, hn => by
    cases n with
    | zero => have := toksE_length_pos (.int i); omega
    | succ n =>
      have hi : ¬ i < 0 := by simpa [isNegLiteral] using hneg
      simp only [toksE, toksInt, hi, if_false, List.cons_append, List.nil_append, pElem, denoteE]
      congr 3
      omega
  | .float r, n, rest, h, hneg, hn => by
    cases n with
    | zero => have := toksE_length_pos (.float r); omega
    | succ n =>
      rw [isNegLiteral_float] at hneg
      obtain ⟨ht, hd, _⟩ := litOk_pos r (by simpa [elemReadable] using h) hneg
      simp [toksE, denoteE, ht, hd, pElem]
  | .str s, n, rest, _, _, hn => by
    cases n with
    | zero => simp [toksE] at hn
    | succ n => simp [toksE, pElem, denoteE]
  | .list xs, n, rest, h, _, hn => by
    cases n with
    | zero => simp [toksE] at hn
    | succ n =>
      simp only [elemReadable] at h
      simp only [toksE, List.length_cons, List.length_append, List.length_nil] at hn
      have := pElems_toksEs xs n rest h (by omega)
      simp only [toksE, List.cons_append, List.append_assoc, List.nil_append, pElem, denoteE]
      rw [this]; rfl
theorem pElems_toksEs : ∀ (xs : List Elem) (n : Nat) (rest : List Tok), elemsReadable xs = true →
    (toksEs xs).length + 1 ≤ n → pElems n (toksEs xs ++ .rbrack :: rest) = some (denoteEs xs, rest)
  | [], n, rest, _, hn => by
    cases n with
    | zero => simp at hn
    | succ n => simp [toksEs, pElems, denoteEs]
  | x :: xs, n, rest, h, hn => by
    cases n with
    | zero => simp at hn
    | succ n =>
      simp only [elemsReadable, Bool.and_eq_true] at h
      rw [toksEs_cons] at hn ⊢
      simp only [List.length_append] at hn
      have hpos := toksItem_length_pos x
      have h2 := pElems_toksEs xs n rest h.2 (by omega)
      have h1 : pElem n (toksItem x ++ (toksEs xs ++ .rbrack :: rest)) =
          some (denoteE x, toksEs xs ++ .rbrack :: rest) := by
        by_cases hneg : isNegLiteral x = true
        · have hlen : (toksItem x).length = (toksE x).length + 2 := by simp [toksItem, hneg]
          have hp := toksE_length_pos x
          obtain ⟨m, rfl⟩ : ∃ m, n = m + 2 := ⟨n - 2, by omega⟩
          simp only [toksItem, hneg, if_true]
          exact pElem_paren_neg x m _ h.1 hneg
        · have hneg' : isNegLiteral x = false := by simpa using hneg
          have hlen : (toksItem x).length = (toksE x).length := by simp [toksItem, hneg']
          simp only [toksItem, hneg', Bool.false_eq_true, if_false]
          exact pElem_toksE x n _ h.1 hneg' (by omega)
      simp only [List.append_assoc, denoteEs]
      rw [pElems]
      · simp [h1, h2]
      · intro r heq; exact absurd heq (toksItem_ne_rbrack x _ r)
end

/-- In binding position (and inside parentheses) a negative number is accepted as well. -/
theorem pValue_toksE (e : Elem) (n : Nat) (rest : List Tok) (h : elemReadable e = true)
    (hn : (toksE e).length + 1 ≤ n) : pValue n (toksE e ++ rest) = some (denoteE e, rest) := by
  cases n with
  | zero => simp at hn
  | succ n =>
    by_cases hneg : isNegLiteral e = true
    · exact pValue_neg e n rest h hneg
    · have hneg' : isNegLiteral e = false := by simpa using hneg
      have hpos := toksE_length_pos e
      have hp := pElem_toksE e n rest h hneg' (by omega)
      rw [pValue]
      · exact hp
      all_goals
        intros
        cases e with
        | int i =>
          have hi : ¬ i < 0 := by simpa [isNegLiteral] using hneg'
          simp [toksE, toksInt, hi] at *
        | float r =>
          rw [isNegLiteral_float] at hneg'
          have ht := (litOk_pos r (by simpa [elemReadable] using h) hneg').1
          simp [toksE, ht] at *
        | _ => simp [toksE] at *

theorem denoteBs_keys : ∀ bs : List (Text × Expr), (denoteBs bs).map (·.1) = bs.map (·.1)
  | [] => by simp [denoteBs]
  | (k, v) :: rest => by simp [denoteBs, denoteBs_keys rest]

mutual
theorem pValue_toksX : ∀ (x : Expr) (n : Nat) (rest : List Tok), exprReadable x = true →
    (toksX x).length + 1 ≤ n → pValue n (toksX x ++ rest) = some (denoteX x, rest)
  | .raw e, n, rest, h, hn => by
    simp only [exprReadable] at h
    simp only [toksX] at hn ⊢
    exact pValue_toksE e n rest h hn
  | .aset bs ml, n, rest, h, hn => by
    simp only [exprReadable, Bool.and_eq_true] at h
    simp only [toksX, List.length_cons, List.length_append, List.length_nil] at hn
    match n, hn with
    | n + 2, hn =>
      have hb := pBinds_toksBs bs n rest h.2 (by omega)
      simp only [toksX, List.cons_append, List.append_assoc, List.nil_append, pValue, pElem, denoteX]
      rw [hb]
      simp [denoteBs_keys, h.1]
theorem pBinds_toksBs : ∀ (bs : List (Text × Expr)) (n : Nat) (rest : List Tok), bsReadable bs = true →
    (toksBs bs).length + 1 ≤ n → pBinds n (toksBs bs ++ .rbrace :: rest) = some (denoteBs bs, rest)
  | [], n, rest, _, hn => by
    cases n with
    | zero => simp at hn
    | succ n => simp [toksBs, pBinds, denoteBs]
  | (k, v) :: bs, n, rest, h, hn => by
    cases n with
    | zero => simp at hn
    | succ n =>
      simp only [bsReadable, Bool.and_eq_true] at h
      simp only [toksBs, List.length_cons, List.length_append] at hn
      have hv := pValue_toksX v n (.semi :: (toksBs bs ++ .rbrace :: rest)) h.1.2 (by omega)
      have hr := pBinds_toksBs bs n rest h.2 (by omega)
      simp only [toksBs, List.cons_append, List.append_assoc, pBinds, h.1.1, if_true, denoteBs]
      rw [hv]
      simp [hr]
end

/-! ## Lexing the rendered text of scalars and lists -/

theorem litEnd_identEnd (rest : Text) (h : litEnd rest = true) : identEnd rest = true := by
  cases rest with
  | nil => rfl
  | cons c r => simp only [litEnd, identEnd] at h ⊢; simp [h]

theorem map_map_append (o : Option (List Tok)) (a b : List Tok) :
    (o.map (b ++ ·)).map (a ++ ·) = o.map ((a ++ b) ++ ·) := by
  cases o <;> simp

theorem lex_addTrivia (s : Text) (i : Nat) (inl : Bool) (rest : Text) :
    lexData (addTrivia s i inl ++ rest) = lexData (s ++ rest) := by
  cases inl with
  | true => simp [addTrivia]
  | false => simp only [addTrivia, Bool.false_eq_true, if_false, List.append_assoc]; exact lexData_spaces _ _

theorem lex_indentor (i : Nat) (inl : Bool) (s : Text) :
    lexData ((if inl = true then [] else spaces i) ++ s) = lexData s := by
  cases inl with
  | true => simp
  | false => simp only [Bool.false_eq_true, if_false]; exact lexData_spaces _ _

theorem lex_scalar_int (i : Int) (rest : Text) (h : i.natAbs ≤ nixIntMax) (he : litEnd rest = true) :
    lexData (pyIntStr i ++ rest) = (lexData rest).map (toksInt i ++ ·) := by
  unfold pyIntStr toksInt
  by_cases hi : i < 0
  · simp only [hi, if_true, List.cons_append]
    rw [lexData_minus, lexData_int _ _ h he]
    cases lexData rest <;> simp
  · simp only [hi, if_false]
    rw [lexData_int _ _ (by omega) he]
    rfl

theorem lex_scalar_float (r : Text) (rest : Text) (h : isNixFloat (unsignedRepr r) = true)
    (he : litEnd rest = true) : lexData (r ++ rest) = (lexData rest).map (toksFloat r ++ ·) := by
  match r with
  | '-' :: t =>
    simp only [unsignedRepr] at h
    simp only [toksFloat, List.cons_append]
    rw [lexData_minus, lexData_float _ _ h he]
    cases lexData rest <;> simp
  | [] => simp [unsignedRepr, isNixFloat] at h
  | c :: t =>
    by_cases hc : c = '-'
    · subst hc
      simp only [unsignedRepr] at h
      simp only [toksFloat, List.cons_append]
      rw [lexData_minus, lexData_float _ _ h he]
      cases lexData rest <;> simp
    · rw [unsignedRepr.eq_2 _ (by intro t' ht; injection ht with h1 _; exact hc h1)] at h
      rw [toksFloat.eq_2 _ (by intro t' ht; injection ht with h1 _; exact hc h1)]
      rw [lexData_float _ _ h he]
      rfl


theorem litEnd_ws (c : Char) (s : Text) (h : isWs c = true) : litEnd (c :: s) = true := by
  simp [litEnd, h]

/-- one list item, given how the item itself lexes: a negative number literal stands in parentheses -/
theorem lex_item (x : Elem) (i : Nat) (inl : Bool) (rest : Text) (he : litEnd rest = true)
    (hx : ∀ (inl' : Bool) (rest' : Text), litEnd rest' = true →
      lexData (renderElem x i inl' ++ rest') = (lexData rest').map (toksE x ++ ·)) :
    lexData ((if isNegLiteral x = true then parenText (renderElem x i true) i inl else renderElem x i inl) ++ rest) =
      (lexData rest).map (toksItem x ++ ·) := by
  unfold toksItem
  by_cases hneg : isNegLiteral x = true
  · simp only [hneg, if_true, parenText]
    rw [lex_addTrivia]
    simp only [List.cons_append, List.append_assoc, List.nil_append]
    rw [lexData_lparen, hx true _ (by simp [litEnd]), lexData_rparen]
    cases lexData rest <;> simp
  · simp only [hneg, Bool.false_eq_true, if_false]
    exact hx inl rest he

mutual
theorem lex_renderElem : ∀ (e : Elem) (i : Nat) (inl : Bool) (rest : Text),
    elemReadable e = true → litEnd rest = true →
    lexData (renderElem e i inl ++ rest) = (lexData rest).map (toksE e ++ ·)
  | .none, i, inl, rest, _, he => by
    rw [renderElem, lex_addTrivia, litNull, lexData_ident _ _ (by decide) (litEnd_identEnd _ he)]
    rfl
  | .bool v, i, inl, rest, _, he => by
    rw [renderElem, lex_addTrivia]
    cases v
    · simp only [Bool.false_eq_true, if_false, litFalse]
      rw [lexData_ident _ _ (by decide) (litEnd_identEnd _ he)]; rfl
    · simp only [if_true, litTrue]
      rw [lexData_ident _ _ (by decide) (litEnd_identEnd _ he)]; rfl
  | .int n, i, inl, rest, h, he => by
    simp only [elemReadable, decide_eq_true_eq] at h
    rw [renderElem, lex_addTrivia, lex_scalar_int _ _ h he]; rfl
  | .float r, i, inl, rest, h, he => by
    simp only [elemReadable, floatLitOk, Bool.and_eq_true] at h
    rw [renderElem, lex_addTrivia, lex_scalar_float _ _ h.1.1 he]; rfl
  | .str s, i, inl, rest, h, he => by
    simp only [elemReadable, Bool.not_eq_true'] at h
    rw [renderElem, lex_addTrivia]
    simp only [stringQuotes, stringEscapesInterpolation, List.cons_append, List.nil_append, List.append_assoc]
    have := lexData_str s rest h he
    simp only [List.cons_append] at this
    rw [this]; rfl
  | .list xs, i, inl, rest, h, he => by
    simp only [elemReadable] at h
    match xs, h with
    | [], _ =>
      simp only [renderElem, List.isEmpty_nil, if_true, List.append_assoc]
      rw [lex_indentor]
      show lexData ('[' :: ' ' :: ']' :: rest) = _
      rw [lexData_lbrack, lexData_ws _ _ (by decide), lexData_rbrack]
      cases lexData rest <;> simp [toksE, toksEs]
    | x :: xs', h =>
      simp only [renderElem, List.isEmpty_cons, Bool.false_eq_true, if_false]
      generalize autoMultiline (x :: xs').length (anyItemNl (x :: xs')) i inl = m
      cases m with
      | true =>
        simp only [listText, if_true, List.append_assoc, List.cons_append, List.nil_append, Bool.not_true]
        rw [lex_indentor, lexData_lbrack, lexData_ws _ _ (by decide)]
        generalize endsNl (joinWith ['\n'] (renderItems (x :: xs') (i + 2) false)) = en
        have htail : litEnd ((if en = true then [] else ['\n']) ++ (spaces i ++ ']' :: rest)) = true := by
          cases en
          · simp [litEnd, isWs]
          · cases i with
            | zero => simp [spaces, litEnd]
            | succ i => simp [spaces, List.replicate_succ, litEnd, isWs]
        rw [lex_renderItems (x :: xs') (i + 2) false '\n' _ h (by simp) (by decide) htail]
        have hclose : lexData ((if en = true then [] else ['\n']) ++ (spaces i ++ ']' :: rest)) =
            (lexData rest).map (Tok.rbrack :: ·) := by
          cases en
          · simp only [Bool.false_eq_true, if_false, List.cons_append, List.nil_append]
            rw [lexData_ws _ _ (by decide), lexData_spaces]; exact lexData_rbrack rest
          · simp only [if_true, List.nil_append]
            rw [lexData_spaces]; exact lexData_rbrack rest
        rw [hclose]
        cases lexData rest <;> simp [toksE]
      | false =>
        simp only [listText, Bool.false_eq_true, if_false, List.append_assoc, List.cons_append, List.nil_append, Bool.not_false]
        rw [lex_indentor, lexData_lbrack, lexData_ws _ _ (by decide)]
        rw [lex_renderItems (x :: xs') i true ' ' _ h (by simp) (by decide) (by simp [litEnd, isWs])]
        rw [lexData_ws _ _ (by decide), lexData_rbrack]
        cases lexData rest <;> simp [toksE]
theorem lex_renderItems : ∀ (xs : List Elem) (i : Nat) (inl : Bool) (sep : Char) (tail : Text),
    elemsReadable xs = true → xs ≠ [] → isWs sep = true → litEnd tail = true →
    lexData (joinWith [sep] (renderItems xs i inl) ++ tail) = (lexData tail).map (toksEs xs ++ ·)
  | [], _, _, _, _, _, hne, _, _ => absurd rfl hne
  | [x], i, inl, sep, tail, h, _, _, ht => by
    simp only [elemsReadable, Bool.and_eq_true] at h
    rw [toksEs_cons]
    simp only [renderItems, joinWith, toksEs, List.append_nil]
    exact lex_item x i inl tail ht (fun inl' rest' hr => lex_renderElem x i inl' rest' h.1 hr)
  | x :: y :: r, i, inl, sep, tail, h, _, hs, ht => by
    simp only [elemsReadable, Bool.and_eq_true] at h
    have hyr : elemsReadable (y :: r) = true := by simp [elemsReadable, h.2]
    have ih := lex_renderItems (y :: r) i inl sep tail hyr (by simp) hs ht
    rw [toksEs_cons]
    simp only [renderItems, joinWith, List.append_assoc, List.cons_append, List.nil_append] at ih ⊢
    rw [lex_item x i inl _ (litEnd_ws sep _ hs) (fun inl' rest' hr => lex_renderElem x i inl' rest' h.1 hr),
      lexData_ws _ _ hs, ih]
    cases lexData tail <;> simp
end

/-! ## Rendered values never end with a newline (so `Binding.rebuild`'s `rstrip("\n")` is idle) -/

def LastOK (t : Text) : Prop := ∃ init c, t = init ++ [c] ∧ c ≠ '\n'

theorem LastOK.endsNl {t : Text} (h : LastOK t) : endsNl t = false := by
  obtain ⟨init, c, rfl, hc⟩ := h
  unfold Nima.endsNl
  rw [List.getLast?_concat]
  simpa using hc

theorem LastOK.prepend {t : Text} (p : Text) (h : LastOK t) : LastOK (p ++ t) := by
  obtain ⟨init, c, rfl, hc⟩ := h
  exact ⟨p ++ init, c, by simp, hc⟩

theorem LastOK.of_mem {t : Text} (hne : t ≠ []) (h : ∀ a ∈ t, a ≠ '\n') : LastOK t :=
  ⟨t.dropLast, t.getLast hne, (List.dropLast_concat_getLast hne).symm, h _ (List.getLast_mem hne)⟩

theorem LastOK.snoc (t : Text) (c : Char) (hc : c ≠ '\n') : LastOK (t ++ [c]) := ⟨t, c, rfl, hc⟩

theorem isNumChar_ne_nl (a : Char) (h : isNumChar a = true) : a ≠ '\n' := by
  intro ha; subst ha; revert h; decide

theorem lastOK_pyIntStr (i : Int) : LastOK (pyIntStr i) := by
  unfold pyIntStr
  have hd : ∀ n, LastOK (Nat.toDigits 10 n) := fun n =>
    LastOK.of_mem Nat.toDigits_ne_nil (fun a ha => isNumChar_ne_nl a (isNumChar_of_digit a (toDigits_all_digit n a ha)))
  split
  · exact LastOK.prepend ['-'] (hd _)
  · exact hd _

theorem lastOK_float (r : Text) (h : isNixFloat (unsignedRepr r) = true) : LastOK r := by
  have hu : ∀ t, isNixFloat t = true → LastOK t := by
    intro t ht
    obtain ⟨⟨c, cs, rfl, _⟩, hall, _⟩ := isNixFloat_props t ht
    exact LastOK.of_mem (by simp) (fun a ha => isNumChar_ne_nl a (hall a ha))
  match r with
  | '-' :: t => exact LastOK.prepend ['-'] (hu t (by simpa [unsignedRepr] using h))
  | [] => simp [unsignedRepr, isNixFloat] at h
  | c :: t =>
    by_cases hc : c = '-'
    · subst hc; exact LastOK.prepend ['-'] (hu t (by simpa [unsignedRepr] using h))
    · rw [unsignedRepr.eq_2 _ (by intro t' ht; injection ht with h1 _; exact hc h1)] at h
      exact hu _ h

theorem lastOK_listText (m : Bool) (items : List Text) (i : Nat) (inl : Bool) : LastOK (listText m items i inl) := by
  cases m
  · simp only [listText, Bool.false_eq_true, if_false]
    exact ⟨(if inl = true then [] else spaces i) ++ '[' :: ' ' :: joinWith [' '] items ++ [' '], ']', by simp, by decide⟩
  · simp only [listText, if_true]
    exact ⟨(if inl = true then [] else spaces i) ++ '[' :: '\n' :: joinWith ['\n'] items ++
      (if endsNl (joinWith ['\n'] items) = true then [] else ['\n']) ++ spaces i, ']', by simp, by decide⟩

theorem lastOK_renderElem (e : Elem) (i : Nat) (inl : Bool) (h : elemReadable e = true) :
    LastOK (renderElem e i inl) := by
  cases e with
  | none => rw [renderElem]; exact LastOK.prepend _ ⟨['n', 'u', 'l'], 'l', rfl, by decide⟩
  | bool v =>
    rw [renderElem]
    cases v
    · exact LastOK.prepend _ ⟨['f', 'a', 'l', 's'], 'e', rfl, by decide⟩
    · exact LastOK.prepend _ ⟨['t', 'r', 'u'], 'e', rfl, by decide⟩
  | int n => rw [renderElem]; exact LastOK.prepend _ (lastOK_pyIntStr n)
  | float r =>
    simp only [elemReadable, floatLitOk, Bool.and_eq_true] at h
    rw [renderElem]; exact LastOK.prepend _ (lastOK_float _ h.1.1)
  | str s =>
    rw [renderElem]
    exact LastOK.prepend _ ⟨'"' :: escapeNix false s, '"', by simp [stringQuotes, stringEscapesInterpolation], by decide⟩
  | list xs =>
    rw [renderElem]
    simp only
    split
    · exact LastOK.prepend _ ⟨['[', ' '], ']', rfl, by decide⟩
    · exact lastOK_listText _ _ _ _

theorem lastOK_renderExpr (x : Expr) (i : Nat) (inl : Bool) (h : exprReadable x = true) :
    LastOK (renderExpr x i inl) := by
  cases x with
  | raw e => rw [renderExpr]; exact lastOK_renderElem e i inl (by simpa [exprReadable] using h)
  | aset bs ml =>
    rw [renderExpr]
    split
    · exact LastOK.prepend _ ⟨['{', ' '], '}', rfl, by decide⟩
    · cases ml
      · simp only [setText, Bool.false_eq_true, if_false]
        exact LastOK.prepend _ ⟨'{' :: ' ' :: joinWith [' '] (renderBindings bs (i + 2) true) ++ [' '], '}', by simp, by decide⟩
      · simp only [setText, if_true]
        exact ⟨(if inl = true then [] else spaces i) ++ '{' :: '\n' :: joinWith ['\n'] (renderBindings bs (i + 2) false) ++
          (if endsNl (joinWith ['\n'] (renderBindings bs (i + 2) false)) = true then [] else ['\n']) ++ spaces i, '}',
          by simp, by decide⟩

/-! ## Lexing bindings and attribute sets -/

theorem lex_preview : ∀ (xs : List Elem) (i : Nat) (p rest : Text), simpleInlinePreview xs i = some p →
    elemsReadable xs = true → litEnd rest = true →
    lexData (p ++ rest) = (lexData rest).map (toksE (.list xs) ++ ·) ∧ LastOK p
  | [], i, p, rest, hp, _, he => by
    have : p = ['[', ' ', ']'] := by
      simp only [simpleInlinePreview, List.length_nil, List.isEmpty_nil, if_true] at hp
      split at hp
      · cases hp
      · split at hp
        · cases hp
        · injection hp with hp; exact hp.symm
    subst this
    refine ⟨?_, ⟨['[', ' '], ']', rfl, by decide⟩⟩
    show lexData ('[' :: ' ' :: ']' :: rest) = _
    rw [lexData_lbrack, lexData_ws _ _ (by decide), lexData_rbrack]
    cases lexData rest <;> simp [toksE, toksEs]
  | x :: xs', i, p, rest, hp, h, he => by
    have : p = '[' :: ' ' :: joinWith [' '] (renderItems (x :: xs') i true) ++ [' ', ']'] := by
      simp only [simpleInlinePreview, List.isEmpty_cons, Bool.false_eq_true, if_false] at hp
      split at hp
      · cases hp
      · split at hp
        · cases hp
        · injection hp with hp; exact hp.symm
    subst this
    refine ⟨?_, ⟨'[' :: ' ' :: joinWith [' '] (renderItems (x :: xs') i true) ++ [' '], ']', by simp, by decide⟩⟩
    simp only [List.append_assoc, List.cons_append, List.nil_append]
    rw [lexData_lbrack, lexData_ws _ _ (by decide)]
    rw [lex_renderItems (x :: xs') i true ' ' _ h (by simp) (by decide) (by simp [litEnd, isWs])]
    rw [lexData_ws _ _ (by decide), lexData_rbrack]
    cases lexData rest <;> simp [toksE]

theorem isDataKey_ident (k : Text) (h : isDataKey k = true) : isNixIdent k = true := by
  simp only [isDataKey, Bool.and_eq_true] at h; exact h.1

/-- the assembly `name = value;` once the value string is known to lex to `toks` -/
theorem lex_bindingText (k vs : Text) (toks : List Tok) (i : Nat) (inl : Bool) (rest : Text)
    (hk : isDataKey k = true) (hlast : LastOK vs)
    (hlex : ∀ rest', litEnd rest' = true → lexData (vs ++ rest') = (lexData rest').map (toks ++ ·)) :
    lexData (bindingText k vs i inl ++ rest) =
      (lexData rest).map ((Tok.ident k :: Tok.eq :: (toks ++ [Tok.semi])) ++ ·) := by
  unfold bindingText
  have hen := hlast.endsNl
  simp only [hen, Bool.false_eq_true, if_false, List.append_assoc, List.cons_append, List.nil_append]
  rw [lex_indentor, lexData_ident k _ (isDataKey_ident k hk) (by simp [identEnd, isWs]),
    lexData_ws _ _ (by decide), lexData_eq, lexData_ws _ _ (by decide),
    hlex _ (by simp [litEnd]), lexData_semi]
  cases lexData rest <;> simp

theorem lex_bindingCore (k : Text) (v : Expr) (i : Nat) (inl : Bool) (rest : Text)
    (hk : isDataKey k = true) (hv : exprReadable v = true)
    (ih : ∀ rest', litEnd rest' = true →
      lexData (renderExpr v i true ++ rest') = (lexData rest').map (toksX v ++ ·)) :
    lexData (bindingCore k v (renderExpr v i true) i inl ++ rest) =
      (lexData rest).map ((Tok.ident k :: Tok.eq :: (toksX v ++ [Tok.semi])) ++ ·) := by
  unfold bindingCore
  have hdef := lex_bindingText k (renderExpr v i true) (toksX v) i inl rest hk (lastOK_renderExpr v i true hv) ih
  cases v with
  | aset bs ml => exact hdef
  | raw e =>
    cases e with
    | list xs =>
      simp only [bindingValueStr]
      cases hp : simpleInlinePreview xs i with
      | none => exact hdef
      | some p =>
        have hx : elemsReadable xs = true := by simpa [exprReadable, elemReadable] using hv
        exact lex_bindingText k p _ i inl rest hk (lex_preview xs i p [] hp hx rfl).2
          (fun rest' hr => by simpa [toksX] using (lex_preview xs i p rest' hp hx hr).1)
    | none => exact hdef
    | bool _ => exact hdef
    | int _ => exact hdef
    | float _ => exact hdef
    | str _ => exact hdef


mutual
theorem lex_renderExpr : ∀ (x : Expr) (i : Nat) (inl : Bool) (rest : Text),
    exprReadable x = true → litEnd rest = true →
    lexData (renderExpr x i inl ++ rest) = (lexData rest).map (toksX x ++ ·)
  | .raw e, i, inl, rest, h, he => by
    simp only [exprReadable] at h
    simp only [renderExpr, toksX]
    exact lex_renderElem e i inl rest h he
  | .aset [] ml, i, inl, rest, _, he => by
    simp only [renderExpr, List.isEmpty_nil, if_true]
    rw [lex_addTrivia]
    show lexData ('{' :: ' ' :: '}' :: rest) = _
    rw [lexData_lbrace, lexData_ws _ _ (by decide), lexData_rbrace]
    cases lexData rest <;> simp [toksX, toksBs]
  | .aset (kv :: bs) ml, i, inl, rest, h, he => by
    simp only [exprReadable, Bool.and_eq_true] at h
    simp only [renderExpr, List.isEmpty_cons, Bool.false_eq_true, if_false]
    cases ml with
    | true =>
      simp only [setText, if_true, List.append_assoc, List.cons_append, List.nil_append]
      rw [lex_indentor, lexData_lbrace, lexData_ws _ _ (by decide)]
      rw [lex_renderBindings (kv :: bs) (i + 2) false '\n' _ h.2 (by simp) (by decide)]
      generalize endsNl (joinWith ['\n'] (renderBindings (kv :: bs) (i + 2) false)) = en
      have hclose : lexData ((if en = true then [] else ['\n']) ++ (spaces i ++ '}' :: rest)) =
          (lexData rest).map (Tok.rbrace :: ·) := by
        cases en
        · simp only [Bool.false_eq_true, if_false, List.cons_append, List.nil_append]
          rw [lexData_ws _ _ (by decide), lexData_spaces]; exact lexData_rbrace rest
        · simp only [if_true, List.nil_append]
          rw [lexData_spaces]; exact lexData_rbrace rest
      rw [hclose]
      cases lexData rest <;> simp [toksX]
    | false =>
      simp only [setText, Bool.false_eq_true, if_false]
      rw [lex_addTrivia]
      simp only [List.append_assoc, List.cons_append, List.nil_append]
      rw [lexData_lbrace, lexData_ws _ _ (by decide)]
      rw [lex_renderBindings (kv :: bs) (i + 2) true ' ' _ h.2 (by simp) (by decide)]
      rw [lexData_ws _ _ (by decide), lexData_rbrace]
      cases lexData rest <;> simp [toksX]
theorem lex_renderBindings : ∀ (bs : List (Text × Expr)) (i : Nat) (inl : Bool) (sep : Char) (tail : Text),
    bsReadable bs = true → bs ≠ [] → isWs sep = true →
    lexData (joinWith [sep] (renderBindings bs i inl) ++ tail) = (lexData tail).map (toksBs bs ++ ·)
  | [], _, _, _, _, _, hne, _ => absurd rfl hne
  | [(k, v)], i, inl, sep, tail, h, _, _ => by
    simp only [bsReadable, Bool.and_eq_true] at h
    simp only [renderBindings, joinWith, toksBs]
    rw [lex_bindingCore k v i inl tail h.1.1 h.1.2 (fun rest' hr => lex_renderExpr v i true rest' h.1.2 hr)]
  | (k, v) :: kv2 :: r, i, inl, sep, tail, h, _, hs => by
    rw [bsReadable] at h
    simp only [Bool.and_eq_true] at h
    have hyr : bsReadable (kv2 :: r) = true := h.2
    have ih := lex_renderBindings (kv2 :: r) i inl sep tail hyr (by simp) hs
    simp only [renderBindings, joinWith, List.append_assoc, List.cons_append, List.nil_append] at ih ⊢
    rw [lex_bindingCore k v i inl _ h.1.1 h.1.2 (fun rest' hr => lex_renderExpr v i true rest' h.1.2 hr),
      lexData_ws _ _ hs, ih]
    cases lexData tail <;> simp [toksBs]
end

/-- `Binding(name, value).rebuild(indent, inline)` -/
theorem lex_renderBinding (k : Text) (v : Expr) (i : Nat) (inl : Bool) (rest : Text)
    (hk : isDataKey k = true) (hv : exprReadable v = true) :
    lexData (renderBinding k v i inl ++ rest) =
      (lexData rest).map ((Tok.ident k :: Tok.eq :: (toksX v ++ [Tok.semi])) ++ ·) :=
  lex_bindingCore k v i inl rest hk hv (fun rest' hr => lex_renderExpr v i true rest' hv hr)

/-! ## From Python values to what the constructed objects hold -/

theorem bindAll_keys : ∀ kvs : List (Text × PyVal), (bindAll kvs).map (·.1) = kvs.map (·.1)
  | [] => by simp [bindAll]
  | (k, v) :: rest => by simp [bindAll, bindAll_keys rest]

mutual
theorem bindValue_readable : ∀ v : PyVal, valReadable v = true → exprReadable (bindValue v) = true
  | .elem e, h => by simpa [bindValue, exprReadable, valReadable] using h
  | .dict kvs, h => by
    simp only [valReadable, Bool.and_eq_true] at h
    simp only [bindValue, exprReadable, Bool.and_eq_true, bindAll_keys]
    exact ⟨h.1, bindAll_readable kvs h.2⟩
theorem bindAll_readable : ∀ kvs : List (Text × PyVal), kvsReadable kvs = true → bsReadable (bindAll kvs) = true
  | [], _ => by simp [bindAll, bsReadable]
  | (k, v) :: rest, h => by
    simp only [kvsReadable, Bool.and_eq_true] at h
    simp only [bindAll, bsReadable, Bool.and_eq_true]
    exact ⟨⟨h.1.1, bindValue_readable v h.1.2⟩, bindAll_readable rest h.2⟩
end

mutual
theorem denoteX_bindValue : ∀ v : PyVal, denoteX (bindValue v) = denote v
  | .elem e => by simp [bindValue, denoteX, denote]
  | .dict kvs => by simp [bindValue, denoteX, denote, denoteBs_bindAll kvs]
theorem denoteBs_bindAll : ∀ kvs : List (Text × PyVal), denoteBs (bindAll kvs) = denoteKvs kvs
  | [] => by simp [bindAll, denoteBs, denoteKvs]
  | (k, v) :: rest => by simp [bindAll, denoteBs, denoteKvs, denoteX_bindValue v, denoteBs_bindAll rest]
end

theorem fromDict_eq (d : List (Text × PyVal)) : fromDict d = bindValue (.dict d) := by
  simp [fromDict, bindValue]

theorem valuesCtor_eq (d : List (Text × PyVal)) : valuesCtor d = fromDict d := by
  simp only [valuesCtor, fromDict, Bool.true_and]
  by_cases h : d.length = singleBindingCount <;> simp [h]

/-! ## Item assignment -/

theorem contains_eq_false {ks : List Text} {k : Text} : ks.contains k = false ↔ k ∉ ks := by
  simp

theorem replaceFirst_none : ∀ (bs : List (Text × Expr)) (k : Text) (x : Expr),
    replaceFirst k x bs = none → k ∉ bs.map (·.1)
  | [], _, _, _ => by simp
  | (k', y) :: rest, k, x, h => by
    simp only [replaceFirst] at h
    split at h
    · cases h
    · rename_i hk
      simp only [Option.map_eq_none_iff] at h
      have := replaceFirst_none rest k x h
      simp only [List.map_cons, List.mem_cons, not_or]
      exact ⟨fun hc => hk hc.symm, this⟩

theorem replaceFirst_some : ∀ (bs bs' : List (Text × Expr)) (k : Text) (x : Expr),
    replaceFirst k x bs = some bs' →
    bs'.map (·.1) = bs.map (·.1) ∧
    (exprReadable x = true → bsReadable bs = true → bsReadable bs' = true) ∧
    denoteBs bs' = dictSet (denoteBs bs) k (denoteX x)
  | [], _, _, _, h => by simp [replaceFirst] at h
  | (k', y) :: rest, bs', k, x, h => by
    simp only [replaceFirst] at h
    split at h
    · rename_i hk
      injection h with h; subst h
      refine ⟨by simp, ?_, by simp [denoteBs, dictSet, hk]⟩
      intro hx hb
      simp only [bsReadable, Bool.and_eq_true] at hb ⊢
      exact ⟨⟨hb.1.1, hx⟩, hb.2⟩
    · rename_i hk
      simp only [Option.map_eq_some_iff] at h
      obtain ⟨r', hr', rfl⟩ := h
      obtain ⟨h1, h2, h3⟩ := replaceFirst_some rest r' k x hr'
      refine ⟨by simp [h1], ?_, by simp [denoteBs, dictSet, hk, h3]⟩
      intro hx hb
      simp only [bsReadable, Bool.and_eq_true] at hb ⊢
      exact ⟨hb.1, h2 hx hb.2⟩

theorem keysNodup_append : ∀ (ks : List Text) (k : Text), keysNodup ks = true → k ∉ ks →
    keysNodup (ks ++ [k]) = true
  | [], k, _, _ => by simp [keysNodup]
  | a :: ks, k, h, hk => by
    simp only [keysNodup, Bool.and_eq_true, Bool.not_eq_true', List.contains_eq_mem, decide_eq_false_iff_not] at h
    simp only [List.mem_cons, not_or] at hk
    simp only [List.cons_append, keysNodup, Bool.and_eq_true, Bool.not_eq_true', List.contains_eq_mem,
      decide_eq_false_iff_not, List.mem_append, List.mem_singleton, not_or]
    exact ⟨⟨h.1, fun hc => hk.1 hc.symm⟩, keysNodup_append ks k h.2 hk.2⟩

theorem bsReadable_append : ∀ (bs : List (Text × Expr)) (k : Text) (x : Expr), bsReadable bs = true →
    isDataKey k = true → exprReadable x = true → bsReadable (bs ++ [(k, x)]) = true
  | [], k, x, _, hk, hx => by simp [bsReadable, hk, hx]
  | (k', y) :: rest, k, x, hb, hk, hx => by
    simp only [bsReadable, Bool.and_eq_true] at hb
    simp only [List.cons_append, bsReadable, Bool.and_eq_true]
    exact ⟨hb.1, bsReadable_append rest k x hb.2 hk hx⟩

theorem denoteBs_append : ∀ (bs : List (Text × Expr)) (k : Text) (x : Expr), k ∉ bs.map (·.1) →
    denoteBs (bs ++ [(k, x)]) = dictSet (denoteBs bs) k (denoteX x)
  | [], k, x, _ => by simp [denoteBs, dictSet]
  | (k', y) :: rest, k, x, hk => by
    simp only [List.map_cons, List.mem_cons, not_or] at hk
    have hne : ¬ k' = k := fun hc => hk.1 hc.symm
    simp [denoteBs, dictSet, hne, denoteBs_append rest k x hk.2]

theorem setItem_spec (bs : List (Text × Expr)) (ml : Bool) (k : Text) (v : PyVal)
    (hs : exprReadable (.aset bs ml) = true) (hk : isDataKey k = true) (hv : valReadable v = true) :
    exprReadable (setItem (.aset bs ml) k v) = true ∧
    denoteX (setItem (.aset bs ml) k v) = .attrs (dictSet (denoteBs bs) k (denote v)) := by
  simp only [exprReadable, Bool.and_eq_true] at hs
  have hx := bindValue_readable v hv
  simp only [setItem]
  cases hr : replaceFirst k (bindValue v) bs with
  | some bs' =>
    obtain ⟨h1, h2, h3⟩ := replaceFirst_some bs bs' k _ hr
    simp only [exprReadable, Bool.and_eq_true, h1, denoteX, h3, denoteX_bindValue]
    exact ⟨⟨hs.1, h2 hx hs.2⟩, trivial⟩
  | none =>
    have hnot := replaceFirst_none bs k _ hr
    simp only [exprReadable, Bool.and_eq_true, List.map_append, List.map_cons, List.map_nil, denoteX]
    refine ⟨⟨keysNodup_append _ k hs.1 hnot, bsReadable_append bs k _ hs.2 hk hx⟩, ?_⟩
    rw [denoteBs_append bs k _ hnot, denoteX_bindValue]

/-! ## Python float reprs and Nix float tokens -/

theorem isPyExp_isExpPart (ex : Text) (h : isPyExp ex = true) :
    isExpPart ex = true ∧ ex.contains '.' = false := by
  match ex with
  | [] => simp [isPyExp] at h
  | [_] => simp [isPyExp] at h
  | e :: s :: ds =>
    by_cases he : e = 'e'
    · subst he
      simp only [isPyExp, Bool.and_eq_true, Bool.or_eq_true, beq_iff_eq, decide_eq_true_eq, List.all_eq_true] at h
      obtain ⟨⟨hs, hlen⟩, hd⟩ := h
      have hne : ds ≠ [] := by intro hc; subst hc; simp at hlen
      have hnodot : ∀ a ∈ ds, a ≠ '.' := by
        intro a ha hc; subst hc; have := hd _ ha; revert this; decide
      have hdots : ds.contains '.' = false := by
        simp only [List.contains_eq_mem, decide_eq_false_iff_not]
        intro hm; exact hnodot _ hm rfl
      rcases hs with rfl | rfl
      · refine ⟨?_, ?_⟩
        · simp only [isExpPart]; simpa [hne] using hd
        · simp only [List.contains_eq_mem, decide_eq_false_iff_not] at hdots ⊢
          simp [hdots]
      · refine ⟨?_, ?_⟩
        · simp only [isExpPart]; simpa [hne] using hd
        · simp only [List.contains_eq_mem, decide_eq_false_iff_not] at hdots ⊢
          simp [hdots]
    · rw [isPyExp.eq_2 _ (by intro s' ds' hc; injection hc with h1 _; exact he h1)] at h
      cases h

/-- For the repr of a finite Python float, being a Nix float token is exactly having a `.`:
    the reprs the code mis-renders are those with an exponent and no fraction (`1e+16`, `1e-07`). -/
theorem pyFloatRepr_nixFloat_iff_dot (r : Text) (h : isPyFloatRepr r = true) :
    isNixFloat (unsignedRepr r) = (unsignedRepr r).contains '.' := by
  unfold isPyFloatRepr isPyFloatBody at h
  simp only at h
  generalize unsignedRepr r = u at h ⊢
  have hsplit : u = u.takeWhile isAsciiDigit ++ u.dropWhile isAsciiDigit :=
    (List.takeWhile_append_dropWhile).symm
  have hipd : ∀ a ∈ u.takeWhile isAsciiDigit, a ≠ '.' := by
    intro a ha hc; subst hc; have := mem_takeWhile_imp' _ _ ha; revert this; decide
  simp only [Bool.and_eq_true] at h
  obtain ⟨⟨hne, hlead⟩, hm⟩ := h
  have hcont : ∀ rest : Text, (u.takeWhile isAsciiDigit ++ rest).contains '.' = rest.contains '.' := by
    intro rest
    have : ¬ '.' ∈ u.takeWhile isAsciiDigit := fun hm => hipd _ hm rfl
    simp [this]
  split at hm
  · -- a fraction: `ip . fp [exp]`
    rename_i r2 hdr
    simp only [Bool.and_eq_true, Bool.or_eq_true] at hm
    obtain ⟨hfp, hex⟩ := hm
    have hR : u.contains '.' = true := by rw [hsplit, hcont, hdr]; simp
    rw [hR]
    unfold isNixFloat
    simp only [hdr, Bool.and_eq_true, Bool.or_eq_true]
    refine ⟨?_, ?_⟩
    · rcases hex with hex | hex
      · have : List.dropWhile isAsciiDigit r2 = [] := by simpa using hex
        rw [this]; rfl
      · exact (isPyExp_isExpPart _ hex.1.1).1
    · simp only [Bool.not_eq_true', Bool.or_eq_true, beq_iff_eq] at hne hlead
      match hip : u.takeWhile isAsciiDigit with
      | [] => rw [hip] at hne; simp at hne
      | c :: cs =>
        rw [hip] at hlead
        rcases hlead with hl | hl
        · right
          injection hl with h1 h2
          subst h1; subst h2
          exact ⟨by simp, hfp⟩
        · left
          simp only [List.head?_cons, bne_iff_ne, ne_eq, Option.some.injEq] at hl
          simpa using hl
  · -- no fraction: `d e±dd`
    rename_i ex hdr
    simp only [Bool.and_eq_true] at hm
    have hexp := isPyExp_isExpPart _ hm.1.1
    have hR : u.contains '.' = false := by rw [hsplit, hcont, hdr]; exact hexp.2
    rw [hR]
    unfold isNixFloat
    simp only [hdr]
    rfl
  · cases hm

/-! ## The literal a Python repr is spelled with is a Nix float token of the same value -/

theorem decNormF_fuel (m : Nat) : 0 < m → ∀ (f : Nat) (e : Int), m ≤ f → decNormF f m e = decNormF m m e := by
  induction m using Nat.strongRecOn with
  | ind m ih =>
    intro hm f e hf
    obtain ⟨f', rfl⟩ : ∃ f', f = f' + 1 := ⟨f - 1, by omega⟩
    obtain ⟨m', hm'⟩ : ∃ m', m = m' + 1 := ⟨m - 1, by omega⟩
    by_cases h10 : m % 10 = 0
    · have hlt : m / 10 < m := by omega
      have hpos : 0 < m / 10 := by omega
      have e1 : decNormF (f' + 1) m e = decNormF f' (m / 10) (e + 1) := by simp [decNormF, h10]
      have e2 : decNormF m m e = decNormF m' (m / 10) (e + 1) := by
        conv => lhs; arg 1; rw [hm']
        simp [decNormF, h10]
      rw [e1, e2, ih _ hlt hpos f' _ (by omega), ih _ hlt hpos m' _ (by omega)]
    · have e1 : decNormF (f' + 1) m e = ⟨m, e⟩ := by simp [decNormF, h10]
      have e2 : decNormF m m e = ⟨m, e⟩ := by
        conv => lhs; arg 1; rw [hm']
        simp [decNormF, h10]
      rw [e1, e2]

/-- `(10·m) × 10^(e-1)` and `m × 10^e` have the same normal form. -/
theorem decNorm_times_ten (m : Nat) (e : Int) : decNorm (10 * m) (e - 1) = decNorm m e := by
  unfold decNorm
  by_cases hm : m = 0
  · subst hm; simp
  · have h10 : 10 * m ≠ 0 := by omega
    simp only [h10, hm, if_false]
    obtain ⟨k, hk⟩ : ∃ k, 10 * m = k + 1 := ⟨10 * m - 1, by omega⟩
    have e1 : decNormF (10 * m) (10 * m) (e - 1) = decNormF k m e := by
      conv => lhs; arg 1; rw [hk]
      have hmod : 10 * m % 10 = 0 := by omega
      have hdiv : 10 * m / 10 = m := by omega
      simp [decNormF, hmod, hdiv]
    rw [e1, decNormF_fuel m (by omega) k e (by omega)]

theorem floatLiteral_dot (u : Text) (h : u.contains '.' = true) : floatLiteral u = u := by
  simp only [floatLiteral, floatLiteralRule, h, if_true]

theorem floatLiteral_nodot (u : Text) (h : u.contains '.' = false) :
    floatLiteral u = u.takeWhile (· != 'e') ++ ('.' :: '0' :: u.dropWhile (· != 'e')) := by
  simp only [floatLiteral, floatLiteralRule, h, Bool.false_eq_true, if_false, List.cons_append, List.nil_append]

theorem isAsciiDigit_ne (d c : Char) (hd : isAsciiDigit d = true) (hc : isAsciiDigit c = false) : d ≠ c := by
  intro h; subst h; rw [hd] at hc; cases hc

/-- The unsigned part of a Python repr: its literal is a Nix float token, not negative, of the same value. -/
theorem pyFloatBody_lit (u : Text) (h : isPyFloatBody u = true) :
    isNixFloat (floatLiteral u) = true ∧ isNegText (floatLiteral u) = false ∧ isNegText u = false ∧
    decValue (floatLiteral u) = decValue u := by
  have hrepr : isPyFloatRepr u = true ∧ unsignedRepr u = u ∧ isNegText u = false := by
    -- the first character of `u` is a digit
    have h' := h
    unfold isPyFloatBody at h'
    simp only [Bool.and_eq_true] at h'
    have hne := h'.1.1
    match u, hne with
    | [], hne => simp at hne
    | c :: cs, hne =>
      have hc : c ≠ '-' := by
        intro hc; subst hc; simp [List.takeWhile, isAsciiDigit] at hne
      have hnot : ∀ t', c :: cs = '-' :: t' → False := by intro t' ht; injection ht with h1 _; exact hc h1
      have hu := unsignedRepr.eq_2 _ hnot
      exact ⟨by rw [isPyFloatRepr, hu]; exact h, hu, isNegText.eq_2 _ hnot⟩
  obtain ⟨hr, hu, hneg⟩ := hrepr
  have hdot := pyFloatRepr_nixFloat_iff_dot u hr
  rw [hu] at hdot
  by_cases hc : u.contains '.' = true
  · have hl : floatLiteral u = u := floatLiteral_dot u hc
    rw [hl]
    exact ⟨by rw [hdot]; exact hc, hneg, hneg, rfl⟩
  · -- no `.`: `u = d :: 'e' :: ex` with a single non-zero digit `d`
    have hc' : u.contains '.' = false := by simpa using hc
    unfold isPyFloatBody at h
    simp only [Bool.and_eq_true] at h
    obtain ⟨⟨hne, _⟩, hm⟩ := h
    have hsplit : u = u.takeWhile isAsciiDigit ++ u.dropWhile isAsciiDigit :=
      (List.takeWhile_append_dropWhile).symm
    split at hm
    · rename_i r2 hdr
      exfalso
      have : u.contains '.' = true := by rw [hsplit, hdr]; simp
      rw [this] at hc'; cases hc'
    · rename_i ex hdr
      simp only [Bool.and_eq_true, beq_iff_eq, bne_iff_ne, ne_eq] at hm
      obtain ⟨⟨hexp, hlen⟩, hnz⟩ := hm
      match hip : u.takeWhile isAsciiDigit, hlen with
      | [d], _ =>
        have hd : isAsciiDigit d = true := mem_takeWhile_imp' _ _ (by rw [hip]; simp)
        have hd0 : d ≠ '0' := by intro h0; subst h0; exact hnz hip
        have hue : u = d :: 'e' :: ex := by rw [hsplit, hip, hdr]; rfl
        have hexpP := (isPyExp_isExpPart _ hexp).1
        have hde : d ≠ 'e' := isAsciiDigit_ne d 'e' hd (by decide)
        have hdd : d ≠ '.' := isAsciiDigit_ne d '.' hd (by decide)
        have hl : floatLiteral u = d :: '.' :: '0' :: 'e' :: ex := by
          have hcu : (d :: 'e' :: ex).contains '.' = false := by rw [← hue]; exact hc'
          rw [hue, floatLiteral_nodot _ hcu]
          rw [List.takeWhile_cons_of_pos (by simp [hde]), List.takeWhile_cons_of_neg (by simp),
            List.dropWhile_cons_of_pos (by simp [hde]), List.dropWhile_cons_of_neg (by simp)]
          rfl
        have hdw : ∀ tl : Text, (d :: tl).takeWhile isAsciiDigit = d :: tl.takeWhile isAsciiDigit :=
          fun tl => List.takeWhile_cons_of_pos hd
        have hdd' : ∀ tl : Text, (d :: tl).dropWhile isAsciiDigit = tl.dropWhile isAsciiDigit :=
          fun tl => List.dropWhile_cons_of_pos hd
        have e1 : ('.' :: '0' :: 'e' :: ex).takeWhile isAsciiDigit = [] :=
          List.takeWhile_cons_of_neg (by decide)
        have e2 : ('.' :: '0' :: 'e' :: ex).dropWhile isAsciiDigit = '.' :: '0' :: 'e' :: ex :=
          List.dropWhile_cons_of_neg (by decide)
        have e3 : ('0' :: 'e' :: ex).takeWhile isAsciiDigit = ['0'] := by
          rw [List.takeWhile_cons_of_pos (by decide), List.takeWhile_cons_of_neg (by decide)]
        have e4 : ('0' :: 'e' :: ex).dropWhile isAsciiDigit = 'e' :: ex := by
          rw [List.dropWhile_cons_of_pos (by decide), List.dropWhile_cons_of_neg (by decide)]
        have e5 : ('e' :: ex).takeWhile isAsciiDigit = [] := List.takeWhile_cons_of_neg (by decide)
        have e6 : ('e' :: ex).dropWhile isAsciiDigit = 'e' :: ex := List.dropWhile_cons_of_neg (by decide)
        refine ⟨?_, ?_, hneg, ?_⟩
        · rw [hl]
          unfold isNixFloat
          simp only [hdw, hdd']
          simp only [e1, e2, e3, e4, hexpP, Bool.true_and]
          simp [hd0]
        · rw [hl]
          exact isNegText.eq_2 _ (by
            intro t' ht; injection ht with h1 _
            exact (isAsciiDigit_ne d '-' hd (by decide)) h1)
        · rw [hl, hue]
          unfold decValue
          simp only [hdw, hdd']
          simp only [e1, e2, e3, e4, e5, e6]
          have hval : Nat.ofDigitChars 10 ([d] ++ ['0']) 0 = 10 * Nat.ofDigitChars 10 [d] 0 := by
            simp [Nat.ofDigitChars]
          rw [hval]
          exact decNorm_times_ten _ _
      | [], hlen => simp at hlen
      | _ :: _ :: _, hlen => simp at hlen
    · cases hm

/-- **Every repr of a finite Python float is spelled as a Nix float token of the same sign and value.** -/
theorem pyFloatRepr_litOk (r : Text) (h : isPyFloatRepr r = true) : floatLitOk r = true := by
  have hflneg : ∀ v : Text, floatLiteral ('-' :: v) = '-' :: floatLiteral v := by
    intro v
    have hc : ('-' :: v).contains '.' = v.contains '.' := by simp
    by_cases hv : v.contains '.' = true
    · rw [floatLiteral_dot _ (by rw [hc]; exact hv), floatLiteral_dot _ hv]
    · have hv' : v.contains '.' = false := by simpa using hv
      rw [floatLiteral_nodot _ (by rw [hc]; exact hv'), floatLiteral_nodot _ hv']
      rw [List.takeWhile_cons_of_pos (by decide), List.dropWhile_cons_of_pos (by decide)]
      rfl
  unfold floatLitOk
  by_cases hn : isNegText r = true
  · obtain ⟨v, rfl⟩ := neg_text r hn
    have hb : isPyFloatBody v = true := by simpa [isPyFloatRepr, unsignedRepr] using h
    obtain ⟨a, _, _, d⟩ := pyFloatBody_lit v hb
    rw [hflneg]
    simp [unsignedRepr, isNegText, a, d]
  · have hn' : isNegText r = false := by simpa using hn
    obtain ⟨hu, _, _⟩ := pos_text r hn'
    have hb : isPyFloatBody r = true := by rw [isPyFloatRepr, hu] at h; exact h
    obtain ⟨a, b, _, d⟩ := pyFloatBody_lit r hb
    obtain ⟨hlu, _, _⟩ := pos_text _ b
    rw [hlu, hu]
    simp [a, b, hn', d]

/-! ## Every value of the domain satisfies the side condition -/

mutual
theorem elemInDomain_readable : ∀ (e : Elem), elemInDomain e = true → elemReadable e = true
  | .none, _ => rfl
  | .bool _, _ => rfl
  | .int _, h => by simpa [elemInDomain, elemReadable] using h
  | .float r, h => by
    simp only [elemInDomain] at h
    simp only [elemReadable, pyFloatRepr_litOk r h]
  | .str s, h => by simpa [elemReadable, elemInDomain] using h
  | .list xs, h => by
    simp only [elemInDomain] at h
    simp only [elemReadable]
    exact elemsInDomain_readable xs h
theorem elemsInDomain_readable : ∀ (xs : List Elem), elemsInDomain xs = true → elemsReadable xs = true
  | [], _ => rfl
  | x :: xs, h => by
    simp only [elemsInDomain, Bool.and_eq_true] at h
    simp only [elemsReadable, elemInDomain_readable x h.1, elemsInDomain_readable xs h.2, Bool.and_self]
end

mutual
theorem valInDomain_readable : ∀ (v : PyVal), valInDomain v = true → valReadable v = true
  | .elem e, h => by
    simp only [valInDomain] at h
    simp only [valReadable, elemInDomain_readable e h]
  | .dict kvs, h => by
    simp only [valInDomain, Bool.and_eq_true] at h
    simp only [valReadable, h.1, Bool.true_and]
    exact kvsInDomain_readable kvs h.2
theorem kvsInDomain_readable : ∀ (kvs : List (Text × PyVal)), kvsInDomain kvs = true → kvsReadable kvs = true
  | [], _ => rfl
  | (k, v) :: rest, h => by
    simp only [kvsInDomain, Bool.and_eq_true] at h
    simp only [kvsReadable, h.1.1, valInDomain_readable v h.1.2,
      kvsInDomain_readable rest h.2, Bool.and_self]
end

theorem ctxInDomain_readable (c : Ctx) (h : ctxInDomain c = true) : ctxReadable c = true := by
  cases c with
  | fromDict d => exact valInDomain_readable (.dict d) h
  | values d => exact valInDomain_readable (.dict d) h
  | binding k v =>
    simp only [ctxInDomain, Bool.and_eq_true] at h
    simp [ctxReadable, h.1, valInDomain_readable v h.2]
  | list xs => exact elemsInDomain_readable xs h
  | setItem d k v =>
    simp only [ctxInDomain, Bool.and_eq_true] at h
    simp [ctxReadable, valInDomain_readable (.dict d) h.1.1, h.1.2, valInDomain_readable v h.2]
  | setItemOn d ml k v =>
    simp only [ctxInDomain, Bool.and_eq_true] at h
    simp [ctxReadable, valInDomain_readable (.dict d) h.1.1, h.1.2, valInDomain_readable v h.2]

/-! ## Refusal: `rebuild()` raises exactly when the data holds an integer Nix cannot write -/

theorem coerceIntMax_eq : coerceIntMax = nixIntMax := rfl

mutual
theorem elemRefused_eq : ∀ e : Elem, elemRefused e = dataOutOfRange (denoteE e)
  | .none => rfl
  | .bool _ => rfl
  | .int i => by simp [elemRefused, intRefused, denoteE, dataOutOfRange, coerceIntMax_eq]
  | .float r => by
    simp only [elemRefused, denoteE, floatData]
    split <;> rfl
  | .str _ => rfl
  | .list xs => by simp only [elemRefused, denoteE, dataOutOfRange, elemsRefused_eq xs]
theorem elemsRefused_eq : ∀ xs : List Elem, elemsRefused xs = dataListOutOfRange (denoteEs xs)
  | [] => rfl
  | x :: xs => by simp only [elemsRefused, denoteEs, dataListOutOfRange, elemRefused_eq x, elemsRefused_eq xs]
end

mutual
theorem exprRefused_eq : ∀ x : Expr, exprRefused x = dataOutOfRange (denoteX x)
  | .raw e => by simp only [exprRefused, denoteX, elemRefused_eq e]
  | .aset bs _ => by simp only [exprRefused, denoteX, dataOutOfRange, bsRefused_eq bs]
theorem bsRefused_eq : ∀ bs : List (Text × Expr), bsRefused bs = dataKvsOutOfRange (denoteBs bs)
  | [] => rfl
  | (k, v) :: rest => by simp only [bsRefused, denoteBs, dataKvsOutOfRange, exprRefused_eq v, bsRefused_eq rest]
end

mutual
theorem elemReadable_not_refused : ∀ e : Elem, elemReadable e = true → elemRefused e = false
  | .none, _ => rfl
  | .bool _, _ => rfl
  | .int i, h => by
    simp only [elemReadable, decide_eq_true_eq] at h
    simp only [elemRefused, intRefused, coerceIntMax_eq]
    exact decide_eq_false (by omega)
  | .float _, _ => rfl
  | .str _, _ => rfl
  | .list xs, h => by
    simp only [elemReadable] at h
    simp only [elemRefused]
    exact elemsReadable_not_refused xs h
theorem elemsReadable_not_refused : ∀ xs : List Elem, elemsReadable xs = true → elemsRefused xs = false
  | [], _ => rfl
  | x :: xs, h => by
    simp only [elemsReadable, Bool.and_eq_true] at h
    simp only [elemsRefused, elemReadable_not_refused x h.1, elemsReadable_not_refused xs h.2, Bool.or_self]
end

mutual
theorem exprReadable_not_refused : ∀ x : Expr, exprReadable x = true → exprRefused x = false
  | .raw e, h => by
    simp only [exprReadable] at h
    simp only [exprRefused, elemReadable_not_refused e h]
  | .aset bs _, h => by
    simp only [exprReadable, Bool.and_eq_true] at h
    simp only [exprRefused]
    exact bsReadable_not_refused bs h.2
theorem bsReadable_not_refused : ∀ bs : List (Text × Expr), bsReadable bs = true → bsRefused bs = false
  | [], _ => rfl
  | (k, v) :: rest, h => by
    simp only [bsReadable, Bool.and_eq_true] at h
    simp only [bsRefused, exprReadable_not_refused v h.1.2, bsReadable_not_refused rest h.2, Bool.or_self]
end

/-- item assignment denotes `d[k] = v`, whatever the values are -/
theorem denoteX_setItem (bs : List (Text × Expr)) (ml : Bool) (k : Text) (v : PyVal) :
    denoteX (setItem (.aset bs ml) k v) = .attrs (dictSet (denoteBs bs) k (denote v)) := by
  simp only [setItem]
  cases hr : replaceFirst k (bindValue v) bs with
  | some bs' =>
    obtain ⟨_, _, h3⟩ := replaceFirst_some bs bs' k _ hr
    simp only [denoteX, h3, denoteX_bindValue]
  | none =>
    have hnot := replaceFirst_none bs k _ hr
    simp only [denoteX]
    rw [denoteBs_append bs k _ hnot, denoteX_bindValue]

/-- The object a context builds denotes the data the context is expected to read back as (a lone
    binding is expected as a one-binding set). -/
theorem denoteX_ctxExpr (c : Ctx) :
    dataOutOfRange (denoteX (ctxExpr c)) = dataOutOfRange (expected c) := by
  cases c with
  | fromDict d => simp only [ctxExpr, fromDict_eq, denoteX_bindValue, denote, expected]
  | values d => simp only [ctxExpr, valuesCtor_eq, fromDict_eq, denoteX_bindValue, denote, expected]
  | binding k v =>
    simp only [ctxExpr, denoteX_bindValue, expected, dataOutOfRange, dataKvsOutOfRange, Bool.or_false]
  | list xs => simp only [ctxExpr, denoteX, denoteE, expected]
  | setItem d k v => simp only [ctxExpr, fromDict, denoteX_setItem, denoteBs_bindAll, expected]
  | setItemOn d ml k v => simp only [ctxExpr, denoteX_setItem, denoteBs_bindAll, expected]

/-- what a readable context builds is readable -/
theorem ctxExpr_readable (c : Ctx) (h : ctxReadable c = true) : exprReadable (ctxExpr c) = true := by
  cases c with
  | fromDict d => simpa [ctxExpr, fromDict_eq] using bindValue_readable (.dict d) h
  | values d => simpa [ctxExpr, valuesCtor_eq, fromDict_eq] using bindValue_readable (.dict d) h
  | binding k v =>
    simp only [ctxReadable, Bool.and_eq_true] at h
    exact bindValue_readable v h.2
  | list xs => simpa [ctxExpr, exprReadable, elemReadable, ctxReadable] using h
  | setItem d k v =>
    simp only [ctxReadable, Bool.and_eq_true] at h
    have hs : exprReadable (.aset (bindAll d) (d.length != singleBindingCount)) = true := by
      have := bindValue_readable (.dict d) h.1.1
      simpa [bindValue] using this
    exact (setItem_spec (bindAll d) _ k v hs h.1.2 h.2).1
  | setItemOn d ml k v =>
    simp only [ctxReadable, Bool.and_eq_true] at h
    have hs : exprReadable (.aset (bindAll d) ml) = true := by
      have := bindValue_readable (.dict d) h.1.1
      simpa [bindValue, exprReadable] using this
    exact (setItem_spec (bindAll d) ml k v hs h.1.2 h.2).1

end Nima
