"""Shared input stream and failure classification for the layout properties (C01 C03 C06 C18)."""
from __future__ import annotations

from . import framework as fw
from . import layout
from .gen import prog

CLAUSES = {
    "C01": ("raises", "input-flagged-erroneous", "output-parses", "tokens"),
    "C03": ("comments",),
    "C06": ("fixed-point",),
    "C18": ("spacing",),
}


def failures_of(res, clauses):
    """[(clause, detail)] restricted to the property's clauses"""
    out = []
    for cl, det in res["fails"].items():
        if cl not in clauses:
            continue
        if cl == "spacing":
            out += [(cl, r) for r in det]
        elif cl == "comments":
            out.append((cl, det))
        elif cl == "raises":
            out.append((cl, str(det).split(":")[0]))
        else:
            out.append((cl, ""))
    return out


def sweep(ctx: fw.Ctx, pid: str):
    clauses = CLAUSES[pid]
    stride = 2 if ctx.quick else 1
    n = 0
    for info, text in prog.enumerate_injections(stride=stride, offset=ctx.seed):
        n += 1
        res = layout.evaluate(text)
        nontrivial = info["vclass"] != "ws" or info["variant"] not in ("space",)
        ctx.case({"text": text, **{k: info[k] for k in ("template", "gap", "variant")}}, nontrivial)
        ctx.count("variant:" + info["variant"])
        for cl, det in failures_of(res, clauses):
            key = {"clause": cl, "detail": det, "parent": info["parent"], "before": info["before"], "after": info["after"]}
            ctx.fail(key, {"text": text, **info, "output": res["output"]},
                     f"{cl} {det}: {text!r} -> {res['output']!r}" if res["output"] is not None
                     else f"{cl} {det}: {text!r}: {res['fails'].get('raises')}")
    if not ctx.quick:
        random_part(ctx, pid, 4000, 3)
    return n


def random_part(ctx: fw.Ctx, pid: str, n: int, depth: int):
    clauses = CLAUSES[pid]
    for info, text in prog.random_injections(ctx.rng, n, depth):
        res = layout.evaluate(text)
        ctx.case({"text": text, "template": "random"}, True)
        fs = failures_of(res, clauses)
        if not fs:
            continue
        # classify by the injection responsible: try each one alone
        for cl, det in fs:
            culprit = None
            for inj in info["injections"]:
                culprit = culprit or inj
            inj = info["injections"][0] if len(info["injections"]) == 1 else None
            key = {"clause": cl, "detail": det,
                   "parent": inj["parent"] if inj else "<several>", "before": inj["before"] if inj else "<several>",
                   "after": inj["after"] if inj else "<several>"}
            if inj is None:
                # several injections: the failure is known if every injection's context is a known failing one
                key["contexts"] = sorted({(i["parent"], i["before"], i["after"]) for i in info["injections"]})
            ctx.fail(key, {"text": text, **info, "output": res["output"]}, f"{cl} {det}: {text!r} -> {res['output']!r}")


def common(ctx: fw.Ctx, pid: str):
    ctx.extra["rule"] = (
        "58 templates (every construct) x every inter-token gap x 18 trivia variants (spaces, tabs, newlines, blank-line "
        "runs, CRLF, line / block / doc / multi-line comments, non-ASCII), kept when tree-sitter accepts the text and the "
        "code tokens are the template's; thorough adds random nested programs with 1-3 injections; non-trivial = the "
        "injected trivia is not a single space"
    )
    ctx.trusted_base = [
        "Lean 4 kernel; axioms propext, Classical.choice, Quot.sound only",
        "trivia algebra model Model/Trivia.lean tied by function-level correspondence with expressions/trivia.py",
        "tree-sitter-nix as independent tokenizer of input and output",
    ]
    ctx.assumptions = [
        "outputs are judged error-free modulo the formals trailing comma the bundled grammar rejects",
        "the per-construct renderers are covered by observation of the implementation on the enumerated gaps; the "
        "theorems cover the trivia algebra they share (see evidence.fragment)",
    ]
