"""Gen/Cli.lean: the command-line skeleton of cli/main.py, the argparse wiring of cli/parser.py and
the entry point of __main__.py (used by C16).

For each `case "<cmd>"` of the `match args.command` in `main()` the body is compiled to the
A-normal-form program type `Nima.Cli.Prog` of `lean/NimaVerif/Model/Cli.lean`:
every call the CLI makes (`args.file.read()`, `parse(…)`, `….rebuild()`, `set_value(…)`,
`remove_value(…)`, string `+`) is bound to the next variable in evaluation order, local names are
resolved away (so renaming or introducing/inlining a local does not change the output), the rest of
a block is pushed into both branches of an `if`. Anything the compiler does not understand is an
ExtractError: the table is emitted as `none` and the `tie_*` theorem of Props/C16.lean fails.
"""
from __future__ import annotations

import ast

from .translate import ExtractError, Result, const_str, find_function, lean_str, lean_text, parse_file, run_table

LIB_FUNCS = {
    ("nix_manipulator.parser", "parse"): "parse",
    ("nix_manipulator.cli.manipulations", "set_value"): "set_value",
    ("nix_manipulator.cli.manipulations", "remove_value"): "remove_value",
    ("nix_manipulator.cli.parser", "build_parser"): "build_parser",
}


# ------------------------------------------------------------------ main.py
def _imports(mod: ast.Module) -> dict[str, str]:
    """local name -> role, for the library functions main.py imports"""
    out: dict[str, str] = {}
    for node in mod.body:
        if isinstance(node, ast.ImportFrom) and node.module:
            for a in node.names:
                role = LIB_FUNCS.get((node.module, a.name))
                if role:
                    out[a.asname or a.name] = role
    return out


def _is_args_attr(node, attr=None) -> str | None:
    """`args.<attr>` -> attr"""
    if isinstance(node, ast.Attribute) and isinstance(node.value, ast.Name) and node.value.id == "args":
        if attr is None or node.attr == attr:
            return node.attr
    return None


def _is_sys(node, attr: str) -> bool:
    return (isinstance(node, ast.Attribute) and isinstance(node.value, ast.Name)
            and node.value.id == "sys" and node.attr == attr)


class _Compiler:
    """CPS compiler of one case body to a Prog term (nested tuples).

    `h` is the handler context of the code being compiled: None outside `try:`, else a function
    `h(n, env) -> prog` that compiles the `except Exception:` body followed by whatever follows the
    try statement, for a raise at a point where `n` variables are bound (`env`: the names known when
    the try was entered). Inside a try every bind / condition carries its handler (`tryBind`,
    `tryIte`). Boolean locals (`passed = <condition>`, `passed = False`) are resolved per path: the
    environment maps them to a constant, and `x if passed else y` / `if passed:` pick a branch."""

    def __init__(self, roles: dict[str, str], parser_name: str):
        self.roles = roles
        self.parser_name = parser_name

    @staticmethod
    def _bind(rhs, n, env, k, h):
        if h is None:
            return ("bind", rhs, k(("var", n), n + 1, env))
        return ("tryBind", rhs, k(("var", n), n + 1, env), h(n, env))

    @staticmethod
    def _ite(c, n, env, kt, kf, h):
        if h is None:
            return ("ite", c, kt(n, env), kf(n, env))
        return ("tryIte", c, kt(n, env), kf(n, env), h(n, env))

    @staticmethod
    def _is_boolean(e) -> bool:
        return (isinstance(e, (ast.BoolOp, ast.Compare))
                or (isinstance(e, ast.UnaryOp) and isinstance(e.op, ast.Not))
                or (isinstance(e, ast.Constant) and isinstance(e.value, bool))
                or (isinstance(e, ast.Attribute) and e.attr == "contains_error")
                or (isinstance(e, ast.Call) and isinstance(e.func, ast.Attribute) and e.func.attr == "endswith"))

    # expressions: k(arg, n, env) -> prog ; arg = ("var", i) | ("lit", s)
    def expr(self, e, n, env, k, h=None):
        if isinstance(e, ast.Name):
            if e.id not in env:
                raise ExtractError(f"unknown local {e.id!r}")
            if env[e.id][0] == "bool":
                raise ExtractError(f"boolean local {e.id!r} used as a value")
            return k(env[e.id], n, env)
        s = const_str(e)
        if s is not None:
            return k(("lit", s), n, env)
        if isinstance(e, ast.BinOp) and isinstance(e.op, ast.Add):
            return self.expr(e.left, n, env, lambda a, n1, env1: self.expr(
                e.right, n1, env1, lambda b, n2, env2: self._bind(("concat", a, b), n2, env2, k, h), h), h)
        if isinstance(e, ast.IfExp):
            return self.cond(e.test, n, env,
                             lambda n1, env1: self.expr(e.body, n1, env1, k, h),
                             lambda n1, env1: self.expr(e.orelse, n1, env1, k, h), h)
        if isinstance(e, ast.Call):
            f = e.func
            # args.file.read()
            if (isinstance(f, ast.Attribute) and f.attr == "read" and _is_args_attr(f.value, "file")
                    and not e.args and not e.keywords):
                return self._bind(("read",), n, env, k, h)
            # x.rebuild()
            if isinstance(f, ast.Attribute) and f.attr == "rebuild" and not e.args and not e.keywords:
                return self.expr(f.value, n, env,
                                 lambda a, n1, env1: self._bind(("rebuild", a), n1, env1, k, h), h)
            if isinstance(f, ast.Name) and self.roles.get(f.id) == "parse":
                if len(e.args) != 1 or e.keywords:
                    raise ExtractError("parse(...) with unexpected arguments")
                return self.expr(e.args[0], n, env,
                                 lambda a, n1, env1: self._bind(("parse", a), n1, env1, k, h), h)
            if isinstance(f, ast.Name) and self.roles.get(f.id) in ("set_value", "remove_value"):
                role = self.roles[f.id]
                names = ["source", "npath", "value"] if role == "set_value" else ["source", "npath"]
                got: dict[str, ast.expr] = {}
                for nm, a in zip(names, e.args):
                    got[nm] = a
                if len(e.args) > len(names):
                    raise ExtractError(f"{role}: too many positional arguments")
                for kw in e.keywords:
                    if kw.arg is None or kw.arg in got or kw.arg not in names:
                        raise ExtractError(f"{role}: unexpected keyword {kw.arg!r}")
                    got[kw.arg] = kw.value
                if set(got) != set(names):
                    raise ExtractError(f"{role}: arguments {sorted(got)} != {names}")
                cli_args = []
                for nm in names[1:]:
                    a = _is_args_attr(got[nm])
                    if a not in ("npath", "value"):
                        raise ExtractError(f"{role}: {nm}= is not args.npath/args.value")
                    cli_args.append(a)
                tag = "setValue" if role == "set_value" else "removeValue"
                return self.expr(got["source"], n, env, lambda a, n1, env1: self._bind(
                    (tag, a, *cli_args), n1, env1, k, h), h)
        raise ExtractError(f"unsupported expression: {ast.unparse(e)[:60]}")

    # conditions: kt(n, env), kf(n, env)
    def cond(self, c, n, env, kt, kf, h=None):
        if isinstance(c, ast.Constant) and isinstance(c.value, bool):
            return (kt if c.value else kf)(n, env)
        if isinstance(c, ast.Name):
            v = env.get(c.id)
            if v is None or v[0] != "bool":
                raise ExtractError(f"condition on non-boolean local {c.id!r}")
            return (kt if v[1] else kf)(n, env)
        if isinstance(c, ast.UnaryOp) and isinstance(c.op, ast.Not):
            return self.cond(c.operand, n, env, kf, kt, h)
        if isinstance(c, ast.BoolOp):
            first, rest = c.values[0], c.values[1:]
            tail = rest[0] if len(rest) == 1 else ast.BoolOp(op=c.op, values=rest)
            if isinstance(c.op, ast.And):   # short circuit: the tail is evaluated only when `first` holds
                return self.cond(first, n, env, lambda n1, env1: self.cond(tail, n1, env1, kt, kf, h), kf, h)
            return self.cond(first, n, env, kt, lambda n1, env1: self.cond(tail, n1, env1, kt, kf, h), h)
        if isinstance(c, ast.Attribute) and c.attr == "contains_error":
            return self.expr(c.value, n, env, lambda a, n1, env1: self._ite(
                ("containsError", a), n1, env1, kt, kf, h), h)
        if isinstance(c, ast.Compare) and len(c.ops) == 1:
            op = c.ops[0]
            l, r = c.left, c.comparators[0]
            if isinstance(op, (ast.Is, ast.IsNot)):
                pair = (l, r)
                if any(_is_args_attr(x, "file") for x in pair) and any(_is_sys(x, "stdin") for x in pair):
                    a, b = (kt, kf) if isinstance(op, ast.Is) else (kf, kt)
                    return self._ite(("isStdin",), n, env, a, b, h)
            if isinstance(op, (ast.Eq, ast.NotEq)):
                a_, b_ = (kt, kf) if isinstance(op, ast.Eq) else (kf, kt)
                return self.expr(l, n, env, lambda a, n1, env1: self.expr(
                    r, n1, env1, lambda b, n2, env2: self._ite(("eq", a, b), n2, env2, a_, b_, h), h), h)
        if (isinstance(c, ast.Call) and isinstance(c.func, ast.Attribute) and c.func.attr == "endswith"
                and len(c.args) == 1 and const_str(c.args[0]) is not None and not c.keywords):
            suf = const_str(c.args[0])
            return self.expr(c.func.value, n, env, lambda a, n1, env1: self._ite(
                ("endsWith", a, suf), n1, env1, kt, kf, h), h)
        raise ExtractError(f"unsupported condition: {ast.unparse(c)[:60]}")

    def ret(self, v, n, env, h):
        if v is None:
            return ("done",)
        if isinstance(v, ast.Constant) and isinstance(v.value, int) and not isinstance(v.value, bool) \
                and 0 <= v.value <= 255:
            return ("ret", v.value)
        if isinstance(v, ast.IfExp):
            return self.cond(v.test, n, env, lambda n1, env1: self.ret(v.body, n1, env1, h),
                             lambda n1, env1: self.ret(v.orelse, n1, env1, h), h)
        raise ExtractError(f"unsupported return value: {ast.unparse(v)[:40]}")

    # statements: the continuation is the rest of the enclosing blocks: a list of frames
    # (statement list, handler context in force for that frame)
    def block(self, stmts, n, env, rest, h=None):
        if not stmts:
            if not rest:
                return ("done",)
            return self.block(rest[0][0], n, env, rest[1:], rest[0][1])
        st, tail = stmts[0], stmts[1:]
        nxt = lambda n1, env1: self.block(tail, n1, env1, rest, h)
        if isinstance(st, ast.Return):
            return self.ret(st.value, n, env, h)
        if isinstance(st, ast.Pass):
            return nxt(n, env)
        if isinstance(st, ast.AnnAssign) and st.value is None:
            return nxt(n, env)
        if isinstance(st, (ast.Assign, ast.AnnAssign)):
            targets = st.targets if isinstance(st, ast.Assign) else [st.target]
            if len(targets) != 1 or not isinstance(targets[0], ast.Name):
                raise ExtractError("unsupported assignment target")
            name = targets[0].id
            if self._is_boolean(st.value):
                return self.cond(st.value, n, env,
                                 lambda n1, env1: nxt(n1, {**env1, name: ("bool", True)}),
                                 lambda n1, env1: nxt(n1, {**env1, name: ("bool", False)}), h)
            return self.expr(st.value, n, env, lambda a, n1, env1: nxt(n1, {**env1, name: a}), h)
        if isinstance(st, ast.If):
            return self.cond(st.test, n, env,
                             lambda n1, env1: self.block(st.body, n1, env1, [(tail, h), *rest], h),
                             lambda n1, env1: self.block(st.orelse, n1, env1, [(tail, h), *rest], h), h)
        if isinstance(st, ast.Try):
            if h is not None:
                raise ExtractError("nested try")
            if st.orelse or st.finalbody or len(st.handlers) != 1:
                raise ExtractError("try with else/finally or several handlers")
            hd = st.handlers[0]
            catches_all = hd.type is None or (isinstance(hd.type, ast.Name) and hd.type.id in ("Exception", "BaseException"))
            if not catches_all or hd.name is not None:
                raise ExtractError(f"unsupported except clause: {ast.unparse(hd)[:40]}")
            entry_env = dict(env)
            after = [(tail, h), *rest]
            # a raise anywhere in the body: run the handler body (with the names known at try entry),
            # then whatever follows the try statement, outside the protection
            handler = lambda n1, _env1: self.block(hd.body, n1, entry_env, after, None)
            return self.block(st.body, n, env, after, handler)
        if isinstance(st, ast.Expr) and isinstance(st.value, ast.Call):
            call = st.value
            f = call.func
            if h is not None:
                raise ExtractError("output inside try is not modelled")
            if isinstance(f, ast.Name) and f.id == "print":
                end = None
                for kw in call.keywords:
                    if kw.arg == "end" and const_str(kw.value) is not None:
                        end = const_str(kw.value)
                    else:
                        raise ExtractError(f"print with keyword {kw.arg!r}")
                if len(call.args) != 1:
                    raise ExtractError("print with other than one positional argument")
                if end is None or end == "\n":
                    return self.expr(call.args[0], n, env, lambda a, n1, env1: ("print", a, nxt(n1, env1)))
                if end == "":
                    return self.expr(call.args[0], n, env, lambda a, n1, env1: ("write", a, nxt(n1, env1)))
                raise ExtractError(f"print with end={end!r}")
            if (isinstance(f, ast.Attribute) and f.attr == "write" and _is_sys(f.value, "stdout")
                    and len(call.args) == 1 and not call.keywords):
                return self.expr(call.args[0], n, env, lambda a, n1, env1: ("write", a, nxt(n1, env1)))
            if (isinstance(f, ast.Attribute) and f.attr == "print_help" and isinstance(f.value, ast.Name)
                    and f.value.id == self.parser_name and len(call.args) == 1
                    and _is_sys(call.args[0], "stderr") and not call.keywords):
                return ("helpStderr", nxt(n, env))
        raise ExtractError(f"unsupported statement: {ast.unparse(st)[:60]}")


def _main_parts():
    mod = parse_file("cli/main.py")
    roles = _imports(mod)
    fn = find_function(mod, "main")
    matches = [s for s in fn.body if isinstance(s, ast.Match)]
    if len(matches) != 1:
        raise ExtractError(f"main(): expected one match statement, found {len(matches)}")
    m = matches[0]
    if _is_args_attr(m.subject) != "command":
        raise ExtractError("main(): match subject is not args.command")
    # prelude: parser = build_parser(); args = parser.parse_args(args)
    parser_name = None
    args_ok = False
    for st in fn.body:
        if st is m:
            break
        if isinstance(st, ast.Assign) and len(st.targets) == 1 and isinstance(st.targets[0], ast.Name):
            v = st.value
            if isinstance(v, ast.Call) and isinstance(v.func, ast.Name) and roles.get(v.func.id) == "build_parser":
                parser_name = st.targets[0].id
            elif (isinstance(v, ast.Call) and isinstance(v.func, ast.Attribute) and v.func.attr == "parse_args"
                  and isinstance(v.func.value, ast.Name) and v.func.value.id == parser_name
                  and st.targets[0].id == "args"):
                args_ok = True
            else:
                raise ExtractError(f"main(): unexpected prelude statement {ast.unparse(st)[:50]}")
        elif isinstance(st, ast.AnnAssign) and st.value is None:
            continue
        elif isinstance(st, ast.Expr) and isinstance(st.value, ast.Constant):
            continue  # docstring
        else:
            raise ExtractError(f"main(): unexpected prelude statement {ast.unparse(st)[:50]}")
    if parser_name is None or not args_ok:
        raise ExtractError("main(): `args = build_parser().parse_args(args)` prelude not found")
    # statements after the match (reached by cases that fall through)
    after = fn.body[fn.body.index(m) + 1:]
    cases: dict[str | None, list] = {}
    for c in m.cases:
        if c.guard is not None:
            raise ExtractError("match case with a guard")
        p = c.pattern
        if isinstance(p, ast.MatchValue) and const_str(p.value) is not None:
            key = const_str(p.value)
        elif isinstance(p, ast.MatchAs) and p.pattern is None and p.name is None:
            key = None
        else:
            raise ExtractError(f"unsupported case pattern {ast.unparse(p)[:40]}")
        if key in cases:
            raise ExtractError(f"duplicate case {key!r}")
        cases[key] = c.body
    return roles, parser_name, cases, after


def extract_case(cmd: str | None):
    roles, parser_name, cases, after = _main_parts()
    if cmd not in cases:
        raise ExtractError(f"no case for {cmd!r}")
    # a string case placed after the wildcard would be unreachable; Python rejects that at compile time
    return _Compiler(roles, parser_name).block(cases[cmd], 0, {}, [(after, None)])


def extract_entry() -> bool:
    """__main__.py: `if __name__ == "__main__": raise SystemExit(main())` (or sys.exit(main())),
    with `main` imported from nix_manipulator.cli.main."""
    mod = parse_file("__main__.py")
    main_name = None
    for node in mod.body:
        if isinstance(node, ast.ImportFrom) and node.module == "nix_manipulator.cli.main":
            for a in node.names:
                if a.name == "main":
                    main_name = a.asname or a.name
    if main_name is None:
        raise ExtractError("__main__.py does not import main from nix_manipulator.cli.main")

    def is_main_call(e):
        return (isinstance(e, ast.Call) and isinstance(e.func, ast.Name) and e.func.id == main_name
                and not e.args and not e.keywords)

    for node in mod.body:
        if isinstance(node, ast.If) and isinstance(node.test, ast.Compare):
            t = node.test
            if isinstance(t.left, ast.Name) and t.left.id == "__name__" and const_str(t.comparators[0]) == "__main__":
                if len(node.body) != 1:
                    raise ExtractError("__main__ guard has more than one statement")
                st = node.body[0]
                if isinstance(st, ast.Raise) and isinstance(st.exc, ast.Call) and isinstance(st.exc.func, ast.Name) \
                        and st.exc.func.id == "SystemExit" and len(st.exc.args) == 1 and is_main_call(st.exc.args[0]):
                    return True
                if isinstance(st, ast.Expr) and isinstance(st.value, ast.Call):
                    f = st.value.func
                    if ((_is_sys(f, "exit") or (isinstance(f, ast.Name) and f.id == "exit"))
                            and len(st.value.args) == 1 and is_main_call(st.value.args[0])):
                        return True
                raise ExtractError(f"__main__ guard does not exit with main()'s return value: {ast.unparse(st)[:50]}")
    raise ExtractError("no `if __name__ == '__main__'` guard")


# ------------------------------------------------------------------ parser.py
def _file_option(fn: ast.FunctionDef, helpers: dict | None = None) -> dict:
    """the single add_argument call of with_file_argument"""
    calls = [n for n in ast.walk(fn) if isinstance(n, ast.Call) and isinstance(n.func, ast.Attribute)
             and n.func.attr == "add_argument"]
    if len(calls) != 1:
        raise ExtractError(f"{fn.name}: expected one add_argument call, found {len(calls)}")
    c = calls[0]
    if not (isinstance(c.func.value, ast.Name) and fn.args.args and c.func.value.id == fn.args.args[0].arg):
        raise ExtractError(f"{fn.name}: add_argument is not called on the parameter")
    flags = [const_str(a) for a in c.args]
    if not flags or any(f is None or not f.startswith("-") for f in flags):
        raise ExtractError(f"{fn.name}: option flags not constant")
    kw = {k.arg: k.value for k in c.keywords}
    allowed = {"type", "metavar", "default", "help", "dest"}
    if set(kw) - allowed:
        raise ExtractError(f"{fn.name}: unexpected add_argument keywords {sorted(set(kw) - allowed)}")
    dest = const_str(kw["dest"]) if "dest" in kw else None
    if dest is None:
        longs = [f for f in flags if f.startswith("--")]
        dest = (longs[0][2:] if longs else flags[0].lstrip("-")).replace("-", "_")
    if dest != "file":
        raise ExtractError(f"{fn.name}: option destination is {dest!r}, main() reads args.file")
    default_stdin = "default" in kw and _is_sys(kw["default"], "stdin")
    t = kw.get("type")
    if isinstance(t, ast.Name):
        # a module-level opener function: `open(path, "r", encoding="utf-8", newline=...)`
        if helpers is None or t.id not in helpers:
            raise ExtractError(f"{fn.name}: type={t.id} is not a function of cli/parser.py")
        opener = _opener(helpers[t.id])
        return {"flags": flags, "default_stdin": default_stdin, **opener}
    if not (isinstance(t, ast.Call) and isinstance(t.func, ast.Attribute) and t.func.attr == "FileType"
            and isinstance(t.func.value, ast.Name) and t.func.value.id == "argparse"):
        raise ExtractError(f"{fn.name}: type= is neither argparse.FileType(...) nor an opener function")
    mode = const_str(t.args[0]) if t.args else "r"
    tkw = {k.arg: k.value for k in t.keywords}
    if "mode" in tkw:
        mode = const_str(tkw["mode"])
    if set(tkw) - {"mode", "encoding", "errors", "bufsize"} or len(t.args) > 1 or mode is None:
        raise ExtractError(f"{fn.name}: unexpected FileType arguments")
    if "errors" in tkw:
        raise ExtractError(f"{fn.name}: FileType(errors=...) is not modelled")
    enc = const_str(tkw["encoding"]) if "encoding" in tkw else None
    if enc is None:
        raise ExtractError(f"{fn.name}: FileType has no constant encoding")
    # argparse.FileType opens with open(name, mode, bufsize, encoding, errors): newline=None, i.e.
    # universal-newlines translation on reading, always
    return {"flags": flags, "mode": mode, "encoding": enc.lower(), "default_stdin": default_stdin,
            "universal_newlines": True}


def _opener(fn: ast.FunctionDef) -> dict:
    """An opener used as `type=`: exactly one `open(<param>, mode, encoding=<const>, newline=<const>)` call whose
    result is returned. `newline=None` (or absent) means universal-newlines translation while reading; `""`,
    `"\n"`, `"\r"`, `"\r\n"` mean none."""
    if len(fn.args.args) != 1:
        raise ExtractError(f"{fn.name}: opener must take the path only")
    param = fn.args.args[0].arg
    opens = [n for n in ast.walk(fn) if isinstance(n, ast.Call) and isinstance(n.func, ast.Name) and n.func.id == "open"]
    if len(opens) != 1:
        raise ExtractError(f"{fn.name}: expected one open() call, found {len(opens)}")
    c = opens[0]
    returned = any(isinstance(n, ast.Return) and n.value is c for n in ast.walk(fn))
    if not returned:
        raise ExtractError(f"{fn.name}: the open() result is not returned as it is")
    if not c.args or not (isinstance(c.args[0], ast.Name) and c.args[0].id == param) or len(c.args) > 2:
        raise ExtractError(f"{fn.name}: open() is not called on the path parameter")
    ckw = {k.arg: k.value for k in c.keywords}
    if set(ckw) - {"mode", "encoding", "newline"}:
        raise ExtractError(f"{fn.name}: open() has unmodelled arguments {sorted(set(ckw) - {'mode', 'encoding', 'newline'})}")
    mode = const_str(c.args[1]) if len(c.args) == 2 else (const_str(ckw["mode"]) if "mode" in ckw else "r")
    enc = const_str(ckw["encoding"]) if "encoding" in ckw else None
    if mode is None or enc is None:
        raise ExtractError(f"{fn.name}: open() has no constant mode/encoding")
    universal = True
    if "newline" in ckw:
        nl = ckw["newline"]
        if isinstance(nl, ast.Constant) and nl.value is None:
            universal = True
        elif const_str(nl) in ("", "\n", "\r", "\r\n"):
            universal = False
        else:
            raise ExtractError(f"{fn.name}: open(newline=...) is not a constant")
    return {"mode": mode, "encoding": enc.lower(), "universal_newlines": universal}


def _parser_parts():
    mod = parse_file("cli/parser.py")
    bp = find_function(mod, "build_parser")
    # the helper that adds the file option: a module-level function called with a sub-parser
    helpers = {n.name: n for n in mod.body if isinstance(n, ast.FunctionDef) and n.name != bp.name}
    sub_var = None   # name of the add_subparsers() result
    dest = None
    parsers: dict[str, str] = {}     # variable -> command
    positionals: dict[str, list[str]] = {}
    file_opt: dict[str, str] = {}    # command -> helper name
    for st in bp.body:
        call = None
        target = None
        if isinstance(st, ast.Assign) and len(st.targets) == 1 and isinstance(st.targets[0], ast.Name):
            call, target = st.value, st.targets[0].id
        elif isinstance(st, ast.Expr):
            call = st.value
        if not isinstance(call, ast.Call):
            continue
        f = call.func
        if isinstance(f, ast.Attribute) and f.attr == "add_subparsers":
            sub_var = target
            for k in call.keywords:
                if k.arg == "dest":
                    dest = const_str(k.value)
        elif (isinstance(f, ast.Attribute) and f.attr == "add_parser" and isinstance(f.value, ast.Name)
              and f.value.id == sub_var and call.args and const_str(call.args[0]) is not None and target):
            cmd = const_str(call.args[0])
            parsers[target] = cmd
            positionals[cmd] = []
        elif (isinstance(f, ast.Attribute) and f.attr == "add_argument" and isinstance(f.value, ast.Name)
              and f.value.id in parsers):
            cmd = parsers[f.value.id]
            name = const_str(call.args[0]) if call.args else None
            if name is None or name.startswith("-"):
                raise ExtractError(f"build_parser: sub-command {cmd!r} has an option/positional that is not modelled")
            extra = {k.arg for k in call.keywords} - {"help", "metavar"}
            if extra or len(call.args) != 1:
                raise ExtractError(f"build_parser: positional {name!r} of {cmd!r} has unmodelled settings {sorted(extra)}")
            positionals[cmd].append(name)
        elif isinstance(f, ast.Name) and f.id in helpers and len(call.args) == 1 \
                and isinstance(call.args[0], ast.Name) and call.args[0].id in parsers:
            file_opt[parsers[call.args[0].id]] = f.id
    if dest != "command":
        raise ExtractError(f"build_parser: add_subparsers(dest=...) is {dest!r}, main() matches args.command")
    return helpers, positionals, file_opt


def extract_argspec():
    helpers, positionals, file_opt = _parser_parts()
    return sorted((cmd, pos, cmd in file_opt) for cmd, pos in positionals.items())


def extract_fileopt():
    helpers, positionals, file_opt = _parser_parts()
    names = set(file_opt.values())
    if len(names) != 1:
        raise ExtractError(f"sub-commands use different file-option helpers: {sorted(names)}")
    return _file_option(helpers[names.pop()], helpers)


# ------------------------------------------------------------------ Lean emission
def _arg(a) -> str:
    return f"(.var {a[1]})" if a[0] == "var" else f"(.lit {lean_text(a[1])})"


def _rhs(r) -> str:
    t = r[0]
    if t == "read":
        return ".read"
    if t in ("parse", "rebuild"):
        return f"(.{t} {_arg(r[1])})"
    if t == "setValue":
        return f"(.setValue {_arg(r[1])} .{r[2]} .{r[3]})"
    if t == "removeValue":
        return f"(.removeValue {_arg(r[1])} .{r[2]})"
    if t == "concat":
        return f"(.concat {_arg(r[1])} {_arg(r[2])})"
    raise ExtractError(f"emit: rhs {t}")


def _cond(c) -> str:
    t = c[0]
    if t == "containsError":
        return f"(.containsError {_arg(c[1])})"
    if t == "eq":
        return f"(.eq {_arg(c[1])} {_arg(c[2])})"
    if t == "endsWith":
        return f"(.endsWith {_arg(c[1])} {lean_text(c[2])})"
    if t == "isStdin":
        return ".isStdin"
    raise ExtractError(f"emit: cond {t}")


def prog_to_lean(p, depth=0) -> str:
    if depth > 60:
        raise ExtractError("program too deep")
    t = p[0]
    if t == "done":
        return ".done"
    if t == "ret":
        return f"(.ret {p[1]})"
    if t == "bind":
        return f"(.bind {_rhs(p[1])} {prog_to_lean(p[2], depth + 1)})"
    if t in ("print", "write"):
        return f"(.{t} {_arg(p[1])} {prog_to_lean(p[2], depth + 1)})"
    if t == "helpStderr":
        return f"(.helpStderr {prog_to_lean(p[1], depth + 1)})"
    if t == "ite":
        return f"(.ite {_cond(p[1])} {prog_to_lean(p[2], depth + 1)} {prog_to_lean(p[3], depth + 1)})"
    if t == "tryBind":
        return f"(.tryBind {_rhs(p[1])} {prog_to_lean(p[2], depth + 1)} {prog_to_lean(p[3], depth + 1)})"
    if t == "tryIte":
        return (f"(.tryIte {_cond(p[1])} {prog_to_lean(p[2], depth + 1)} {prog_to_lean(p[3], depth + 1)} "
                f"{prog_to_lean(p[4], depth + 1)})")
    raise ExtractError(f"emit: prog {t}")


def emit(res: Result) -> dict[str, str]:
    out = [
        "import NimaVerif.Model.Cli",
        "/- GENERATED by harness/translate/gen_cli.py from /repo on every run. Do not edit. -/",
        "namespace Nima.Gen",
        "open Nima.Cli",
        "",
    ]
    for table, lean_name, cmd in (("cli_test", "cliTest", "test"), ("cli_set", "cliSet", "set"),
                                  ("cli_rm", "cliRm", "rm"), ("cli_default", "cliDefault", None)):
        term = run_table(res, table, lambda cmd=cmd: prog_to_lean(extract_case(cmd)))
        out.append(f"def {lean_name} : Option Prog := " + ("none" if term is None else f"some {term}"))
    entry = run_table(res, "cli_entry", extract_entry)
    out.append("def cliEntryExitsWithMain : Option Bool := " + ("none" if entry is None else "some true"))
    spec = run_table(res, "cli_argspec", extract_argspec)
    if spec is None:
        out.append("def cliArgSpec : Option (List (String × List String × Bool)) := none")
    else:
        rows = ", ".join(
            f"({lean_str(c)}, [{', '.join(lean_str(p) for p in pos)}], {'true' if f else 'false'})" for c, pos, f in spec)
        out.append(f"def cliArgSpec : Option (List (String × List String × Bool)) := some [{rows}]")
    fo = run_table(res, "cli_fileopt", extract_fileopt)
    if fo is None:
        out.append("def cliFileOpt : Option FileOpt := none")
    else:
        b = lambda x: "true" if x else "false"
        out.append(
            "def cliFileOpt : Option FileOpt := some ⟨[" + ", ".join(lean_str(f) for f in fo["flags"]) + "], "
            f"{lean_str(fo['mode'])}, {lean_str(fo['encoding'])}, {b(fo['default_stdin'])}, {b(fo['universal_newlines'])}⟩")
    out += ["", "end Nima.Gen", ""]
    return {"Cli.lean": "\n".join(out)}
