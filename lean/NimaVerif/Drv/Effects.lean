import NimaVerif.Model.Effects
import NimaVerif.Model.Sched
import NimaVerif.Model.SExp
import NimaVerif.Gen.Effects
import NimaVerif.Gen.ProcState
/-! Driver requests for C15: the checker's report on the generated effect program, and runs of
the schedule model (for the lock-step correspondence with real threads). -/
namespace Nima.Drv.Effects
open Nima Nima.Effects Nima.Sched

def sStr (s : String) : SExp := sText s.toList

/-- `(effects-report)` → `(ok (stmts n) (writes n) (certerrors n) (violations <label>…))` -/
def report : SExp :=
  match Gen.Effects.rebuildProg, Gen.Effects.cert with
  | some p, some c =>
    .list [.atom "ok",
      .list [.atom "stmts", sNat p.stmts.length],
      .list [.atom "writes", sNat (p.stmts.filter Stmt.isWrite).length],
      .list [.atom "certerrors", sNat (certErrors p c)],
      .list (.atom "violations" :: (violations p c).map fun l => sStr (Gen.Effects.labels.getD l "?"))]
  | _, _ => .list [.atom "none"]

def decCVar : String → Option CVar
  | "b" => some .bytes
  | "p" => some .path
  | _ => none

def decOp : List SExp → Option Op
  | [.atom "getparser"] => some .getParser
  | [.atom "pbegin", .atom d] => d.toNat?.map .parseBegin
  | [.atom "pend"] => some .parseEnd
  | [.atom "cset", .atom v, .atom x] => do some (.ctxSet (← decCVar v) (← x.toNat?))
  | [.atom "cget", .atom v] => do some (.ctxGet (← decCVar v))
  | [.atom "creset", .atom v] => do some (.ctxReset (← decCVar v))
  | [.atom "ralloc", .atom n, .atom k] => do some (.regAlloc (← n.toNat?) (← k.toNat?))
  | [.atom "rfree", .atom n] => n.toNat?.map .regFree
  | [.atom "rstore", .atom n, .atom x] => do some (.regStore (← n.toNat?) (← x.toNat?))
  | [.atom "rget", .atom n] => n.toNat?.map .regGet
  | [.atom "rclear", .atom n] => n.toNat?.map .regClear
  | _ => none

def decStep : SExp → Option (Tid × Op)
  | .list (.atom t :: rest) => do some (← t.toNat?, ← decOp rest)
  | _ => none

def encObs : Obs → SExp
  | .unit => .atom "u"
  | .flag b => sBool b
  | .val none => .list [.atom "v", .atom "none"]
  | .val (some n) => .list [.atom "v", sNat n]
  | .err => .atom "e"

def decCfg : List SExp → Option Cfg
  | [.atom a, .atom b, .atom c] => some ⟨a == "t", b == "t", c == "t"⟩
  | _ => none

/-- `(sched (cfg t t t) (tid op args…) …)` → `(ok (tid obs) …)` -/
def sched (cfg : List SExp) (steps : List SExp) : SExp :=
  match decCfg cfg, steps.mapM decStep with
  | some c, some sc =>
    let tr := (run c State.init sc).2
    .list (.atom "ok" :: tr.map fun e => .list [sNat e.1, encObs e.2])
  | _, _ => .list [.atom "bad-arg"]

def handle (req : SExp) : Option SExp :=
  match req with
  | .list [.atom "effects-report"] => some report
  | .list (.atom "sched" :: .list (.atom "cfg" :: cfg) :: steps) => some (sched cfg steps)
  | _ => none

end Nima.Drv.Effects
