import NimaVerif.Model.Basic
/-!
L9 shell model: the command line of `nix_manipulator/cli/main.py` + `cli/parser.py` + `__main__.py`.

The body of every `case` of `match args.command` is a small straight-line program with early
returns. `Prog` is that program in A-normal form (every call the CLI makes is bound to the next
variable `v0, v1, …`; the rest of the block is pushed into both branches of an `if`), `run` is
its interpreter, parametrised by the *library* (`Lib`: parse / contains_error / rebuild /
set_value / remove_value, any behaviour, may raise) and by the invocation (`Inv`: input channel,
what the channel delivers, positional arguments).

The translator (`harness/translate/gen_cli.py`) re-extracts the `Prog` of `test`, `set`, `rm` and of
the default case from the Python AST on every run (`Gen/Cli.lean`); `Props/C16.lean` proves them
equal to `testProg`, `setProg`, `rmProg`, `defaultProg` below (`tie_*`), which are the hand-written
transliteration (`-f FILE` is opened with `newline=""`, like POSIX `sys.stdin` it is not
newline-translated; the older, defective programs and wiring are kept as `old*`).

An uncaught exception ends `main()` with a traceback on stderr and exit status 1; what was printed
before stays on stdout. argparse errors end the process with status 2 before `main` dispatches.
-/
namespace Nima.Cli
open Nima

variable {σ : Type}

inductive Channel where
  | stdin | file
deriving DecidableEq, Repr, Inhabited

/-- positional arguments of the sub-commands (`args.npath`, `args.value`) -/
inductive CliArg where
  | npath | value
deriving DecidableEq, Repr

/-- an atomic operand: an earlier variable or a string constant -/
inductive Arg where
  | var (i : Nat)
  | lit (s : Text)
deriving DecidableEq, Repr

/-- right-hand sides: every call the CLI makes -/
inductive Rhs where
  | read                                            -- `args.file.read()`
  | parse (x : Arg)                                 -- `parse(x)`
  | rebuild (x : Arg)                               -- `x.rebuild()`
  | setValue (src : Arg) (np val : CliArg)     -- `set_value(source=src, npath=args.…, value=args.…)`
  | removeValue (src : Arg) (np : CliArg)           -- `remove_value(source=src, npath=args.…)`
  | concat (x y : Arg)                              -- `x + y`
deriving DecidableEq, Repr

inductive Cond where
  | containsError (x : Arg)                         -- `x.contains_error`
  | eq (x y : Arg)                                  -- `x == y`
  | endsWith (x : Arg) (suffix : Text)              -- `x.endswith("…")`
  | isStdin                                         -- `args.file is sys.stdin`
deriving DecidableEq, Repr

inductive Prog where
  | bind (r : Rhs) (k : Prog)                       -- `v_n = r` (n = number of binds so far on this path)
  | print (x : Arg) (k : Prog)                      -- `print(x)`: str(x) + "\n" to stdout
  | write (x : Arg) (k : Prog)                      -- `sys.stdout.write(x)` / `print(x, end="")`
  | helpStderr (k : Prog)                           -- `parser.print_help(sys.stderr)`
  | ite (c : Cond) (t e : Prog)                     -- `if c: t… else: e…` (the rest of the block is in both)
  | tryBind (r : Rhs) (k : Prog) (h : Prog)         -- `v_n = r` inside `try:`; if it raises, continue with `h`
  | tryIte (c : Cond) (t e : Prog) (h : Prog)       -- a condition evaluated inside `try:`; handler `h`
  | ret (code : Nat)                                -- `return code`
  | done                                            -- end of `main` without `return`: `SystemExit(None)`, status 0
deriving DecidableEq, Repr

/-- The library, as far as the CLI uses it. `σ` is the parsed source object. Any behaviour. -/
structure Lib (σ : Type) where
  parse : Text → Except Err σ
  containsError : σ → Bool
  rebuild : σ → Except Err Text
  setValue : σ → Text → Text → Except Err Text
  removeValue : σ → Text → Except Err Text

inductive Val (σ : Type) where
  | text (t : Text)
  | src (s : σ)

/-- What the process shows: bytes on stdout (as text; stdout is UTF-8), exit status, the exception
    class of the traceback on stderr if any, whether the help text went to stderr. -/
structure Res where
  stdout : Text
  exit : Nat
  raised : Option Err
  help : Bool
deriving DecidableEq, Repr

structure St (σ : Type) where
  env : List (Val σ) := []
  out : Text := []
  consumed : Bool := false      -- the input stream has been read to its end
  help : Bool := false

def crash (st : St σ) (e : Err) : Res := ⟨st.out, 1, some e, st.help⟩

def evalArg (env : List (Val σ)) : Arg → Except Err (Val σ)
  | .var i => match env[i]? with
    | some v => .ok v
    | none => .error (.internal "UnboundLocalError")
  | .lit s => .ok (.text s)

def asText : Val σ → Except Err Text
  | .text t => .ok t
  | .src _ => .error .type          -- not modelled: str() of a source object
def asSrc : Val σ → Except Err σ
  | .src s => .ok s
  | .text _ => .error (.internal "AttributeError")

def argText (env : List (Val σ)) (a : Arg) : Except Err Text := do asText (← evalArg env a)
def argSrc (env : List (Val σ)) (a : Arg) : Except Err σ := do asSrc (← evalArg env a)

def cliArgVal (npath value : Text) : CliArg → Text
  | .npath => npath
  | .value => value

/-- value of a right-hand side and the new "stream consumed" flag. `content` is what
    `args.file.read()` yields on the first call (an exhausted text stream yields `""` afterwards). -/
def evalRhs (lib : Lib σ) (content : Except Err Text) (npath value : Text) (st : St σ) :
    Rhs → Except Err (Val σ × Bool)
  | .read =>
    if st.consumed then .ok (.text [], true)
    else match content with
      | .ok t => .ok (.text t, true)
      | .error e => .error e
  | .parse x => do
    let t ← argText st.env x
    let s ← lib.parse t
    pure (.src s, st.consumed)
  | .rebuild x => do
    let s ← argSrc st.env x
    let t ← lib.rebuild s
    pure (.text t, st.consumed)
  | .setValue x np v => do
    let s ← argSrc st.env x
    let t ← lib.setValue s (cliArgVal npath value np) (cliArgVal npath value v)
    pure (.text t, st.consumed)
  | .removeValue x np => do
    let s ← argSrc st.env x
    let t ← lib.removeValue s (cliArgVal npath value np)
    pure (.text t, st.consumed)
  | .concat x y => do
    let a ← argText st.env x
    let b ← argText st.env y
    pure (.text (a ++ b), st.consumed)

/-- `s.endswith(suffix)` -/
def endsWith (s suffix : Text) : Bool := suffix.isSuffixOf s

def evalCond (lib : Lib σ) (chan : Channel) (st : St σ) : Cond → Except Err Bool
  | .containsError x => do
    let s ← argSrc st.env x
    pure (lib.containsError s)
  | .eq x y => do
    let a ← argText st.env x
    let b ← argText st.env y
    pure (a == b)
  | .endsWith x suf => do
    let a ← argText st.env x
    pure (endsWith a suf)
  | .isStdin => pure (chan == .stdin)

/-- The interpreter. -/
def run (lib : Lib σ) (content : Except Err Text) (chan : Channel) (npath value : Text) :
    Prog → St σ → Res
  | .bind r k, st =>
    match evalRhs lib content npath value st r with
    | .ok (v, c) => run lib content chan npath value k { st with env := st.env ++ [v], consumed := c }
    | .error e => crash st e
  | .print x k, st =>
    match argText st.env x with
    | .ok t => run lib content chan npath value k { st with out := st.out ++ (t ++ ['\n']) }
    | .error e => crash st e
  | .write x k, st =>
    match argText st.env x with
    | .ok t => run lib content chan npath value k { st with out := st.out ++ t }
    | .error e => crash st e
  | .helpStderr k, st => run lib content chan npath value k { st with help := true }
  | .ite c t e, st =>
    match evalCond lib chan st c with
    | .ok true => run lib content chan npath value t st
    | .ok false => run lib content chan npath value e st
    | .error err => crash st err
  | .tryBind r k h, st =>
    match evalRhs lib content npath value st r with
    | .ok (v, c) => run lib content chan npath value k { st with env := st.env ++ [v], consumed := c }
    | .error _ => run lib content chan npath value h st
  | .tryIte c t e h, st =>
    match evalCond lib chan st c with
    | .ok true => run lib content chan npath value t st
    | .ok false => run lib content chan npath value e st
    | .error _ => run lib content chan npath value h st
  | .ret n, st => ⟨st.out, n, none, st.help⟩
  | .done, st => ⟨st.out, 0, none, st.help⟩

/-! ## The current command line (transliteration of `cli/main.py`) -/

def sOK : Text := ['O', 'K']
def sFail : Text := ['F', 'a', 'i', 'l']

/-- what the `except Exception:` branch of `case "test"` goes on to do: `passed = False`, so
    `print("Fail"); return 1` -/
def failExit : Prog := .print (.lit sFail) (.ret 1)

/-- `case "test"` (since /repo 1526c34): reading, parsing, the error test, rebuilding and the
    comparison are inside `try: … except Exception: passed = False`

```python
try:
    original = args.file.read()
    source = parse(original)
    passed = not source.contains_error and source.rebuild() == original
except Exception:
    passed = False
print("OK" if passed else "Fail")
return 0 if passed else 1
```
(`passed` is resolved per path by the translator: every path ends in `print("OK"); return 0` or
`print("Fail"); return 1`.) -/
def testProg : Prog :=
  .tryBind .read (                                  -- v0: original = args.file.read()
  .tryBind (.parse (.var 0)) (                      -- v1: source = parse(original)
  .tryIte (.containsError (.var 1))                 -- not source.contains_error and …
    failExit                                        --   passed = False
    (.tryBind (.rebuild (.var 1)) (                 -- v2 = source.rebuild()
     .tryIte (.eq (.var 2) (.var 0))                -- v2 == original
       (.print (.lit sOK) (.ret 0))                 --   passed = True
       failExit                                     --   passed = False
       failExit)
     failExit)
    failExit)
  failExit)
  failExit

/-- `case "test"` BEFORE /repo 1526c34 (fixed defect C16-test-traceback), kept so that a regression is
    recognised: exceptions of `read()`, `parse()`, `rebuild()` escape. -/
def oldTestProg : Prog :=
  .bind .read <|                                    -- v0: original = args.file.read()
  .bind (.parse (.var 0)) <|                        -- v1: source = parse(original)
  .ite (.containsError (.var 1))                    -- if source.contains_error:
    (.print (.lit sFail) (.ret 1))                  --     print("Fail"); return 1
    (.bind (.rebuild (.var 1)) <|                   -- v2: rebuild = source.rebuild()
     .ite (.eq (.var 0) (.var 2))                   -- if original == rebuild:
       (.print (.lit sOK) (.ret 0))                 --     print("OK"); return 0
       (.print (.lit sFail) (.ret 1)))              -- print("Fail"); return 1

/-- `case "set"` / `case "rm"` (since /repo 9670208): write the edit text, add `\n` only if missing

```python
source = parse(args.file.read())
text = set_value(source=source, npath=args.npath, value=args.value)
sys.stdout.write(text if text.endswith("\n") else text + "\n")
return 0
```
-/
def editProg (edit : Rhs) : Prog :=
  .bind .read <|                                    -- v0 = args.file.read()
  .bind (.parse (.var 0)) <|                        -- v1: source = parse(v0)
  .bind edit <|                                     -- v2: text = set_value(…) / remove_value(…)
  .ite (.endsWith (.var 2) ['\n'])                  -- text if text.endswith("\n")
    (.write (.var 2) (.ret 0))                      --   sys.stdout.write(text); return 0
    (.bind (.concat (.var 2) (.lit ['\n'])) <|      -- v3 = text + "\n"
     .write (.var 3) (.ret 0))                      --   sys.stdout.write(v3); return 0

def setProg : Prog := editProg (.setValue (.var 1) .npath .value)
def rmProg : Prog := editProg (.removeValue (.var 1) .npath)

/-- The programs BEFORE /repo 9670208 (fixed defect C16-print-newline), kept so that a regression is
    recognised: `print(set_value(…))` always appends a newline. -/
def oldEditProg (edit : Rhs) : Prog :=
  .bind .read <|
  .bind (.parse (.var 0)) <|
  .bind edit <|
  .print (.var 2) (.ret 0)

def oldSetProg : Prog := oldEditProg (.setValue (.var 1) .npath .value)
def oldRmProg : Prog := oldEditProg (.removeValue (.var 1) .npath)

/-- `case _` (no sub-command) -/
def defaultProg : Prog := .helpStderr (.ret 2)

/-! ## argparse wiring (transliteration of `cli/parser.py`) -/

/-- sub-command ↦ (names of its positionals in order, has the `-f` / `--file` option) -/
def argSpec : List (String × List String × Bool) :=
  [("rm", ["npath"], true), ("set", ["npath", "value"], true), ("shell", [], true), ("test", [], true)]

structure FileOpt where
  flags : List String
  mode : String
  encoding : String
  defaultStdin : Bool
  /-- the file is opened with `newline=None` (what `argparse.FileType` always does): `\r\n` and
      `\r` are translated to `\n` while reading; `false` for `open(…, newline="")` -/
  universalNewlines : Bool
deriving DecidableEq, Repr

/-- since /repo 1fe47da: `type=_open_input`, i.e. `open(path, "r", encoding="utf-8", newline="")` -/
def fileOpt : FileOpt := ⟨["-f", "--file"], "r", "utf-8", true, false⟩

/-- BEFORE /repo 1fe47da (fixed defect C16-file-newline-translation): `argparse.FileType("r", encoding="utf-8")` -/
def oldFileOpt : FileOpt := ⟨["-f", "--file"], "r", "utf-8", true, true⟩

/-- `TextIOWrapper(newline=None)` reading: `\r\n` ↦ `\n`, lone `\r` ↦ `\n`. A `\r` is emitted as
    `\n` at once; a `\n` directly after it is swallowed (`prevCR`). -/
def trNl : Bool → Text → Text
  | _, [] => []
  | prevCR, c :: rest =>
    if c = '\r' then '\n' :: trNl true rest
    else if c = '\n' then (if prevCR then trNl false rest else '\n' :: trNl false rest)
    else c :: trNl false rest

def translateNewlines (t : Text) : Text := trNl false t

inductive Cmd where
  | test | set | rm
deriving DecidableEq, Repr

def Cmd.name : Cmd → String
  | .test => "test" | .set => "set" | .rm => "rm"

def progOf : Cmd → Prog
  | .test => testProg | .set => setProg | .rm => rmProg

/-- One invocation after argparse succeeded. `raw` is the input after byte decoding and before any
    newline translation (`.error`: undecodable bytes; raised by `.read()` inside `main`). -/
structure Inv where
  chan : Channel
  raw : Except Err Text
  npath : Text := []
  value : Text := []

/-- what `args.file.read()` yields: POSIX `sys.stdin` is not newline-translated; a `-f FILE` stream is,
    when the option opens it in universal-newlines mode -/
def contentWith (fo : FileOpt) (chan : Channel) (raw : Except Err Text) : Except Err Text :=
  match chan with
  | .stdin => raw
  | .file => if fo.universalNewlines then raw.map translateNewlines else raw

def Inv.content (inv : Inv) : Except Err Text := contentWith fileOpt inv.chan inv.raw

def runProg (lib : Lib σ) (p : Prog) (inv : Inv) : Res :=
  run lib inv.content inv.chan inv.npath inv.value p {}

/-- the same with another `-f` wiring (used for the old, newline-translating one) -/
def runProgWith (fo : FileOpt) (lib : Lib σ) (p : Prog) (inv : Inv) : Res :=
  run lib (contentWith fo inv.chan inv.raw) inv.chan inv.npath inv.value p {}

/-- `python -m nix_manipulator <cmd> …` for a parsed command line -/
def cli (lib : Lib σ) (cmd : Cmd) (inv : Inv) : Res := runProg lib (progOf cmd) inv

/-- How argparse left things. -/
inductive ArgOutcome where
  | usage                       -- argparse error: message on stderr, `SystemExit(2)`
  | noCommand                   -- no sub-command: `args.command is None`, the `case _` branch
  | parsed (cmd : Cmd) (inv : Inv)

/-- bind positional values to the positional names of the sub-command (wrong count: usage error) -/
def bindPositionals (spec : List (String × List String × Bool)) (cmd : Cmd) (vals : List Text) :
    Option (List (String × Text)) :=
  match spec.lookup cmd.name with
  | some (names, _) => if names.length = vals.length then some (names.zip vals) else none
  | none => none

def argOutcome (cmd : Cmd) (chan : Channel) (raw : Except Err Text) (vals : List Text) : ArgOutcome :=
  match bindPositionals argSpec cmd vals with
  | some b => .parsed cmd ⟨chan, raw, (b.lookup "npath").getD [], (b.lookup "value").getD []⟩
  | none => .usage

def usageRes : Res := ⟨[], 2, none, false⟩

def cliMain (lib : Lib σ) : ArgOutcome → Res
  | .usage => usageRes
  | .noCommand => runProg lib defaultProg { chan := .stdin, raw := .ok [] }
  | .parsed cmd inv => cli lib cmd inv

/-! ## SPEC definitions used by the property -/

/-- "adding a line terminator only when that text lacks one" -/
def ensureNewline (t : Text) : Text := if t.getLast? = some '\n' then t else t ++ ['\n']

/-- the text ends in exactly one newline -/
def endsInOneNewline (t : Text) : Bool :=
  match t.reverse with
  | '\n' :: '\n' :: _ => false
  | '\n' :: _ => true
  | _ => false

/-- "the input is free of syntax errors and rebuilds to identical bytes" -/
def Good (lib : Lib σ) (t : Text) : Prop :=
  ∃ s, lib.parse t = .ok s ∧ lib.containsError s = false ∧ lib.rebuild s = .ok t

/-- the library answers (does not raise) on this text: parse returns, and rebuild returns unless
    the source is flagged erroneous (then the CLI does not call it) -/
def libAnswers (lib : Lib σ) (t : Text) : Bool :=
  match lib.parse t with
  | .ok s => lib.containsError s || (match lib.rebuild s with | .ok _ => true | .error _ => false)
  | .error _ => false

/-- the library edit on a text: what `nima set`/`nima rm` are supposed to emit -/
def libEdit (lib : Lib σ) (cmd : Cmd) (npath value : Text) (t : Text) : Except Err Text :=
  match lib.parse t with
  | .error e => .error e
  | .ok s =>
    match cmd with
    | .set => lib.setValue s npath value
    | .rm => lib.removeValue s npath
    | .test => .error (.internal "not-an-edit")

def hasCR (t : Text) : Bool := t.contains '\r'

/-- the programs before /repo 9670208 (`set`, `rm`) and 1526c34 (`test`) -/
def oldProgOf : Cmd → Prog
  | .test => oldTestProg | .set => oldSetProg | .rm => oldRmProg

/-- the current programs behind another `-f` wiring -/
def cliWith (fo : FileOpt) (lib : Lib σ) (cmd : Cmd) (inv : Inv) : Res := runProgWith fo lib (progOf cmd) inv

def oldCli (lib : Lib σ) (cmd : Cmd) (inv : Inv) : Res := runProg lib (oldProgOf cmd) inv

end Nima.Cli
