import NimaVerif.Lemmas.FragParse
/-! `a comment never absorbs code` for the piece-level renderer of the container fragment. Core Lean only. -/
namespace Nima.Frag
open Nima

/-! ### safety scan -/

theorem safeGo_append : ∀ (o : Bool) (a b : List FP),
    safeGo o (a ++ b) = (safeGo o a && safeGo (openAfter o a) b)
  | o, [], b => by simp [safeGo, openAfter]
  | o, p :: a, b => by
    simp only [List.cons_append, safeGo, openAfter, safeGo_append _ a b, Bool.and_assoc]

theorem openAfter_append : ∀ (o : Bool) (a b : List FP), openAfter o (a ++ b) = openAfter (openAfter o a) b
  | o, [], b => rfl
  | o, p :: a, b => by simp only [List.cons_append, openAfter, openAfter_append _ a b]

theorem step_of_empty {p : FP} (h : p.text = []) (o : Bool) : stepOk o p = true ∧ stepOpen o p = o := by
  simp [stepOk, stepOpen, h]

/-- a piece list that writes nothing leaves the state alone -/
theorem scan_of_concat_nil : ∀ (o : Bool) (ps : List FP), concat ps = [] → safeGo o ps = true ∧ openAfter o ps = o
  | o, [], _ => ⟨rfl, rfl⟩
  | o, p :: rest, h => by
    rw [concat_cons] at h
    have h1 : p.text = [] := (List.append_eq_nil_iff.mp h).1
    have h2 := scan_of_concat_nil o rest (List.append_eq_nil_iff.mp h).2
    have h3 := step_of_empty h1 o
    simp only [safeGo, openAfter, h3.1, h3.2, Bool.true_and]
    exact h2

@[simp] theorem stepOk_ws_nl (o : Bool) (s : Text) : stepOk o (.ws ('\n' :: s)) = true := by
  simp [stepOk, startsWithNL]
@[simp] theorem stepOpen_ws_cons (o : Bool) (c : Char) (s : Text) : stepOpen o (.ws (c :: s)) = false := by
  simp [stepOpen]
@[simp] theorem stepOk_false (p : FP) : stepOk false p = true := by
  cases p <;> simp [stepOk]
@[simp] theorem stepOpen_tok_cons (o : Bool) (c : Char) (s : Text) : stepOpen o (.tok (c :: s)) = false := by
  simp [stepOpen]
@[simp] theorem stepOpen_ws_false (s : Text) : stepOpen false (.ws s) = false := by
  simp [stepOpen]
@[simp] theorem stepOpen_tok_false (s : Text) : stepOpen false (.tok s) = false := by
  simp [stepOpen]

/-! ### `format_trivia` as lines -/

/-- the pieces one trivia item renders to -/
def itemP (i : Nat) : Trivia → List FP
  | .emptyLine => [.ws ['\n']]
  | .linebreak => []
  | .comma => [.tok [',']]
  | .comment c => cmtP c i ++ [.ws ['\n']]

def linesP (i : Nat) (ts : List Trivia) : List FP := ts.flatMap (itemP i)

theorem linesP_nil (i : Nat) : linesP i [] = [] := rfl
theorem linesP_cons (i : Nat) (t : Trivia) (ts : List Trivia) : linesP i (t :: ts) = itemP i t ++ linesP i ts := by
  simp [linesP]
theorem linesP_append (i : Nat) (a b : List Trivia) : linesP i (a ++ b) = linesP i a ++ linesP i b := by
  simp [linesP]

theorem fmtGoP_lines (i : Nat) : ∀ (ts : List Trivia) (acc : List FP) (e : Bool), CommaFree ts →
    fmtGoP i ts acc e = acc ++ linesP i ts
  | [], acc, e, _ => by simp [fmtGoP, linesP]
  | .emptyLine :: rest, acc, e, h => by
    rw [fmtGoP, fmtGoP_lines i rest _ _ (commaFree_cons h), linesP_cons]; simp [itemP]
  | .linebreak :: rest, acc, e, h => by
    rw [fmtGoP, fmtGoP_lines i rest _ _ (commaFree_cons h), linesP_cons]; simp [itemP]
  | .comma :: rest, acc, e, h => absurd (List.mem_cons_self ..) h
  | .comment c :: rest, acc, e, h => by
    rw [fmtGoP, fmtGoP_lines i rest _ _ (commaFree_cons h), linesP_cons]; simp [itemP]

theorem fmtP_lines {ts : List Trivia} (h : CommaFree ts) (i : Nat) : fmtP ts i = linesP i ts := by
  rw [fmtP, fmtGoP_lines i ts [] true h]; rfl

theorem dropLastCharP_snoc (xs : List FP) (p : FP) (hp : p.text.length = 1) : dropLastCharP (xs ++ [p]) = xs := by
  induction xs with
  | nil => simp [dropLastCharP, hp]
  | cons x xs ih =>
    have hne : (concat (xs ++ [p])).isEmpty = false := by
      rw [concat_append]
      cases hpt : p.text with
      | nil => rw [hpt] at hp; simp at hp
      | cons c r => simp [hpt]
    simp only [List.cons_append, dropLastCharP, hne, Bool.false_eq_true, if_false, ih]

theorem endsWithNL_concat_snoc_nl (xs : List FP) : endsWithNL (concat (xs ++ [.ws ['\n']])) = true := by
  rw [concat_append]; simp [endsWithNL]

/-- `trim_trailing_layout_newline(ts, format_trivia(ts))`: the line break after a final comment is cut -/
theorem trimP_lines_comment (i : Nat) (init : List Trivia) (c : Comment) (all : List Trivia)
    (hl : all.getLast? = some (.comment c)) :
    trimP all (linesP i (init ++ [.comment c])) = linesP i init ++ cmtP c i := by
  unfold trimP
  rw [hl]
  have e : linesP i (init ++ [.comment c]) = (linesP i init ++ cmtP c i) ++ [.ws ['\n']] := by
    rw [linesP_append, linesP_cons, linesP_nil]; simp [itemP]
  simp only [e, Trivia.isLayout, Bool.not_false, Bool.true_and, endsWithNL_concat_snoc_nl, if_true]
  exact dropLastCharP_snoc _ _ rfl

theorem trimP_layout (all : List Trivia) (t : Trivia) (hl : all.getLast? = some t) (ht : t.isLayout = true)
    (ps : List FP) : trimP all ps = ps := by
  unfold trimP; rw [hl]; simp [ht]

theorem trimP_nil_ps (all : List Trivia) : trimP all [] = [] := by
  unfold trimP; cases all.getLast? <;> simp [endsWithNL]

/-! ### generic facts about the scan -/

/-- some comment piece is a line comment -/
def hasLineP (ps : List FP) : Prop := ∃ s, FP.cmt s ∈ ps ∧ isLineTok s = true

theorem hasLineP_append {a b : List FP} : hasLineP (a ++ b) ↔ hasLineP a ∨ hasLineP b := by
  constructor
  · rintro ⟨s, hm, hl⟩
    rcases List.mem_append.mp hm with h | h
    · exact Or.inl ⟨s, h, hl⟩
    · exact Or.inr ⟨s, h, hl⟩
  · rintro (⟨s, hm, hl⟩ | ⟨s, hm, hl⟩)
    · exact ⟨s, List.mem_append_left _ hm, hl⟩
    · exact ⟨s, List.mem_append_right _ hm, hl⟩

theorem not_hasLineP_nil : ¬ hasLineP [] := by rintro ⟨s, hm, _⟩; cases hm

theorem hasLineP_cons {p : FP} {ps : List FP} :
    hasLineP (p :: ps) ↔ (∃ s, p = .cmt s ∧ isLineTok s = true) ∨ hasLineP ps := by
  constructor
  · rintro ⟨t, hm, hl⟩
    rcases List.mem_cons.mp hm with h | h
    · exact Or.inl ⟨t, h.symm, hl⟩
    · exact Or.inr ⟨t, h, hl⟩
  · rintro (⟨s, rfl, hl⟩ | ⟨t, hm, hl⟩)
    · exact ⟨s, List.mem_cons_self .., hl⟩
    · exact ⟨t, List.mem_cons_of_mem _ hm, hl⟩

theorem stepOpen_true {o : Bool} {p : FP} (h : stepOpen o p = true) :
    o = true ∨ ∃ s, p = .cmt s ∧ isLineTok s = true := by
  unfold stepOpen at h
  split at h
  · exact Or.inl h
  · cases p with
    | ws s => cases h
    | tok s => cases h
    | cmt s => exact Or.inr ⟨s, rfl, h⟩

/-- the scan ends with an open line comment only if it started with one or met one -/
theorem openAfter_true : ∀ (o : Bool) (ps : List FP), openAfter o ps = true → o = true ∨ hasLineP ps
  | o, [], h => Or.inl h
  | o, p :: rest, h => by
    rcases openAfter_true _ rest h with h1 | h1
    · rcases stepOpen_true h1 with h2 | h2
      · exact Or.inl h2
      · exact Or.inr (hasLineP_cons.mpr (Or.inl h2))
    · exact Or.inr (hasLineP_cons.mpr (Or.inr h1))

theorem step_dropLast {p : FP} (hl : ¬ p.text.length ≤ 1) (o : Bool) :
    stepOk o (p.withText p.text.dropLast) = stepOk o p ∧ stepOpen o (p.withText p.text.dropLast) = stepOpen o p := by
  cases p with
  | ws s =>
    match s, hl with
    | [], hl => exact absurd (by simp) hl
    | [_], hl => exact absurd (by simp) hl
    | a :: b :: r, _ => simp [FP.withText, stepOk, stepOpen, startsWithNL, List.dropLast]
  | tok s =>
    match s, hl with
    | [], hl => exact absurd (by simp) hl
    | [_], hl => exact absurd (by simp) hl
    | a :: b :: r, _ => simp [FP.withText, stepOk, stepOpen, List.dropLast]
  | cmt s =>
    match s, hl with
    | [], hl => exact absurd (by simp) hl
    | [_], hl => exact absurd (by simp) hl
    | a :: b :: r, _ => simp [FP.withText, stepOk, stepOpen, isLineTok, List.dropLast]

/-- cutting the last character never makes the output unsafe -/
theorem safeGo_dropLastCharP : ∀ (o : Bool) (ps : List FP), safeGo o ps = true → safeGo o (dropLastCharP ps) = true
  | o, [], _ => rfl
  | o, p :: rest, h => by
    simp only [safeGo, Bool.and_eq_true] at h
    simp only [dropLastCharP]
    by_cases he : (concat rest).isEmpty = true
    · simp only [he, if_true]
      by_cases hl : p.text.length ≤ 1
      · simp [hl, safeGo]
      · simp only [hl, if_false, safeGo, (step_dropLast hl o).1, h.1, Bool.and_self]
    · simp only [he, Bool.false_eq_true, if_false, safeGo, h.1, Bool.true_and]
      exact safeGo_dropLastCharP _ rest h.2

theorem hasLineP_dropLastCharP : ∀ (ps : List FP), hasLineP (dropLastCharP ps) → hasLineP ps
  | [], h => h
  | p :: rest, h => by
    simp only [dropLastCharP] at h
    by_cases he : (concat rest).isEmpty = true
    · simp only [he, if_true] at h
      by_cases hl : p.text.length ≤ 1
      · simp only [hl, if_true] at h; exact absurd h not_hasLineP_nil
      · simp only [hl, if_false] at h
        rcases hasLineP_cons.mp h with ⟨t, hm, ht⟩ | h'
        · cases p with
          | ws s => cases hm
          | tok s => cases hm
          | cmt s =>
            simp only [FP.withText] at hm
            injection hm with hm
            subst hm
            simp only [text_cmt] at hl
            refine hasLineP_cons.mpr (Or.inl ⟨s, rfl, ?_⟩)
            match s, hl, ht with
            | [], hl, _ => exact absurd (by simp) hl
            | [_], hl, _ => exact absurd (by simp) hl
            | a :: b :: r, _, ht => simpa [isLineTok, List.dropLast] using ht
        · exact absurd h' not_hasLineP_nil
    · simp only [he, Bool.false_eq_true, if_false] at h
      rcases hasLineP_cons.mp h with h1 | h1
      · exact hasLineP_cons.mpr (Or.inl h1)
      · exact hasLineP_cons.mpr (Or.inr (hasLineP_dropLastCharP rest h1))

/-! ### trivia renderers are safe -/

theorem token_head {c : Comment} (hc : cOk c) (k : Nat) : isLineTok (c.token k) = true → c.kind = .line := by
  intro h
  cases hk : c.kind with
  | line => rfl
  | block doc ii =>
    exfalso
    unfold Comment.token at h
    simp only [hk, show containsNL c.text = false from hc, Bool.false_eq_true, if_false] at h
    cases doc <;> simp [isLineTok] at h

theorem cmtP_scan {c : Comment} (hc : cOk c) (i : Nat) (rest : List FP) :
    safeGo false (cmtP c i ++ rest) = safeGo (isLineTok (c.token 0)) rest ∧
    openAfter false (cmtP c i ++ rest) = openAfter (isLineTok (c.token 0)) rest := by
  have hne := token_ne_nil c (c.effIndent i) (cOk_tokenLike hc)
  have hti := token_indep hc (c.effIndent i)
  have hso : stepOpen false (FP.cmt (c.token (c.effIndent i))) = isLineTok (c.token 0) := by
    unfold stepOpen
    have : (FP.cmt (c.token (c.effIndent i))).text.isEmpty = false := by
      simp only [text_cmt]; cases hx : c.token (c.effIndent i) with
      | nil => exact absurd hx hne
      | cons _ _ => rfl
    rw [hti] at this ⊢
    simp only [this, Bool.false_eq_true, if_false]
  simp only [cmtP, List.cons_append, List.nil_append, safeGo, openAfter, stepOk_false, stepOpen_ws_false,
    Bool.true_and, hso]
  exact ⟨trivial, trivial⟩

theorem linesP_scan (i : Nat) : ∀ {ts : List Trivia}, TrivOk ts →
    safeGo false (linesP i ts) = true ∧ openAfter false (linesP i ts) = false
  | [], _ => ⟨rfl, rfl⟩
  | .emptyLine :: rest, h => by
    have ih := linesP_scan i (trivOk_cons h)
    rw [linesP_cons]; simpa [itemP, safeGo, openAfter] using ih
  | .linebreak :: rest, h => by
    have ih := linesP_scan i (trivOk_cons h)
    rw [linesP_cons]; simpa [itemP] using ih
  | .comma :: rest, h => absurd (List.mem_cons_self ..) h.1
  | .comment c :: rest, h => by
    have ih := linesP_scan i (trivOk_cons h)
    have hc : cOk c := h.2 c (List.mem_cons_self ..)
    rw [linesP_cons]
    simp only [itemP, List.append_assoc]
    have := cmtP_scan hc i ([FP.ws ['\n']] ++ linesP i rest)
    rw [this.1, this.2]
    simpa [safeGo, openAfter] using ih

theorem hasLineP_cmtP {c : Comment} (hc : cOk c) (i : Nat) (h : hasLineP (cmtP c i)) : c.kind = .line := by
  obtain ⟨s, hm, hl⟩ := h
  simp only [cmtP, List.mem_cons, List.mem_nil_iff, or_false] at hm
  rcases hm with hm | hm
  · cases hm
  · injection hm with hm; subst hm; exact token_head hc _ hl

/-- no comment of the list is a line comment -/
def lineFree (ts : List Trivia) : Prop := ∀ c, Trivia.comment c ∈ ts → c.kind ≠ .line

theorem hasLineP_linesP (i : Nat) : ∀ {ts : List Trivia}, TrivOk ts → hasLineP (linesP i ts) → ¬ lineFree ts
  | [], _, h => absurd h not_hasLineP_nil
  | t :: rest, hok, h => by
    rw [linesP_cons, hasLineP_append] at h
    intro hf
    rcases h with h | h
    · cases t with
      | emptyLine => simp only [itemP] at h; exact not_hasLineP_nil (hasLineP_cons.mp h |>.resolve_left (by rintro ⟨s, hs, _⟩; cases hs))
      | linebreak => exact not_hasLineP_nil h
      | comma => exact absurd (List.mem_cons_self ..) hok.1
      | comment c =>
        simp only [itemP, hasLineP_append] at h
        rcases h with h | h
        · exact hf c (List.mem_cons_self ..) (hasLineP_cmtP (hok.2 c (List.mem_cons_self ..)) i h)
        · exact not_hasLineP_nil (hasLineP_cons.mp h |>.resolve_left (by rintro ⟨s, hs, _⟩; cases hs))
    · exact hasLineP_linesP i (trivOk_cons hok) h (fun c hc => hf c (List.mem_cons_of_mem _ hc))

theorem trimP_safe (all : List Trivia) (o : Bool) {ps : List FP} (h : safeGo o ps = true) :
    safeGo o (trimP all ps) = true := by
  unfold trimP
  cases all.getLast? with
  | none => exact h
  | some t => simp only; split
              · exact safeGo_dropLastCharP o ps h
              · exact h

theorem hasLineP_trimP (all : List Trivia) {ps : List FP} (h : hasLineP (trimP all ps)) : hasLineP ps := by
  unfold trimP at h
  cases hl : all.getLast? with
  | none => simpa [hl] using h
  | some t =>
    simp only [hl] at h
    split at h
    · exact hasLineP_dropLastCharP ps h
    · exact h

theorem nlBlockP_safe (o : Bool) {ps : List FP} (h : safeGo false ps = true) : safeGo o (nlBlockP ps) = true := by
  unfold nlBlockP; split
  · rfl
  · simp [safeGo, h, stepOpen]

theorem hasLineP_nlBlockP {ps : List FP} (h : hasLineP (nlBlockP ps)) : hasLineP ps := by
  unfold nlBlockP at h; split at h
  · exact absurd h not_hasLineP_nil
  · exact (hasLineP_cons.mp h).resolve_left (by rintro ⟨s, hs, _⟩; cases hs)

theorem lineFree_cons {t : Trivia} {ts : List Trivia} (h : lineFree (t :: ts)) : lineFree ts :=
  fun c hc => h c (List.mem_cons_of_mem _ hc)

theorem lineFree_append {a b : List Trivia} : lineFree (a ++ b) ↔ lineFree a ∧ lineFree b := by
  constructor
  · intro h; exact ⟨fun c hc => h c (List.mem_append_left _ hc), fun c hc => h c (List.mem_append_right _ hc)⟩
  · rintro ⟨ha, hb⟩ c hc
    rcases List.mem_append.mp hc with h | h
    · exact ha c h
    · exact hb c h

theorem lineFree_nil : lineFree [] := by intro c hc; cases hc

/-- what `apply_trailing_trivia` appends is safe after a token, and leaves a line comment open only
    if the list has one -/
theorem trailP_safe {after : List Trivia} (h : TrivOk after) (i : Nat) :
    safeGo false (trailP after i) = true ∧ (hasLineP (trailP after i) → ¬ lineFree after) := by
  have hall := fmtP_lines h.1 i
  have hs := linesP_scan i h
  unfold trailP
  match after, h, hall, hs with
  | [], _, _, _ => exact ⟨rfl, fun h => absurd h not_hasLineP_nil⟩
  | .comma :: rest, h, _, _ => exact absurd (List.mem_cons_self ..) h.1
  | .emptyLine :: rest, h, hall, hs =>
    simp only [hall]
    refine ⟨nlBlockP_safe _ (trimP_safe _ _ hs.1), fun hl => ?_⟩
    exact hasLineP_linesP i h (hasLineP_trimP _ (hasLineP_nlBlockP hl))
  | .linebreak :: rest, h, hall, hs =>
    simp only [hall]
    refine ⟨nlBlockP_safe _ (trimP_safe _ _ hs.1), fun hl => ?_⟩
    exact hasLineP_linesP i h (hasLineP_trimP _ (hasLineP_nlBlockP hl))
  | .comment c :: rest, h, hall, hs =>
    have hc : cOk c := h.2 c (List.mem_cons_self ..)
    have hr := trivOk_cons h
    simp only
    split
    · rw [fmtP_lines hr.1 i]
      have hsr := linesP_scan i hr
      refine ⟨?_, fun hl => ?_⟩
      · rw [show (FP.ws [' '] :: cmtP c 0 ++ nlBlockP (trimP (Trivia.comment c :: rest) (linesP i rest))) =
          [FP.ws [' ']] ++ (cmtP c 0 ++ nlBlockP (trimP (Trivia.comment c :: rest) (linesP i rest))) from rfl,
          safeGo_append]
        simp only [safeGo, openAfter, stepOk_false, stepOpen_ws_false, Bool.true_and, (cmtP_scan hc 0 _).1]
        exact nlBlockP_safe _ (trimP_safe _ _ hsr.1)
      · rcases hasLineP_cons.mp hl with ⟨s, hs', _⟩ | hl
        · cases hs'
        · rcases hasLineP_append.mp hl with hl | hl
          · exact fun hf => hf c (List.mem_cons_self ..) (hasLineP_cmtP hc 0 hl)
          · exact fun hf => hasLineP_linesP i hr (hasLineP_trimP _ (hasLineP_nlBlockP hl)) (lineFree_cons hf)
    · simp only [hall]
      refine ⟨nlBlockP_safe _ (trimP_safe _ _ hs.1), fun hl => ?_⟩
      exact hasLineP_linesP i h (hasLineP_trimP _ (hasLineP_nlBlockP hl))

theorem bindingTailP_safe {after : List Trivia} (h : TrivOk after) (i : Nat) :
    safeGo false (bindingTailP after i) = true ∧ (hasLineP (bindingTailP after i) → ¬ lineFree after) := by
  unfold bindingTailP
  match after, h with
  | [], h => exact trailP_safe h i
  | .emptyLine :: rest, h => exact trailP_safe h i
  | .comma :: rest, h => exact trailP_safe h i
  | .comment c :: rest, h => exact trailP_safe h i
  | .linebreak :: rest, h =>
    have hr := trivOk_cons h
    have hsr := linesP_scan i hr
    simp only [fmtP_lines hr.1 i]
    have hs : safeGo false (if startsWithNL (concat (linesP i rest)) = true then linesP i rest
        else .ws ['\n'] :: linesP i rest) = true := by
      split
      · exact hsr.1
      · simp [safeGo, stepOpen, hsr.1]
    have hl : hasLineP (if startsWithNL (concat (linesP i rest)) = true then linesP i rest
        else .ws ['\n'] :: linesP i rest) → ¬ lineFree (.linebreak :: rest) := by
      intro hh hf
      have : hasLineP (linesP i rest) := by
        split at hh
        · exact hh
        · exact (hasLineP_cons.mp hh).resolve_left (by rintro ⟨s, hs', _⟩; cases hs')
      exact hasLineP_linesP i hr this (lineFree_cons hf)
    generalize (if startsWithNL (concat (linesP i rest)) = true then linesP i rest
        else FP.ws ['\n'] :: linesP i rest) = tr at hs hl ⊢
    split
    · exact ⟨safeGo_dropLastCharP _ _ hs, fun hh => hl (hasLineP_dropLastCharP _ hh)⟩
    · exact ⟨hs, hl⟩

/-! ### expressions without line comments -/

/-- no comment of the list is a line comment -/
def lineFreeC (cs : List Comment) : Prop := ∀ c ∈ cs, c.kind ≠ .line

mutual
/-- no line comment anywhere in the expression -/
def Expr.lineFreeE : Expr → Prop
  | .leaf _ _ b a => lineFree b ∧ lineFree a
  | .list v _ inner b a => allLineFree v ∧ lineFree inner ∧ lineFree b ∧ lineFree a
  | .set v _ _ inner b a => allLineFree v ∧ lineFree inner ∧ lineFree b ∧ lineFree a
  | .binding _ v _ b a => v.lineFreeE ∧ lineFree b ∧ lineFree a
  | .paren v _ _ _ _ b a => v.lineFreeE ∧ lineFree b ∧ lineFree a
  | .app n x _ fa b a => n.lineFreeE ∧ x.lineFreeE ∧ lineFreeC fa ∧ lineFree b ∧ lineFree a
  | .wth env body _ _ _ b a => env.lineFreeE ∧ body.lineFreeE ∧ lineFree b ∧ lineFree a
  | .asrt c bd _ _ b a => c.lineFreeE ∧ bd.lineFreeE ∧ lineFree b ∧ lineFree a
  | .sel e _ _ _ b a => e.lineFreeE ∧ lineFree b ∧ lineFree a
  | .selOr e _ _ _ d _ _ b a => e.lineFreeE ∧ d.lineFreeE ∧ lineFree b ∧ lineFree a
  | .lam _ _ _ _ body b a => body.lineFreeE ∧ lineFree b ∧ lineFree a
  | .un _ e _ _ b a => e.lineFreeE ∧ lineFree b ∧ lineFree a
  | .bin _ l r _ _ b a => l.lineFreeE ∧ r.lineFreeE ∧ lineFree b ∧ lineFree a
  | .ite c t e _ _ _ _ _ _ _ _ _ _ _ b a => c.lineFreeE ∧ t.lineFreeE ∧ e.lineFreeE ∧ lineFree b ∧ lineFree a
  | .has e _ _ _ _ _ b a => e.lineFreeE ∧ lineFree b ∧ lineFree a
def allLineFree : List Expr → Prop
  | [] => True
  | e :: rest => e.lineFreeE ∧ allLineFree rest
end

/-- no comment of a lexical sequence is a line comment -/
def noLineL (l : List Lex) : Prop := ∀ s, Lex.cmt s ∈ l → isLineTok s = false

theorem noLineL_append {a b : List Lex} : noLineL (a ++ b) ↔ noLineL a ∧ noLineL b := by
  constructor
  · intro h; exact ⟨fun s hs => h s (List.mem_append_left _ hs), fun s hs => h s (List.mem_append_right _ hs)⟩
  · rintro ⟨ha, hb⟩ s hs
    rcases List.mem_append.mp hs with h | h
    · exact ha s h
    · exact hb s h
theorem noLineL_nil : noLineL [] := by intro s hs; cases hs
theorem noLineL_tok (t : Text) : noLineL [Lex.tok t] := by
  intro s hs; simp at hs
theorem noLineL_ite (c : Prop) [Decidable c] {a b : List Lex} (ha : noLineL a) (hb : noLineL b) :
    noLineL (if c then a else b) := by split <;> assumption

theorem noLineL_cm {ts : List Trivia} (hok : TrivOk ts) (h : lineFree ts) : noLineL (cm ts) := by
  intro s hs
  simp only [cm, List.mem_filterMap] at hs
  obtain ⟨t, ht, hts⟩ := hs
  cases t with
  | emptyLine => cases hts
  | linebreak => cases hts
  | comma => cases hts
  | comment c =>
    injection hts with hts; injection hts with hts; subst hts
    cases hl : isLineTok (c.token 0) with
    | false => rfl
    | true => exact absurd (token_head (hok.2 c ht) 0 hl) (h c ht)

theorem noLineL_recLex (r : Bool) : noLineL (recLex r) := by
  cases r
  · exact noLineL_nil
  · exact noLineL_tok _

theorem noLineL_cmC {cs : List Comment} (hok : ∀ c ∈ cs, cOk c) (h : lineFreeC cs) : noLineL (cmC cs) := by
  intro s hs
  simp only [cmC, List.mem_map] at hs
  obtain ⟨c, hc, hcs⟩ := hs
  injection hcs with hcs; subst hcs
  cases hl : isLineTok (c.token 0) with
  | false => rfl
  | true => exact absurd (token_head (hok c hc) 0 hl) (h c hc)

theorem lineFreeE_after {e : Expr} (h : e.lineFreeE) : lineFree e.after := by
  cases e with
  | leaf k t b a => exact h.2
  | list v m inn b a => exact h.2.2.2
  | set v m r inn b a => exact h.2.2.2
  | binding n v g b a => exact h.2.2
  | paren v lg tg lb tb b a => exact h.2.2
  | app n x g fa b a => exact h.2.2.2.2
  | wth e bd c g s b a => exact h.2.2.2
  | asrt c bd x y b a => exact h.2.2.2
  | sel e ats g ab b a => exact h.2.2
  | selOr e ats g ab d dg db b a => exact h.2.2.2
  | lam n c g k bd b a => exact h.2.2
  | un o e g bt b a => exact h.2.2
  | bin o l r x y b a => exact h.2.2.2
  | ite c t e cg aic aig btc btg atc tg bec beg aec eg b a => exact h.2.2.2.2
  | has e ats lg rg bq aq b a => exact h.2.2

mutual
theorem lexOut_noLine : (e : Expr) → e.ok → e.lineFreeE → ∀ na, noLineL (e.lexOut na)
  | .leaf k t b a, hok, hf, na => by
    simp only [Expr.lexOut]
    exact noLineL_append.mpr ⟨noLineL_append.mpr ⟨noLineL_cm hok.2.1 hf.1, noLineL_tok _⟩,
      noLineL_ite _ noLineL_nil (noLineL_cm hok.2.2 hf.2)⟩
  | .list v ml inner b a, hok, hf, na => by
    simp only [Expr.lexOut]
    refine noLineL_append.mpr ⟨noLineL_append.mpr ⟨noLineL_append.mpr ⟨noLineL_append.mpr
      ⟨noLineL_cm hok.2.2.1 hf.2.2.1, noLineL_tok _⟩, noLineL_ite _ (noLineL_cm hok.2.1 hf.2.1)
        (lexOutAll_noLine v hok.1 hf.1)⟩, noLineL_tok _⟩,
      noLineL_ite _ noLineL_nil (noLineL_cm hok.2.2.2 hf.2.2.2)⟩
  | .set v ml r inner b a, hok, hf, na => by
    simp only [Expr.lexOut]
    refine noLineL_append.mpr ⟨noLineL_append.mpr ⟨noLineL_append.mpr ⟨noLineL_append.mpr ⟨noLineL_append.mpr
      ⟨noLineL_cm hok.2.2.1 hf.2.2.1, noLineL_recLex r⟩, noLineL_tok _⟩, noLineL_ite _ (noLineL_cm hok.2.1 hf.2.1)
        (lexOutAll_noLine v hok.1 hf.1)⟩, noLineL_tok _⟩,
      noLineL_ite _ noLineL_nil (noLineL_cm hok.2.2.2 hf.2.2.2)⟩
  | .binding n v g b a, hok, hf, na => by
    have hva : lineFree v.after := lineFreeE_after hf.1
    simp only [Expr.lexOut]
    refine noLineL_append.mpr ⟨noLineL_append.mpr ⟨noLineL_append.mpr ⟨noLineL_append.mpr
      ⟨noLineL_cm hok.2.2.1 hf.2.1, ?_⟩, lexOut_noLine v hok.2.1 hf.1 true⟩, noLineL_tok _⟩, ?_⟩
    · intro s hs; simp at hs
    · rw [cm_append]
      exact noLineL_append.mpr ⟨noLineL_cm (ok_after hok.2.1) hva,
        by split; exact noLineL_nil; exact noLineL_cm hok.2.2.2 hf.2.2⟩
  | .paren v lg tg lb tb b a, hok, hf, na => by
    simp only [Expr.lexOut]
    exact noLineL_append.mpr ⟨noLineL_append.mpr ⟨noLineL_append.mpr ⟨noLineL_append.mpr
      ⟨noLineL_cm hok.2.1 hf.2.1, noLineL_tok _⟩, lexOut_noLine v hok.1 hf.1 false⟩, noLineL_tok _⟩,
      noLineL_ite _ noLineL_nil (noLineL_cm hok.2.2 hf.2.2)⟩
  | .app n x g fa b a, hok, hf, na => by
    simp only [Expr.lexOut]
    exact noLineL_append.mpr ⟨noLineL_append.mpr ⟨noLineL_append.mpr ⟨noLineL_append.mpr
      ⟨noLineL_cm hok.2.2.2.1 hf.2.2.2.1, lexOut_noLine n hok.1 hf.1 false⟩, noLineL_cmC hok.2.2.1 hf.2.2.1⟩,
      lexOut_noLine x hok.2.1 hf.2.1 false⟩, noLineL_ite _ noLineL_nil (noLineL_cm hok.2.2.2.2 hf.2.2.2.2)⟩
  | .wth env body awc g asc b a, hok, hf, na => by
    simp only [Expr.lexOut]
    exact noLineL_append.mpr ⟨noLineL_append.mpr ⟨noLineL_append.mpr ⟨noLineL_append.mpr ⟨noLineL_append.mpr
      ⟨noLineL_cm hok.2.2.2.2.1 hf.2.2.1, noLineL_tok _⟩, lexOut_noLine env hok.1 hf.1 false⟩, noLineL_tok _⟩,
      lexOut_noLine body hok.2.1 hf.2.1 false⟩, noLineL_ite _ noLineL_nil (noLineL_cm hok.2.2.2.2.2 hf.2.2.2)⟩
  | .asrt cond body aac bsc b a, hok, hf, na => by
    simp only [Expr.lexOut]
    exact noLineL_append.mpr ⟨noLineL_append.mpr ⟨noLineL_append.mpr ⟨noLineL_append.mpr ⟨noLineL_append.mpr
      ⟨noLineL_cm hok.2.2.2.2.1 hf.2.2.1, noLineL_tok _⟩, lexOut_noLine cond hok.1 hf.1 false⟩, noLineL_tok _⟩,
      noLineL_ite _ noLineL_nil (noLineL_cm hok.2.2.2.2.2 hf.2.2.2)⟩, lexOut_noLine body hok.2.1 hf.2.1 false⟩
  | .sel e attrs g ab b a, hok, hf, na => by
    simp only [Expr.lexOut]
    refine noLineL_append.mpr ⟨noLineL_append.mpr ⟨noLineL_append.mpr
      ⟨noLineL_cm hok.2.2.2.2.1 hf.2.1, lexOut_noLine e hok.1 hf.1 false⟩, ?_⟩,
      noLineL_ite _ noLineL_nil (noLineL_cm hok.2.2.2.2.2 hf.2.2)⟩
    intro s hs
    exfalso
    clear hok hf
    induction attrs with
    | nil => cases hs
    | cons x r ih =>
      simp only [attrLex, List.mem_cons] at hs
      rcases hs with h | h | h
      · cases h
      · cases h
      · exact ih h
  | .selOr e attrs g ab d dg db b a, hok, hf, na => by
    simp only [Expr.lexOut]
    have hattr : noLineL (attrLex attrs) := by
      intro s hs
      exfalso
      clear hok hf
      induction attrs with
      | nil => cases hs
      | cons x r ih =>
        simp only [attrLex, List.mem_cons] at hs
        rcases hs with h | h | h
        · cases h
        · cases h
        · exact ih h
    exact noLineL_append.mpr ⟨noLineL_append.mpr ⟨noLineL_append.mpr ⟨noLineL_append.mpr ⟨noLineL_append.mpr
      ⟨noLineL_cm hok.2.2.2.2.2.2.1 hf.2.2.1, lexOut_noLine e hok.1 hf.1 false⟩, hattr⟩, noLineL_tok _⟩,
      lexOut_noLine d hok.2.2.2.2.1 hf.2.1 false⟩, noLineL_ite _ noLineL_nil (noLineL_cm hok.2.2.2.2.2.2.2 hf.2.2.2)⟩
  | .lam n bcc g k body b a, hok, hf, na => by
    simp only [Expr.lexOut]
    refine noLineL_append.mpr ⟨noLineL_append.mpr ⟨noLineL_append.mpr ⟨noLineL_cm hok.2.2.2.1 hf.2.1, ?_⟩,
      lexOut_noLine body hok.2.2.1 hf.1 false⟩, noLineL_ite _ noLineL_nil (noLineL_cm hok.2.2.2.2 hf.2.2)⟩
    intro s hs; simp at hs
  | .un op e g bt b a, hok, hf, na => by
    simp only [Expr.lexOut]
    exact noLineL_append.mpr ⟨noLineL_append.mpr ⟨noLineL_append.mpr ⟨noLineL_cm hok.2.2.2.1 hf.2.1, noLineL_tok _⟩,
      lexOut_noLine e hok.2.1 hf.1 false⟩, noLineL_ite _ noLineL_nil (noLineL_cm hok.2.2.2.2 hf.2.2)⟩
  | .bin op l r x y b a, hok, hf, na => by
    simp only [Expr.lexOut]
    exact noLineL_append.mpr ⟨noLineL_append.mpr ⟨noLineL_append.mpr ⟨noLineL_append.mpr
      ⟨noLineL_cm hok.2.2.2.1 hf.2.2.1, lexOut_noLine l hok.2.1 hf.1 false⟩, noLineL_tok _⟩,
      lexOut_noLine r hok.2.2.1 hf.2.1 false⟩, noLineL_ite _ noLineL_nil (noLineL_cm hok.2.2.2.2 hf.2.2.2)⟩
  | .ite c t e cg aic aig btc btg atc tg bec beg aec eg b a, hok, hf, na => by
    simp only [Expr.lexOut]
    exact noLineL_append.mpr ⟨noLineL_append.mpr ⟨noLineL_append.mpr ⟨noLineL_append.mpr ⟨noLineL_append.mpr
      ⟨noLineL_append.mpr ⟨noLineL_append.mpr ⟨noLineL_cm hok.2.2.2.2.2.2.2.2.1 hf.2.2.2.1, noLineL_tok _⟩,
      lexOut_noLine c hok.1 hf.1 false⟩, noLineL_tok _⟩, lexOut_noLine t hok.2.1 hf.2.1 false⟩, noLineL_tok _⟩,
      lexOut_noLine e hok.2.2.1 hf.2.2.1 false⟩, noLineL_ite _ noLineL_nil (noLineL_cm hok.2.2.2.2.2.2.2.2.2 hf.2.2.2.2)⟩
  | .has e attrs lg rg bq aq b a, hok, hf, na => by
    simp only [Expr.lexOut]
    have hattr : noLineL (attrLex0 attrs) := by
      intro s hs
      exfalso
      cases attrs with
      | nil => cases hs
      | cons x r =>
        simp only [attrLex0, List.mem_cons] at hs
        rcases hs with h | hs
        · cases h
        · clear hok hf
          induction r with
          | nil => cases hs
          | cons y r ih =>
            simp only [attrLex, List.mem_cons] at hs
            rcases hs with h | h | h
            · cases h
            · cases h
            · exact ih h
    exact noLineL_append.mpr ⟨noLineL_append.mpr ⟨noLineL_append.mpr ⟨noLineL_append.mpr
      ⟨noLineL_cm hok.2.2.2.2.2.1 hf.2.1, lexOut_noLine e hok.1 hf.1 false⟩, noLineL_tok _⟩, hattr⟩,
      noLineL_ite _ noLineL_nil (noLineL_cm hok.2.2.2.2.2.2 hf.2.2)⟩
theorem lexOutAll_noLine : (es : List Expr) → allOk es → allLineFree es → noLineL (lexOutAll es)
  | [], _, _ => noLineL_nil
  | e :: rest, hok, hf => by
    simp only [lexOutAll]
    exact noLineL_append.mpr ⟨lexOut_noLine e hok.1 hf.1 false, lexOutAll_noLine rest hok.2 hf.2⟩
end

theorem hasLineP_lexOf {ps : List FP} (h : hasLineP ps) : ¬ noLineL (lexOf ps) := by
  obtain ⟨s, hm, hl⟩ := h
  intro hn
  have : Lex.cmt s ∈ lexOf ps := by
    simp only [lexOf, List.mem_filterMap]
    exact ⟨.cmt s, hm, rfl⟩
  rw [hn s this] at hl; cases hl

/-- an expression without line comments renders without line comments -/
theorem rebuildAP_noLine {e : Expr} (hok : e.ok) (hf : e.lineFreeE) (na : Bool) (i : Nat) (b : Bool) :
    ¬ hasLineP (e.rebuildAP na i b) := by
  intro h
  have := hasLineP_lexOf h
  rw [(rebuildAP_lex e hok na i b).1] at this
  exact this (lexOut_noLine e hok hf na)

/-! ### the renderer is safe -/

def Expr.notBinding : Expr → Bool
  | .binding .. => false
  | _ => true

/-- the comments after the function of a call: all `inline`, only the last one may be a line comment -/
def fnOk : List Comment → Prop
  | [] => True
  | [c] => c.inline = true
  | c :: d :: rest => c.inline = true ∧ c.kind ≠ .line ∧ fnOk (d :: rest)

mutual
/-- multiline flags are consistent with the comments inside: a container written on one line has no
    line comment inside; the value of a binding is not a binding -/
def Expr.mlSafe : Expr → Prop
  | .leaf .. => True
  | .list v ml _ _ _ => allMlSafe v ∧ (ml = false → allLineFree v)
  | .set v ml _ _ _ _ => allMlSafe v ∧ (ml = false → allLineFree v)
  | .binding _ v _ _ _ => v.mlSafe ∧ v.notBinding = true
  -- a closing parenthesis on the row the value ends on: no line comment trails the value
  | .paren v _ tg _ _ _ _ =>
    v.mlSafe ∧ v.notBinding = true ∧ ((Layout.fromGap tg).onNewline = false → lineFree v.after)
  -- function and argument carry no trailing trivia of their own; an argument on the function's row:
  -- no line comment between them
  | .app n x g fa _ _ =>
    n.mlSafe ∧ x.mlSafe ∧ n.notBinding = true ∧ x.notBinding = true ∧ n.after = [] ∧ x.after = [] ∧ fnOk fa ∧
      ((Layout.fromGap g).onNewline = false → lineFreeC fa)
  -- environment and body of a `with` carry no trailing trivia of their own
  | .wth env body _ _ _ _ _ =>
    env.mlSafe ∧ body.mlSafe ∧ env.notBinding = true ∧ body.notBinding = true ∧ env.after = [] ∧ body.after = []
  -- condition and body of an `assert` carry no trailing trivia of their own
  | .asrt cond body _ _ _ _ =>
    cond.mlSafe ∧ body.mlSafe ∧ cond.notBinding = true ∧ body.notBinding = true ∧ cond.after = [] ∧ body.after = []
  -- the expression a select is applied to carries no trailing trivia of its own
  | .sel e _ _ _ _ _ => e.mlSafe ∧ e.notBinding = true ∧ e.after = []
  | .selOr e _ _ _ d _ _ _ _ =>
    e.mlSafe ∧ d.mlSafe ∧ e.notBinding = true ∧ d.notBinding = true ∧ e.after = [] ∧ d.after = []
  -- the body of a lambda carries no trailing trivia of its own
  | .lam _ _ _ _ body _ _ => body.mlSafe ∧ body.notBinding = true ∧ body.after = []
  | .un _ e _ _ _ _ => e.mlSafe ∧ e.notBinding = true ∧ e.after = []
  | .bin _ l r _ _ _ _ =>
    l.mlSafe ∧ r.mlSafe ∧ l.notBinding = true ∧ r.notBinding = true ∧ l.after = [] ∧ r.after = []
  -- condition and branches of an `if` carry no trailing trivia of their own
  | .ite c t e _ _ _ _ _ _ _ _ _ _ _ _ _ =>
    c.mlSafe ∧ t.mlSafe ∧ e.mlSafe ∧ c.notBinding = true ∧ t.notBinding = true ∧ e.notBinding = true ∧
      c.after = [] ∧ t.after = [] ∧ e.after = []
  | .has e _ _ _ _ _ _ _ => e.mlSafe ∧ e.notBinding = true ∧ e.after = []
def allMlSafe : List Expr → Prop
  | [] => True
  | e :: rest => e.mlSafe ∧ allMlSafe rest
end

/-- a safe scan that is safe from state `false` is safe from any state once a line break is written -/
theorem safe_after_nl (o : Bool) {ps : List FP} (h : safeGo false ps = true) : safeGo o (.ws ['\n'] :: ps) = true := by
  simp [safeGo, h]

theorem open_of_endsWithNL : ∀ (o : Bool) {ps : List FP}, Solid ps → endsWithNL (concat ps) = true →
    openAfter o ps = false
  | o, [], _, h => by simp [endsWithNL] at h
  | o, p :: rest, hs, h => by
    obtain ⟨hp, hr⟩ := solid_of_cons hs
    simp only [openAfter]
    by_cases he : concat rest = []
    · rw [(scan_of_concat_nil _ rest he).2]
      rw [concat_cons, he, List.append_nil] at h
      cases p with
      | ws s =>
        cases s with
        | nil => simp [endsWithNL] at h
        | cons c r => simp
      | tok s => simp only [text_tok] at h; rw [hp.2] at h; cases h
      | cmt s => simp only [text_cmt] at h; rw [hp.2] at h; cases h
    · rw [concat_cons, endsWithNL_append_of_ne_nil _ _ he] at h
      exact open_of_endsWithNL _ hr h

theorem joinP_nl_safe : ∀ (xs : List (List FP)), (∀ x ∈ xs, safeGo false x = true) →
    safeGo false (joinP [.ws ['\n']] xs) = true
  | [], _ => rfl
  | [x], h => h x (List.mem_cons_self ..)
  | x :: y :: rest, h => by
    have ih := joinP_nl_safe (y :: rest) (fun z hz => h z (List.mem_cons_of_mem _ hz))
    simp only [joinP]
    rw [List.append_assoc, safeGo_append, h x (List.mem_cons_self ..)]
    simp [safeGo, ih]

theorem hasLineP_joinP_ws (s : Text) : ∀ (xs : List (List FP)), hasLineP (joinP [.ws s] xs) → ∃ x ∈ xs, hasLineP x
  | [], h => absurd h not_hasLineP_nil
  | [x], h => ⟨x, List.mem_cons_self .., h⟩
  | x :: y :: rest, h => by
    simp only [joinP] at h
    rcases hasLineP_append.mp h with h | h
    · rcases hasLineP_append.mp h with h | h
      · exact ⟨x, List.mem_cons_self .., h⟩
      · exact absurd ((hasLineP_cons.mp h).resolve_left (by rintro ⟨t, ht, _⟩; cases ht)) not_hasLineP_nil
    · obtain ⟨z, hz, hzl⟩ := hasLineP_joinP_ws s (y :: rest) h
      exact ⟨z, List.mem_cons_of_mem _ hz, hzl⟩

theorem open_false_of_noLine {ps : List FP} (h : ¬ hasLineP ps) : openAfter false ps = false := by
  cases ho : openAfter false ps with
  | false => rfl
  | true =>
    rcases openAfter_true false ps ho with h1 | h1
    · cases h1
    · exact absurd h1 h

theorem joinP_sp_safe : ∀ (xs : List (List FP)), (∀ x ∈ xs, safeGo false x = true ∧ ¬ hasLineP x) →
    safeGo false (joinP [.ws [' ']] xs) = true
  | [], _ => rfl
  | [x], h => (h x (List.mem_cons_self ..)).1
  | x :: y :: rest, h => by
    have ih := joinP_sp_safe (y :: rest) (fun z hz => h z (List.mem_cons_of_mem _ hz))
    have hx := h x (List.mem_cons_self ..)
    simp only [joinP]
    rw [List.append_assoc, safeGo_append, hx.1, open_false_of_noLine hx.2]
    simp [safeGo, ih]

theorem indentP_scan (i : Nat) (b : Bool) (rest : List FP) :
    safeGo false (indentP i b ++ rest) = safeGo false rest ∧
    openAfter false (indentP i b ++ rest) = openAfter false rest := by
  unfold indentP; split
  · exact ⟨rfl, rfl⟩
  · simp [safeGo, openAfter]

theorem lines_then (i : Nat) {ts : List Trivia} (h : TrivOk ts) (rest : List FP) :
    safeGo false (fmtP ts i ++ rest) = safeGo false rest ∧
    openAfter false (fmtP ts i ++ rest) = openAfter false rest := by
  rw [fmtP_lines h.1, safeGo_append, openAfter_append, (linesP_scan i h).1, (linesP_scan i h).2]
  exact ⟨by simp, rfl⟩

theorem recP_scan (r : Bool) (rest : List FP) :
    safeGo false (recP r ++ rest) = safeGo false rest ∧ openAfter false (recP r ++ rest) = openAfter false rest := by
  cases r
  · exact ⟨rfl, rfl⟩
  · simp [recP, safeGo, openAfter, stepOpen]

/-- `{before}{indent}{opener}\n{body}{sep}{indent}{closer}` is safe when the body is, and ends closed -/
theorem multilineBlockP_safe {before : List Trivia} (hb : TrivOk before) {op body : List FP} (closer : Char)
    (i : Nat) (b s : Bool)
    (hop : ∀ rest, safeGo false (op ++ rest) = safeGo false rest ∧ openAfter false (op ++ rest) = openAfter false rest)
    (hbs : Solid body) (hbody : safeGo false body = true) (rest : List FP) :
    safeGo false (multilineBlockP (fmtP before i) op body closer i b s ++ rest) = safeGo false rest ∧
    openAfter false (multilineBlockP (fmtP before i) op body closer i b s ++ rest) = openAfter false rest := by
  unfold multilineBlockP
  simp only [List.append_assoc]
  rw [(lines_then i hb _).1, (lines_then i hb _).2, (indentP_scan i b _).1, (indentP_scan i b _).2,
    (hop _).1, (hop _).2]
  simp only [List.cons_append, List.nil_append, safeGo, openAfter, stepOk_false, stepOpen_ws_cons, Bool.true_and]
  rw [safeGo_append, openAfter_append, hbody, Bool.true_and]
  -- the state after the body and the separator is closed
  have key : ∀ tl, safeGo (openAfter false body)
        ((if ((concat body).isEmpty && !s) || endsWithNL (concat body) then [] else [FP.ws ['\n']]) ++ tl) = safeGo false tl ∧
      openAfter (openAfter false body)
        ((if ((concat body).isEmpty && !s) || endsWithNL (concat body) then [] else [FP.ws ['\n']]) ++ tl) = openAfter false tl := by
    intro tl
    split
    · rename_i hc
      have : openAfter false body = false := by
        simp only [Bool.or_eq_true, Bool.and_eq_true] at hc
        rcases hc with hc | hc
        · have : concat body = [] := by simpa using hc.1
          exact (scan_of_concat_nil false body this).2
        · exact open_of_endsWithNL false hbs hc
      rw [this]; exact ⟨rfl, rfl⟩
    · simp [safeGo, openAfter]
  rw [(key _).1, (key _).2]
  simp [safeGo, openAfter, stepOpen]

theorem rstripNLP_snoc_tok : ∀ (xs : List FP) {t : Text}, solidT t → rstripNLP (xs ++ [.tok t]) = xs ++ [.tok t]
  | [], t, ht => by
    simp only [List.nil_append, rstripNLP, concat_nil, List.all_nil, if_true, text_tok, rstripNL_of_solid ht.1 ht.2]
    cases t with
    | nil => exact absurd rfl ht.1
    | cons c r => rfl
  | x :: xs, t, ht => by
    have hne : (concat (xs ++ [FP.tok t])).all (· == '\n') = false := by
      rw [concat_append]
      simp only [concat_cons, concat_nil, text_tok, List.append_nil, List.all_append, Bool.and_eq_false_iff]
      right
      obtain ⟨c, hc⟩ : ∃ c, t.getLast? = some c := by
        cases hl : t.getLast? with
        | none => exact absurd (List.getLast?_eq_none_iff.mp hl) ht.1
        | some c => exact ⟨c, rfl⟩
      have hcn : c ≠ '\n' := by
        intro e; subst e; have := ht.2; simp [endsWithNL, hc] at this
      have hm : c ∈ t := List.mem_of_getLast? hc
      cases hall : t.all (· == '\n') with
      | false => rfl
      | true =>
        have := (List.all_eq_true.mp hall) c hm
        simp at this; exact absurd this hcn
    simp only [List.cons_append, rstripNLP, hne, Bool.false_eq_true, if_false, rstripNLP_snoc_tok xs ht]

theorem open_snoc_tok (o : Bool) (xs : List FP) {t : Text} (ht : t ≠ []) : openAfter o (xs ++ [.tok t]) = false := by
  rw [openAfter_append]
  cases t with
  | nil => exact absurd rfl ht
  | cons c r => simp [openAfter]

theorem trailP_nil (i : Nat) : trailP [] i = [] := rfl

def EndsTok (ps : List FP) (t : Text) : Prop := ∃ xs, ps = xs ++ [.tok t]

theorem endsTok_single (t : Text) : EndsTok [.tok t] t := ⟨[], rfl⟩
theorem endsTok_append (a : List FP) {b : List FP} {t : Text} (h : EndsTok b t) : EndsTok (a ++ b) t := by
  obtain ⟨xs, rfl⟩ := h; exact ⟨a ++ xs, by simp⟩
theorem endsTok_cons (p : FP) {b : List FP} {t : Text} (h : EndsTok b t) : EndsTok (p :: b) t := by
  obtain ⟨xs, rfl⟩ := h; exact ⟨p :: xs, rfl⟩
theorem endsTok_append_nil {a : List FP} {t : Text} (h : EndsTok a t) : EndsTok (a ++ []) t := by
  rw [List.append_nil]; exact h

theorem multilineBlockP_endsTok (bp op body : List FP) (closer : Char) (i : Nat) (b s : Bool) :
    EndsTok (multilineBlockP bp op body closer i b s) [closer] := by
  unfold multilineBlockP
  exact endsTok_append _ (endsTok_cons _ (endsTok_single _))

theorem rebuildAP_after_nil {e : Expr} (h : e.after = []) (i : Nat) (b : Bool) :
    e.rebuildAP false i b = e.rebuildAP true i b := by
  cases e with
  | leaf k t bf af => simp only [Expr.after] at h; subst h; simp [Expr.rebuildAP]
  | list v ml inner bf af => simp only [Expr.after] at h; subst h; cases v <;> simp [Expr.rebuildAP]
  | set v ml r inner bf af => simp only [Expr.after] at h; subst h; cases v <;> simp [Expr.rebuildAP]
  | binding n v g bf af => simp only [Expr.after] at h; subst h; simp [Expr.rebuildAP]
  | paren v lg tg lb tb bf af => simp only [Expr.after] at h; subst h; simp [Expr.rebuildAP]
  | app n x g fa bf af => simp only [Expr.after] at h; subst h; simp [Expr.rebuildAP]
  | wth e bd c g s bf af => simp only [Expr.after] at h; subst h; simp [Expr.rebuildAP]
  | asrt c bd x y bf af => simp only [Expr.after] at h; subst h; simp [Expr.rebuildAP]
  | sel e ats g ab bf af => simp only [Expr.after] at h; subst h; simp [Expr.rebuildAP]
  | selOr e ats g ab d dg db bf af => simp only [Expr.after] at h; subst h; simp [Expr.rebuildAP]
  | lam n c g k bd bf af => simp only [Expr.after] at h; subst h; simp [Expr.rebuildAP]
  | un o e g bt bf af => simp only [Expr.after] at h; subst h; simp [Expr.rebuildAP]
  | bin o l r x y bf af => simp only [Expr.after] at h; subst h; simp [Expr.rebuildAP]
  | ite c t e cg aic aig btc btg atc tg bec beg aec eg bf af => simp only [Expr.after] at h; subst h; simp [Expr.rebuildAP]
  | has e ats lg rg bq aq bf af => simp only [Expr.after] at h; subst h; simp [Expr.rebuildAP]

/-- the argument of a call / the body of a `with` is rendered last and carries no trailing trivia -/
def Expr.tailOk : Expr → Prop
  | .app _ x _ _ _ _ => x.after = [] ∧ x.notBinding = true ∧ x.tailOk
  | .wth _ x _ _ _ _ _ => x.after = [] ∧ x.notBinding = true ∧ x.tailOk
  | .asrt _ x _ _ _ _ => x.after = [] ∧ x.notBinding = true ∧ x.tailOk
  | .selOr _ _ _ _ x _ _ _ _ => x.after = [] ∧ x.notBinding = true ∧ x.tailOk
  | .lam _ _ _ _ x _ _ => x.after = [] ∧ x.notBinding = true ∧ x.tailOk
  | .un _ x _ _ _ _ => x.after = [] ∧ x.notBinding = true ∧ x.tailOk
  | .bin _ _ x _ _ _ _ => x.after = [] ∧ x.notBinding = true ∧ x.tailOk
  | .ite _ _ x _ _ _ _ _ _ _ _ _ _ _ _ _ => x.after = [] ∧ x.notBinding = true ∧ x.tailOk
  | _ => True

theorem mlSafe_tailOk : (e : Expr) → e.mlSafe → e.tailOk
  | .leaf .., _ => trivial
  | .list .., _ => trivial
  | .set .., _ => trivial
  | .binding .., _ => trivial
  | .paren .., _ => trivial
  | .app _ x _ _ _ _, h => ⟨h.2.2.2.2.2.1, h.2.2.2.1, mlSafe_tailOk x h.2.1⟩
  | .wth _ x _ _ _ _ _, h => ⟨h.2.2.2.2.2, h.2.2.2.1, mlSafe_tailOk x h.2.1⟩
  | .asrt _ x _ _ _ _, h => ⟨h.2.2.2.2.2, h.2.2.2.1, mlSafe_tailOk x h.2.1⟩
  | .sel .., _ => trivial
  | .selOr _ _ _ _ x _ _ _ _, h => ⟨h.2.2.2.2.2, h.2.2.2.1, mlSafe_tailOk x h.2.1⟩
  | .lam _ _ _ _ x _ _, h => ⟨h.2.2, h.2.1, mlSafe_tailOk x h.1⟩
  | .un _ x _ _ _ _, h => ⟨h.2.2, h.2.1, mlSafe_tailOk x h.1⟩
  | .bin _ _ x _ _ _ _, h => ⟨h.2.2.2.2.2, h.2.2.2.1, mlSafe_tailOk x h.2.1⟩
  | .ite _ _ x _ _ _ _ _ _ _ _ _ _ _ _ _, h => ⟨h.2.2.2.2.2.2.2.2, h.2.2.2.2.2.1, mlSafe_tailOk x h.2.2.1⟩
  | .has .., _ => trivial

theorem attrP_endsTok : ∀ (attrs : List Text), attrs ≠ [] → (∀ x ∈ attrs, solidT x) →
    ∃ t, EndsTok (attrP attrs) t ∧ solidT t
  | [], h, _ => absurd rfl h
  | [a], _, hs => ⟨a, endsTok_single a, hs a (List.mem_cons_self ..)⟩
  | a :: b :: rest, _, hs => by
    obtain ⟨t, ht, hst⟩ := attrP_endsTok (b :: rest) (by simp) (fun x hx => hs x (List.mem_cons_of_mem _ hx))
    exact ⟨t, endsTok_cons _ (endsTok_cons _ ht), hst⟩

/-- an `assert` is rendered with its body last, whatever its own trailing trivia -/
theorem asrt_endsTok_of {c bd : Expr} {x y bf af : List Trivia} {i : Nat} {t : Text}
    (hbody : EndsTok (bd.rebuildAP false i false) t) (na b : Bool) :
    EndsTok ((Expr.asrt c bd x y bf af).rebuildAP na i b) t := by
  simp only [Expr.rebuildAP]
  exact endsTok_append _ hbody

/-- rendered without its trailing trivia, a value ends with a token -/
theorem noAfter_ends_tok : (e : Expr) → e.ok → e.tailOk → e.notBinding = true → ∀ (i : Nat) (b : Bool),
    ∃ t, EndsTok (e.rebuildAP true i b) t ∧ solidT t
  | .leaf k t bf af, hok, _, _, i, b => by
    refine ⟨t, ?_, hok.1⟩
    simp only [Expr.rebuildAP, addTriviaP, if_true, trailP_nil]
    exact endsTok_append_nil (endsTok_append _ (endsTok_single _))
  | .list v ml inner bf af, _, _, _, i, b => by
    refine ⟨[']'], ?_, solidT_lit ']' (by decide)⟩
    cases v with
    | nil =>
      simp only [Expr.rebuildAP, if_true, trailP_nil]
      split
      · exact endsTok_append_nil (multilineBlockP_endsTok ..)
      · exact endsTok_append_nil (endsTok_append _ (endsTok_cons _ (endsTok_cons _ (endsTok_single _))))
    | cons x xs =>
      simp only [Expr.rebuildAP, if_true, trailP_nil]
      split
      · exact endsTok_append_nil (endsTok_append _ (multilineBlockP_endsTok ..))
      · exact endsTok_append_nil (endsTok_append _ (endsTok_cons _ (endsTok_single _)))
  | .set v ml r inner bf af, _, _, _, i, b => by
    refine ⟨['}'], ?_, solidT_lit '}' (by decide)⟩
    cases v with
    | nil =>
      simp only [Expr.rebuildAP, if_true, trailP_nil]
      split
      · exact endsTok_append_nil (multilineBlockP_endsTok ..)
      · simp only [addTriviaP, trailP_nil]
        exact endsTok_append_nil (endsTok_append _ (endsTok_append _ (endsTok_cons _ (endsTok_cons _ (endsTok_single _)))))
    | cons x xs =>
      simp only [Expr.rebuildAP, if_true, trailP_nil]
      split
      · exact endsTok_append_nil (multilineBlockP_endsTok ..)
      · simp only [addTriviaP, trailP_nil]
        exact endsTok_append_nil (endsTok_append _ (endsTok_append _ (endsTok_cons _ (endsTok_single _))))
  | .binding n v g bf af, _, _, hnb, _, _ => by cases hnb
  | .paren v lg tg lb tb bf af, _, _, _, i, b => by
    refine ⟨[')'], ?_, solidT_lit ')' (by decide)⟩
    simp only [Expr.rebuildAP, addTriviaP, if_true, trailP_nil]
    exact endsTok_append_nil (endsTok_append _ (endsTok_cons _ (endsTok_append _ (endsTok_single _))))
  | .app n x g fa bf af, hok, hml, _, i, b => by
    obtain ⟨hxa, hxnb, hxm⟩ := hml
    simp only [Expr.rebuildAP, addTriviaP, if_true, trailP_nil]
    generalize (Layout.fromGap g).onNewline = on
    generalize (if on = true then (Layout.fromGap g).indent.getD (i + 2) else i) = ai
    obtain ⟨t, ht, hst⟩ := noAfter_ends_tok x hok.2.1 hxm hxnb ai (!on)
    rw [← rebuildAP_after_nil hxa] at ht
    refine ⟨t, ?_, hst⟩
    refine endsTok_append_nil (endsTok_append _ (endsTok_append _ (endsTok_cons _ ?_)))
    split
    · exact endsTok_cons _ ht
    · exact ht

  | .wth env body awc g asc bf af, hok, hml, _, i, b => by
    obtain ⟨hxa, hxnb, hxm⟩ := hml
    obtain ⟨b', w, hsh⟩ := withBodyPartP_shape hok.2.1 awc asc i
    simp only [Expr.rebuildAP, addTriviaP, if_true, trailP_nil]
    rw [hsh]
    obtain ⟨t, ht, hst⟩ := noAfter_ends_tok body hok.2.1 hxm hxnb i b'
    rw [← rebuildAP_after_nil hxa] at ht
    exact ⟨t, endsTok_append_nil (endsTok_append _ (endsTok_append _ (endsTok_cons _ ht))), hst⟩
  | .asrt c bd x y bf af, hok, hml, _, i, b => by
    obtain ⟨hxa, hxnb, hxm⟩ := hml
    obtain ⟨t, ht, hst⟩ := noAfter_ends_tok bd hok.2.1 hxm hxnb i false
    rw [← rebuildAP_after_nil hxa] at ht
    exact ⟨t, asrt_endsTok_of ht true b, hst⟩

  | .sel e attrs g ab bf af, hok, _, _, i, b => by
    obtain ⟨t, ht, hst⟩ := attrP_endsTok attrs hok.2.1 hok.2.2.1
    refine ⟨t, ?_, hst⟩
    simp only [Expr.rebuildAP, addTriviaP, if_true, trailP_nil]
    exact endsTok_append_nil (endsTok_append _ (endsTok_append _ ht))

  | .selOr e attrs g ab d dg db bf af, hok, hml, _, i, b => by
    obtain ⟨hxa, hxnb, hxm⟩ := hml
    obtain ⟨t, ht, hst⟩ := noAfter_ends_tok d hok.2.2.2.2.1 hxm hxnb (selOrIndent dg i) true
    rw [← rebuildAP_after_nil hxa] at ht
    refine ⟨t, ?_, hst⟩
    simp only [Expr.rebuildAP, addTriviaP, if_true, trailP_nil]
    exact endsTok_append_nil (endsTok_append _ (endsTok_append _ ht))

  | .lam n bcc g k body bf af, hok, hml, _, i, b => by
    obtain ⟨hxa, hxnb, hxm⟩ := hml
    obtain ⟨t, ht, hst⟩ := noAfter_ends_tok body hok.2.2.1 hxm hxnb i (k == 0)
    rw [← rebuildAP_after_nil hxa] at ht
    refine ⟨t, ?_, hst⟩
    simp only [Expr.rebuildAP, addTriviaP, if_true, trailP_nil]
    exact endsTok_append_nil (endsTok_append _ (endsTok_append _ ht))

  | .un op e g bt bf af, hok, hml, _, i, b => by
    obtain ⟨hxa, hxnb, hxm⟩ := hml
    have key : ∀ (j : Nat) (bb : Bool), ∃ t, EndsTok (e.rebuildAP false j bb) t ∧ solidT t := by
      intro j bb
      obtain ⟨t, ht, hst⟩ := noAfter_ends_tok e hok.2.1 hxm hxnb j bb
      rw [← rebuildAP_after_nil hxa] at ht
      exact ⟨t, ht, hst⟩
    have hE : ∃ t, EndsTok (if (unLayout bt g).onNewline = true then e.rebuildAP false ((unLayout bt g).indent.getD i) false
        else e.rebuildAP false i true) t ∧ solidT t := by
      split
      · exact key _ _
      · exact key _ _
    obtain ⟨t, ht, hst⟩ := hE
    simp only [Expr.rebuildAP, addTriviaP, if_true, trailP_nil]
    exact ⟨t, endsTok_append_nil (endsTok_append _ (endsTok_append _ ht)), hst⟩

  | .bin op l r x y bf af, hok, hml, _, i, b => by
    obtain ⟨hxa, hxnb, hxm⟩ := hml
    have key : ∀ (j : Nat) (bb : Bool), ∃ t, EndsTok (r.rebuildAP false j bb) t ∧ solidT t := by
      intro j bb
      obtain ⟨t, ht, hst⟩ := noAfter_ends_tok r hok.2.2.1 hxm hxnb j bb
      rw [← rebuildAP_after_nil hxa] at ht
      exact ⟨t, ht, hst⟩
    obtain ⟨w1, w2, R, hsh, hR⟩ := binCoreP_shape (l.rebuildAP false i true)
      (FP.ws (spaces (ensureIndentPad (concat (r.rebuildAP false (binRightIndent op r i) r.before.isEmpty))
        (binRightIndent op r i))) :: r.rebuildAP false (binRightIndent op r i) r.before.isEmpty)
      (r.rebuildAP false i true) op x y i
    have hE : ∃ t, EndsTok R t ∧ solidT t := by
      rcases hR with h | h <;> subst h
      · obtain ⟨t, ht, hst⟩ := key (binRightIndent op r i) r.before.isEmpty
        exact ⟨t, endsTok_cons _ ht, hst⟩
      · exact key _ _
    obtain ⟨t, ht, hst⟩ := hE
    simp only [Expr.rebuildAP, addTriviaP, if_true, trailP_nil]
    rw [hsh]
    exact ⟨t, endsTok_append_nil (endsTok_append _ (endsTok_append _ (endsTok_cons _ (endsTok_cons _ (endsTok_cons _ ht))))), hst⟩

  | .ite c t e cg aic aig btc btg atc tg bec beg aec eg bf af, hok, hml, _, i, b => by
    obtain ⟨hxa, hxnb, hxm⟩ := hml
    have key : ∀ (j : Nat) (bb : Bool), ∃ t, EndsTok (e.rebuildAP false j bb) t ∧ solidT t := by
      intro j bb
      obtain ⟨t, ht, hst⟩ := noAfter_ends_tok e hok.2.2.1 hxm hxnb j bb
      rw [← rebuildAP_after_nil hxa] at ht
      exact ⟨t, ht, hst⟩
    have hE : ∀ (cc : Bool) (j : Nat), ∃ t, EndsTok (if cc = true then e.rebuildAP false j false
        else e.rebuildAP false i true) t ∧ solidT t := by
      intro cc j
      split
      · exact key _ _
      · exact key _ _
    obtain ⟨t, ht, hst⟩ := hE (iteLayout eg (branchHasComments aec e.before)).onNewline
      ((iteLayout eg (branchHasComments aec e.before)).indent.getD i)
    simp only [Expr.rebuildAP, addTriviaP, if_true, trailP_nil]
    exact ⟨t, endsTok_append_nil (endsTok_append _ (endsTok_append _ ht)), hst⟩

  | .has e attrs lg rg bq aq bf af, hok, _, _, i, b => by
    obtain ⟨t, ht, hst⟩ := attrP_endsTok attrs hok.2.1 hok.2.2.1
    refine ⟨t, ?_, hst⟩
    simp only [Expr.rebuildAP, addTriviaP, if_true, trailP_nil]
    exact endsTok_append_nil (endsTok_append _ (endsTok_append _ ht))

/-- the trailing trivia are rendered last -/
theorem rebuildAP_split {e : Expr} (hna : e.isAsrtE = false) (hnb : e.notBinding = true) (i : Nat) (b : Bool) :
    e.rebuildAP false i b = e.rebuildAP true i b ++ trailP e.after i := by
  cases e with
  | leaf k t bf af => simp [Expr.rebuildAP, addTriviaP, trailP_nil, Expr.after]
  | list v ml inner bf af =>
    cases v with
    | nil => simp only [Expr.rebuildAP, Expr.after, if_true, trailP_nil, Bool.false_eq_true, if_false]; split <;> simp
    | cons x xs => simp only [Expr.rebuildAP, Expr.after, if_true, trailP_nil, Bool.false_eq_true, if_false]; split <;> simp
  | set v ml r inner bf af =>
    cases v with
    | nil =>
      simp only [Expr.rebuildAP, Expr.after, if_true, trailP_nil, Bool.false_eq_true, if_false, addTriviaP]
      split <;> simp
    | cons x xs =>
      simp only [Expr.rebuildAP, Expr.after, if_true, trailP_nil, Bool.false_eq_true, if_false, addTriviaP]
      split <;> simp
  | binding n v g bf af => cases hnb
  | paren v lg tg lb tb bf af => simp [Expr.rebuildAP, addTriviaP, trailP_nil, Expr.after]
  | app n x g fa bf af => simp [Expr.rebuildAP, addTriviaP, trailP_nil, Expr.after]
  | wth e bd c g s bf af => simp [Expr.rebuildAP, addTriviaP, trailP_nil, Expr.after]
  | sel e ats g ab bf af => simp [Expr.rebuildAP, addTriviaP, trailP_nil, Expr.after]
  | selOr e ats g ab d dg db bf af => simp [Expr.rebuildAP, addTriviaP, trailP_nil, Expr.after]
  | lam n c g k bd bf af => simp [Expr.rebuildAP, addTriviaP, trailP_nil, Expr.after]
  | un o e g bt bf af => simp [Expr.rebuildAP, addTriviaP, trailP_nil, Expr.after]
  | bin o l r x y bf af => simp [Expr.rebuildAP, addTriviaP, trailP_nil, Expr.after]
  | ite c t e cg aic aig btc btg atc tg bec beg aec eg bf af => simp [Expr.rebuildAP, addTriviaP, trailP_nil, Expr.after]
  | has e ats lg rg bq aq bf af => simp [Expr.rebuildAP, addTriviaP, trailP_nil, Expr.after]
  | asrt c bd x y bf af => cases hna

/-- an expression without trailing trivia ends closed -/
theorem closed_of_after_nil {e : Expr} (hok : e.ok) (hml : e.mlSafe) (hnb : e.notBinding = true) (ha : e.after = [])
    (i : Nat) (b : Bool) : openAfter false (e.rebuildAP false i b) = false := by
  obtain ⟨t, ⟨xs, hx⟩, hst⟩ := noAfter_ends_tok e hok (mlSafe_tailOk e hml) hnb i b
  rw [rebuildAP_after_nil ha, hx]
  exact open_snoc_tok false xs hst.1

/-- a rendering ends inside a line comment only if the trailing trivia hold one -/
theorem rebuildAP_open {e : Expr} (hok : e.ok) (hml : e.mlSafe) (hnb : e.notBinding = true) (i : Nat) (b : Bool)
    (h : openAfter false (e.rebuildAP false i b) = true) : ¬ lineFree e.after := by
  cases hA : e.isAsrtE with
  | false =>
    obtain ⟨t, ⟨xs, hx⟩, hst⟩ := noAfter_ends_tok e hok (mlSafe_tailOk e hml) hnb i b
    rw [rebuildAP_split hA hnb, hx, openAfter_append, open_snoc_tok false xs hst.1] at h
    rcases openAfter_true false _ h with h0 | hl
    · cases h0
    · exact (trailP_safe (ok_after hok) i).2 hl
  | true =>
    exfalso
    cases e with
    | asrt c bd x y bf af =>
      obtain ⟨hxa, hxnb, hxm⟩ := mlSafe_tailOk _ hml
      obtain ⟨t, ht, hst⟩ := noAfter_ends_tok bd hok.2.1 hxm hxnb i false
      rw [← rebuildAP_after_nil hxa] at ht
      obtain ⟨xs, hx⟩ := asrt_endsTok_of (c := c) (x := x) (y := y) (bf := bf) (af := af) ht false b
      rw [hx, open_snoc_tok false xs hst.1] at h
      cases h
    | leaf => cases hA
    | list => cases hA
    | set => cases hA
    | binding => cases hA
    | paren => cases hA
    | app => cases hA
    | wth => cases hA
    | sel => cases hA
    | selOr => cases hA
    | lam => cases hA
    | un => cases hA
    | bin => cases hA
    | ite => cases hA
    | has => cases hA

/-- the comments after the function: safe after a closed state; open afterwards only if the last one
    is a line comment -/
theorem fnAfterP_scan : ∀ (fa : List Comment) (acc : List FP) (i : Nat), (∀ c ∈ fa, cOk c) → fnOk fa →
    safeGo false acc = true → openAfter false acc = false →
    safeGo false (fnAfterP acc fa i) = true ∧ (openAfter false (fnAfterP acc fa i) = true → ¬ lineFreeC fa)
  | [], acc, i, _, _, hs, ho => by
    refine ⟨hs, fun h => ?_⟩
    simp only [fnAfterP] at h; rw [ho] at h; cases h
  | c :: rest, acc, i, hc, hfo, hs, ho => by
    have hc0 := hc c (List.mem_cons_self ..)
    have hr : ∀ c' ∈ rest, cOk c' := fun c' h => hc c' (List.mem_cons_of_mem _ h)
    have hinl : c.inline = true := by
      cases rest with
      | nil => exact hfo
      | cons d r => exact hfo.1
    have hscan : safeGo false ((acc ++ if (concat acc).getLast? == some ' ' then [] else [FP.ws [' ']]) ++ cmtP c 0) = true ∧
        openAfter false ((acc ++ if (concat acc).getLast? == some ' ' then [] else [FP.ws [' ']]) ++ cmtP c 0) =
          isLineTok (c.token 0) := by
      have h1 := cmtP_scan hc0 0 []
      simp only [List.append_nil] at h1
      rw [List.append_assoc, safeGo_append, openAfter_append, hs, ho, Bool.true_and]
      split
      · simp only [List.nil_append, h1.1, h1.2, safeGo, openAfter]; exact ⟨trivial, trivial⟩
      · simp only [List.cons_append, List.nil_append, safeGo, openAfter, stepOk_false, stepOpen_ws_false, Bool.true_and,
          h1.1, h1.2]
        exact ⟨trivial, trivial⟩
    simp only [fnAfterP, hinl, if_true]
    cases rest with
    | nil =>
      simp only [fnAfterP]
      refine ⟨hscan.1, fun h => ?_⟩
      rw [hscan.2] at h
      exact fun hf => hf c (List.mem_cons_self ..) (token_head hc0 0 h)
    | cons d r =>
      have hnl : isLineTok (c.token 0) = false := by
        cases hl : isLineTok (c.token 0) with
        | false => rfl
        | true => exact absurd (token_head hc0 0 hl) hfo.2.1
      have ih := fnAfterP_scan (d :: r) _ i hr hfo.2.2 hscan.1 (by rw [hscan.2, hnl])
      exact ⟨ih.1, fun h hf => ih.2 h (fun c' hc' => hf c' (List.mem_cons_of_mem _ hc'))⟩

theorem rebuildAllP_noLine : ∀ {es : List Expr}, allOk es → allLineFree es → ∀ (i : Nat) (b : Bool),
    ∀ x ∈ rebuildAllP es i b, ¬ hasLineP x
  | [], _, _, _, _, x, hx => by cases hx
  | e :: rest, hok, hf, i, b, x, hx => by
    simp only [rebuildAllP, List.mem_cons] at hx
    rcases hx with hx | hx
    · subst hx; exact rebuildAP_noLine hok.1 hf.1 false i b
    · exact rebuildAllP_noLine hok.2 hf.2 i b x hx

theorem asrt_join_safe {line bodyP : List FP} (hl : safeGo false line = true) (hs : Solid line)
    (hb : safeGo false bodyP = true) :
    safeGo false (line ++ [FP.ws (if endsWithNL (concat line) then [] else ['\n'])] ++ bodyP) = true := by
  rw [List.append_assoc, safeGo_append, hl, Bool.true_and]
  by_cases he : endsWithNL (concat line) = true
  · rw [open_of_endsWithNL false hs he]
    simp [he, safeGo, stepOk, stepOpen, hb]
  · simp only [he, Bool.false_eq_true, if_false]
    cases openAfter false line <;> simp [safeGo, stepOk, stepOpen, startsWithNL, hb]

theorem tok_then (t : Text) (rest : List FP) :
    safeGo false (.tok t :: rest) = safeGo false rest ∧ openAfter false (.tok t :: rest) = openAfter false rest := by
  simp [safeGo, openAfter]

theorem ws_then (t : Text) (rest : List FP) :
    safeGo false (.ws t :: rest) = safeGo false rest ∧ openAfter false (.ws t :: rest) = openAfter false rest := by
  simp [safeGo, openAfter]

theorem safe_endsTok {ps : List FP} {t : Text} (h : EndsTok ps t) (ht : solidT t) (hs : safeGo false ps = true)
    (rest : List FP) :
    safeGo false (rstripNLP ps ++ rest) = safeGo false rest := by
  obtain ⟨xs, rfl⟩ := h
  rw [rstripNLP_snoc_tok xs ht, safeGo_append, hs, open_snoc_tok false xs ht.1]; simp

mutual
theorem rebuildAP_safe : (e : Expr) → e.ok → e.mlSafe → ∀ (na : Bool) (i : Nat) (b : Bool),
    safeGo false (e.rebuildAP na i b) = true
  | .leaf k t before after, hok, _, na, i, b => by
    obtain ⟨_, hb, ha⟩ := hok
    simp only [Expr.rebuildAP, addTriviaP, List.append_assoc]
    rw [(lines_then i (leafBefore_ok k t hb i b) _).1, (indentP_scan i b _).1]
    simp only [List.cons_append, List.nil_append, (tok_then _ _).1]
    exact (trailP_safe (ite_nil_ok na ha) i).1
  | .list value ml inner before after, hok, hml, na, i, b => by
    obtain ⟨hv, hin, hb, ha⟩ := hok
    have ht := (trailP_safe (ite_nil_ok na ha) i).1
    cases value with
    | nil =>
      simp only [Expr.rebuildAP]
      split
      · rw [(multilineBlockP_safe hb (op := [FP.tok ['[']]) ']' i b false (fun rest => tok_then _ rest)
          (fmtP_solid hin _) (by rw [fmtP_lines hin.1]; exact (linesP_scan _ hin).1) _).1]
        exact ht
      · simp only [List.append_assoc]
        rw [(lines_then i hb _).1, (indentP_scan i b _).1]
        simp only [List.cons_append, List.nil_append, (tok_then _ _).1, (ws_then _ _).1]
        exact ht
    | cons v vs =>
      have ihs := fun i b => rebuildAllP_safe (v :: vs) hv hml.1 i b
      have hsol := fun i b => (rebuildAllP_lex (v :: vs) hv i b).2
      cases ml with
      | true =>
        simp only [Expr.rebuildAP, if_true, Bool.not_true, List.append_assoc]
        rw [(lines_then i hb _).1]
        have := multilineBlockP_safe (before := []) trivOk_nil (op := [FP.tok ['[']]) ']' i b true
          (body := joinP [.ws ['\n']] (rebuildAllP (v :: vs) (i + 2) false))
          (fun rest => tok_then _ rest) (solid_joinP_ws _ _ (hsol _ _)) (joinP_nl_safe _ (ihs _ _))
          (trailP (if na = true then [] else after) i)
        rw [show fmtP [] i = [] from rfl] at this
        rw [this.1]; exact ht
      | false =>
        have hnl := rebuildAllP_noLine hv (hml.2 rfl) i true
        simp only [Expr.rebuildAP, Bool.false_eq_true, if_false, Bool.not_false, List.append_assoc]
        rw [(lines_then i hb _).1, (indentP_scan i b _).1]
        simp only [List.cons_append, List.nil_append, (tok_then _ _).1, (ws_then _ _).1]
        rw [safeGo_append, joinP_sp_safe _ (fun x hx => ⟨ihs i true x hx, hnl x hx⟩), Bool.true_and,
          open_false_of_noLine (fun h => by
            obtain ⟨x, hx, hxl⟩ := hasLineP_joinP_ws _ _ h
            exact hnl x hx hxl)]
        simp only [(tok_then _ _).1, (ws_then _ _).1]
        exact ht
  | .set values ml r inner before after, hok, hml, na, i, b => by
    obtain ⟨hv, hin, hb, ha⟩ := hok
    have ha' := ite_nil_ok na ha
    have ht := (trailP_safe ha' i).1
    have hop : ∀ rest, safeGo false ((recP r ++ [FP.tok ['{']]) ++ rest) = safeGo false rest ∧
        openAfter false ((recP r ++ [FP.tok ['{']]) ++ rest) = openAfter false rest := by
      intro rest
      rw [List.append_assoc, (recP_scan r _).1, (recP_scan r _).2]
      exact tok_then _ rest
    cases values with
    | nil =>
      simp only [Expr.rebuildAP]
      split
      · rw [(multilineBlockP_safe hb '}' i b false hop
          (fmtP_solid hin _) (by rw [fmtP_lines hin.1]; exact (linesP_scan _ hin).1) _).1]
        exact ht
      · simp only [addTriviaP, List.append_assoc]
        rw [(lines_then i hb _).1, (indentP_scan i b _).1, (recP_scan r _).1]
        simp only [List.cons_append, List.nil_append, (tok_then _ _).1, (ws_then _ _).1]
        exact ht
    | cons v vs =>
      have ihs := fun i b => rebuildAllP_safe (v :: vs) hv hml.1 i b
      have hsol := fun i b => (rebuildAllP_lex (v :: vs) hv i b).2
      cases ml with
      | true =>
        simp only [Expr.rebuildAP, if_true]
        rw [(multilineBlockP_safe hb '}' i b true hop (solid_joinP_ws _ _ (hsol _ _))
          (joinP_nl_safe _ (ihs _ _)) _).1]
        exact ht
      | false =>
        have hnl := rebuildAllP_noLine hv (hml.2 rfl) (i + 2) true
        simp only [Expr.rebuildAP, Bool.false_eq_true, if_false, addTriviaP, List.append_assoc]
        rw [(lines_then i hb _).1, (indentP_scan i b _).1, (recP_scan r _).1]
        simp only [List.cons_append, List.nil_append, (tok_then _ _).1, (ws_then _ _).1]
        rw [safeGo_append, joinP_sp_safe _ (fun x hx => ⟨ihs (i + 2) true x hx, hnl x hx⟩), Bool.true_and,
          open_false_of_noLine (fun h => by
            obtain ⟨x, hx, hxl⟩ := hasLineP_joinP_ws _ _ h
            exact hnl x hx hxl)]
        simp only [(tok_then _ _).1, (ws_then _ _).1]
        exact ht
  | .binding name value vg before after, hok, hml, na, i, b => by
    obtain ⟨hn, hv, hb, ha⟩ := hok
    have ihv := rebuildAP_safe value hv hml.1
    have ihp := previewP_safe value hv hml.1
    have hbt := (bindingTailP_safe (trivOk_append (ok_after hv) (ite_nil_ok na ha)) i).1
    simp only [Expr.rebuildAP]
    generalize bindOnNewline vg value.before = on
    generalize bindValIndent vg value.before i = vi
    have hval : ∃ t, EndsTok ((if on = true then none else value.previewP vi).getD (value.rebuildAP true vi (!on))) t ∧
        solidT t ∧ safeGo false ((if on = true then none else value.previewP vi).getD (value.rebuildAP true vi (!on))) = true := by
      cases on
      · simp only [Bool.false_eq_true, if_false]
        cases hp : value.previewP vi with
        | none =>
          obtain ⟨t, h1, h2⟩ := noAfter_ends_tok value hv (mlSafe_tailOk value hml.1) hml.2 vi (!false)
          exact ⟨t, h1, h2, ihv true vi _⟩
        | some p => exact ihp vi p hp
      · obtain ⟨t, h1, h2⟩ := noAfter_ends_tok value hv (mlSafe_tailOk value hml.1) hml.2 vi (!true)
        exact ⟨t, h1, h2, ihv true vi _⟩
    obtain ⟨t, het, hst, hsv⟩ := hval
    simp only [List.append_assoc]
    rw [(lines_then i hb _).1, (indentP_scan i b _).1]
    simp only [List.cons_append, List.nil_append, (tok_then _ _).1, (ws_then _ _).1]
    rw [safe_endsTok het hst hsv, (tok_then _ _).1]
    exact hbt
  | .paren value lg tg lb tb before after, hok, hml, na, i, b => by
    obtain ⟨hv, hb, ha⟩ := hok
    obtain ⟨hvm, hvnb, hvl⟩ := hml
    have ht := (trailP_safe (ite_nil_ok na ha) i).1
    have ihv := rebuildAP_safe value hv hvm false
    simp only [Expr.rebuildAP, addTriviaP, List.append_assoc]
    rw [(lines_then i hb _).1, (indentP_scan i b _).1]
    simp only [List.cons_append, (tok_then _ _).1]
    -- the value, then the closing parenthesis
    have hclose : ∀ (V : List FP), safeGo false V = true → (openAfter false V = true → ¬ lineFree value.after) →
        safeGo false ((if (Layout.fromGap tg).onNewline = true then V ++ [FP.ws (nlSep tb ++ spaces i)] else V) ++
          (FP.tok [')'] :: trailP (if na = true then [] else after) i)) = true := by
      intro V hV hop
      by_cases hon : (Layout.fromGap tg).onNewline = true
      · simp only [hon, if_true, List.append_assoc, List.cons_append, List.nil_append]
        rw [safeGo_append, hV, Bool.true_and]
        have hnl : startsWithNL (nlSep tb ++ spaces i) = true := by unfold nlSep; split <;> rfl
        have hne : (nlSep tb ++ spaces i).isEmpty = false := by unfold nlSep; split <;> rfl
        cases openAfter false V <;>
          simp [safeGo, stepOk, stepOpen, hnl, hne, ht]
      · have hon' : (Layout.fromGap tg).onNewline = false := by simpa using hon
        simp only [hon', Bool.false_eq_true, if_false]
        rw [safeGo_append, hV, Bool.true_and]
        have : openAfter false V = false := by
          cases ho : openAfter false V with
          | false => rfl
          | true => exact absurd (hvl hon') (hop ho)
        rw [this, (tok_then _ _).1]; exact ht
    have hV : safeGo false (if (Layout.fromGap lg).onNewline = true then
          FP.ws (nlSep lb) :: value.rebuildAP false ((Layout.fromGap lg).indent.getD (i + 2)) false
          else value.rebuildAP false i true) = true ∧
        (openAfter false (if (Layout.fromGap lg).onNewline = true then
          FP.ws (nlSep lb) :: value.rebuildAP false ((Layout.fromGap lg).indent.getD (i + 2)) false
          else value.rebuildAP false i true) = true → ¬ lineFree value.after) := by
      split
      · refine ⟨?_, fun ho => ?_⟩
        · rw [(ws_then _ _).1]; exact ihv _ _
        · rw [(ws_then _ _).2] at ho
          exact rebuildAP_open hv hvm hvnb _ _ ho
      · exact ⟨ihv _ _, fun ho => rebuildAP_open hv hvm hvnb _ _ ho⟩
    revert hV
    generalize (if (Layout.fromGap lg).onNewline = true then
          FP.ws (nlSep lb) :: value.rebuildAP false ((Layout.fromGap lg).indent.getD (i + 2)) false
          else value.rebuildAP false i true) = V
    intro hV
    simp only [List.nil_append]
    exact hclose V hV.1 hV.2
  | .app name arg g fa before after, hok, hml, na, i, b => by
    obtain ⟨hn, hx, hfa, hb, ha⟩ := hok
    obtain ⟨hnm, hxm, hnnb, hxnb, hna, hxa, hfo, hfl⟩ := hml
    have ht := (trailP_safe (ite_nil_ok na ha) i).1
    have hf := fnAfterP_scan fa (name.rebuildAP false i true) i hfa hfo (rebuildAP_safe name hn hnm false i true)
      (closed_of_after_nil hn hnm hnnb hna i true)
    simp only [Expr.rebuildAP, addTriviaP, List.append_assoc]
    rw [(lines_then i hb _).1, (indentP_scan i b _).1]
    rw [safeGo_append, hf.1, Bool.true_and]
    generalize hon : (Layout.fromGap g).onNewline = on at hfl
    generalize (if on = true then (Layout.fromGap g).indent.getD (i + 2) else i) = ai
    have hargs : safeGo false (arg.rebuildAP false ai (!on)) = true := rebuildAP_safe arg hx hxm false ai (!on)
    have hclosed := closed_of_after_nil hx hxm hxnb hxa ai (!on)
    -- the separator: a line break whenever a line comment is open
    have hsep : ∀ tl, safeGo false tl = true →
        safeGo (openAfter false (fnAfterP (name.rebuildAP false i true) fa i))
          (FP.ws (if (Layout.fromGap g).blankLine = true then ['\n', '\n'] else if on = true then ['\n'] else [' ']) :: tl) = true := by
      intro tl htl
      cases ho : openAfter false (fnAfterP (name.rebuildAP false i true) fa i) with
      | false =>
        by_cases hbl : (Layout.fromGap g).blankLine = true <;> cases on <;>
          simp [hbl, safeGo, stepOk, stepOpen, htl]
      | true =>
        have hon1 : on = true := by
          cases on with
          | true => rfl
          | false => exact absurd (hfl rfl) (hf.2 ho)
        subst hon1
        by_cases hbl : (Layout.fromGap g).blankLine = true <;>
          simp [hbl, safeGo, stepOk, stepOpen, startsWithNL, htl]
    simp only [List.cons_append]
    refine hsep _ ?_
    rw [safeGo_append]
    split
    · simp only [(ws_then _ _).1, (ws_then _ _).2, hargs, hclosed, Bool.true_and]; exact ht
    · simp only [hargs, hclosed, Bool.true_and]; exact ht
  | .wth env body awc awGap asc before after, hok, hml, na, i, b => by
    obtain ⟨he, hbd, _, _, hb, ha⟩ := hok
    obtain ⟨hem, hbm, henb, hbnb, hea, hba⟩ := hml
    have ht := (trailP_safe (ite_nil_ok na ha) i).1
    obtain ⟨b', w, hsh⟩ := withBodyPartP_shape hbd awc asc i
    have henv : safeGo false (if (withLayout awc awGap).onNewline = true
          then env.rebuildAP false ((withLayout awc awGap).indent.getD i) false else env.rebuildAP false i true) = true ∧
        openAfter false (if (withLayout awc awGap).onNewline = true
          then env.rebuildAP false ((withLayout awc awGap).indent.getD i) false else env.rebuildAP false i true) = false := by
      split
      · exact ⟨rebuildAP_safe env he hem false _ _, closed_of_after_nil he hem henb hea _ _⟩
      · exact ⟨rebuildAP_safe env he hem false _ _, closed_of_after_nil he hem henb hea _ _⟩
    simp only [Expr.rebuildAP, addTriviaP, List.append_assoc]
    rw [hsh, (lines_then i hb _).1, (indentP_scan i b _).1]
    simp only [List.cons_append, List.nil_append, (tok_then _ _).1, (ws_then _ _).1]
    rw [safeGo_append, henv.1, henv.2, Bool.true_and]
    simp only [(tok_then _ _).1, (ws_then _ _).1]
    rw [safeGo_append, rebuildAP_safe body hbd hbm false i b', closed_of_after_nil hbd hbm hbnb hba i b', Bool.true_and]
    exact ht
  | .asrt cond body aac bsc before after, hok, hml, na, i, b => by
    have hok0 := hok
    obtain ⟨hc, hbd, _, _, hb, ha⟩ := hok
    obtain ⟨hcm, hbm, hcnb, hbnb, hca, hba⟩ := hml
    have ht := (trailP_safe (ite_nil_ok na ha) i).1
    have hsolid := (rebuildAP_lex (.asrt cond body aac bsc before after) hok0 na i b).2
    simp only [Expr.rebuildAP] at hsolid ⊢
    generalize (triviaForcesNewline aac || !inlineIsAbsorbed (concat (cond.rebuildAP false i true))) = onNL at hsolid ⊢
    have hcond : safeGo false (if onNL = true then cond.rebuildAP false (i + 2) false else cond.rebuildAP false i true) = true ∧
        openAfter false (if onNL = true then cond.rebuildAP false (i + 2) false else cond.rebuildAP false i true) = false := by
      split
      · exact ⟨rebuildAP_safe cond hc hcm false _ _, closed_of_after_nil hc hcm hcnb hca _ _⟩
      · exact ⟨rebuildAP_safe cond hc hcm false _ _, closed_of_after_nil hc hcm hcnb hca _ _⟩
    revert hcond hsolid
    generalize (if onNL = true then cond.rebuildAP false (i + 2) false else cond.rebuildAP false i true) = condP
    intro hsolid hcond
    generalize (formatInterstitialTriviaWithSeparator aac (asrtLayout onNL i) (if onNL = true then i + 2 else i)
      (includeIndent := false) (stripLeadingNLAfter := some (concat condP))) = r1 at hsolid ⊢
    generalize (if bsc.isEmpty = true then (([], []) : Text × Text)
      else formatInterstitialTriviaWithSeparator bsc { onNewline := true, blankLine := false, indent := some i } i
        (inlineSep := [' ']) (stripLeadingNLAfter := some (concat condP))) = r2 at hsolid ⊢
    have hline : safeGo false (addTriviaP before (if na = true then [] else after)
        ([FP.tok kwAssert, FP.ws (r1.1 ++ r1.2)] ++ condP ++ [FP.ws (r2.1 ++ r2.2), FP.tok [';']]) i b) = true := by
      simp only [addTriviaP, List.append_assoc]
      rw [(lines_then i hb _).1, (indentP_scan i b _).1]
      simp only [List.cons_append, List.nil_append, (tok_then _ _).1, (ws_then _ _).1]
      rw [safeGo_append, hcond.1, hcond.2, Bool.true_and]
      simp only [(tok_then _ _).1, (ws_then _ _).1]
      exact ht
    have hsl : Solid (addTriviaP before (if na = true then [] else after)
        ([FP.tok kwAssert, FP.ws (r1.1 ++ r1.2)] ++ condP ++ [FP.ws (r2.1 ++ r2.2), FP.tok [';']]) i b) := by
      intro p hp
      exact hsolid p (List.mem_append_left _ (List.mem_append_left _ hp))
    exact asrt_join_safe hline hsl (rebuildAP_safe body hbd hbm false i false)
  | .sel expr attrs g ab before after, hok, hml, na, i, b => by
    obtain ⟨he, hne, hat, _, hb, ha⟩ := hok
    obtain ⟨hem, henb, hea⟩ := hml
    have ht := (trailP_safe (ite_nil_ok na ha) i).1
    have hattr : ∀ (rest : List FP), safeGo false (attrP attrs ++ rest) = safeGo false rest := by
      intro rest
      clear hne hat
      induction attrs with
      | nil => rfl
      | cons x r ih =>
        cases r with
        | nil => simp only [attrP, List.cons_append, List.nil_append, (tok_then _ _).1]
        | cons y r' =>
          simp only [attrP, List.cons_append, (tok_then _ _).1]
          exact ih
    simp only [Expr.rebuildAP, addTriviaP, List.append_assoc]
    rw [(lines_then i hb _).1, (indentP_scan i b _).1]
    rw [safeGo_append, rebuildAP_safe expr he hem false i true, closed_of_after_nil he hem henb hea i true, Bool.true_and]
    simp only [List.cons_append, List.nil_append, (tok_then _ _).1, (ws_then _ _).1]
    rw [hattr]
    exact ht
  | .selOr expr attrs g ab d dg db before after, hok, hml, na, i, b => by
    obtain ⟨he, hne, hat, _, hd, _, hb, ha⟩ := hok
    obtain ⟨hem, hdm, henb, hdnb, hea, hda⟩ := hml
    have ht := (trailP_safe (ite_nil_ok na ha) i).1
    have hattr : ∀ (rest : List FP), safeGo false (attrP attrs ++ rest) = safeGo false rest := by
      intro rest
      clear hne hat
      induction attrs with
      | nil => rfl
      | cons x r ih =>
        cases r with
        | nil => simp only [attrP, List.cons_append, List.nil_append, (tok_then _ _).1]
        | cons y r' =>
          simp only [attrP, List.cons_append, (tok_then _ _).1]
          exact ih
    simp only [Expr.rebuildAP, addTriviaP, List.append_assoc]
    rw [(lines_then i hb _).1, (indentP_scan i b _).1]
    rw [safeGo_append, rebuildAP_safe expr he hem false i true, closed_of_after_nil he hem henb hea i true, Bool.true_and]
    simp only [List.cons_append, List.nil_append, (tok_then _ _).1, (ws_then _ _).1]
    rw [hattr]
    simp only [(tok_then _ _).1, (ws_then _ _).1]
    rw [safeGo_append, rebuildAP_safe d hd hdm false _ true, closed_of_after_nil hd hdm hdnb hda _ true, Bool.true_and]
    exact ht
  | .lam name bcc g k body before after, hok, hml, na, i, b => by
    obtain ⟨_, _, hbd, hb, ha⟩ := hok
    obtain ⟨hbm, hbnb, hba⟩ := hml
    have ht := (trailP_safe (ite_nil_ok na ha) i).1
    simp only [Expr.rebuildAP, addTriviaP, List.append_assoc]
    rw [(lines_then i hb _).1, (indentP_scan i b _).1]
    simp only [List.cons_append, List.nil_append, (tok_then _ _).1, (ws_then _ _).1]
    rw [safeGo_append, rebuildAP_safe body hbd hbm false i (k == 0), closed_of_after_nil hbd hbm hbnb hba i (k == 0),
      Bool.true_and]
    exact ht
  | .un op expr g bt before after, hok, hml, na, i, b => by
    obtain ⟨_, he, _, hb, ha⟩ := hok
    obtain ⟨hem, henb, hea⟩ := hml
    have ht := (trailP_safe (ite_nil_ok na ha) i).1
    have hexpr : safeGo false (if (unLayout bt g).onNewline = true then expr.rebuildAP false ((unLayout bt g).indent.getD i) false
          else expr.rebuildAP false i true) = true ∧
        openAfter false (if (unLayout bt g).onNewline = true then expr.rebuildAP false ((unLayout bt g).indent.getD i) false
          else expr.rebuildAP false i true) = false := by
      split
      · exact ⟨rebuildAP_safe expr he hem false _ _, closed_of_after_nil he hem henb hea _ _⟩
      · exact ⟨rebuildAP_safe expr he hem false _ _, closed_of_after_nil he hem henb hea _ _⟩
    simp only [Expr.rebuildAP, addTriviaP, List.append_assoc]
    rw [(lines_then i hb _).1, (indentP_scan i b _).1]
    have hbase : ∀ (rest : List FP), safeGo false ((if (op == ['+', '+'] && !b) = true
        then [FP.ws (['\n'] ++ spaces i), FP.tok op] else [FP.tok op]) ++ rest) = safeGo false rest := by
      intro rest
      split
      · simp only [List.cons_append, List.nil_append, (tok_then _ _).1, (ws_then _ _).1]
      · simp only [List.cons_append, List.nil_append, (tok_then _ _).1]
    rw [hbase]
    simp only [List.cons_append, List.nil_append, (ws_then _ _).1]
    rw [safeGo_append, hexpr.1, hexpr.2, Bool.true_and]
    exact ht
  | .bin op left right ogl rgl before after, hok, hml, na, i, b => by
    obtain ⟨_, hl, hr, hb, ha⟩ := hok
    obtain ⟨hlm, hrm, hlnb, hrnb, hla, hra⟩ := hml
    have ht := (trailP_safe (ite_nil_ok na ha) i).1
    obtain ⟨w1, w2, R, hsh, hR⟩ := binCoreP_shape (left.rebuildAP false i true)
      (FP.ws (spaces (ensureIndentPad (concat (right.rebuildAP false (binRightIndent op right i) right.before.isEmpty))
        (binRightIndent op right i))) :: right.rebuildAP false (binRightIndent op right i) right.before.isEmpty)
      (right.rebuildAP false i true) op ogl rgl i
    have hRs : safeGo false R = true ∧ openAfter false R = false := by
      rcases hR with h | h <;> subst h
      · simp only [(ws_then _ _).1, (ws_then _ _).2]
        exact ⟨rebuildAP_safe right hr hrm false _ _, closed_of_after_nil hr hrm hrnb hra _ _⟩
      · exact ⟨rebuildAP_safe right hr hrm false _ _, closed_of_after_nil hr hrm hrnb hra _ _⟩
    simp only [Expr.rebuildAP, addTriviaP, List.append_assoc]
    rw [hsh, (lines_then i hb _).1, (indentP_scan i b _).1]
    simp only [List.append_assoc]
    rw [safeGo_append, rebuildAP_safe left hl hlm false i true, closed_of_after_nil hl hlm hlnb hla i true, Bool.true_and]
    simp only [List.cons_append, (tok_then _ _).1, (ws_then _ _).1]
    rw [safeGo_append, hRs.1, hRs.2, Bool.true_and]
    exact ht
  | .ite cond thn els cg aic aig btc btg atc tg bec beg aec eg before after, hok, hml, na, i, b => by
    obtain ⟨hc, ht', he, _, _, _, _, _, hb, ha⟩ := hok
    obtain ⟨hcm, htm, hem, hcnb, htnb, henb, hca, hta, hea⟩ := hml
    have ht := (trailP_safe (ite_nil_ok na ha) i).1
    have hC : ∀ (cc : Bool) (j : Nat) (rest : List FP), safeGo false ((if cc = true then cond.rebuildAP false j false
        else cond.rebuildAP false i true) ++ rest) = safeGo false rest := by
      intro cc j rest
      rw [safeGo_append]
      cases cc
      · simp only [Bool.false_eq_true, if_false]
        rw [rebuildAP_safe cond hc hcm false i true, closed_of_after_nil hc hcm hcnb hca i true, Bool.true_and]
      · simp only [if_true]
        rw [rebuildAP_safe cond hc hcm false j false, closed_of_after_nil hc hcm hcnb hca j false, Bool.true_and]
    have hT : ∀ (cc : Bool) (j : Nat) (rest : List FP), safeGo false ((if cc = true then thn.rebuildAP false j false
        else thn.rebuildAP false i true) ++ rest) = safeGo false rest := by
      intro cc j rest
      rw [safeGo_append]
      cases cc
      · simp only [Bool.false_eq_true, if_false]
        rw [rebuildAP_safe thn ht' htm false i true, closed_of_after_nil ht' htm htnb hta i true, Bool.true_and]
      · simp only [if_true]
        rw [rebuildAP_safe thn ht' htm false j false, closed_of_after_nil ht' htm htnb hta j false, Bool.true_and]
    have hE : ∀ (cc : Bool) (j : Nat) (rest : List FP), safeGo false ((if cc = true then els.rebuildAP false j false
        else els.rebuildAP false i true) ++ rest) = safeGo false rest := by
      intro cc j rest
      rw [safeGo_append]
      cases cc
      · simp only [Bool.false_eq_true, if_false]
        rw [rebuildAP_safe els he hem false i true, closed_of_after_nil he hem henb hea i true, Bool.true_and]
      · simp only [if_true]
        rw [rebuildAP_safe els he hem false j false, closed_of_after_nil he hem henb hea j false, Bool.true_and]
    simp only [Expr.rebuildAP, addTriviaP, List.append_assoc]
    rw [(lines_then i hb _).1, (indentP_scan i b _).1]
    simp only [List.cons_append, List.nil_append, (tok_then _ _).1, (ws_then _ _).1]
    rw [hC]
    simp only [(tok_then _ _).1, (ws_then _ _).1]
    rw [hT]
    simp only [(tok_then _ _).1, (ws_then _ _).1]
    rw [hE]
    exact ht
  | .has expr attrs lg rg bq aq before after, hok, hml, na, i, b => by
    obtain ⟨he, hne, hat, _, _, hb, ha⟩ := hok
    obtain ⟨hem, henb, hea⟩ := hml
    have ht := (trailP_safe (ite_nil_ok na ha) i).1
    have hattr : ∀ (rest : List FP), safeGo false (attrP attrs ++ rest) = safeGo false rest := by
      intro rest
      clear hne hat
      induction attrs with
      | nil => rfl
      | cons x r ih =>
        cases r with
        | nil => simp only [attrP, List.cons_append, List.nil_append, (tok_then _ _).1]
        | cons y r' =>
          simp only [attrP, List.cons_append, (tok_then _ _).1]
          exact ih
    simp only [Expr.rebuildAP, addTriviaP, List.append_assoc]
    rw [(lines_then i hb _).1, (indentP_scan i b _).1]
    rw [safeGo_append, rebuildAP_safe expr he hem false i true, closed_of_after_nil he hem henb hea i true, Bool.true_and]
    simp only [List.cons_append, List.nil_append, (tok_then _ _).1, (ws_then _ _).1]
    rw [hattr]
    exact ht
theorem rebuildAllP_safe : (es : List Expr) → allOk es → allMlSafe es → ∀ (i : Nat) (b : Bool),
    ∀ x ∈ rebuildAllP es i b, safeGo false x = true
  | [], _, _, _, _, x, hx => by cases hx
  | e :: rest, hok, hml, i, b, x, hx => by
    simp only [rebuildAllP, List.mem_cons] at hx
    rcases hx with hx | hx
    · subst hx; exact rebuildAP_safe e hok.1 hml.1 false i b
    · exact rebuildAllP_safe rest hok.2 hml.2 i b x hx
theorem previewP_safe : (e : Expr) → e.ok → e.mlSafe → ∀ (i : Nat) (p : List FP), e.previewP i = some p →
    ∃ t, EndsTok p t ∧ solidT t ∧ safeGo false p = true
  | .leaf .., _, _, i, p, h => by simp [Expr.previewP] at h
  | .set .., _, _, i, p, h => by simp [Expr.previewP] at h
  | .binding .., _, _, i, p, h => by simp [Expr.previewP] at h
  | .paren .., _, _, i, p, h => by simp [Expr.previewP] at h
  | .app .., _, _, i, p, h => by simp [Expr.previewP] at h
  | .wth .., _, _, i, p, h => by simp [Expr.previewP] at h
  | .asrt .., _, _, i, p, h => by simp [Expr.previewP] at h
  | .sel .., _, _, i, p, h => by simp [Expr.previewP] at h
  | .selOr .., _, _, i, p, h => by simp [Expr.previewP] at h
  | .lam .., _, _, i, p, h => by simp [Expr.previewP] at h
  | .un .., _, _, i, p, h => by simp [Expr.previewP] at h
  | .bin .., _, _, i, p, h => by simp [Expr.previewP] at h
  | .ite .., _, _, i, p, h => by simp [Expr.previewP] at h
  | .has .., _, _, i, p, h => by simp [Expr.previewP] at h
  | .list value ml inner before after, hok, hml, i, p, h => by
    obtain ⟨hv, hin, hb, ha⟩ := hok
    refine ⟨[']'], ?_, solidT_lit ']' (by decide), ?_⟩
    · cases value with
      | nil =>
        simp only [Expr.previewP] at h
        split at h; · cases h
        split at h; · cases h
        split at h; · cases h
        split at h; · cases h
        injection h with h; subst h
        exact endsTok_cons _ (endsTok_cons _ (endsTok_single _))
      | cons v vs =>
        simp only [Expr.previewP] at h
        split at h; · cases h
        split at h; · cases h
        split at h; · cases h
        split at h; · cases h
        injection h with h; subst h
        exact endsTok_append _ (endsTok_cons _ (endsTok_single _))
    · cases value with
      | nil =>
        simp only [Expr.previewP] at h
        split at h; · cases h
        split at h; · cases h
        split at h; · cases h
        split at h; · cases h
        injection h with h; subst h
        simp [safeGo]
      | cons v vs =>
        have ihs := fun i b => rebuildAllP_safe (v :: vs) hv hml.1 i b
        simp only [Expr.previewP] at h
        split at h; · cases h
        rename_i hmlf
        have hmlf' : ml = false := by simpa using hmlf
        have hnl := rebuildAllP_noLine hv (hml.2 hmlf') i true
        split at h; · cases h
        split at h; · cases h
        split at h; · cases h
        injection h with h; subst h
        simp only [List.append_assoc, List.cons_append, List.nil_append, (tok_then _ _).1, (ws_then _ _).1]
        rw [safeGo_append, joinP_sp_safe _ (fun x hx => ⟨ihs i true x hx, hnl x hx⟩), Bool.true_and,
          open_false_of_noLine (fun h => by
            obtain ⟨x, hx, hxl⟩ := hasLineP_joinP_ws _ _ h
            exact hnl x hx hxl)]
        simp [safeGo]
end

/-- a file with one top-level expression renders safely -/
theorem srcRebuildP_safe (s : Src) (e : Expr) (he : s.exprs = [e]) (hok : s.ok) (hml : e.mlSafe) :
    safeGo false s.rebuildP = true := by
  obtain ⟨hes, ht⟩ := hok
  rw [he] at hes
  have hr : safeGo false (rebuildAllP [e] 0 false).flatten = true := by
    simp only [rebuildAllP, List.flatten_cons, List.flatten_nil, List.append_nil]
    exact rebuildAP_safe e hes.1 hml false 0 false
  have htl : safeGo false (trimP s.trailing (fmtP s.trailing 0)) = true := by
    rw [fmtP_lines ht.1]; exact trimP_safe _ _ (linesP_scan 0 ht).1
  unfold Src.rebuildP
  rw [he]
  simp only
  split
  · exact hr
  · split
    · rw [List.append_assoc, safeGo_append, hr, Bool.true_and]
      split
      · rename_i hemp
        have : concat (rebuildAllP [e] 0 false).flatten = [] := by simpa using hemp
        rw [(scan_of_concat_nil false _ this).2]; exact htl
      · simp [safeGo, htl]
    · have hrs : safeGo false ((rebuildAllP [e] 0 false).flatten ++
          if endsWithNL (concat (rebuildAllP [e] 0 false).flatten) = true then [] else [FP.ws ['\n']]) = true := by
        rw [safeGo_append, hr, Bool.true_and]
        split
        · rfl
        · simp [safeGo]
      split <;> (try split) <;> first | exact hrs | exact hr

/-- what the scan means: whatever is written after a line-comment piece starts with a line break -/
theorem safeGo_true_spec : ∀ (post : List FP), safeGo true post = true →
    concat post = [] ∨ startsWithNL (concat post) = true
  | [], _ => Or.inl rfl
  | p :: rest, h => by
    simp only [safeGo, Bool.and_eq_true] at h
    by_cases he : p.text = []
    · rw [(step_of_empty he true).2] at h
      rcases safeGo_true_spec rest h.2 with h1 | h1
      · exact Or.inl (by rw [concat_cons, he, h1]; rfl)
      · exact Or.inr (by rw [concat_cons, he]; exact h1)
    · right
      have h1 := h.1
      unfold stepOk at h1
      have hne : p.text.isEmpty = false := by
        cases hp : p.text with
        | nil => exact absurd hp he
        | cons _ _ => rfl
      simp only [hne, Bool.false_or] at h1
      cases p with
      | ws s =>
        simp only [Bool.not_true, Bool.false_or] at h1
        rw [concat_cons, text_ws]
        simp only [text_ws] at he
        cases s with
        | nil => exact absurd rfl he
        | cons c r => simpa [startsWithNL] using h1
      | tok s => simp at h1
      | cmt s => simp at h1

theorem safeGo_spec : ∀ (o : Bool) (ps pre post : List FP) (c : Text), safeGo o ps = true →
    ps = pre ++ .cmt c :: post → isLineTok c = true → concat post = [] ∨ startsWithNL (concat post) = true
  | o, ps, [], post, c, h, he, hl => by
    subst he
    simp only [List.nil_append, safeGo, Bool.and_eq_true] at h
    have hc : c ≠ [] := by intro e; subst e; simp [isLineTok] at hl
    have : stepOpen o (FP.cmt c) = true := by
      unfold stepOpen
      cases c with
      | nil => exact absurd rfl hc
      | cons a r => simpa using hl
    rw [this] at h
    exact safeGo_true_spec post h.2
  | o, ps, p :: pre, post, c, h, he, hl => by
    subst he
    simp only [List.cons_append, safeGo, Bool.and_eq_true] at h
    exact safeGo_spec _ _ pre post c h.2 rfl hl

/-! ### the parse side: multiline flags and line comments -/

def gcNoLine (cs : GC) : Bool := cs.all fun p => !isLineCmt p.2

mutual
/-- no line comment token anywhere in the tree -/
def Cst.noLineC : Cst → Bool
  | .leaf _ _ => true
  | .list its _ => its.noLineI
  | .set _ _ its _ => its.noLineI
  | .paren its _ => its.noLineI
  | .app f cs _ a => f.noLineC && gcNoLine cs && a.noLineC
  | .kw _ c1 _ h c2 _ c3 _ b => gcNoLine c1 && h.noLineC && gcNoLine c2 && gcNoLine c3 && b.noLineC
  | .sel e c1 _ _ _ => e.noLineC && gcNoLine c1
  | .selOr e c1 _ _ _ c2 _ _ d => e.noLineC && gcNoLine c1 && gcNoLine c2 && d.noLineC
  | .lam _ c1 _ c2 _ b => gcNoLine c1 && gcNoLine c2 && b.noLineC
  | .un _ c _ e => gcNoLine c && e.noLineC
  | .bin l c1 _ _ c2 _ r => l.noLineC && gcNoLine c1 && gcNoLine c2 && r.noLineC
  | .ite c1 _ c c2 _ c3 _ t c4 _ c5 _ e =>
    gcNoLine c1 && c.noLineC && gcNoLine c2 && gcNoLine c3 && t.noLineC && gcNoLine c4 && gcNoLine c5 && e.noLineC
  | .has e c1 _ c2 _ _ => e.noLineC && gcNoLine c1 && gcNoLine c2
def Items.noLineI : Items → Bool
  | .nil => true
  | .cmt _ t rest => !isLineCmt t && rest.noLineI
  | .elem _ c rest => c.noLineC && rest.noLineI
  | .bind _ _ c1 _ c2 _ v c3 _ rest => gcNoLine c1 && gcNoLine c2 && v.noLineC && gcNoLine c3 && rest.noLineI
end

theorem containsNL_of_startsWithNL {s : Text} (h : startsWithNL s = true) : containsNL s = true := by
  cases s with
  | nil => simp [startsWithNL] at h
  | cons c r =>
    have : c = '\n' := by simpa [startsWithNL] using h
    subst this; simp [containsNL]

theorem closedBy_noNL {t next : Text} (h : closedBy t next false = true) (hn : containsNL next = false) :
    isLineCmt t = false := by
  unfold closedBy at h
  cases hl : isLineCmt t with
  | false => rfl
  | true =>
    simp only [hl, Bool.not_true, Bool.false_or, Bool.false_and, Bool.or_false] at h
    rw [containsNL_of_startsWithNL h] at hn; cases hn

theorem containsNL_append_false {a b : Text} (h : containsNL (a ++ b) = false) :
    containsNL a = false ∧ containsNL b = false := by
  rw [containsNL_append] at h
  simpa using h

theorem gcNoLine_of_noNL : ∀ (cs : GC) (next : Text), gcOk cs next = true →
    containsNL (flattenGC cs ++ next) = false → gcNoLine cs = true
  | [], _, _, _ => rfl
  | [p], next, h, hn => by
    simp only [gcOk, Bool.and_eq_true] at h
    simp only [flattenGC, List.flatMap_cons, List.flatMap_nil, List.append_nil] at hn
    have := (containsNL_append_false hn).2
    simp [gcNoLine, closedBy_noNL h.2 this]
  | p :: q :: rest, next, h, hn => by
    simp only [gcOk, Bool.and_eq_true] at h
    have hn' : containsNL ((p.1 ++ p.2) ++ (q.1 ++ (q.2 ++ (flattenGC rest ++ next)))) = false := by
      simpa [flattenGC, List.append_assoc] using hn
    have h1 := (containsNL_append_false hn').2
    have hq := (containsNL_append_false h1).1
    have ih := gcNoLine_of_noNL (q :: rest) next h.2 (by simpa [flattenGC, List.append_assoc] using h1)
    simp only [gcNoLine, List.all_cons, Bool.and_eq_true] at ih ⊢
    exact ⟨by simp [closedBy_noNL h.1.2 hq], ih⟩

theorem firstGap_prefix : ∀ (its : Items) (cg : Text), ∃ tl, its.flatten ++ cg = its.firstGap.getD cg ++ tl
  | .nil, cg => ⟨[], by simp [Items.flatten, Items.firstGap]⟩
  | .cmt g t rest, cg => ⟨t ++ rest.flatten ++ cg, by simp [Items.flatten, Items.firstGap]⟩
  | .elem g c rest, cg => ⟨c.flatten ++ rest.flatten ++ cg, by simp [Items.flatten, Items.firstGap]⟩
  | .bind g n c1 g1 c2 g2 v c3 g3 rest, cg => ⟨_, by simp only [Items.flatten, Items.firstGap, Option.getD_some, List.append_assoc]; rfl⟩

theorem ite_flatten_noNL {g1 g2 g3 g4 g5 : Text} {c t e : Cst}
    (hn : containsNL (Cst.ite [] g1 c [] g2 [] g3 t [] g4 [] g5 e).flatten = false) :
    (containsNL c.flatten = false ∧ containsNL t.flatten = false ∧ containsNL e.flatten = false) ∧
      (containsNL g1 = false ∧ containsNL g2 = false ∧ containsNL g3 = false ∧ containsNL g4 = false ∧
        containsNL g5 = false) := by
  have h1 : containsNL (['i', 'f'] ++ (g1 ++ (c.flatten ++ (g2 ++ (['t', 'h', 'e', 'n'] ++ (g3 ++ (t.flatten ++
      (g4 ++ (['e', 'l', 's', 'e'] ++ (g5 ++ e.flatten))))))))))  = false := by
    simpa [Cst.flatten, flattenGC, List.append_assoc] using hn
  have a1 := containsNL_append_false h1
  have a2 := containsNL_append_false a1.2
  have a3 := containsNL_append_false a2.2
  have a4 := containsNL_append_false a3.2
  have a5 := containsNL_append_false a4.2
  have a6 := containsNL_append_false a5.2
  have a7 := containsNL_append_false a6.2
  have a8 := containsNL_append_false a7.2
  have a9 := containsNL_append_false a8.2
  have a10 := containsNL_append_false a9.2
  exact ⟨⟨a3.1, a7.1, a10.2⟩, ⟨a2.1, a4.1, a6.1, a8.1, a10.1⟩⟩

theorem has_flatten_noNL {g1 g2 : Text} {e : Cst} {attrs : List Text}
    (hn : containsNL (Cst.has e [] g1 [] g2 attrs).flatten = false) :
    containsNL e.flatten = false ∧ containsNL g1 = false ∧ containsNL g2 = false := by
  have h1 : containsNL (e.flatten ++ (g1 ++ (['?'] ++ (g2 ++ attrText attrs)))) = false := by
    simpa [Cst.flatten, flattenGC, List.append_assoc] using hn
  have a1 := containsNL_append_false h1
  have a2 := containsNL_append_false a1.2
  have a3 := containsNL_append_false a2.2
  have a4 := containsNL_append_false a3.2
  exact ⟨a1.1, a2.1, a4.1⟩

mutual
theorem cst_noLine_of_noNL : (c : Cst) → c.wf = true → containsNL c.flatten = false → c.noLineC = true
  | .leaf _ _, _, _ => rfl
  | .list its cg, hwf, hn => by
    simp only [Cst.wf, Bool.and_eq_true] at hwf
    simp only [Cst.flatten] at hn
    have : containsNL (its.flatten ++ cg) = false := by
      have h1 : containsNL (['['] ++ ((its.flatten ++ cg) ++ [']'])) = false := by simpa using hn
      exact (containsNL_append_false (containsNL_append_false h1).2).1
    exact items_noLine_of_noNL its .list cg hwf.1 (by decide) this
  | .set r rg its cg, hwf, hn => by
    simp only [Cst.wf, Bool.and_eq_true] at hwf
    simp only [Cst.flatten] at hn
    have : containsNL (its.flatten ++ cg) = false := by
      have h1 : containsNL ((if r = true then ['r', 'e', 'c'] ++ rg else []) ++ (['{'] ++ ((its.flatten ++ cg) ++ ['}']))) = false := by
        simpa using hn
      exact (containsNL_append_false (containsNL_append_false (containsNL_append_false h1).2).2).1
    exact items_noLine_of_noNL its .set cg hwf.1.2 (by decide) this
  | .paren its cg, hwf, hn => by
    simp only [Cst.wf, Bool.and_eq_true] at hwf
    simp only [Cst.flatten] at hn
    have : containsNL (its.flatten ++ cg) = false := by
      have h1 : containsNL (['('] ++ ((its.flatten ++ cg) ++ [')'])) = false := by simpa using hn
      exact (containsNL_append_false (containsNL_append_false h1).2).1
    exact items_noLine_of_noNL its .paren cg hwf.1.1 (by decide) this
  | .app f cs g a, hwf, hn => by
    simp only [Cst.wf, Bool.and_eq_true] at hwf
    obtain ⟨⟨⟨hfw, hcs⟩, _⟩, haw⟩ := hwf
    have h1 : containsNL (f.flatten ++ ((flattenGC cs ++ g) ++ a.flatten)) = false := by
      simpa [Cst.flatten, List.append_assoc] using hn
    have h2 := containsNL_append_false h1
    have h3 := containsNL_append_false h2.2
    simp only [Cst.noLineC, Bool.and_eq_true]
    exact ⟨⟨cst_noLine_of_noNL f hfw h2.1, gcNoLine_of_noNL cs g hcs h3.1⟩, cst_noLine_of_noNL a haw h3.2⟩
  | .kw w c1 g1 h c2 g2 c3 g3 b, hwf, hn => by
    simp only [Cst.wf, Bool.and_eq_true, List.isEmpty_iff] at hwf
    obtain ⟨⟨⟨⟨⟨⟨⟨hc1, _⟩, hhw⟩, hc2⟩, _⟩, hc3⟩, _⟩, hbw⟩ := hwf
    subst hc1; subst hc2; subst hc3
    have h1 : containsNL (kwText w ++ (g1 ++ (h.flatten ++ (g2 ++ ([';'] ++ (g3 ++ b.flatten)))))) = false := by
      simpa [Cst.flatten, flattenGC, List.append_assoc] using hn
    have a1 := containsNL_append_false (containsNL_append_false h1).2
    have a2 := containsNL_append_false a1.2
    have a3 := containsNL_append_false (containsNL_append_false (containsNL_append_false a2.2).2).2
    simp only [Cst.noLineC, gcNoLine, List.all_nil, Bool.true_and, Bool.and_true, Bool.and_eq_true]
    exact ⟨cst_noLine_of_noNL h hhw a2.1, cst_noLine_of_noNL b hbw a3.2⟩
  | .sel e c1 g1 gd attrs, hwf, hn => by
    simp only [Cst.wf, Bool.and_eq_true, List.isEmpty_iff] at hwf
    obtain ⟨⟨⟨⟨⟨hew, hc1⟩, _⟩, _⟩, _⟩, _⟩ := hwf
    subst hc1
    have h1 : containsNL (e.flatten ++ (g1 ++ (['.'] ++ (gd ++ attrText attrs)))) = false := by
      simpa [Cst.flatten, flattenGC, List.append_assoc] using hn
    simp only [Cst.noLineC, gcNoLine, List.all_nil, Bool.and_true]
    exact cst_noLine_of_noNL e hew (containsNL_append_false h1).1
  | .selOr e c1 g1 gd attrs c2 g2 g3 d, hwf, hn => by
    simp only [Cst.wf, Bool.and_eq_true, List.isEmpty_iff] at hwf
    obtain ⟨⟨⟨⟨⟨⟨⟨⟨⟨hew, hc1⟩, _⟩, _⟩, _⟩, _⟩, hc2⟩, _⟩, _⟩, hdw⟩ := hwf
    subst hc1; subst hc2
    have h1 : containsNL (e.flatten ++ ((g1 ++ (['.'] ++ (gd ++ (attrText attrs ++ (g2 ++ (['o', 'r'] ++ g3)))))) ++ d.flatten)) = false := by
      simpa [Cst.flatten, flattenGC, List.append_assoc] using hn
    have a1 := containsNL_append_false h1
    have a2 := containsNL_append_false a1.2
    simp only [Cst.noLineC, gcNoLine, List.all_nil, Bool.and_true, Bool.and_eq_true]
    exact ⟨cst_noLine_of_noNL e hew a1.1, cst_noLine_of_noNL d hdw a2.2⟩
  | .lam n c1 g1 c2 g2 b, hwf, hn => by
    simp only [Cst.wf, Bool.and_eq_true, List.isEmpty_iff] at hwf
    obtain ⟨⟨⟨⟨⟨_, hc1⟩, _⟩, hc2⟩, _⟩, hbw⟩ := hwf
    subst hc1; subst hc2
    have h1 : containsNL ((n ++ (g1 ++ ([':'] ++ g2))) ++ b.flatten) = false := by
      simpa [Cst.flatten, flattenGC, List.append_assoc] using hn
    simp only [Cst.noLineC, gcNoLine, List.all_nil, Bool.true_and]
    exact cst_noLine_of_noNL b hbw (containsNL_append_false h1).2
  | .un op c g e, hwf, hn => by
    simp only [Cst.wf, Bool.and_eq_true, List.isEmpty_iff] at hwf
    obtain ⟨⟨⟨_, hc⟩, _⟩, hew⟩ := hwf
    subst hc
    have h1 : containsNL ((op ++ g) ++ e.flatten) = false := by
      simpa [Cst.flatten, flattenGC, List.append_assoc] using hn
    simp only [Cst.noLineC, gcNoLine, List.all_nil, Bool.true_and]
    exact cst_noLine_of_noNL e hew (containsNL_append_false h1).2
  | .bin l c1 g1 op c2 g2 r, hwf, hn => by
    simp only [Cst.wf, Bool.and_eq_true, List.isEmpty_iff] at hwf
    obtain ⟨⟨⟨⟨⟨⟨⟨hlw, hc1⟩, _⟩, _⟩, _⟩, hc2⟩, _⟩, hrw⟩ := hwf
    subst hc1; subst hc2
    have h1 : containsNL (l.flatten ++ ((g1 ++ (op ++ g2)) ++ r.flatten)) = false := by
      simpa [Cst.flatten, flattenGC, List.append_assoc] using hn
    have a1 := containsNL_append_false h1
    have a2 := containsNL_append_false a1.2
    simp only [Cst.noLineC, gcNoLine, List.all_nil, Bool.and_true, Bool.and_eq_true]
    exact ⟨cst_noLine_of_noNL l hlw a1.1, cst_noLine_of_noNL r hrw a2.2⟩
  | .ite c1 g1 c c2 g2 c3 g3 t c4 g4 c5 g5 e, hwf, hn => by
    obtain ⟨⟨h1, h2, h3, h4, h5⟩, ⟨hcw, htw, hew⟩, _⟩ := ite_wf hwf
    subst h1; subst h2; subst h3; subst h4; subst h5
    obtain ⟨⟨n1, n2, n3⟩, _⟩ := ite_flatten_noNL hn
    simp only [Cst.noLineC, gcNoLine, List.all_nil, Bool.and_true, Bool.true_and, Bool.and_eq_true]
    exact ⟨⟨cst_noLine_of_noNL c hcw n1, cst_noLine_of_noNL t htw n2⟩, cst_noLine_of_noNL e hew n3⟩
  | .has e c1 g1 c2 g2 attrs, hwf, hn => by
    obtain ⟨⟨h1, h2⟩, hew, _, _, _⟩ := has_wf hwf
    subst h1; subst h2
    simp only [Cst.noLineC, gcNoLine, List.all_nil, Bool.and_true]
    exact cst_noLine_of_noNL e hew (has_flatten_noNL hn).1
theorem items_noLine_of_noNL : (its : Items) → ∀ (m : Mode) (cg : Text), its.wf m cg = true → m ≠ .file →
    containsNL (its.flatten ++ cg) = false → its.noLineI = true
  | .nil, _, _, _, _, _ => rfl
  | .cmt g t rest, m, cg, hwf, hm, hn => by
    simp only [Items.wf, Bool.and_eq_true] at hwf
    have hmf : (m == Mode.file) = false := by cases m <;> simp at hm ⊢
    rw [hmf] at hwf
    simp only [Items.flatten, List.append_assoc] at hn
    have h1 := (containsNL_append_false (containsNL_append_false hn).2).2
    obtain ⟨tl, htl⟩ := firstGap_prefix rest cg
    have h2 : containsNL (rest.firstGap.getD cg) = false := by
      rw [htl] at h1; exact (containsNL_append_false h1).1
    simp only [Items.noLineI, Bool.and_eq_true]
    exact ⟨by simp [closedBy_noNL hwf.1.2 h2], items_noLine_of_noNL rest m cg hwf.2 hm h1⟩
  | .elem g c rest, m, cg, hwf, hm, hn => by
    simp only [Items.wf, Bool.and_eq_true] at hwf
    simp only [Items.flatten, List.append_assoc] at hn
    have h1 := (containsNL_append_false hn).2
    have h2 := containsNL_append_false h1
    simp only [Items.noLineI, Bool.and_eq_true]
    exact ⟨cst_noLine_of_noNL c hwf.1.2 h2.1, items_noLine_of_noNL rest m cg hwf.2 hm h2.2⟩
  | .bind g n c1 g1 c2 g2 v c3 g3 rest, m, cg, hwf, hm, hn => by
    simp only [Items.wf, Bool.and_eq_true] at hwf
    obtain ⟨⟨⟨⟨⟨⟨⟨⟨⟨⟨_, _⟩, _⟩, h1⟩, _⟩, h2⟩, _⟩, hv⟩, h3⟩, _⟩, hrest⟩ := hwf
    have hn' : containsNL (g ++ (n ++ ((flattenGC c1 ++ g1) ++ (['='] ++ ((flattenGC c2 ++ g2) ++ (v.flatten ++
        ((flattenGC c3 ++ g3) ++ ([';'] ++ (rest.flatten ++ cg))))))))) = false := by
      simpa [Items.flatten, List.append_assoc] using hn
    have a1 := (containsNL_append_false (containsNL_append_false hn').2).2
    have a2 := containsNL_append_false a1
    have a3 := containsNL_append_false (containsNL_append_false a2.2).2
    have a4 := containsNL_append_false a3.2
    have a5 := containsNL_append_false a4.2
    have a6 := (containsNL_append_false a5.2).2
    simp only [Items.noLineI, Bool.and_eq_true]
    exact ⟨⟨⟨⟨gcNoLine_of_noNL c1 g1 h1 a2.1, gcNoLine_of_noNL c2 g2 h2 a3.1⟩, cst_noLine_of_noNL v hv a4.1⟩,
      gcNoLine_of_noNL c3 g3 h3 a5.1⟩, items_noLine_of_noNL rest m cg hrest hm a6⟩
end

theorem mkComment_block {t : Text} (h : isCommentTok t = true) (hl : isLineCmt t = false) (b : Bool) :
    (mkComment t b).kind ≠ .line := by
  unfold isCommentTok at h
  unfold isLineCmt at hl
  simp only [hl, Bool.false_and, Bool.false_or, Bool.and_eq_true] at h
  have hs := h.1.1.1
  show (Comment.fromText 0 t).kind ≠ .line
  rw [fromText_block 0 t hs]
  split <;> simp

theorem lineFree_single_layout {t : Trivia} (h : t.isLayout = true) : lineFree [t] := by
  intro c hc; simp at hc; subst hc; cases h

theorem lineFree_comment {c : Comment} (h : c.kind ≠ .line) : lineFree [Trivia.comment c] := by
  intro c' hc; simp at hc; subst hc; exact h

theorem lineFree_appendGap {ts : List Trivia} (h : lineFree ts) (g : Text) (b : Bool) :
    lineFree (appendGapTriviaOff ts g b) := by
  unfold appendGapTriviaOff; split
  · exact h
  · split
    · exact lineFree_append.mpr ⟨h, lineFree_single_layout rfl⟩
    · split
      · exact lineFree_append.mpr ⟨h, lineFree_single_layout rfl⟩
      · exact h

theorem lineFree_pushGap {st : SeqSt} (h : lineFree st.before) (g : Text) : lineFree (pushGap st g) := by
  unfold pushGap; split
  · exact h
  · exact lineFree_appendGap h _ _

theorem gcTrivia_lineFree : ∀ (cs : GC) (acc : List Trivia) (next : Text), gcOk cs next = true → gcNoLine cs = true →
    lineFree acc → lineFree (gcTrivia acc cs)
  | [], acc, _, _, _, ha => ha
  | p :: rest, acc, next, h, hn, ha => by
    obtain ⟨hp, hrest⟩ := gcOk_tail h
    simp only [gcNoLine, List.all_cons, Bool.and_eq_true, Bool.not_eq_true'] at hn
    rw [gcTrivia]
    exact gcTrivia_lineFree rest _ next hrest hn.2
      (lineFree_append.mpr ⟨lineFree_appendGap ha _ _, lineFree_comment (mkComment_block hp hn.1 false)⟩)

/-! lineFreeE / mlSafe under the field updates of the parser -/

theorem lineFreeE_setBefore {e : Expr} (h : e.lineFreeE) {b : List Trivia} (hb : lineFree b) : (e.setBefore b).lineFreeE := by
  cases e with
  | leaf k t b' a => exact ⟨hb, h.2⟩
  | list v m inn b' a => exact ⟨h.1, h.2.1, hb, h.2.2.2⟩
  | set v m r inn b' a => exact ⟨h.1, h.2.1, hb, h.2.2.2⟩
  | binding n v g b' a => exact ⟨h.1, hb, h.2.2⟩
  | paren v lg tg lb tb b' a => exact ⟨h.1, hb, h.2.2⟩
  | app n x g fa b' a => exact ⟨h.1, h.2.1, h.2.2.1, hb, h.2.2.2.2⟩
  | wth e bd c g s b' a => exact ⟨h.1, h.2.1, hb, h.2.2.2⟩
  | asrt c bd x y b' a => exact ⟨h.1, h.2.1, hb, h.2.2.2⟩
  | sel e ats g ab b' a => exact ⟨h.1, hb, h.2.2⟩
  | selOr e ats g ab d dg db b' a => exact ⟨h.1, h.2.1, hb, h.2.2.2⟩
  | lam n c g k bd b' a => exact ⟨h.1, hb, h.2.2⟩
  | un o e g bt b' a => exact ⟨h.1, hb, h.2.2⟩
  | bin o l r x y b' a => exact ⟨h.1, h.2.1, hb, h.2.2.2⟩
  | ite c t e cg aic aig btc btg atc tg bec beg aec eg b' a => exact ⟨h.1, h.2.1, h.2.2.1, hb, h.2.2.2.2⟩
  | has e ats lg rg bq aq b' a => exact ⟨h.1, hb, h.2.2⟩

theorem lineFreeE_addAfter {e : Expr} (h : e.lineFreeE) {a : List Trivia} (ha : lineFree a) : (e.addAfter a).lineFreeE := by
  have haa := lineFree_append.mpr ⟨lineFreeE_after h, ha⟩
  cases e with
  | leaf k t b a' => exact ⟨h.1, haa⟩
  | list v m inn b a' => exact ⟨h.1, h.2.1, h.2.2.1, haa⟩
  | set v m r inn b a' => exact ⟨h.1, h.2.1, h.2.2.1, haa⟩
  | binding n v g b a' => exact ⟨h.1, h.2.1, haa⟩
  | paren v lg tg lb tb b a' => exact ⟨h.1, h.2.1, haa⟩
  | app n x g fa b a' => exact ⟨h.1, h.2.1, h.2.2.1, h.2.2.2.1, haa⟩
  | wth e bd c g s b a' => exact ⟨h.1, h.2.1, h.2.2.1, haa⟩
  | asrt c bd x y b a' => exact ⟨h.1, h.2.1, h.2.2.1, haa⟩
  | sel e ats g ab b a' => exact ⟨h.1, h.2.1, haa⟩
  | selOr e ats g ab d dg db b a' => exact ⟨h.1, h.2.1, h.2.2.1, haa⟩
  | lam n c g k bd b a' => exact ⟨h.1, h.2.1, haa⟩
  | un o e g bt b a' => exact ⟨h.1, h.2.1, haa⟩
  | bin o l r x y b a' => exact ⟨h.1, h.2.1, h.2.2.1, haa⟩
  | ite c t e cg aic aig btc btg atc tg bec beg aec eg b a' => exact ⟨h.1, h.2.1, h.2.2.1, h.2.2.2.1, haa⟩
  | has e ats lg rg bq aq b a' => exact ⟨h.1, h.2.1, haa⟩

theorem mlSafe_setBefore {e : Expr} (h : e.mlSafe) (b : List Trivia) : (e.setBefore b).mlSafe := by
  cases e <;> exact h
theorem mlSafe_addAfter {e : Expr} (h : e.mlSafe) (a : List Trivia) : (e.addAfter a).mlSafe := by
  cases e <;> exact h
theorem notBinding_setBefore (e : Expr) (b : List Trivia) : (e.setBefore b).notBinding = e.notBinding := by
  cases e <;> rfl
theorem notBinding_addAfter (e : Expr) (a : List Trivia) : (e.addAfter a).notBinding = e.notBinding := by
  cases e <;> rfl

theorem allLineFree_append : ∀ {a b : List Expr}, allLineFree a → allLineFree b → allLineFree (a ++ b)
  | [], _, _, hb => hb
  | _ :: _, _, ha, hb => ⟨ha.1, allLineFree_append ha.2 hb⟩
theorem allMlSafe_append : ∀ {a b : List Expr}, allMlSafe a → allMlSafe b → allMlSafe (a ++ b)
  | [], _, _, hb => hb
  | _ :: _, _, ha, hb => ⟨ha.1, allMlSafe_append ha.2 hb⟩

theorem modifyLast_lineFree : ∀ {items : List Expr} {ts : List Trivia}, allLineFree items → lineFree ts →
    allLineFree (modifyLast (fun e => e.addAfter ts) items)
  | [], _, _, _ => trivial
  | [e], _, h, ht => ⟨lineFreeE_addAfter h.1 ht, trivial⟩
  | e :: e' :: rest, _, h, ht => ⟨h.1, modifyLast_lineFree (items := e' :: rest) h.2 ht⟩
theorem modifyLast_mlSafe : ∀ {items : List Expr} (ts : List Trivia), allMlSafe items →
    allMlSafe (modifyLast (fun e => e.addAfter ts) items)
  | [], _, _ => trivial
  | [e], ts, h => ⟨mlSafe_addAfter h.1 ts, trivial⟩
  | e :: e' :: rest, ts, h => ⟨h.1, modifyLast_mlSafe (items := e' :: rest) ts h.2⟩

theorem finishSeq_inv (st : SeqSt) (cgo : Option Text) (hc : Bool) (hml : allMlSafe st.items) :
    allMlSafe (finishSeq st cgo hc).1 ∧
    (allLineFree st.items → lineFree st.before →
      allLineFree (finishSeq st cgo hc).1 ∧ lineFree (finishSeq st cgo hc).2) := by
  have stage1 : ∃ items inner, (if st.before.isEmpty then (st.items, []) else if st.items.isEmpty then ([], st.before)
        else (modifyLast (fun e => e.addAfter st.before) st.items, [])) = ((items, inner) : List Expr × List Trivia) ∧
      allMlSafe items ∧ (allLineFree st.items → lineFree st.before → allLineFree items ∧ lineFree inner) := by
    by_cases hb : st.before.isEmpty = true
    · exact ⟨st.items, [], by rw [if_pos hb], hml, fun h1 _ => ⟨h1, lineFree_nil⟩⟩
    · by_cases hi : st.items.isEmpty = true
      · exact ⟨[], st.before, by rw [if_neg hb, if_pos hi], trivial, fun _ h2 => ⟨trivial, h2⟩⟩
      · exact ⟨_, [], by rw [if_neg hb, if_neg hi], modifyLast_mlSafe _ hml,
          fun h1 h2 => ⟨modifyLast_lineFree h1 h2, lineFree_nil⟩⟩
  obtain ⟨items, inner, he, h1, h2⟩ := stage1
  unfold finishSeq
  simp only [he]
  cases cgo with
  | none => exact ⟨h1, h2⟩
  | some cg =>
    simp only
    split
    · split
      · exact ⟨h1, fun a b => ⟨(h2 a b).1, lineFree_append.mpr ⟨(h2 a b).2, lineFree_single_layout rfl⟩⟩⟩
      · exact ⟨modifyLast_mlSafe _ h1, fun a b => ⟨modifyLast_lineFree (h2 a b).1 (lineFree_single_layout rfl), (h2 a b).2⟩⟩
    · exact ⟨h1, h2⟩

theorem emptyInner_lineFree {items : List Expr} {inner : List Trivia} (h : lineFree inner) (between : Text) :
    lineFree (emptyInner items inner between) := by
  unfold emptyInner
  split
  · split
    · exact lineFree_single_layout rfl
    · exact lineFree_nil
  · exact h

theorem openBefore_lineFree (its : Items) : lineFree (openBefore its) := by
  unfold openBefore
  cases its.firstGap with
  | none => exact lineFree_nil
  | some g => simp only; split
              · exact lineFree_single_layout rfl
              · exact lineFree_nil

theorem lineFreeE_before {e : Expr} (h : e.lineFreeE) : lineFree e.before := by
  cases e with
  | leaf k t b a => exact h.1
  | list v m inn b a => exact h.2.2.1
  | set v m r inn b a => exact h.2.2.1
  | binding n v g b a => exact h.2.1
  | paren v lg tg lb tb b a => exact h.2.1
  | app n x g fa b a => exact h.2.2.2.1
  | wth e bd c g s b a => exact h.2.2.1
  | asrt c bd x y b a => exact h.2.2.1
  | sel e ats g ab b a => exact h.2.1
  | selOr e ats g ab d dg db b a => exact h.2.2.1
  | lam n c g k bd b a => exact h.2.1
  | un o e g bt b a => exact h.2.1
  | bin o l r x y b a => exact h.2.2.1
  | ite c t e cg aic aig btc btg atc tg bec beg aec eg b a => exact h.2.2.2.1
  | has e ats lg rg bq aq b a => exact h.2.1

theorem binding_inv {n : Text} {c1 c2 c3 : GC} {g1 g2 g3 : Text} {ve b : Expr} {before : List Trivia}
    (h1 : gcOk c1 g1 = true) (h2 : gcOk c2 g2 = true) (h3 : gcOk c3 g3 = true)
    (hb : bindingFromCst n c1 c2 g2 ve c3 before = .ok b) (hml : ve.mlSafe) (hnb : ve.notBinding = true) :
    b.mlSafe ∧ (gcNoLine c1 = true → gcNoLine c2 = true → gcNoLine c3 = true → ve.lineFreeE → lineFree before →
      b.lineFreeE) := by
  unfold bindingFromCst at hb
  -- name of the value after the three updates
  have m1 : (ve.setBefore (appendGapTriviaOff (gcTrivia (gcTrivia [] c1) c2) g2 ++ ve.before)).mlSafe ∧
      (ve.setBefore (appendGapTriviaOff (gcTrivia (gcTrivia [] c1) c2) g2 ++ ve.before)).notBinding = true :=
    ⟨mlSafe_setBefore hml _, by rw [notBinding_setBefore]; exact hnb⟩
  have l1 : gcNoLine c1 = true → gcNoLine c2 = true → ve.lineFreeE →
      (ve.setBefore (appendGapTriviaOff (gcTrivia (gcTrivia [] c1) c2) g2 ++ ve.before)).lineFreeE := by
    intro a1 a2 hv
    exact lineFreeE_setBefore hv (lineFree_append.mpr ⟨lineFree_appendGap
      (gcTrivia_lineFree c2 _ g2 h2 a2 (gcTrivia_lineFree c1 _ g1 h1 a1 lineFree_nil)) _ _, lineFreeE_before hv⟩)
  cases c3 with
  | nil =>
    simp only at hb
    split at hb
    · cases hb
    · injection hb with hb; subst hb
      refine ⟨⟨mlSafe_addAfter m1.1 _, by rw [notBinding_addAfter]; exact m1.2⟩, fun a1 a2 _ hv hbf => ?_⟩
      exact ⟨lineFreeE_addAfter (l1 a1 a2 hv) (by simpa [gcTrivia] using lineFree_nil), hbf, lineFree_nil⟩
    · cases hb
  | cons p rest =>
    obtain ⟨hp, hrest⟩ := gcOk_tail h3
    simp only at hb
    by_cases hnl : containsNL p.1 = true
    · simp only [hnl, Bool.not_true, Bool.false_eq_true, if_false] at hb
      split at hb
      · cases hb
      · injection hb with hb; subst hb
        refine ⟨⟨mlSafe_addAfter m1.1 _, by rw [notBinding_addAfter]; exact m1.2⟩, fun a1 a2 a3 hv hbf => ?_⟩
        exact ⟨lineFreeE_addAfter (l1 a1 a2 hv) (gcTrivia_lineFree (p :: rest) [] g3 h3 a3 lineFree_nil), hbf, lineFree_nil⟩
      · cases hb
    · have hnl' : containsNL p.1 = false := by simpa using hnl
      simp only [hnl', Bool.not_false, if_true] at hb
      split at hb
      · cases hb
      · injection hb with hb; subst hb
        refine ⟨⟨mlSafe_addAfter (mlSafe_addAfter m1.1 _) _, by rw [notBinding_addAfter, notBinding_addAfter]; exact m1.2⟩,
          fun a1 a2 a3 hv hbf => ?_⟩
        simp only [gcNoLine, List.all_cons, Bool.and_eq_true, Bool.not_eq_true'] at a3
        exact ⟨lineFreeE_addAfter (lineFreeE_addAfter (l1 a1 a2 hv) (lineFree_comment (mkComment_block hp a3.1 true)))
          (gcTrivia_lineFree rest [] g3 hrest a3.2 lineFree_nil), hbf, lineFree_nil⟩
      · cases hb

theorem seqComment_inv (m : Mode) (st : SeqSt) (g t : Text) (ht : isCommentTok t = true) (hml : allMlSafe st.items) :
    allMlSafe (seqComment m st g t).items ∧
    (isLineCmt t = false → allLineFree st.items → lineFree st.before →
      allLineFree (seqComment m st g t).items ∧ lineFree (seqComment m st g t).before) := by
  unfold seqComment
  split
  · exact ⟨modifyLast_mlSafe _ hml, fun hl h1 h2 =>
      ⟨modifyLast_lineFree h1 (lineFree_comment (mkComment_block ht hl true)), lineFree_pushGap h2 g⟩⟩
  · exact ⟨hml, fun hl h1 h2 =>
      ⟨h1, lineFree_append.mpr ⟨lineFree_pushGap h2 g, lineFree_comment (mkComment_block ht hl false)⟩⟩⟩

theorem leafFromCst_shape {k : LeafKind} {t : Text} {e : Expr} (h : leafFromCst k t = .ok e) :
    ∃ k' t', e = .leaf k' t' [] [] := by
  cases k with
  | int =>
    simp only [leafFromCst] at h
    split at h
    · cases h
    · injection h with h; exact ⟨_, _, h.symm⟩
  | ident => simp only [leafFromCst] at h; injection h with h; exact ⟨_, _, h.symm⟩
  | float => simp only [leafFromCst] at h; injection h with h; exact ⟨_, _, h.symm⟩
  | str => simp only [leafFromCst] at h; injection h with h; exact ⟨_, _, h.symm⟩
  | path => simp only [leafFromCst] at h; injection h with h; exact ⟨_, _, h.symm⟩

/-! parentheses and calls: what the parser guarantees about trailing trivia -/

theorem modifyLast_all {P : Expr → Prop} (f : Expr → Expr) (hf : ∀ e, P e → P (f e)) :
    ∀ (items : List Expr), (∀ e ∈ items, P e) → ∀ e ∈ modifyLast f items, P e
  | [], _, e, he => by cases he
  | [x], h, e, he => by
    simp only [modifyLast, List.mem_singleton] at he; subst he; exact hf x (h x (List.mem_cons_self ..))
  | x :: y :: rest, h, e, he => by
    rw [modifyLast, List.mem_cons] at he
    rcases he with rfl | he
    · exact h _ (List.mem_cons_self ..)
    · exact modifyLast_all f hf (y :: rest) (fun e' he' => h e' (List.mem_cons_of_mem _ he')) e he

theorem seqComment_items_all {P : Expr → Prop} (m : Mode) (st : SeqSt) (g t : Text)
    (hadd : ∀ e, P e → P (e.addAfter [.comment (mkComment t true)])) (h : ∀ e ∈ st.items, P e) :
    ∀ e ∈ (seqComment m st g t).items, P e := by
  unfold seqComment; split
  · exact modifyLast_all _ hadd _ h
  · exact h

theorem finishSeq_none_all {P : Expr → Prop} (st : SeqSt) (hc : Bool) (h : ∀ e ∈ st.items, P e)
    (hadd : ∀ e, P e → P (e.addAfter st.before)) : ∀ e ∈ (finishSeq st none hc).1, P e := by
  unfold finishSeq
  by_cases hb : st.before.isEmpty = true
  · simp only [hb, if_true]; exact h
  · by_cases hi : st.items.isEmpty = true
    · simp only [hb, hi, if_true, Bool.false_eq_true, if_false]; intro e he; cases he
    · simp only [hb, hi, Bool.false_eq_true, if_false]; exact modifyLast_all _ hadd _ h

theorem lineFree_after_addAfter {e : Expr} {a : List Trivia} (h : lineFree e.after) (ha : lineFree a) :
    lineFree (e.addAfter a).after := by
  rw [after_addAfter]; exact lineFree_append.mpr ⟨h, ha⟩

/-- the comments after the value of a parenthesis, when none of them is a line comment -/
theorem paren_tail : ∀ (its : Items) (cg : Text) (st st' : SeqSt), its.wf .paren cg = true →
    its.parseSeq .paren st = .ok st' → its.countElems = 0 → its.noLineI = true →
    (∀ e ∈ st.items, lineFree e.after) → lineFree st.before →
    (∀ e ∈ st'.items, lineFree e.after) ∧ lineFree st'.before
  | .nil, _, st, st', _, hp, _, _, h1, h2 => by
    simp only [Items.parseSeq] at hp; injection hp with hp; subst hp; exact ⟨h1, h2⟩
  | .cmt g t rest, cg, st, st', hwf, hp, hc, hnl, h1, h2 => by
    simp only [Items.wf, Bool.and_eq_true] at hwf
    simp only [Items.parseSeq] at hp
    simp only [Items.noLineI, Bool.and_eq_true, Bool.not_eq_true'] at hnl
    have hblk := fun b => mkComment_block hwf.1.1.2 hnl.1 b
    refine paren_tail rest cg _ st' hwf.2 hp (by simpa [Items.countElems] using hc) hnl.2
      (seqComment_items_all _ _ _ _ (fun e he => lineFree_after_addAfter he (lineFree_comment (hblk true))) h1) ?_
    unfold seqComment; split
    · exact lineFree_pushGap h2 g
    · exact lineFree_append.mpr ⟨lineFree_pushGap h2 g, lineFree_comment (hblk false)⟩
  | .elem g c rest, _, _, _, _, _, hc, _, _, _ => by simp [Items.countElems] at hc
  | .bind .., _, _, _, hwf, _, _, _, _, _ => by simp [Items.wf] at hwf

/-- the value of a parenthesis whose closing token is on the row the last content ends on -/
theorem paren_after : ∀ (its : Items) (cg : Text) (st st' : SeqSt), its.wf .paren cg = true →
    its.parseSeq .paren st = .ok st' → its.countElems = 1 → st.items = [] →
    containsNL (its.postElem ++ cg) = false →
    (∀ e ∈ st'.items, lineFree e.after) ∧ lineFree st'.before
  | .nil, _, _, _, _, _, hc, _, _ => by simp [Items.countElems] at hc
  | .cmt g t rest, cg, st, st', hwf, hp, hc, hi, hn => by
    simp only [Items.wf, Bool.and_eq_true] at hwf
    simp only [Items.parseSeq] at hp
    refine paren_after rest cg _ st' hwf.2 hp (by simpa [Items.countElems] using hc) ?_ (by simpa [Items.postElem] using hn)
    unfold seqComment canInline
    simp [hi]
  | .elem g c rest, cg, st, st', hwf, hp, hc, hi, hn => by
    simp only [Items.wf, Bool.and_eq_true] at hwf
    simp only [Items.parseSeq] at hp
    obtain ⟨e, hpe, _, _, hea, _⟩ := cst_parse_spec false c hwf.1.2 (fun h => by cases h)
    rw [hpe] at hp
    simp only at hp
    have hnl : rest.noLineI = true :=
      items_noLine_of_noNL rest .paren cg hwf.2 (by decide) (by simpa [Items.postElem] using hn)
    refine paren_tail rest cg _ st' hwf.2 hp (by simpa [Items.countElems] using hc) hnl ?_ lineFree_nil
    intro e' he'
    rw [hi] at he'
    simp only [List.nil_append, List.mem_singleton] at he'
    subst he'
    rw [after_setBefore, hea]; exact lineFree_nil
  | .bind .., _, _, _, hwf, _, _, _, _ => by simp [Items.wf] at hwf

theorem fromGap_onNewline_eq (g : Text) : (Layout.fromGap g).onNewline = containsNL g := by
  unfold Layout.fromGap; split <;> simp_all

theorem lineFree_trimLeading {ts : List Trivia} (h : lineFree ts) : lineFree (trimLeadingLayoutTrivia ts) := by
  intro c hc
  exact h c ((List.dropWhile_sublist _).subset hc)

theorem gcTrivia_lineFree' : ∀ (cs : GC) (acc : List Trivia),
    (∀ p ∈ cs, isCommentTok p.2 = true ∧ isLineCmt p.2 = false) → lineFree acc → lineFree (gcTrivia acc cs)
  | [], acc, _, ha => ha
  | p :: rest, acc, h, ha => by
    have hp := h p (List.mem_cons_self ..)
    rw [gcTrivia]
    exact gcTrivia_lineFree' rest _ (fun q hq => h q (List.mem_cons_of_mem _ hq))
      (lineFree_append.mpr ⟨lineFree_appendGap ha _ _, lineFree_comment (mkComment_block hp.1 hp.2 false)⟩)

/-- a line comment ends the row: nothing after it is on the function's row -/
theorem appSplit_line_last {p : Text × Text} {cs : GC} {next : Text} (h : gcOk (p :: cs) next = true)
    (hl : isLineCmt p.2 = true) (f sr : Bool) (pend : Text) : (appSplit cs f sr pend).inl = [] := by
  cases cs with
  | nil => rfl
  | cons q cs' =>
    simp only [gcOk, Bool.and_eq_true] at h
    have hc := h.1.2
    unfold closedBy at hc
    simp only [hl, Bool.not_true, Bool.false_or, Bool.false_and, Bool.or_false] at hc
    have hnl := containsNL_of_startsWithNL hc
    simp only [appSplit, hnl, Bool.not_true, Bool.and_false, Bool.false_and, Bool.false_eq_true, if_false]
    exact appSplit_inl_nil cs' false []

theorem appSplit_fnOk : ∀ (cs : GC) (first sr : Bool) (pend next : Text), gcOk cs next = true →
    fnOk ((appSplit cs first sr pend).inl.map fun t => mkComment t true)
  | [], _, _, _, _, _ => trivial
  | p :: cs, first, sr, pend, next, h => by
    obtain ⟨hp, hrest⟩ := gcOk_tail h
    simp only [appSplit]
    split
    · have ih := appSplit_fnOk cs false (sr && !containsNL p.1) (pend ++ p.1 ++ p.2) next hrest
      simp only [List.map_cons]
      cases hr : (appSplit cs false (sr && !containsNL p.1) (pend ++ p.1 ++ p.2)).inl with
      | nil => exact rfl
      | cons d r =>
        rw [hr] at ih
        refine ⟨rfl, ?_, ih⟩
        by_cases hl : isLineCmt p.2 = true
        · have := appSplit_line_last h hl false (sr && !containsNL p.1) (pend ++ p.1 ++ p.2)
          rw [hr] at this; cases this
        · exact mkComment_block hp (by simpa using hl) true
    · exact appSplit_fnOk cs false (sr && !containsNL p.1) [] next hrest

theorem gcNoLine_all : ∀ (cs : GC), gcNoLine cs = true → ∀ p ∈ cs, isLineCmt p.2 = false := by
  intro cs h p hp
  have := (List.all_eq_true.mp h) p hp
  simpa using this

/-- `FunctionCall.from_cst`: the invariants of the renderer -/
theorem app_inv {fe ae : Expr} {cs : GC} {g : Text} (hcs : gcOk cs g = true)
    (hfm : fe.mlSafe) (hfnb : fe.notBinding = true) (hfa : fe.after = [])
    (ham : ae.mlSafe) (hanb : ae.notBinding = true) (haa : ae.after = []) :
    (appFromCst fe ae cs g).mlSafe ∧
    (fe.lineFreeE → gcNoLine cs = true → ae.lineFreeE → (appFromCst fe ae cs g).lineFreeE) := by
  have hall := gcOk_all cs g hcs
  unfold appFromCst
  refine ⟨⟨hfm, mlSafe_setBefore ham _, hfnb, by rw [notBinding_setBefore]; exact hanb, hfa,
    by rw [after_setBefore]; exact haa, appSplit_fnOk cs true true [] g hcs, fun hon => ?_⟩, fun hf hg ha => ?_⟩
  · rw [fromGap_onNewline_eq] at hon
    have hg := gcNoLine_all cs (gcNoLine_of_noNL cs g hcs hon)
    have hmem := appSplit_mem (fun t => isCommentTok t = true ∧ isLineCmt t = false) cs true true []
      (fun p hp => ⟨hall p hp, hg p hp⟩)
    intro c hc
    obtain ⟨t, ht, rfl⟩ := List.mem_map.mp hc
    exact mkComment_block (hmem.1 t ht).1 (hmem.1 t ht).2 true
  · have hgl := gcNoLine_all cs hg
    have hmem := appSplit_mem (fun t => isCommentTok t = true ∧ isLineCmt t = false) cs true true []
      (fun p hp => ⟨hall p hp, hgl p hp⟩)
    have hba : lineFree (appBeforeArg (appSplit cs true true []) g) := by
      unfold appBeforeArg
      split
      · exact lineFree_nil
      · refine lineFree_append.mpr ⟨gcTrivia_lineFree' _ _ hmem.2 lineFree_nil, ?_⟩
        split
        · exact lineFree_single_layout rfl
        · exact lineFree_nil
    have hbf : lineFree (appBeforeArg (appSplit cs true true []) g ++ ae.before) :=
      lineFree_append.mpr ⟨hba, lineFreeE_before ha⟩
    refine ⟨hf, lineFreeE_setBefore ha ?_, ?_, lineFree_nil, lineFree_nil⟩
    · split
      · exact lineFree_trimLeading hbf
      · exact hbf
    · intro c hc
      obtain ⟨t, ht, rfl⟩ := List.mem_map.mp hc
      exact mkComment_block (hmem.1 t ht).1 (hmem.1 t ht).2 true

theorem seqComment_notBinding (m : Mode) (st : SeqSt) (g t : Text) (h : ∀ e ∈ st.items, e.notBinding = true) :
    ∀ e ∈ (seqComment m st g t).items, e.notBinding = true :=
  seqComment_items_all m st g t (fun e he => by rw [notBinding_addAfter]; exact he) h

mutual
theorem cst_parse_inv : (c : Cst) → c.wf = true → ∀ (e : Expr), c.parse = .ok e →
    e.mlSafe ∧ e.notBinding = true ∧ (c.noLineC = true → e.lineFreeE)
  | .leaf k t, _, e, hp => by
    simp only [Cst.parse] at hp
    obtain ⟨k', t', rfl⟩ := leafFromCst_shape hp
    exact ⟨trivial, rfl, fun _ => ⟨lineFree_nil, lineFree_nil⟩⟩
  | .list its cg, hwf, e, hp => by
    simp only [Cst.wf, Bool.and_eq_true] at hwf
    simp only [Cst.parse] at hp
    cases hps : its.parseSeq .list { before := openBefore its } with
    | error err => rw [hps] at hp; cases hp
    | ok st' =>
      rw [hps] at hp
      injection hp with hp; subst hp
      have hinv := items_parse_inv its .list cg { before := openBefore its } st' hwf.1 hps trivial
      have hf := finishSeq_inv st' (some cg) (!its.isNil) hinv.1
      refine ⟨⟨hf.1, fun hml => ?_⟩, rfl, fun hnl => ?_⟩
      · have hnl : its.noLineI = true :=
          cst_noLine_of_noNL (.list its cg) (by simp [Cst.wf, hwf.1, hwf.2]) (by simpa [Cst.flatten] using hml)
        have := hinv.2.1 hnl trivial (openBefore_lineFree its)
        exact (hf.2 this.1 this.2).1
      · have := hinv.2.1 hnl trivial (openBefore_lineFree its)
        have h2 := hf.2 this.1 this.2
        exact ⟨h2.1, emptyInner_lineFree h2.2 _, lineFree_nil, lineFree_nil⟩
  | .set isRec rg its cg, hwf, e, hp => by
    have hwf0 := hwf
    simp only [Cst.wf, Bool.and_eq_true] at hwf
    simp only [Cst.parse] at hp
    cases hps : its.parseSeq .set { before := openBefore its } with
    | error err => rw [hps] at hp; cases hp
    | ok st' =>
      rw [hps] at hp
      injection hp with hp; subst hp
      have hinv := items_parse_inv its .set cg { before := openBefore its } st' hwf.1.2 hps trivial
      have hf := finishSeq_inv st' (some cg) (!its.isNil) hinv.1
      refine ⟨⟨hf.1, fun hml => ?_⟩, rfl, fun hnl => ?_⟩
      · have hnl : its.noLineI = true := cst_noLine_of_noNL (.set isRec rg its cg) hwf0 (by simpa using hml)
        have := hinv.2.1 hnl trivial (openBefore_lineFree its)
        exact (hf.2 this.1 this.2).1
      · have := hinv.2.1 hnl trivial (openBefore_lineFree its)
        have h2 := hf.2 this.1 this.2
        exact ⟨h2.1, emptyInner_lineFree h2.2 _, lineFree_nil, lineFree_nil⟩
  | .paren its cg, hwf, e, hp => by
    simp only [Cst.wf, Bool.and_eq_true, beq_iff_eq] at hwf
    simp only [Cst.parse] at hp
    cases hps : its.parseSeq .paren {} with
    | error err => rw [hps] at hp; cases hp
    | ok st' =>
      rw [hps] at hp
      simp only at hp
      have hinv := items_parse_inv its .paren cg {} st' hwf.1.1 hps trivial
      have hf := finishSeq_inv st' none (!its.isNil) hinv.1
      have hnb := finishSeq_none_all (P := fun e => e.notBinding = true) st' (!its.isNil)
        (hinv.2.2 (by decide) (fun e he => by cases he)) (fun e he => by rw [notBinding_addAfter]; exact he)
      cases hr : (finishSeq st' none (!its.isNil)).1 with
      | nil => rw [hr] at hp; cases hp
      | cons v tl =>
        cases tl with
        | cons w tl' => rw [hr] at hp; cases hp
        | nil =>
          rw [hr] at hp hf hnb
          injection hp with hp; subst hp
          refine ⟨⟨hf.1.1, hnb v (List.mem_cons_self ..), fun hon => ?_⟩, rfl, fun hnl => ?_⟩
          · rw [fromGap_onNewline_eq] at hon
            have hq := paren_after its cg {} st' hwf.1.1 hps hwf.1.2 rfl hon
            have := finishSeq_none_all (P := fun e => lineFree e.after) st' (!its.isNil) hq.1
              (fun e he => lineFree_after_addAfter he hq.2)
            rw [hr] at this
            exact this v (List.mem_cons_self ..)
          · have h1 := hinv.2.1 hnl trivial lineFree_nil
            have h2 := hf.2 h1.1 h1.2
            exact ⟨h2.1.1, lineFree_nil, lineFree_nil⟩
  | .app f cs g a, hwf, e, hp => by
    simp only [Cst.wf, Bool.and_eq_true] at hwf
    obtain ⟨⟨⟨hfw, hcs⟩, _⟩, haw⟩ := hwf
    obtain ⟨fe, hpf, _, _, hfa, _⟩ := cst_parse_spec false f hfw (fun h => by cases h)
    obtain ⟨ae, hpa, _, _, haa, _⟩ := cst_parse_spec false a haw (fun h => by cases h)
    simp only [Cst.parse, hpf, hpa] at hp
    injection hp with hp; subst hp
    have hif := cst_parse_inv f hfw fe hpf
    have hia := cst_parse_inv a haw ae hpa
    have hai := app_inv hcs hif.1 hif.2.1 hfa hia.1 hia.2.1 haa
    refine ⟨hai.1, rfl, fun hnl => ?_⟩
    simp only [Cst.noLineC, Bool.and_eq_true] at hnl
    exact hai.2 (hif.2.2 hnl.1.1) hnl.1.2 (hia.2.2 hnl.2)
  | .kw w c1 g1 h c2 g2 c3 g3 b, hwf, e, hp => by
    simp only [Cst.wf, Bool.and_eq_true, List.isEmpty_iff] at hwf
    obtain ⟨⟨⟨⟨⟨⟨⟨hc1, _⟩, hhw⟩, hc2⟩, _⟩, hc3⟩, _⟩, hbw⟩ := hwf
    subst hc1; subst hc2; subst hc3
    obtain ⟨he, hph, _, _, hha, _⟩ := cst_parse_spec false h hhw (fun h => by cases h)
    obtain ⟨be, hpb, _, hbb, hba, _⟩ := cst_parse_spec false b hbw (fun h => by cases h)
    have hih := cst_parse_inv h hhw he hph
    have hib := cst_parse_inv b hbw be hpb
    simp only [Cst.parse, hph, hpb] at hp
    injection hp with hp; subst hp
    -- the body with layout markers in front of it
    have hbody : ∀ (ts : List Trivia), lineFree ts →
        (if ts.isEmpty then be else be.setBefore (ts ++ be.before)).mlSafe ∧
        (if ts.isEmpty then be else be.setBefore (ts ++ be.before)).notBinding = true ∧
        (if ts.isEmpty then be else be.setBefore (ts ++ be.before)).after = [] ∧
        (b.noLineC = true → (if ts.isEmpty then be else be.setBefore (ts ++ be.before)).lineFreeE) := by
      intro ts hts
      split
      · exact ⟨hib.1, hib.2.1, hba, hib.2.2⟩
      · exact ⟨mlSafe_setBefore hib.1 _, by rw [notBinding_setBefore]; exact hib.2.1, by rw [after_setBefore]; exact hba,
          fun hnl => lineFreeE_setBefore (hib.2.2 hnl) (lineFree_append.mpr ⟨hts, lineFreeE_before (hib.2.2 hnl)⟩)⟩
    cases w with
    | true =>
      simp only [if_true]
      unfold withFromCst
      simp only [collectTrivia, collectGo, semiSeq, List.isEmpty_nil, Bool.not_true, Bool.false_and, Bool.false_eq_true,
        if_false, if_true]
      have key : ∀ (ts : List Trivia), lineFree ts →
          (Expr.wth he (if ts.isEmpty then be else be.setBefore (ts ++ be.before)) [] g1 [] [] []).mlSafe ∧
          (Expr.wth he (if ts.isEmpty then be else be.setBefore (ts ++ be.before)) [] g1 [] [] []).notBinding = true ∧
          ((Cst.kw true [] g1 h [] g2 [] g3 b).noLineC = true →
            (Expr.wth he (if ts.isEmpty then be else be.setBefore (ts ++ be.before)) [] g1 [] [] []).lineFreeE) := by
        intro ts hts
        have hb' := hbody ts hts
        refine ⟨⟨hih.1, hb'.1, hih.2.1, hb'.2.1, hha, hb'.2.2.1⟩, rfl, fun hnl => ?_⟩
        simp only [Cst.noLineC, Bool.and_eq_true] at hnl
        exact ⟨hih.2.2 hnl.1.1.1.2, hb'.2.2.2 hnl.2, lineFree_nil, lineFree_nil⟩
      rcases appendGapTrivia_cases (g2 ++ ';' :: g3) with e | e | e <;> rw [e]
      · simpa [splitInline] using key [] lineFree_nil
      · simpa [splitInline] using key [.emptyLine] (lineFree_single_layout rfl)
      · simpa [splitInline] using key [.linebreak] (lineFree_single_layout rfl)
    | false =>
      simp only [Bool.false_eq_true, if_false]
      unfold asrtFromCst
      simp only [collectTrivia, collectGo, List.isEmpty_nil, Bool.not_true, Bool.false_and, Bool.false_eq_true,
        if_false, if_true, Bool.true_and]
      have key : ∀ (ts aac : List Trivia), lineFree ts →
          (Expr.asrt he (if ts.isEmpty then be else be.setBefore (ts ++ be.before)) aac [] [] []).mlSafe ∧
          (Expr.asrt he (if ts.isEmpty then be else be.setBefore (ts ++ be.before)) aac [] [] []).notBinding = true ∧
          ((Cst.kw false [] g1 h [] g2 [] g3 b).noLineC = true →
            (Expr.asrt he (if ts.isEmpty then be else be.setBefore (ts ++ be.before)) aac [] [] []).lineFreeE) := by
        intro ts aac hts
        have hb' := hbody ts hts
        refine ⟨⟨hih.1, hb'.1, hih.2.1, hb'.2.1, hha, hb'.2.2.1⟩, rfl, fun hnl => ?_⟩
        simp only [Cst.noLineC, Bool.and_eq_true] at hnl
        exact ⟨hih.2.2 hnl.1.1.1.2, hb'.2.2.2 hnl.2, lineFree_nil, lineFree_nil⟩
      cases gapHasEmptyLine g3
      · simpa [splitInline] using key [] (appendGapTrivia [] g1) lineFree_nil
      · simpa [splitInline] using key [.emptyLine] (appendGapTrivia [] g1) (lineFree_single_layout rfl)
  | .sel e c1 g1 gd attrs, hwf, ex, hp => by
    simp only [Cst.wf, Bool.and_eq_true, List.isEmpty_iff] at hwf
    obtain ⟨⟨⟨⟨⟨hew, hc1⟩, _⟩, _⟩, _⟩, _⟩ := hwf
    subst hc1
    obtain ⟨ee, hpe, _, _, hea, _⟩ := cst_parse_spec false e hew (fun h => by cases h)
    have hie := cst_parse_inv e hew ee hpe
    simp only [Cst.parse, hpe] at hp
    injection hp with hp; subst hp
    refine ⟨⟨hie.1, hie.2.1, hea⟩, rfl, fun hnl => ?_⟩
    simp only [Cst.noLineC, Bool.and_eq_true] at hnl
    exact ⟨hie.2.2 hnl.1, lineFree_nil, lineFree_nil⟩
  | .selOr e c1 g1 gd attrs c2 g2 g3 d, hwf, ex, hp => by
    simp only [Cst.wf, Bool.and_eq_true, List.isEmpty_iff] at hwf
    obtain ⟨⟨⟨⟨⟨⟨⟨⟨⟨hew, hc1⟩, _⟩, _⟩, _⟩, _⟩, hc2⟩, _⟩, _⟩, hdw⟩ := hwf
    subst hc1; subst hc2
    obtain ⟨ee, hpe, _, _, hea, _⟩ := cst_parse_spec false e hew (fun h => by cases h)
    obtain ⟨de, hpd, _, _, hda, _⟩ := cst_parse_spec false d hdw (fun h => by cases h)
    have hie := cst_parse_inv e hew ee hpe
    have hid := cst_parse_inv d hdw de hpd
    simp only [Cst.parse, hpe, hpd] at hp
    injection hp with hp; subst hp
    refine ⟨⟨hie.1, hid.1, hie.2.1, hid.2.1, hea, hda⟩, rfl, fun hnl => ?_⟩
    simp only [Cst.noLineC, Bool.and_eq_true] at hnl
    exact ⟨hie.2.2 hnl.1.1.1, hid.2.2 hnl.2, lineFree_nil, lineFree_nil⟩
  | .lam n c1 g1 c2 g2 b, hwf, ex, hp => by
    simp only [Cst.wf, Bool.and_eq_true, List.isEmpty_iff] at hwf
    obtain ⟨⟨⟨⟨⟨_, hc1⟩, _⟩, hc2⟩, _⟩, hbw⟩ := hwf
    subst hc1; subst hc2
    obtain ⟨be, hpb, _, hbb, hba, _⟩ := cst_parse_spec false b hbw (fun h => by cases h)
    have hib := cst_parse_inv b hbw be hpb
    simp only [Cst.parse, hpb] at hp
    injection hp with hp; subst hp
    have hlf : ∀ (k : Nat), lineFree (List.replicate k Trivia.emptyLine) := by
      intro k c hc
      simp [List.mem_replicate] at hc
    have hbody : ∀ (ts : List Trivia), lineFree ts →
        (if ts.isEmpty then be else be.setBefore (ts ++ be.before)).mlSafe ∧
        (if ts.isEmpty then be else be.setBefore (ts ++ be.before)).notBinding = true ∧
        (if ts.isEmpty then be else be.setBefore (ts ++ be.before)).after = [] ∧
        (b.noLineC = true → (if ts.isEmpty then be else be.setBefore (ts ++ be.before)).lineFreeE) := by
      intro ts hts
      split
      · exact ⟨hib.1, hib.2.1, hba, hib.2.2⟩
      · exact ⟨mlSafe_setBefore hib.1 _, by rw [notBinding_setBefore]; exact hib.2.1, by rw [after_setBefore]; exact hba,
          fun hnl => lineFreeE_setBefore (hib.2.2 hnl) (lineFree_append.mpr ⟨hts, lineFreeE_before (hib.2.2 hnl)⟩)⟩
    have hb' := hbody _ (hlf (g2.count '\n' - 1))
    unfold lamFromCst
    refine ⟨⟨hb'.1, hb'.2.1, hb'.2.2.1⟩, rfl, fun hnl => ?_⟩
    simp only [Cst.noLineC, Bool.and_eq_true] at hnl
    exact ⟨hb'.2.2.2 hnl.2, lineFree_nil, lineFree_nil⟩
  | .un op c g e, hwf, ex, hp => by
    simp only [Cst.wf, Bool.and_eq_true, List.isEmpty_iff] at hwf
    obtain ⟨⟨⟨_, hc⟩, _⟩, hew⟩ := hwf
    subst hc
    obtain ⟨ee, hpe, _, _, hea, _⟩ := cst_parse_spec false e hew (fun h => by cases h)
    have hie := cst_parse_inv e hew ee hpe
    simp only [Cst.parse, hpe] at hp
    injection hp with hp; subst hp
    refine ⟨⟨hie.1, hie.2.1, hea⟩, rfl, fun hnl => ?_⟩
    simp only [Cst.noLineC, Bool.and_eq_true] at hnl
    exact ⟨hie.2.2 hnl.2, lineFree_nil, lineFree_nil⟩
  | .bin l c1 g1 op c2 g2 r, hwf, ex, hp => by
    simp only [Cst.wf, Bool.and_eq_true, List.isEmpty_iff] at hwf
    obtain ⟨⟨⟨⟨⟨⟨⟨hlw, hc1⟩, _⟩, _⟩, _⟩, hc2⟩, _⟩, hrw⟩ := hwf
    subst hc1; subst hc2
    obtain ⟨le, hpl, _, _, hla, _⟩ := cst_parse_spec false l hlw (fun h => by cases h)
    obtain ⟨re, hpr, _, _, hra, _⟩ := cst_parse_spec false r hrw (fun h => by cases h)
    have hil := cst_parse_inv l hlw le hpl
    have hir := cst_parse_inv r hrw re hpr
    simp only [Cst.parse, hpl, hpr] at hp
    injection hp with hp; subst hp
    refine ⟨⟨hil.1, hir.1, hil.2.1, hir.2.1, hla, hra⟩, rfl, fun hnl => ?_⟩
    simp only [Cst.noLineC, Bool.and_eq_true] at hnl
    exact ⟨hil.2.2 hnl.1.1.1, hir.2.2 hnl.2, lineFree_nil, lineFree_nil⟩
  | .ite c1 g1 c c2 g2 c3 g3 t c4 g4 c5 g5 e, hwf, ex, hp => by
    obtain ⟨⟨h1, h2, h3, h4, h5⟩, ⟨hcw, htw, hew⟩, _⟩ := ite_wf hwf
    subst h1; subst h2; subst h3; subst h4; subst h5
    obtain ⟨ce, hpc, _, _, hca, _⟩ := cst_parse_spec false c hcw (fun h => by cases h)
    obtain ⟨te, hpt, _, _, hta, _⟩ := cst_parse_spec false t htw (fun h => by cases h)
    obtain ⟨ee, hpe, _, _, hea, _⟩ := cst_parse_spec false e hew (fun h => by cases h)
    have hic := cst_parse_inv c hcw ce hpc
    have hit := cst_parse_inv t htw te hpt
    have hie := cst_parse_inv e hew ee hpe
    simp only [Cst.parse, hpc, hpt, hpe, iteFromCst_nil] at hp
    injection hp with hp; subst hp
    refine ⟨⟨hic.1, hit.1, hie.1, hic.2.1, hit.2.1, hie.2.1, hca, hta, hea⟩, rfl, fun hnl => ?_⟩
    simp only [Cst.noLineC, gcNoLine, List.all_nil, Bool.and_true, Bool.true_and, Bool.and_eq_true] at hnl
    exact ⟨hic.2.2 hnl.1.1, hit.2.2 hnl.1.2, hie.2.2 hnl.2, lineFree_nil, lineFree_nil⟩
  | .has e c1 g1 c2 g2 attrs, hwf, ex, hp => by
    obtain ⟨⟨h1, h2⟩, hew, _, _, _⟩ := has_wf hwf
    subst h1; subst h2
    obtain ⟨ee, hpe, _, _, hea, _⟩ := cst_parse_spec false e hew (fun h => by cases h)
    have hie := cst_parse_inv e hew ee hpe
    simp only [Cst.parse, hpe] at hp
    injection hp with hp; subst hp
    refine ⟨⟨hie.1, hie.2.1, hea⟩, rfl, fun hnl => ?_⟩
    simp only [Cst.noLineC, gcNoLine, List.all_nil, Bool.and_true] at hnl
    exact ⟨hie.2.2 hnl, lineFree_nil, lineFree_nil⟩
theorem items_parse_inv : (its : Items) → ∀ (m : Mode) (cg : Text) (st st' : SeqSt), its.wf m cg = true →
    its.parseSeq m st = .ok st' → allMlSafe st.items →
    allMlSafe st'.items ∧ (its.noLineI = true → allLineFree st.items → lineFree st.before →
      allLineFree st'.items ∧ lineFree st'.before) ∧
    (m ≠ .set → (∀ e ∈ st.items, e.notBinding = true) → ∀ e ∈ st'.items, e.notBinding = true)
  | .nil, m, cg, st, st', _, hp, hml => by
    simp only [Items.parseSeq] at hp; injection hp with hp; subst hp
    exact ⟨hml, fun _ h1 h2 => ⟨h1, h2⟩, fun _ h => h⟩
  | .cmt g t rest, m, cg, st, st', hwf, hp, hml => by
    simp only [Items.wf, Bool.and_eq_true] at hwf
    simp only [Items.parseSeq] at hp
    have hc := seqComment_inv m st g t hwf.1.1.2 hml
    have ih := items_parse_inv rest m cg _ st' hwf.2 hp hc.1
    refine ⟨ih.1, fun hnl h1 h2 => ?_, fun hm hnb => ih.2.2 hm (seqComment_notBinding m st g t hnb)⟩
    simp only [Items.noLineI, Bool.and_eq_true, Bool.not_eq_true'] at hnl
    have := hc.2 hnl.1 h1 h2
    exact ih.2.1 hnl.2 this.1 this.2
  | .elem g c rest, m, cg, st, st', hwf, hp, hml => by
    simp only [Items.wf, Bool.and_eq_true] at hwf
    simp only [Items.parseSeq] at hp
    cases hpe : c.parse with
    | error err => rw [hpe] at hp; cases hp
    | ok e =>
      rw [hpe] at hp
      have hce := cst_parse_inv c hwf.1.2 e hpe
      cases m with
      | set => cases hp
      | file =>
        simp only at hp
        have ih := items_parse_inv rest .file cg _ st' hwf.2 hp
          (allMlSafe_append hml ⟨mlSafe_setBefore hce.1 _, trivial⟩)
        refine ⟨ih.1, fun hnl h1 h2 => ?_, fun hm hnb => ih.2.2 hm (fun e' he' => ?_)⟩
        · simp only [Items.noLineI, Bool.and_eq_true] at hnl
          have he := hce.2.2 hnl.1
          exact ih.2.1 hnl.2 (allLineFree_append h1 ⟨lineFreeE_setBefore he
            (lineFree_append.mpr ⟨lineFree_pushGap h2 g, lineFreeE_before he⟩), trivial⟩) lineFree_nil
        · rcases List.mem_append.mp he' with h | h
          · exact hnb e' h
          · simp only [List.mem_singleton] at h; subst h; rw [notBinding_setBefore]; exact hce.2.1
      | paren =>
        simp only at hp
        have ih := items_parse_inv rest .paren cg _ st' hwf.2 hp
          (allMlSafe_append hml ⟨mlSafe_setBefore hce.1 _, trivial⟩)
        refine ⟨ih.1, fun hnl h1 h2 => ?_, fun hm hnb => ih.2.2 hm (fun e' he' => ?_)⟩
        · simp only [Items.noLineI, Bool.and_eq_true] at hnl
          have he := hce.2.2 hnl.1
          exact ih.2.1 hnl.2 (allLineFree_append h1 ⟨lineFreeE_setBefore he
            (lineFree_append.mpr ⟨lineFree_pushGap h2 g, lineFreeE_before he⟩), trivial⟩) lineFree_nil
        · rcases List.mem_append.mp he' with h | h
          · exact hnb e' h
          · simp only [List.mem_singleton] at h; subst h; rw [notBinding_setBefore]; exact hce.2.1
      | list =>
        simp only at hp
        have ih := items_parse_inv rest .list cg _ st' hwf.2 hp
          (allMlSafe_append hml ⟨mlSafe_setBefore hce.1 _, trivial⟩)
        refine ⟨ih.1, fun hnl h1 h2 => ?_, fun hm hnb => ih.2.2 hm (fun e' he' => ?_)⟩
        · simp only [Items.noLineI, Bool.and_eq_true] at hnl
          have he := hce.2.2 hnl.1
          exact ih.2.1 hnl.2 (allLineFree_append h1 ⟨lineFreeE_setBefore he (lineFree_pushGap h2 g), trivial⟩) lineFree_nil
        · rcases List.mem_append.mp he' with h | h
          · exact hnb e' h
          · simp only [List.mem_singleton] at h; subst h; rw [notBinding_setBefore]; exact hce.2.1
  | .bind g n c1 g1 c2 g2 v c3 g3 rest, m, cg, st, st', hwf, hp, hml => by
    simp only [Items.wf, Bool.and_eq_true, beq_iff_eq] at hwf
    obtain ⟨⟨⟨⟨⟨⟨⟨⟨⟨⟨hm, _⟩, _⟩, h1⟩, _⟩, h2⟩, _⟩, hv⟩, h3⟩, _⟩, hrest⟩ := hwf
    subst hm
    simp only [Items.parseSeq] at hp
    cases hpv : v.parse with
    | error err => rw [hpv] at hp; cases hp
    | ok ve =>
      rw [hpv] at hp
      simp only at hp
      have hcv := cst_parse_inv v hv ve hpv
      cases hb : bindingFromCst n c1 c2 g2 ve c3 (pushGap st g) with
      | error err => rw [hb] at hp; cases hp
      | ok b =>
        rw [hb] at hp
        simp only at hp
        have hbi := binding_inv (g1 := g1) (g2 := g2) (g3 := g3) h1 h2 h3 hb hcv.1 hcv.2.1
        have ih := items_parse_inv rest .set cg _ st' hrest hp (allMlSafe_append hml ⟨hbi.1, trivial⟩)
        refine ⟨ih.1, fun hnl a1 a2 => ?_, fun hm _ => absurd rfl hm⟩
        simp only [Items.noLineI, Bool.and_eq_true] at hnl
        obtain ⟨⟨⟨⟨n1, n2⟩, nv⟩, n3⟩, nr⟩ := hnl
        exact ih.2.1 nr (allLineFree_append a1 ⟨hbi.2 n1 n2 n3 (hcv.2.2 nv) (lineFree_pushGap a2 g), trivial⟩) lineFree_nil
end

/-- A COMMENT NEVER ABSORBS CODE, scan form: the pieces of the rebuilt file pass the safety scan. -/
theorem file_safe (f : File) (s : Src) (hwf : f.wf = true) (hp : f.parse = .ok s) :
    safeGo false s.rebuildP = true := by
  obtain ⟨s', hp', hok, _⟩ := file_parse_spec false f hwf (fun h => by cases h)
  rw [hp] at hp'; injection hp' with hs; subst hs
  have hwf' := hwf
  simp only [File.wf, Bool.and_eq_true, decide_eq_true_eq] at hwf'
  simp only [File.parse] at hp
  cases hps : f.items.parseSeq .file {} with
  | error err => rw [hps] at hp; cases hp
  | ok st' =>
    rw [hps] at hp
    injection hp with hp
    have hcount := items_parse_count f.items .file {} st' hps (Or.inl rfl)
    have hinv := items_parse_inv f.items .file f.endGap {} st' hwf'.1.1 hps trivial
    have hf := finishSeq_inv st' none (!f.items.isNil) hinv.1
    have hlen := finishSeq_length st' none (!f.items.isNil)
    have hex : s.exprs = (finishSeq st' none (!f.items.isNil)).1 := by rw [← hp]
    have h1 : s.exprs.length = 1 := by
      rw [hex, hlen, hcount, hwf'.1.2]; rfl
    match hse : s.exprs, h1 with
    | [e], _ =>
      have hml : e.mlSafe := by
        have := hf.1; rw [← hex, hse] at this; exact this.1
      exact srcRebuildP_safe s e hse hok hml

end Nima.Frag
