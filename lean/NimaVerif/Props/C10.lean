import NimaVerif.Lemmas.Registry
import NimaVerif.Lemmas.Scope
import NimaVerif.Gen.Registry
/-!
# C10 — identifier resolution follows Nix lexical scoping or fails explicitly

* `implResolve` (Model/Resolve.lean) is the transliteration of the code: `parse(text)[k1]…[kn].value`.
* `specResolve` (Model/ResolveSpec.lean) is the SPEC: Nix's lexical scoping, `agrees` the comparison.
* `Registry` (Model/Registry.lean) is the `_CONTEXTS` state machine, `absAnswers` its SPEC (contexts
  keyed by the objects themselves).
-/
namespace Nima.C10
open Nima Nima.Scope

/-! ## Translator ties -/

theorem tie_registry_validate : Gen.registryValidateGet = some Registry.currentCfg.validateGet := by decide
theorem tie_registry_guard : Gen.registryGuardCallback = some Registry.currentCfg.guardCallback := by decide
theorem tie_registry_shape :
    Gen.registryKeyIsId = some true ∧ Gen.registryWeakCallback = some true ∧
    Gen.registryPopsStale = some true ∧ Gen.registryClearPopsId = some true := by decide
theorem tie_chain_order : Gen.scopeChainOrder = some chainOrder := by decide
theorem tie_innermost_first : Gen.resolveInnermostFirst = some true := by decide

/-! ## Registry: the address-keyed, weak-reference-validated table behaves like a map keyed by the
objects themselves, for every history of allocations (with address reuse), deaths (with or without
the callback), stores, gets and clears. -/

theorem registry_inv_init : Registry.Inv Registry.init := Registry.inv_init

theorem registry_inv_step (s : Registry.Reg) (op : Registry.Op) (h : Registry.Inv s) :
    Registry.Inv (Registry.step Registry.currentCfg s op) := Registry.inv_step s op h

/-- every reachable state satisfies the invariant; in particular (`keyed`) every entry whose weak
    reference is alive is keyed by the id of the object it refers to -/
theorem registry_inv_reachable (ops : List Registry.Op) :
    Registry.Inv (Registry.run Registry.currentCfg Registry.init ops) :=
  Registry.inv_run _ ops Registry.inv_init

/-- `get o` returns the context last stored FOR `o` — never one stored for a dead object that had
    the same id -/
theorem registry_get_last_stored (ops : List Registry.Op) :
    Registry.answers Registry.currentCfg Registry.init ops = Registry.absAnswers {} ops :=
  Registry.answers_refine _ _ ops Registry.inv_init Registry.refines_init

/-- an object created at a reused address starts without a context, whatever happened before -/
theorem registry_new_object_clean (ops : List Registry.Op) (a : Nat) :
    Registry.answers Registry.currentCfg Registry.init (ops ++ [.alloc a, .get (Registry.absRun {} ops).next])
      = Registry.answers Registry.currentCfg Registry.init ops ++ [none] := by
  rw [registry_get_last_stored, registry_get_last_stored, Registry.absAnswers_append,
    Registry.abs_new_object_clean _ (Registry.absInv_run _ ops Registry.absInv_init)]

/-- without the validation in `_get_context` a lost callback lets a new object at a reused address
    see the context of the dead one: the validation is what the isolation rests on -/
theorem cex_registry_without_validation :
    Registry.answers ⟨false, true⟩ Registry.init
        [.alloc 7, .store 0 5, .freeQuiet 0, .alloc 7, .get 1] = [some 5] ∧
    Registry.absAnswers {} [.alloc 7, .store 0 5, .freeQuiet 0, .alloc 7, .get 1] = [none] := by
  decide


/-! ## Resolver: the full statement, and where the code violates it

`ResolveFull`: for every program and path, with enough fuel on both sides, the code's outcome agrees
with Nix's scoping (`agrees`: the same defining value, or `ResolutionError` where Nix has no value,
or no route on either side; running out of fuel — `RecursionError` — never agrees, so the statement
contains "in bounded time"). It is FALSE of the code; each `cex_*` theorem below proves the negation
on a witness that is replayed on the real code on every run (known_findings.json). -/

def ResolveFull : Prop :=
  ∀ prog path, ∃ N, ∀ k, agrees (implResolve (N + k) prog path) (specResolve (N + k) prog path) = true

def nm (s : String) : Text := s.toList
def key (s : String) : Step := .key s.toList

/-- a witness refutes the full statement as soon as the two sides are stable and disagree -/
theorem refutes (prog : Expr) (path : List Step) (c : Nat) (o : Outcome) (s : SpecOutcome)
    (hi : ∀ n, implResolve (n + c) prog path = o) (hs : ∀ n, specResolve (n + c) prog path = s)
    (hd : agrees o s = false) : ¬ ResolveFull := by
  intro h
  obtain ⟨N, hN⟩ := h prog path
  have := hN c
  rw [hi N, hs N, hd] at this
  cases this

/-- `let a = 1; in with { a = 2; }; { x = a; }` : the `with` environment shadows the enclosing `let` -/
def wWithLet : Expr :=
  .letE [.bind 10 (nm "a") (.lit 1)]
    (.withE 20 (.set 21 false [.bind 22 (nm "a") (.lit 2)])
      (.set 30 false [.bind 31 (nm "x") (.ref 32 (nm "a"))]))

theorem cex_with_let :
    (∀ n, implResolve (n + 6) wWithLet [key "x"] = .bound 2) ∧
    (∀ n, specResolve (n + 6) wWithLet [key "x"] = .bound 1) ∧ ¬ ResolveFull :=
  ⟨fun _ => rfl, fun _ => rfl, refutes wWithLet [key "x"] 6 _ _ (fun _ => rfl) (fun _ => rfl) (by decide)⟩

/-- `with { a = b; b = 6; }; { x = a; }` : the bindings of a plain `with` environment see each other -/
def wWithEnvRec : Expr :=
  .withE 20 (.set 21 false [.bind 22 (nm "a") (.ref 23 (nm "b")), .bind 24 (nm "b") (.lit 6)])
    (.set 30 false [.bind 31 (nm "x") (.ref 32 (nm "a"))])

theorem cex_with_env_recursive :
    (∀ n, implResolve (n + 6) wWithEnvRec [key "x"] = .bound 6) ∧
    (∀ n, specResolve (n + 6) wWithEnvRec [key "x"] = .error .unbound) ∧ ¬ ResolveFull :=
  ⟨fun _ => rfl, fun _ => rfl, refutes wWithEnvRec [key "x"] 6 _ _ (fun _ => rfl) (fun _ => rfl) (by decide)⟩

/-- `let a = 6; in { x = let a = 1; in a; }` : the let layers carried by the identifier itself are ignored -/
def wLetOnIdent : Expr :=
  .letE [.bind 10 (nm "a") (.lit 6)]
    (.set 20 false [.bind 21 (nm "x") (.letE [.bind 22 (nm "a") (.lit 1)] (.ref 23 (nm "a")))])

theorem cex_let_on_identifier :
    (∀ n, implResolve (n + 6) wLetOnIdent [key "x"] = .bound 6) ∧
    (∀ n, specResolve (n + 6) wLetOnIdent [key "x"] = .bound 1) ∧ ¬ ResolveFull :=
  ⟨fun _ => rfl, fun _ => rfl, refutes wLetOnIdent [key "x"] 6 _ _ (fun _ => rfl) (fun _ => rfl) (by decide)⟩

/-- `let c = 1; in rec { inherit c; }` asked for `c`: the rec set is in the chain twice -/
def wInhRecKey : Expr :=
  .letE [.bind 10 (nm "c") (.lit 1)] (.set 20 true [.inh 21 [nm "c"]])

theorem cex_inherit_in_rec_by_key :
    (∀ n, implResolve (n + 6) wInhRecKey [key "c"] = .fail (.res .cycleInherit)) ∧
    (∀ n, specResolve (n + 6) wInhRecKey [key "c"] = .bound 1) ∧ ¬ ResolveFull :=
  ⟨fun _ => rfl, fun _ => rfl, refutes wInhRecKey [key "c"] 6 _ _ (fun _ => rfl) (fun _ => rfl) (by decide)⟩

/-- `({ x, a ? 5 }: x) { x = a; }` : the parameter scope (with its defaults) leaks into the argument -/
def wFormalsLeak : Expr :=
  .app 1 (.paren 2 (.lamP 3 [.req (nm "x"), .opt (nm "a") (.lit 5)] (.ref 4 (nm "x"))))
    (.set 6 false [.bind 7 (nm "x") (.ref 8 (nm "a"))])

theorem cex_formals_leak :
    (∀ n, implResolve (n + 6) wFormalsLeak [key "x"] = .bound 5) ∧
    (∀ n, specResolve (n + 6) wFormalsLeak [key "x"] = .error .unbound) ∧ ¬ ResolveFull :=
  ⟨fun _ => rfl, fun _ => rfl, refutes wFormalsLeak [key "x"] 6 _ _ (fun _ => rfl) (fun _ => rfl) (by decide)⟩

/-- `let a = b; in let b = 8; in rec { k = { x = a; }; }` : the document-level rec set is asked for
    its scopes twice, the let layers are duplicated and an outer layer sees an inner one -/
def wDocRecDup : Expr :=
  .letE [.bind 10 (nm "a") (.ref 11 (nm "b"))]
    (.letE [.bind 12 (nm "b") (.lit 8)]
      (.set 20 true [.bind 21 (nm "k") (.set 30 false [.bind 31 (nm "x") (.ref 32 (nm "a"))])]))

theorem cex_document_rec_duplicates_lets :
    (∀ n, implResolve (n + 6) wDocRecDup [key "k", key "x"] = .bound 8) ∧
    (∀ n, specResolve (n + 6) wDocRecDup [key "k", key "x"] = .error .unbound) ∧ ¬ ResolveFull :=
  ⟨fun _ => rfl, fun _ => rfl,
    refutes wDocRecDup [key "k", key "x"] 6 _ _ (fun _ => rfl) (fun _ => rfl) (by decide)⟩

/-- `{ a ? 4 }: { x = a; }`, `let b = 1; in f { x = b; }`, `let c = 4; in ({ y = c; })` : the route of
    `_resolve_target_set` through a lambda, a call or parentheses drops the scopes it computed -/
def wLambdaRoute : Expr :=
  .lamP 1 [.opt (nm "a") (.lit 4)] (.set 5 false [.bind 6 (nm "x") (.ref 7 (nm "a"))])
def wCallRoute : Expr :=
  .letE [.bind 10 (nm "b") (.lit 1)]
    (.app 2 (.ref 3 (nm "f")) (.set 5 false [.bind 6 (nm "x") (.ref 7 (nm "b"))]))
def wParenRoute : Expr :=
  .letE [.bind 10 (nm "c") (.lit 4)] (.paren 2 (.set 5 false [.bind 6 (nm "y") (.ref 7 (nm "c"))]))

theorem cex_routes_drop_scopes :
    (∀ n, implResolve (n + 6) wLambdaRoute [key "x"] = .fail (.res .noContext)) ∧
    (∀ n, specResolve (n + 6) wLambdaRoute [key "x"] = .bound 4) ∧
    (∀ n, implResolve (n + 6) wCallRoute [key "x"] = .fail (.res .noContext)) ∧
    (∀ n, specResolve (n + 6) wCallRoute [key "x"] = .bound 1) ∧
    (∀ n, implResolve (n + 6) wParenRoute [key "y"] = .fail (.res .noContext)) ∧
    (∀ n, specResolve (n + 6) wParenRoute [key "y"] = .bound 4) ∧ ¬ ResolveFull :=
  ⟨fun _ => rfl, fun _ => rfl, fun _ => rfl, fun _ => rfl, fun _ => rfl, fun _ => rfl,
    refutes wLambdaRoute [key "x"] 6 _ _ (fun _ => rfl) (fun _ => rfl) (by decide)⟩

/-! ### Unbounded recursion: `{ inherit (a) a; }` asked for `a`

`_resolve_inherited_binding` resolves the source identifier through `from_expression.value`, a NESTED
resolution with fresh `visited` sets, which meets the same `inherit (a) a;` again: no measure
decreases. For EVERY fuel the model runs out of it (CPython: `RecursionError`), while Nix's answer is
plain: `a` is unbound. -/

def wLoopItems : List Item := [.inhFrom 2 [nm "a"] (.ref 3 (nm "a"))]
def wLoop : Expr := .set 1 false wLoopItems

theorem loop_core (f : Nat) (st : St) :
    (resolveId f st (nm "a") [wLoopItems] [] []).1 = .err .fuel := by
  induction f generalizing st with
  | zero => rfl
  | succ f ih =>
    have h := ih (st.set 3 [wLoopItems])
    have hstep : resolveId (f + 1) st (nm "a") [wLoopItems] [] [] =
        (match resolveId f (st.set 3 [wLoopItems]) (nm "a") [wLoopItems] [] [] with
         | (.err e, st1) => (RR.err e, st1)
         | (.ok source _, st1) =>
           match source.core with
           | .set sid _ items =>
             resolveId f (st1.set sid ([wLoopItems] ++ [items])) (nm "a") ([wLoopItems] ++ [items]) [] [2]
           | _ => (.err (.res .inheritSrc), st1)) := by
      show scan (resolveId f) (nm "a") [] [] st [wLoopItems] = _
      simp only [scan, wLoopItems, findBind, findQuoted, findInherit, nm, resolveInherited, valueOfWith,
        Expr.core]
      rfl
    rw [hstep]
    cases hr : resolveId f (st.set 3 [wLoopItems]) (nm "a") [wLoopItems] [] [] with
    | mk r st1 =>
      rw [hr] at h
      simp only at h
      subst h
      rfl

theorem cex_inherit_loop :
    (∀ f, implResolve (f + 1) wLoop [key "a"] = .fail .fuel) ∧
    (∀ n, specResolve (n + 4) wLoop [key "a"] = .error .unbound) ∧ ¬ ResolveFull := by
  have hi : ∀ f, implResolve (f + 1) wLoop [key "a"] = .fail .fuel := by
    intro f
    have h1 : runSteps (f + 1) wLoop {} .root [key "a"] =
        (.ok (.at (.ref (inhCopyId 2) (nm "a"))), ({} : St).set (inhCopyId 2) [wLoopItems]) := rfl
    have h2 : valueOfWith (resolveId (f + 1)) (({} : St).set (inhCopyId 2) [wLoopItems])
          (.ref (inhCopyId 2) (nm "a")) =
        resolveId (f + 1) (({} : St).set (inhCopyId 2) [wLoopItems]) (nm "a") [wLoopItems] [] [] := rfl
    unfold implResolve implTraverse
    rw [h1]
    simp only [h2]
    have h := loop_core (f + 1) (({} : St).set (inhCopyId 2) [wLoopItems])
    cases hr : resolveId (f + 1) (({} : St).set (inhCopyId 2) [wLoopItems]) (nm "a") [wLoopItems] [] [] with
    | mk r st1 =>
      rw [hr] at h
      simp only at h
      subst h
      rfl
  refine ⟨hi, fun _ => rfl, ?_⟩
  exact refutes wLoop [key "a"] 4 _ _ (fun n => hi (n + 3)) (fun _ => rfl) (by decide)

/-! ## What is proved: inside the fragment the full statement holds

`InFragment prog path` (Model/ScopeFragment.lean, decidable): the program is built from let layers
(any number, around anything but a bare reference), `rec` and plain attribute sets, `inherit`
clauses, references and literals — nested to ANY depth, the same name bound at any number of
levels, reference chains and cycles included — and the path consists of keys written without quotes
(`keysBare`: a quoted key is read as a name token by the code and as a name by the SPEC, see
`quoted_key_finds_bare_binding` below). Excluded, each with its counterexample theorem above: `with` (`cex_with_let`, `cex_with_env_recursive`),
`inherit (s) x` (`cex_inherit_loop`), lambdas / calls / parentheses on the route
(`cex_formals_leak`, `cex_routes_drop_scopes`), let layers on an identifier
(`cex_let_on_identifier`), and inside the fragment the two side conditions
`recInheritKey` (`cex_inherit_in_rec_by_key`) and `letOnRecTop` (`cex_document_rec_duplicates_lets`). -/

/-- Lookup, over environments of any depth: the code's walk over the scope chain (`resolveId`, any
    store, any visited sets) and Nix's rule (innermost lexical binder wins, `inherit` designates the
    enclosing scope, chains are followed, a revisited item is a cycle) name the same value or both
    fail, whenever neither runs out of fuel. -/
theorem lookup_follows_lexical_scoping (fi fL fR : Nat) (st : St) (E : Env) (name : Text)
    (vis ivis : List Nat) (hE : EnvOK E)
    (hi : (resolveId fi st name (flat E) vis ivis).1 ≠ .err .fuel)
    (hs : specFollow fL fR E name vis ivis ≠ .fail .fuel) :
    RelR (resolveId fi st name (flat E) vis ivis).1 (specFollow fL fR E name vis ivis) :=
  lookup_agree fi fL fR st E name vis ivis hE hi hs

/-- Bounded time, over environments of any depth: with more fuel than there are unvisited items in
    the chain, `_resolve_identifier` does not run out of it — unbound names and cycles end in
    `ResolutionError`, never in `RecursionError`. -/
theorem lookup_bounded (f : Nat) (st : St) (E : Env) (name : Text) (vis ivis : List Nat)
    (hE : EnvOK E) (hf : remE vis ivis E < f) :
    (resolveId f st name (flat E) vis ivis).1 ≠ .err .fuel :=
  resolveId_terminates f st E name vis ivis hE hf

/-- … and so does the reference resolver (the spec is not vacuous on the fragment). -/
theorem spec_settles_partial (prog : Expr) (path : List Step) (h : InFragment prog path = true) :
    ∃ M, ∀ fs, M ≤ fs → Settled (specResolve fs prog path) :=
  spec_settles prog path h

/-- C10 inside the fragment, whole traversals, fuels independent: whenever the reference resolver
    settles, the code — given fuel beyond a bound that depends on the input only — agrees with it. -/
theorem resolve_partial_settled (prog : Expr) (path : List Step) (h : InFragment prog path = true) :
    ∃ N, ∀ F fs, N ≤ F → Settled (specResolve fs prog path) →
      agrees (implResolve F prog path) (specResolve fs prog path) = true :=
  Scope.resolve_partial_settled prog path h

/-- C10 inside the fragment, in the shape of `ResolveFull`. -/
theorem resolve_partial (prog : Expr) (path : List Step) (h : InFragment prog path = true) :
    ∃ N, ∀ k, agrees (implResolve (N + k) prog path) (specResolve (N + k) prog path) = true :=
  resolve_partial_fuel prog path h

/-- bounded time and explicit failure inside the fragment: beyond the bound the traversal never ends
    in `RecursionError` -/
theorem resolve_bounded_partial (prog : Expr) (path : List Step) (h : InFragment prog path = true) :
    ∃ N, ∀ k, implResolve (N + k) prog path ≠ .fail .fuel ∧ implResolve (N + k) prog path ≠ .nav .fuel := by
  obtain ⟨N, hN⟩ := resolve_partial prog path h
  refine ⟨N, fun k => ⟨fun hk => ?_, fun hk => ?_⟩⟩
  · have := hN k; rw [hk] at this; cases hs : specResolve (N + k) prog path <;> rw [hs] at this <;> cases this
  · have := hN k; rw [hk] at this; cases hs : specResolve (N + k) prog path <;> rw [hs] at this <;> cases this

/-! ### Non-vacuity: the hypothesis of `resolve_partial` holds of programs with the same name bound
at three and more levels, through let layers, rec and plain sets and inherit clauses. -/

/-- `let a = 1; in { k = rec { a = 2; j = let a = 3; in { x = a; m = { a = 4; y = a; }; };
     z = a; i = { inherit a; }; }; }` -/
def wShadow : Expr :=
  .letE [.bind 10 (nm "a") (.lit 1)]
    (.set 20 false [.bind 21 (nm "k")
      (.set 30 true [
        .bind 31 (nm "a") (.lit 2),
        .bind 32 (nm "j") (.letE [.bind 33 (nm "a") (.lit 3)]
          (.set 40 false [
            .bind 41 (nm "x") (.ref 42 (nm "a")),
            .bind 43 (nm "m") (.set 50 false [.bind 51 (nm "a") (.lit 4), .bind 52 (nm "y") (.ref 53 (nm "a"))])])),
        .bind 34 (nm "z") (.ref 35 (nm "a")),
        .bind 36 (nm "i") (.set 60 false [.inh 61 [nm "a"]])])])

example : InFragment wShadow [key "k", key "j", key "x"] = true := by decide
example : InFragment wShadow [key "k", key "j", key "m", key "y"] = true := by decide
example : InFragment wShadow [key "k", key "z"] = true := by decide
example : InFragment wShadow [key "k", key "i", key "a"] = true := by decide

/-- innermost let wins over rec set over outer let; a plain set binds nothing; `inherit` in a plain
    set designates the enclosing (rec) scope — on both sides -/
theorem shadowing_examples :
    (∀ n, implResolve (n + 9) wShadow [key "k", key "j", key "x"] = .bound 3 ∧
          specResolve (n + 9) wShadow [key "k", key "j", key "x"] = .bound 3) ∧
    (∀ n, implResolve (n + 9) wShadow [key "k", key "j", key "m", key "y"] = .bound 3 ∧
          specResolve (n + 9) wShadow [key "k", key "j", key "m", key "y"] = .bound 3) ∧
    (∀ n, implResolve (n + 9) wShadow [key "k", key "z"] = .bound 2 ∧
          specResolve (n + 9) wShadow [key "k", key "z"] = .bound 2) ∧
    (∀ n, implResolve (n + 9) wShadow [key "k", key "i", key "a"] = .bound 2 ∧
          specResolve (n + 9) wShadow [key "k", key "i", key "a"] = .bound 2) :=
  ⟨fun _ => ⟨rfl, rfl⟩, fun _ => ⟨rfl, rfl⟩, fun _ => ⟨rfl, rfl⟩, fun _ => ⟨rfl, rfl⟩⟩

/-! ### Keys are name tokens: `doc["\"a\""]` and `doc["a"]` reach the same binding

Since the repair f0e98da `AttributeSet.__getitem__` compares what the key and the binding's name token
DENOTE (`_same_attr_name`, `sameName`; `findBindKey` in the model), no longer their spelling; the
scan of `_resolve_identifier` over the scope chain (`Scope.get_binding`, `findBind`) still compares by
spelling. The SPEC `specResolve` takes a key for the attribute's name as the set writes it
(`keyInSet`), so a QUOTED key is no attribute of `{ a = …; }` there: on such a path the code reaches
the binding Nix calls `a` and the two sides differ by the reading of the key, not by scoping. Quoted
keys are therefore outside `InFragment` (`keysBare`); on bare keys and bare names the two comparisons
coincide (`Scope.sameName_of_bare`, `Scope.findBindKey_eq_findBind`), which is what `resolve_partial`
uses. -/

/-- `let b = 1; in { a = b; }` -/
def wBareBinding : Expr :=
  .letE [.bind 10 (nm "b") (.lit 1)] (.set 20 false [.bind 21 (nm "a") (.ref 22 (nm "b"))])
/-- `let b = 1; in { "a" = b; }` -/
def wQuotedBinding : Expr :=
  .letE [.bind 10 (nm "b") (.lit 1)] (.set 20 false [.bind 21 (nm "\"a\"") (.ref 22 (nm "b"))])

/-- a quoted key finds the bare binding and a bare key the quoted binding (the code, both ways), where
    the comparison by spelling finds nothing (the SPEC's reading of the key: no such attribute); the
    quoted key is outside the fragment, the bare key on the bare binding inside -/
theorem quoted_key_finds_bare_binding :
    (∀ n, implResolve (n + 6) wBareBinding [key "\"a\""] = .bound 1) ∧
    (∀ n, implResolve (n + 6) wBareBinding [key "a"] = .bound 1) ∧
    (∀ n, implResolve (n + 6) wQuotedBinding [key "a"] = .bound 1) ∧
    (∀ n, implResolve (n + 6) wQuotedBinding [key "\"a\""] = .bound 1) ∧
    (∀ n, specResolve (n + 6) wBareBinding [key "\"a\""] = .nav .key) ∧
    (∀ n, specResolve (n + 6) wBareBinding [key "a"] = .bound 1) ∧
    agrees (.bound 1) (.nav .key) = false ∧
    InFragment wBareBinding [key "\"a\""] = false ∧ InFragment wBareBinding [key "a"] = true ∧
    InFragment wQuotedBinding [key "a"] = false :=
  ⟨fun _ => rfl, fun _ => rfl, fun _ => rfl, fun _ => rfl, fun _ => rfl, fun _ => rfl,
    by decide, by decide, by decide, by decide⟩

/-- `doc["\"a\""]` on `{ a = 1; }` and `doc["a"]` on `{ "a" = 1; }` find the binding (its value is no
    identifier: `notIdent`); a name that differs is still a `KeyError`. These two inputs are replayed on
    the real code on every run (harness/props/c10.py `witnesses`). -/
theorem quoted_key_on_literal :
    (∀ n, implResolve (n + 3) (.set 1 false [.bind 2 (nm "a") (.lit 3)]) [key "\"a\""] = .nav .notIdent) ∧
    (∀ n, implResolve (n + 3) (.set 1 false [.bind 2 (nm "\"a\"") (.lit 3)]) [key "a"] = .nav .notIdent) ∧
    (∀ n, implResolve (n + 3) (.set 1 false [.bind 2 (nm "a") (.lit 3)]) [key "\"b\""] = .nav .key) ∧
    (∀ n, specResolve (n + 3) (.set 1 false [.bind 2 (nm "a") (.lit 3)]) [key "\"a\""] = .nav .key) :=
  ⟨fun _ => rfl, fun _ => rfl, fun _ => rfl, fun _ => rfl⟩

/-- the exclusions are real: each witness of a `cex_*` theorem is outside the fragment -/
theorem witnesses_outside_fragment :
    InFragment wWithLet [key "x"] = false ∧ InFragment wWithEnvRec [key "x"] = false ∧
    InFragment wLetOnIdent [key "x"] = false ∧ InFragment wInhRecKey [key "c"] = false ∧
    InFragment wFormalsLeak [key "x"] = false ∧ InFragment wDocRecDup [key "k", key "x"] = false ∧
    InFragment wLambdaRoute [key "x"] = false ∧ InFragment wLoop [key "a"] = false := by decide

end Nima.C10
