import NimaVerif.Model.ScopeFragment
import NimaVerif.Model.SExp
/-!
Driver requests for L7 (scoping):

```
(resolve <fuel> <prog> <path>)            -> (ok (impl <outcome>) (spec <outcome>))
(history <fuel> <prog> (<path> …))        -> (ok <outcome> …)     -- same document, contexts persist
prog  : (lit id) | (ref id xname) | (set id t|f (item …)) | (let (item …) body) | (with id env body)
      | (paren id e) | (app id fn arg) | (lam1 id xname body) | (lamP id (formal …) body)
item  : (bind id xname val) | (inh id (xname …)) | (inhf id (xname …) src)
formal: (req xname) | (opt xname dflt)
path  : ((k xkey) | d …)
outcome: (bound n) | (fail res <kind>) | (fail key|type|value|notIdent|fuel)
```
-/
namespace Nima.Drv.Scope
open Nima Nima.Scope

def decNames : List SExp → Option (List Text)
  | [] => some []
  | .atom a :: rest => do
    let t ← decText a
    let ts ← decNames rest
    pure (t :: ts)
  | _ => none

mutual
partial def decExpr : SExp → Option Expr
  | .list [.atom "lit", .atom i] => do pure (.lit (← i.toNat?))
  | .list [.atom "ref", .atom i, .atom n] => do pure (.ref (← i.toNat?) (← decText n))
  | .list [.atom "set", .atom i, .atom r, .list items] => do
    pure (.set (← i.toNat?) (r == "t") (← decItems items))
  | .list [.atom "let", .list items, body] => do
    let its ← decItems items
    if its.isEmpty then none else pure (.letE its (← decExpr body))
  | .list [.atom "with", .atom i, env, body] => do
    pure (.withE (← i.toNat?) (← decExpr env) (← decExpr body))
  | .list [.atom "paren", .atom i, e] => do pure (.paren (← i.toNat?) (← decExpr e))
  | .list [.atom "app", .atom i, f, a] => do pure (.app (← i.toNat?) (← decExpr f) (← decExpr a))
  | .list [.atom "lam1", .atom i, .atom n, b] => do
    pure (.lam1 (← i.toNat?) (← decText n) (← decExpr b))
  | .list [.atom "lamP", .atom i, .list fs, b] => do
    pure (.lamP (← i.toNat?) (← decFormals fs) (← decExpr b))
  | _ => none
partial def decItems : List SExp → Option (List Item)
  | [] => some []
  | x :: rest => do
    let it ← decItem x
    let its ← decItems rest
    pure (it :: its)
partial def decItem : SExp → Option Item
  | .list [.atom "bind", .atom i, .atom n, v] => do
    pure (.bind (← i.toNat?) (← decText n) (← decExpr v))
  | .list [.atom "inh", .atom i, .list ns] => do pure (.inh (← i.toNat?) (← decNames ns))
  | .list [.atom "inhf", .atom i, .list ns, s] => do
    pure (.inhFrom (← i.toNat?) (← decNames ns) (← decExpr s))
  | _ => none
partial def decFormals : List SExp → Option (List Formal)
  | [] => some []
  | .list [.atom "req", .atom n] :: rest => do
    pure (.req (← decText n) :: (← decFormals rest))
  | .list [.atom "opt", .atom n, d] :: rest => do
    pure (.opt (← decText n) (← decExpr d) :: (← decFormals rest))
  | _ => none
end

def decPath : List SExp → Option (List Step)
  | [] => some []
  | .atom "d" :: rest => do pure (.deref :: (← decPath rest))
  | .list [.atom "k", .atom h] :: rest => do pure (.key (← decText h) :: (← decPath rest))
  | _ => none

def decPaths : List SExp → Option (List (List Step))
  | [] => some []
  | .list p :: rest => do pure ((← decPath p) :: (← decPaths rest))
  | _ => none

def resKind : ResKind → String
  | .noContext => "noContext" | .unbound => "unbound" | .cycle => "cycle"
  | .cycleInherit => "cycleInherit" | .inheritSrc => "inheritSrc" | .withEnv => "withEnv"
  | .callArg => "callArg" | .missingParam => "missingParam"

def sFail (stage : String) : Fail → SExp
  | .res k => .list [.atom stage, .atom "res", .atom (resKind k)]
  | .key => .list [.atom stage, .atom "key"]
  | .type => .list [.atom stage, .atom "type"]
  | .value => .list [.atom stage, .atom "value"]
  | .notIdent => .list [.atom stage, .atom "notIdent"]
  | .fuel => .list [.atom stage, .atom "fuel"]

def sOutcome : Outcome → SExp
  | .bound n => .list [.atom "bound", sNat n]
  | .fail f => sFail "fail" f
  | .nav f => sFail "nav" f

def sfail : SFail → String
  | .unbound => "unbound" | .cycle => "cycle" | .noValue => "noValue" | .notASet => "notASet"
  | .missingAttr => "missingAttr" | .fuel => "fuel"

def sSpec : SpecOutcome → SExp
  | .bound n => .list [.atom "bound", sNat n]
  | .error k => .list [.atom "error", .atom (sfail k)]
  | .navError k => .list [.atom "nav", .atom "error", .atom (sfail k)]
  | .nav f => sFail "nav" f

def handle' (req : SExp) : SExp :=
  match req with
  | .list [.atom "resolve", .atom fuel, prog, .list path] =>
    match fuel.toNat?, decExpr prog, decPath path with
    | some f, some p, some pa =>
      let i := implResolve f p pa
      let s := specResolve f p pa
      .list [.atom "ok", sOutcome i, sSpec s, sBool (agrees i s), .list ((causes f p pa).map .atom), sBool (InFragment p pa)]
    | _, _, _ => .list [.atom "bad-arg"]
  | .list [.atom "history", .atom fuel, prog, .list paths] =>
    match fuel.toNat?, decExpr prog, decPaths paths with
    | some f, some p, some ps => .list (.atom "ok" :: (implHistory f p {} ps).map sOutcome)
    | _, _, _ => .list [.atom "bad-arg"]
  | _ => .list [.atom "bad-op"]

def ops : List String := ["resolve", "history"]

def handle (req : SExp) : Option SExp :=
  match req with
  | .list (.atom op :: _) => if ops.contains op then some (handle' req) else none
  | _ => none

end Nima.Drv.Scope
