"""Observation of the object graph of a parsed document (C15a), independent of the model.

`TreeState(root)`: every object reachable from a `NixSourceCode` through dataclass fields, instance
attributes (`Scope.owner` …), list / dict / tuple elements, each with its *shallow state*: for every
field / element either the value (immutable leaves) or the identity of the object it holds.  The
objects are kept alive, so identities cannot be recycled.  `changes()` recomputes the shallow
states of the same objects and lists every field that no longer holds what it held:

  * `content`  — a leaf value changed, a container's length / elements changed, or a field now
    refers to an object that is not even equal (deep, references by position) to the old one;
  * `identity` — a field refers to a different object that is deep-equal to the old one.

`WriteHooks`: while installed, every attribute store on an instance of a package class is recorded
with the source position that executed it (class-level `__setattr__` wrappers; nothing in /repo is
edited).  In-place list mutations cannot be hooked; they are seen by `TreeState`.
"""
from __future__ import annotations

import dataclasses
import sys
from pathlib import PurePath

LEAF = (str, int, float, bool, bytes, type(None), complex)


def _fields_of(o):
    """(name, value) pairs of everything an object stores"""
    out = []
    if dataclasses.is_dataclass(o) and not isinstance(o, type):
        for f in dataclasses.fields(o):
            try:
                out.append((f.name, getattr(o, f.name)))
            except AttributeError:
                out.append((f.name, "<unset>"))
        names = {n for n, _ in out}
    else:
        names = set()
    d = getattr(o, "__dict__", None)
    if isinstance(d, dict):
        for k, v in d.items():
            if k not in names:
                out.append((k, v))
                names.add(k)
    for cls in type(o).__mro__:
        for s in getattr(cls, "__slots__", ()) or ():
            if s in ("__weakref__", "__dict__") or s in names:
                continue
            try:
                out.append((s, getattr(o, s)))
                names.add(s)
            except AttributeError:
                pass
    return out


class Snapshot:
    """deep structure of an object graph, references encoded by position in the walk"""
    def __init__(self, root, skip_fields=("node",)):
        self.skip = set(skip_fields)
        self.index: dict[int, int] = {}  # id -> position
        self.objs: list = []  # position -> object (keeps it alive)
        self.paths: list[str] = []
        self.owner_of: list[tuple[str, str]] = []  # position -> (class of holder, field)
        self.shape = self._walk(root, "root", ("", ""))

    def _walk(self, o, path, held):
        if isinstance(o, LEAF):
            return ("v", type(o).__name__, o)
        if isinstance(o, PurePath):
            return ("v", "Path", str(o))
        mod = type(o).__module__ or ""
        if id(o) in self.index:
            return ("ref", self.index[id(o)])
        if mod.startswith("tree_sitter"):
            return ("opaque", type(o).__name__)
        pos = len(self.objs)
        self.index[id(o)] = pos
        self.objs.append(o)
        self.paths.append(path)
        self.owner_of.append(held)
        cname = type(o).__name__
        if mod.endswith("expressions.layout"):
            return ("sentinel", cname)
        parts = []
        if isinstance(o, (list, tuple)):
            parts.append(("len", len(o)))
            for i, x in enumerate(o):
                parts.append((i, self._walk(x, f"{path}[{i}]", (cname, "[]"))))
        elif isinstance(o, dict):
            parts.append(("len", len(o)))
            for k, x in o.items():
                parts.append((repr(k), self._walk(x, f"{path}[{k!r}]", (cname, repr(k)))))
        elif isinstance(o, (set, frozenset)):
            parts.append(("set", tuple(sorted(repr(x) for x in o))))
        if not isinstance(o, (tuple, dict, set, frozenset)) or hasattr(o, "__dict__"):
            if not type(o) in (list, tuple, dict, set, frozenset):
                for name, val in _fields_of(o):
                    if name in self.skip:
                        continue
                    parts.append((name, self._walk(val, f"{path}.{name}", (cname, name))))
        return ("obj", pos, cname, tuple(parts))

    def ids(self) -> set[int]:
        return set(self.index)


def _is_opaque(o) -> bool:
    return (type(o).__module__ or "").startswith("tree_sitter")


def _key(x):
    if isinstance(x, LEAF):
        return ("v", type(x).__name__, x)
    if isinstance(x, PurePath):
        return ("v", "Path", str(x))
    if isinstance(x, tuple):
        return ("t",) + tuple(_key(e) for e in x)
    if isinstance(x, frozenset):
        return ("fs",) + tuple(sorted(repr(e) for e in x))
    return ("id", id(x))


def shallow(o, skip=("node",)):
    """[(slot name, key)] of everything `o` stores"""
    out = []
    if isinstance(o, list):
        out.append(("len", ("v", "int", len(o))))
        for i, x in enumerate(o):
            out.append((f"[{i}]", _key(x)))
    elif isinstance(o, dict):
        out.append(("len", ("v", "int", len(o))))
        for k, x in o.items():
            out.append((f"[{k!r}]", _key(x)))
    elif isinstance(o, set):
        out.append(("set", ("fs",) + tuple(sorted(repr(e) for e in o))))
    if type(o) not in (list, dict, set):
        for name, val in _fields_of(o):
            if name not in skip:
                out.append((name, _key(val)))
    return out


def deep_shape(o, skip=("node",)):
    """deep structure with references by position (for equality of two object graphs)"""
    return Snapshot(o, skip_fields=skip).shape


class TreeState:
    def __init__(self, root, skip_fields=("node",)):
        self.skip = tuple(skip_fields)
        self.objs: list = []
        self.paths: list[str] = []
        self.state: list = []
        seen: dict[int, int] = {}
        stack = [(root, "root")]
        while stack:
            o, path = stack.pop()
            if isinstance(o, LEAF) or isinstance(o, PurePath) or _is_opaque(o) or id(o) in seen:
                continue
            if isinstance(o, (tuple, frozenset)):
                for i, x in enumerate(o):
                    stack.append((x, f"{path}[{i}]"))
                continue
            seen[id(o)] = len(self.objs)
            self.objs.append(o)
            self.paths.append(path)
            children = []
            if isinstance(o, list):
                children += [(x, f"{path}[{i}]") for i, x in enumerate(o)]
            elif isinstance(o, dict):
                children += [(x, f"{path}[{k!r}]") for k, x in o.items()]
            if type(o) not in (list, dict, set):
                children += [(v, f"{path}.{n}") for n, v in _fields_of(o) if n not in self.skip]
            stack.extend(reversed(children))
        self.state = [shallow(o, self.skip) for o in self.objs]
        self._ids = set(seen)

    def ids(self) -> set[int]:
        return self._ids

    def changes(self) -> list[dict]:
        """every field of every object of the tree that no longer holds what it held"""
        by_id = {id(o): o for o in self.objs}
        out = []
        for o, path, old in zip(self.objs, self.paths, self.state):
            new = shallow(o, self.skip)
            if new == old:
                continue
            cname = type(o).__name__
            od, nd = dict(old), dict(new)
            for slot in list(od) + [k for k in nd if k not in od]:
                a, b = od.get(slot), nd.get(slot)
                if a == b:
                    continue
                field = "[]" if slot.startswith("[") or slot in ("len", "set") else slot
                kind = "content"
                what = f"{a!r} became {b!r}"
                if a is not None and b is not None and a[0] == "id" and b[0] == "id":
                    old_obj = by_id.get(a[1])
                    new_obj = self._find(b[1])
                    if old_obj is not None and new_obj is not None:
                        same = False
                        try:
                            same = deep_shape(old_obj, self.skip) == deep_shape(new_obj, self.skip)
                        except RecursionError:
                            pass
                        kind = "identity" if same else "content"
                        what = (f"held a {type(old_obj).__name__}, now holds another "
                                f"{'equal ' if same else ''}{type(new_obj).__name__} object")
                out.append({"kind": kind, "cls": cname, "field": field, "path": f"{path}.{slot}" if not slot.startswith("[") else f"{path}{slot}",
                            "what": what})
        return out

    def _find(self, ident: int):
        for o in self.objs:
            for name, val in ([(None, x) for x in o] if isinstance(o, list) else
                              [(None, x) for x in o.values()] if isinstance(o, dict) else []):
                if id(val) == ident:
                    return val
            if type(o) not in (list, dict, set):
                for name, val in _fields_of(o):
                    if id(val) == ident:
                        return val
        return None


# ------------------------------------------------------------------------------------------------
class WriteHooks:
    """Record attribute stores on instances of package classes while installed."""

    def __init__(self, package_prefix: str = "nix_manipulator"):
        self.prefix = package_prefix
        self.records: list[dict] = []
        self._saved: list[tuple[type, object, bool]] = []

    def classes(self):
        seen = []
        for name, mod in list(sys.modules.items()):
            if not name.startswith(self.prefix) or mod is None:
                continue
            for v in list(vars(mod).values()):
                if isinstance(v, type) and (v.__module__ or "").startswith(self.prefix) and v not in seen:
                    seen.append(v)
        return seen

    def __enter__(self):
        records = self.records

        def make(cls, orig):
            def hooked(self_, name, value, _orig=orig):
                f = sys._getframe(1)
                records.append({
                    "cls": type(self_).__name__, "attr": name, "file": f.f_code.co_filename,
                    "line": f.f_lineno, "func": f.f_code.co_name, "id": id(self_),
                })
                return _orig(self_, name, value)
            return hooked

        allc = self.classes()
        for cls in allc:
            if any(b in allc for b in cls.__mro__[1:]):
                continue  # subclasses inherit the root's hook
            had = "__setattr__" in cls.__dict__
            orig = cls.__setattr__
            try:
                cls.__setattr__ = make(cls, orig)
            except (TypeError, AttributeError):
                continue
            self._saved.append((cls, orig, had))
        return self

    def __exit__(self, *exc):
        for cls, orig, had in reversed(self._saved):
            if had:
                cls.__setattr__ = orig
            else:
                try:
                    del cls.__setattr__
                except AttributeError:
                    cls.__setattr__ = orig
        self._saved.clear()
        return False


DUNDERS = ("__getitem__", "__setitem__", "__delitem__", "__contains__", "__iter__", "__len__", "__bool__",
           "__eq__", "__hash__", "__getattr__", "__getattribute__", "__set_name__", "__call__")


class PropertyCounter:
    """Count invocations of the package's @property getters — and of the special methods the package
    defines itself (`__getitem__`, `__eq__`, … : they are called implicitly by subscripts, `==`,
    iteration, truth tests, which the by-name call graph does not follow) — while installed.
    Keys: `Class.attr` for properties, `Class.__dunder__` for special methods."""

    def __init__(self, package_prefix: str = "nix_manipulator"):
        self.prefix = package_prefix
        self.calls: dict[str, int] = {}
        self._saved = []

    def __enter__(self):
        calls = self.calls
        for name, mod in list(sys.modules.items()):
            if not name.startswith(self.prefix) or mod is None:
                continue
            for v in list(vars(mod).values()):
                if isinstance(v, type) and (v.__module__ or "").startswith(self.prefix):
                    for attr, p in list(v.__dict__.items()):
                        if attr in DUNDERS and callable(p) and hasattr(p, "__code__") and not getattr(p, "_c15", False) \
                                and not p.__code__.co_filename.startswith("<"):
                            key = f"{v.__name__}.{attr}"

                            def wrapper(*a, _f=p, _k=key, **kw):
                                calls[_k] = calls.get(_k, 0) + 1
                                return _f(*a, **kw)

                            wrapper._c15 = True
                            self._saved.append((v, attr, p))
                            setattr(v, attr, wrapper)
                            continue
                        if isinstance(p, property) and p.fget is not None and not getattr(p.fget, "_c15", False):
                            key = f"{v.__name__}.{attr}"

                            def fget(self_, _f=p.fget, _k=key):
                                calls[_k] = calls.get(_k, 0) + 1
                                return _f(self_)

                            fget._c15 = True
                            self._saved.append((v, attr, p))
                            setattr(v, attr, property(fget, p.fset, p.fdel, p.__doc__))
        return self

    def __exit__(self, *exc):
        for v, attr, p in reversed(self._saved):
            setattr(v, attr, p)
        self._saved.clear()
        return False
