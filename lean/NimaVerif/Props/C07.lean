import NimaVerif.Model.Gate
import NimaVerif.Lemmas.Edit
import NimaVerif.Gen.Gate
/-!
# C07 — sources with syntax errors are passed through untouched and never edited

`hasError` is tree-sitter's verdict, delivered with the tree (trusted, part of the parser contract).
Everything after the gate is decision logic and is proved for all texts, paths and values.
-/
namespace Nima.C07
-- name tokens are compared by spelling in this file (see `NameCmp` in Model/Edit.lean)
attribute [local instance] NameCmp.spelled

/-- Translator tie: the gate has the shape the model assumes (statement order in `from_cst`,
    `RawExpression.rebuild`, `NixSourceCode.rebuild`, value checks first in `set_value`,
    no `case RawExpression()` in target resolution). -/
theorem tie_gate : Gen.gateShape = some expectedGateShape := by decide

/-- Rebuilding a source with a syntax error returns the input byte for byte — including leading
    and trailing whitespace: the gate precedes all trivia code. -/
theorem passthrough (text : Text) (structured : Source) (other : TopExpr → Text)
    (renderTrailing : Text → Payload → Text) :
    (fromCstTop true text structured).rebuild other renderTrailing = text := by
  simp [fromCstTop, Source.rebuild, TopExpr.rebuild]

theorem flagged (text : Text) (structured : Source) :
    (fromCstTop true text structured).containsError = true ∧
    (fromCstTop true text structured).noTarget = some .raw := by
  simp [fromCstTop, Source.noTarget]

/-- `set` on a raw document is refused with ValueError whatever the path and the value, and the
    document is left as it was. -/
theorem set_refused (d : Doc) (h : d.noTarget = some .raw) (p : Text) (v : ValueArg) :
    setValue p v d = (.error .value, d) := by
  unfold setValue
  cases v with
  | empty => rfl
  | invalid => rfl
  | one n =>
    simp only [h]
    cases hs : splitScopeNpath p with
    | error e =>
      have : e = .value := splitScopeNpath_error p e hs
      simp [this]
    | ok o =>
      cases o with
      | none => simp [resolveTarget, h]
      | some ds => simp [resolveTarget, h]

/-- `rm` on a raw document is refused with ValueError, document unchanged. -/
theorem rm_refused (d : Doc) (h : d.noTarget = some .raw) (p : Text) :
    removeValue p d = (.error .value, d) := by
  unfold removeValue
  simp only [h]
  cases hs : splitScopeNpath p with
  | error e =>
    have : e = .value := splitScopeNpath_error p e hs
    simp [this]
  | ok o =>
    cases o with
    | none => simp [resolveTarget, h]
    | some ds => simp [resolveTarget, h]

/-- A VALUE that is not exactly one well-formed expression is refused whatever the document, and
    the document is left as it was. -/
theorem bad_value_refused (p : Text) (d : Doc) :
    setValue p .empty d = (.error .value, d) ∧ setValue p .invalid d = (.error .value, d) :=
  ⟨rfl, rfl⟩

/-- The whole chain for an erroneous text: flagged, passed through, not editable. -/
theorem erroneous_text (text : Text) (structured : Source) (d : Doc)
    (hd : d.noTarget = (fromCstTop true text structured).noTarget) (p : Text) (v : ValueArg) :
    (setValue p v d).1 = .error .value ∧ (setValue p v d).2 = d ∧
    (removeValue p d).1 = .error .value ∧ (removeValue p d).2 = d := by
  have h : d.noTarget = some .raw := by rw [hd]; exact (flagged text structured).2
  rw [set_refused d h p v, rm_refused d h p]
  exact ⟨rfl, rfl, rfl, rfl⟩

/-! Non-vacuity -/
example : (fromCstTop true "  { a = ; }\n\n".toList ⟨[], [], false⟩).rebuild (fun _ => []) (fun t _ => t)
    = "  { a = ; }\n\n".toList := by decide

end Nima.C07
