import NimaVerif.Lemmas.Effects
import NimaVerif.Lemmas.Sched
import NimaVerif.Gen.Effects
import NimaVerif.Gen.ProcState
/-!
# C15 — rebuilding is pure and deterministic, independent of threads and history

Property theorems only (helper lemmas live in `Lemmas/Effects.lean`, `Lemmas/Sched.lean`).

(a) **Purity.**  `Gen.Effects.rebuildProg` is the heap-effect IR of every Python function reachable
by name from a `rebuild` method (regenerated from /repo on every run, `Model/Effects.lean`
explains the IR and its collecting semantics).  `Effects.Pure p` is the SPEC: whatever `p`
executes, every object that existed before the call is unchanged afterwards.
`check_sound` is the metatheorem; the per-run closing step is `rebuild_cert_partial` (`decide`).

(b) **Determinism** w.r.t. hash seed / cwd / history: no iteration over a set, no ambient read
(cwd, environment, clock, randomness), no `id`/`hash` in code reachable from `parse` or `rebuild`;
no memoisation; the only module-level objects written by any function are the ones (c) models.

(c) **Schedules.**  `Model/Sched.lean`: per-thread parser slot, per-thread context variables with
set/reset tokens, the shared registry keyed by `id`.  `non_interference`: for every valid
schedule the observations of thread `i` are those of its serial run.
-/
namespace Nima.C15
open Nima.Effects

/-! ## (a) Purity of `rebuild` -/

/-- Metatheorem (proved once, for every program and certificate). -/
theorem check_sound (p : Prog) (c : Cert) (h : check p c = true) : Pure p :=
  Nima.Effects.check_sound p c h

/-- FULL statement: the rebuild-reachable code of /repo modifies no pre-existing object.
    False of the current code (see `cex_post_init_owner` and known findings C15-scope-owner,
    C15-state-stack); kept visible. -/
def rebuild_pure_full : Prop :=
  ∃ p, Gen.Effects.rebuildProg = some p ∧ Pure p

/-- The write statements that are open known findings, by their stable names
    (`file:function:kind .attribute#k`).  Both sit in `NixExpression.__post_init__`, which
    `dataclasses.replace` (`model_copy(update=…)`) re-runs on a copy that still shares `scope`
    and `scope_state` with the original. -/
def knownOffending : List String :=
  ["expressions/expression.py:NixExpression.__post_init__:store .owner#0",
   "expressions/expression.py:NixExpression.__post_init__:store .stack#0"]

def skipLabels : List Label :=
  (List.range Gen.Effects.labels.length).filter fun i =>
    knownOffending.contains (Gen.Effects.labels.getD i "")

/-- The checker's verdict on the generated program without the listed write statements. -/
def partialVerdict : Option Bool :=
  match Gen.Effects.rebuildProg, Gen.Effects.cert with
  | some p, some c => some (check (p.remove skipLabels) c)
  | _, _ => none

/-- Translator tie, closing step (re-proved on every run against the regenerated program):
    every write statement of the rebuild-reachable code other than the two listed ones goes
    through a variable that only ever holds objects allocated during the call. -/
theorem rebuild_cert_partial : partialVerdict = some true := by decide +kernel

/-- PARTIAL theorem: with the two listed stores removed, `rebuild` and everything it reaches
    modifies no object that existed before the call — for every execution of the bag of
    statements (every control flow, recursion depth, heap and argument). -/
theorem rebuild_pure_partial :
    ∃ p, Gen.Effects.rebuildProg = some p ∧ Pure (p.remove skipLabels) := by
  have h := rebuild_cert_partial
  unfold partialVerdict at h
  split at h
  · rename_i p c hp hc
    exact ⟨p, hp, check_sound _ c (by simpa using h)⟩
  · cases h

/-- The theorem above is not vacuous: the program that is checked has many write statements
    (stores and in-place mutations through fresh copies and fresh lists). -/
theorem rebuild_partial_nonvacuous :
    (Gen.Effects.rebuildProg.map fun p => decide (30 ≤ ((p.remove skipLabels).stmts.filter Stmt.isWrite).length))
      = some true := by decide +kernel

/-! ### The counterexample (the defect), on a fixed excerpt

`Binding.rebuild`: `value_expr = self.value; value_expr = value_expr.model_copy(update={"after": []})`,
i.e. `dataclasses.replace`, whose `__post_init__` executes `self.scope.owner = self` with `self` the
copy — but `self.scope` is still the original's `Scope`. -/

def fValue : Fld := 1
def fAfter : Fld := 2
def fScope : Fld := 3
def fOwner : Fld := 4

/-- 0 self · 1 value_expr = self.value · 2 [] · 3 copy = replace(value_expr, after=[]) ·
    4 copy.scope · store: copy.scope.owner = copy -/
def excerpt : Prog :=
  ⟨[.assign 0 .unknown, .assign 1 (.load 0 fValue), .assign 2 (.alloc 0 []),
    .assign 3 (.copy 1 1 [(fAfter, 2)]), .assign 4 (.load 3 fScope), .store 0 4 fOwner 3]⟩

/-- heap of `{ a = 1 # c␤; }`: 0 the binding, 1 its value, 2 the value's `Scope` (owner = 1) -/
def witnessHeap : Nat → Option Obj
  | 0 => some ⟨100, fun f => if f = fValue then [.loc 1] else []⟩
  | 1 => some ⟨101, fun f => if f = fScope then [.loc 2] else []⟩
  | 2 => some ⟨102, fun f => if f = fOwner then [.loc 1] else []⟩
  | _ => none

def witnessState : State := ⟨witnessHeap, 3, fun _ _ => False⟩

theorem witness_init : Init witnessState := by
  refine ⟨fun _ _ h => h, ?_⟩
  intro l hl
  have h3 : 3 ≤ l := hl
  match l, h3 with
  | l + 3, _ => rfl

/-- The checker rejects the excerpt (so `check_sound` does not apply to it) … -/
theorem excerpt_rejected : ∀ c : Cert, check excerpt c = false := by
  intro c
  cases hc : check excerpt c with
  | false => rfl
  | true =>
    exfalso
    have hall : ∀ s ∈ excerpt.stmts, okStmt c s = true := by
      simpa [check, List.all_eq_true] using hc
    have h0 := hall (.assign 0 .unknown) (by simp [excerpt])
    have h1 := hall (.assign 1 (.load 0 fValue)) (by simp [excerpt])
    have h3 := hall (.assign 3 (.copy 1 1 [(fAfter, 2)])) (by simp [excerpt])
    have h4 := hall (.assign 4 (.load 3 fScope)) (by simp [excerpt])
    have h5 := hall (.store 0 4 fOwner 3) (by simp [excerpt])
    simp only [okStmt, okRhs] at h0 h1 h3 h4 h5
    -- var 0 shared, hence var 1 shared, hence the copy's inherited `scope` field is shared,
    -- hence var 4 shared, hence the store is rejected
    have v0 : c.var 0 = .shared := by
      cases h : c.var 0 with
      | shared => rfl
      | fresh _ => rw [h] at h0; simp [Abs.isShared] at h0
    have v1 : c.var 1 = .shared := by
      rw [v0] at h1
      cases h : c.var 1 with
      | shared => rfl
      | fresh _ => rw [h] at h1; simp [loadLe, Abs.isShared] at h1
    have v4 : c.var 4 = .shared := by
      cases h4v : c.var 4 with
      | shared => rfl
      | fresh us =>
        exfalso
        rw [h4v] at h4
        cases h3v : c.var 3 with
        | shared => rw [h3v] at h4; simp [loadLe, Abs.isShared] at h4
        | fresh ts =>
          rw [h3v] at h3 h4
          simp only [Bool.and_eq_true, siteIn, List.all_eq_true] at h3
          obtain ⟨⟨hs, _⟩, hf⟩ := h3
          simp only [loadLe, List.all_eq_true] at h4
          have hin : (1 : Site) ∈ ts := by simpa using hs
          have h41 := h4 1 hin
          -- the field abstraction of site 1 at `scope` is below fresh us, so it is not shared,
          -- so it is listed, so it must be above what is loaded through the shared var 1
          have hns : c.fld 1 fScope ≠ .shared := by
            intro h; rw [h] at h41; simp [Abs.le] at h41
          have hmem := lookupFld_mem (fs := c.fldsOf 1) (f := fScope) hns
          have := hf _ hmem
          simp only [Bool.or_eq_true, List.any_eq_true] at this
          rcases this with ⟨fy, hfy, heq⟩ | this
          · simp only [List.mem_singleton] at hfy
            subst hfy
            simp [fAfter, fScope] at heq
          · rw [v1] at this
            simp only [loadLe] at this
            have hsh : c.fld 1 fScope = .shared := by
              cases h : c.fld 1 fScope with
              | shared => rfl
              | fresh _ =>
                unfold Cert.fld at h
                rw [h] at this
                simp [Abs.isShared] at this
            exact hns hsh
    rw [writeOk, v4] at h5
    cases h5

/-- … and rightly so: NEGATION of the full statement on the excerpt.  Started on the heap of
    `{ a = 1 # c␤; }`, the run ends with the original value's `scope.owner` pointing to the
    discarded copy.  Replayed on the implementation by the check (known finding C15-scope-owner). -/
theorem cex_post_init_owner : ¬ Pure excerpt := by
  intro hp
  -- the run
  let s0 := witnessState
  let s1 := s0.bind 0 (.loc 0)
  let s2 := s1.bind 1 (.loc 1)
  let o3 : Obj := ⟨0, fun _ => []⟩
  let s3 := (s2.allocObj o3).bind 2 (.loc 3)
  let o4 : Obj := ⟨1, fun f => if f = fAfter then [.loc 3] else if f = fScope then [.loc 2] else []⟩
  let s4 := (s3.allocObj o4).bind 3 (.loc 4)
  let s5 := s4.bind 4 (.loc 2)
  let o2 : Obj := ⟨102, fun f => if f = fOwner then [.loc 1] else []⟩
  let s6 := s5.setObj 2 (o2.setFld fOwner [.loc 4])
  have e1 : Step excerpt s0 s1 := Step.unknown (.loc 0) (by simp [excerpt])
  have e2 : Step excerpt s1 s2 :=
    Step.load (x := 1) (y := 0) (f := fValue) (l := 0) (v := .loc 1)
      (o := ⟨100, fun f => if f = fValue then [.loc 1] else []⟩) (by simp [excerpt])
      (Or.inr ⟨rfl, rfl⟩) rfl (by simp)
  have e3 : Step excerpt s2 s3 :=
    Step.alloc (x := 2) (site := 0) (inits := []) o3 (by simp [excerpt]) rfl
      (by intro f v hv; simp [o3] at hv)
  have e4 : Step excerpt s3 s4 := by
    refine Step.copy (x := 3) (site := 1) (y := 1) (upd := [(fAfter, 2)]) (l := 1)
      (o0 := ⟨101, fun f => if f = fScope then [.loc 2] else []⟩) o4
      (by simp [excerpt]) ?_ ?_ rfl ?_
    · exact Or.inl (Or.inr ⟨rfl, rfl⟩)
    · rfl
    · intro f v hv
      by_cases hfa : f = fAfter
      · subst hfa
        left
        refine ⟨2, by simp, ?_⟩
        simp only [o4, if_true, List.mem_singleton] at hv
        subst hv
        exact Or.inr ⟨rfl, rfl⟩
      · right
        refine ⟨by intro y' hy'; simp at hy'; exact hfa hy'.1, ?_⟩
        simp only [o4, hfa, if_false] at hv
        exact hv
  have e5 : Step excerpt s4 s5 :=
    Step.load (x := 4) (y := 3) (f := fScope) (l := 4) (o := o4) (v := .loc 2) (by simp [excerpt])
      (Or.inr ⟨rfl, rfl⟩) rfl (by simp [o4, fScope, fAfter])
  have e6 : Step excerpt s5 s6 :=
    Step.store (lbl := 0) (x := 4) (f := fOwner) (y := 3) (l := 2) (o := o2) (v := .loc 4)
      (by simp [excerpt]) (Or.inr ⟨rfl, rfl⟩) rfl
      (Or.inl (Or.inr ⟨rfl, rfl⟩))
  have ex : Exec excerpt s0 s6 :=
    (((((Exec.refl.step e1).step e2).step e3).step e4).step e5).step e6
  have := hp s0 s6 witness_init ex 2 (by decide)
  -- the cell of the original `Scope` changed
  have h6 : s6.heap 2 = some (o2.setFld fOwner [.loc 4]) := by simp [s6, State.setObj]
  have h0 : s0.heap 2 = some o2 := rfl
  rw [h6, h0] at this
  have hf := congrArg (fun o => (o.map fun x => x.flds fOwner)) this
  simp [Obj.setFld, o2] at hf

/-! ### Non-vacuity of the metatheorem: a copy-before-modify renderer passes the checker

`_clone_with_trivia`: `updated = expr.model_copy(); updated.before = list(extra) + list(updated.before)`. -/

def cloneWithTrivia : Prog :=
  ⟨[.assign 0 .unknown, .assign 1 .unknown, .assign 2 (.copy 0 0 []), .assign 3 (.load 1 ITEMS),
    .assign 4 (.load 2 5), .assign 5 (.load 4 ITEMS), .assign 6 (.alloc 1 [(ITEMS, 3), (ITEMS, 5)]),
    .store 0 2 5 6, .mutate 1 6 [3]]⟩

example : Pure cloneWithTrivia :=
  check_sound _ ⟨[[.shared, .shared, .fresh [0], .shared, .shared, .shared, .fresh [1]]], []⟩ (by decide)

/-- … and the same renderer without the copy is rejected under every certificate. -/
example : ∀ c : Cert, check ⟨[.assign 0 .unknown, .store 0 0 5 0]⟩ c = false := by
  intro c
  cases hc : check ⟨[.assign 0 .unknown, .store 0 0 5 0]⟩ c with
  | false => rfl
  | true =>
    simp only [check, List.all_cons, List.all_nil, Bool.and_true, Bool.and_eq_true, okStmt, okRhs,
      writeOk] at hc
    obtain ⟨h0, h1⟩ := hc
    cases h : c.var 0 with
    | shared => rw [h] at h1; cases h1
    | fresh _ => rw [h] at h0; simp [Abs.isShared] at h0

/-! ## (b) Determinism: no hidden inputs -/

/-- No iteration over a set in code reachable by name from `parse` or `rebuild`
    (its order would depend on `PYTHONHASHSEED`). -/
theorem tie_no_set_iteration :
    Gen.Effects.setIterations = some [] ∧ Gen.ProcState.setIterations = some [] := by decide

/-- No read of the working directory, environment, clock or randomness in that code … -/
theorem tie_no_ambient_reads : Gen.ProcState.ambientReads = some [] := by decide

/-- … and no `id()` / `hash()` (object addresses, hash seed). -/
theorem tie_no_identity_reads : Gen.ProcState.identityReads = some [] := by decide

/-- No memoising decorator anywhere in the package. -/
theorem tie_no_memoisation : Gen.ProcState.memoized = some [] := by decide

/-- The module-level / class-level objects written from inside any function of the package are
    exactly: the two source context variables, the per-thread parser holder, the resolution
    registry (these four are the state of `Model/Sched.lean`), and the two expression-type tables
    written only by the extension hook `register_expression`. Anything else (a cache, a counter)
    would couple documents and breaks this tie. -/
theorem tie_written_globals : Gen.ProcState.writtenGlobals = some
    ["expressions/path.py:_SOURCE_PATH", "expressions/trivia.py:_SOURCE_BYTES",
     "mapping.py:EXPRESSION_TYPES", "mapping.py:TREE_SITTER_TYPE_TO_EXPRESSION",
     "parser.py:_PARSER_LOCAL", "resolution.py:_CONTEXTS"] := by decide

/-! ## (c) Schedules -/
open Nima.Sched

/-- Translator tie: `_PARSER_LOCAL` is a `threading.local`, `_SOURCE_BYTES` and `_SOURCE_PATH` are
    `ContextVar`s — the configuration `non_interference` is about. -/
theorem tie_sched_cfg : Gen.ProcState.schedCfg = some Cfg.code := by decide

/-- Both context managers reset their token in a `finally` (the model's `ctxReset` always
    restores the value saved by the matching `ctxSet`). -/
theorem tie_ctx_reset : Gen.ProcState.ctxResetInFinally = some true := by decide

/-- `_CONTEXTS` is only ever indexed by `id(expr)`, stores `(ref(expr, callback), context)` and
    `_get_context` compares the weak reference's target with the asking object (the model's
    `regStore` / `regFree` / `regGet`). -/
theorem tie_registry : Gen.ProcState.registryKeyedById = some true ∧
    Gen.ProcState.registryWeakrefGuard = some true := by decide

/-- **Non-interference.**  For every schedule of parser, context-variable and registry steps of
    any number of threads (valid: a new object's `id` is not that of a live object), what thread
    `i` observes is what it observes when it runs its own steps alone, in the same order. -/
theorem non_interference (sc : Sched) (i : Tid) (hv : ValidFrom State.init Cfg.code sc) :
    obsOf i (run Cfg.code State.init sc).2 = obsOf i (run Cfg.code State.init (proj i sc)).2 :=
  Nima.Sched.non_interference sc i hv

/-- The serial run is itself a legal run, and all of its trace is thread `i`'s. -/
theorem serial_run_valid (sc : Sched) (i : Tid) (hv : ValidFrom State.init Cfg.code sc) :
    ValidFrom State.init Cfg.code (proj i sc) ∧
    obsOf i (run Cfg.code State.init (proj i sc)).2 = (run Cfg.code State.init (proj i sc)).2.map (·.2) :=
  ⟨Nima.Sched.proj_valid sc i hv, Nima.Sched.obsOf_proj _ _ sc i⟩

/-- **History independence on one thread.**  A well-nested block of context-variable steps
    (`with source_path_context(p): … with source_bytes_context(b): …`, whatever parser, registry
    and read steps happen inside) leaves every context-variable cell and the thread's token
    stack exactly as it found them — under every storage configuration — so the next document
    processed on the same thread starts from the same context state; and no reset in it fails. -/
theorem balanced_restores (c : Cfg) (t : Tid) (ops : List Op) (hb : Balanced ops) (s : Sched.State) :
    (run c s (solo t ops)).1.cell = s.cell ∧ (run c s (solo t ops)).1.toks = s.toks :=
  Nima.Sched.balanced_restores c t ops hb s

theorem balanced_no_ctx_err (c : Cfg) (t : Tid) (ops : List Op) (hb : Balanced ops) (s : Sched.State) :
    ∀ p ∈ ops.zip (run c s (solo t ops)).2, (∃ v, p.1 = .ctxReset v) → p.2.2 = .unit :=
  Nima.Sched.balanced_no_ctx_err c t ops hb s

/-- Non-vacuity: what `parse_file` executes is such a block. -/
example : Balanced [.ctxSet .path 1, .getParser, .parseBegin 7, .parseEnd, .ctxSet .bytes 2,
    .ctxGet .bytes, .ctxReset .bytes, .ctxReset .path] :=
  .block (.plain rfl (.plain rfl (.plain rfl (.block (.plain rfl .nil) .nil)))) .nil

/-- Each per-thread storage is needed: with a process-wide parser / source-bytes cell /
    source-path cell there is a schedule on which thread 0 observes another thread's data. -/
theorem cex_shared_parser : ∃ (sc : Sched) (i : Tid), ValidFrom State.init ⟨false, true, true⟩ sc ∧
    obsOf i (run ⟨false, true, true⟩ State.init sc).2 ≠
      obsOf i (run ⟨false, true, true⟩ State.init (proj i sc)).2 := Nima.Sched.cex_shared_parser

theorem cex_shared_bytes : ∃ (sc : Sched) (i : Tid), ValidFrom State.init ⟨true, false, true⟩ sc ∧
    obsOf i (run ⟨true, false, true⟩ State.init sc).2 ≠
      obsOf i (run ⟨true, false, true⟩ State.init (proj i sc)).2 := Nima.Sched.cex_shared_bytes

theorem cex_shared_path : ∃ (sc : Sched) (i : Tid), ValidFrom State.init ⟨true, true, false⟩ sc ∧
    obsOf i (run ⟨true, true, false⟩ State.init sc).2 ≠
      obsOf i (run ⟨true, true, false⟩ State.init (proj i sc)).2 := Nima.Sched.cex_shared_path

/-- The hypothesis on ids is needed (and is CPython's guarantee, listed under assumptions). -/
theorem cex_id_collision : ∃ (sc : Sched) (i : Tid),
    obsOf i (run Cfg.code State.init sc).2 ≠ obsOf i (run Cfg.code State.init (proj i sc)).2 :=
  Nima.Sched.cex_id_collision

/-- Non-vacuity: a valid schedule with id reuse across threads, interleaved parses and nested
    context variables; thread 0 sees its own document, its own source bytes and its own context. -/
example :
    let sc : Sched := [(0, .getParser), (1, .getParser), (0, .parseBegin 7), (1, .parseBegin 9),
      (0, .ctxSet .bytes 70), (1, .ctxSet .bytes 90), (1, .regAlloc 0 5), (1, .regStore 0 99),
      (1, .regFree 0), (0, .regAlloc 0 5), (0, .regGet 0), (0, .regStore 0 77), (1, .parseEnd),
      (0, .parseEnd), (0, .ctxGet .bytes), (0, .regGet 0), (0, .ctxReset .bytes), (0, .ctxGet .bytes)]
    obsOf 0 (run Cfg.code State.init sc).2 =
      [.flag true, .unit, .unit, .unit, .val none, .unit, .val (some 7), .val (some 70),
       .val (some 77), .unit, .val none] := by decide

end Nima.C15
