import NimaVerif.Props.C17
open Nima.C17
#print axioms tie_resolved_path
#print axioms tie_plumbing
#print axioms recipe_sound
#print axioms implGet_refines
#print axioms lookup_relative_to_importing_file
#print axioms cwd_and_spelling_independent
#print axioms cwd_independent_absolute
#print axioms result_is_function_of_located_file
#print axioms home_irrelevant_without_home_literals
#print axioms nonpath_argument_type_error
#print axioms angle_path_value_error
#print axioms missing_file_os_error
#print axioms hop_reads_the_lexical_target
#print axioms home_hop_reads_the_lexical_target
#print axioms home_literal_independent_of_importing_file
#print axioms home_literal_resolved
#print axioms home_literal_in_home_directory
#print axioms full_holds
#print axioms home_literal_reads_home
