"""G-prog: valid Nix programs with arbitrary trivia in the gaps between tokens.

Enumerative mode: every template × every inter-token gap × every entry of the trivia menu.
Random mode: templates nested into each other (leaf substitution) with trivia injected in 1–3 gaps.
A candidate is kept only if tree-sitter accepts it and its code-token sequence is the template's
(the injected trivia did not glue or split tokens)."""
from __future__ import annotations

import random

from ..oracle import cstread
from .templates import TEMPLATES

# (id, text, class); `{I}` is replaced by the indentation of the line the gap ends on
MENU = [
    ("none", "", "ws"),
    ("space", " ", "ws"),
    ("spaces", "   ", "ws"),
    ("tab", "\t", "ws"),
    ("nl", "\n", "ws"),
    ("nl-indent", "\n    ", "ws"),
    ("blank", "\n\n", "ws"),
    ("blanks", "\n\n\n\n", "ws"),
    ("crlf", "\r\n", "ws"),
    ("eol-comment", " # c{N}\n", "line"),
    ("own-line-comment", "\n# c{N}\n", "line"),
    ("own-line-comment-blank", "\n\n  # c{N}\n\n", "line"),
    ("block-inline", " /* c{N} */ ", "block"),
    ("block-own-line", "\n/* c{N} */\n", "block"),
    ("doc-inline", " /** c{N} */ ", "block"),
    ("block-multi", "\n/* c{N}\n   more\n */\n", "multi"),
    ("block-multi-ragged", " /* c{N}\n       x\n  y */ ", "multi"),
    ("nonascii-comment", " # çé✓ c{N}\n", "line"),
    ("two-blocks-inline", " /* c{N} */ /* d{N} */ ", "block"),
    ("two-line-comments", "\n# c{N}\n# d{N}\n", "line"),
    ("eol-comment-blank", " # c{N}\n\n", "line"),
    ("eol-then-own-line", " # c{N}\n# d{N}\n", "line"),
    ("eol-then-block", " # c{N}\n/* d{N} */\n", "line"),
    ("two-blocks-own-line", "\n/* c{N} */ /* d{N} */\n", "block"),
    ("block-multi-then-line", "\n/* c{N}\n   more */ # d{N}\n", "multi"),
]
MENU_BY_ID = {m[0]: m for m in MENU}


def leaf_spans(text: str):
    root = cstread.ts_parse(text)
    return [n for n in cstread.leaves(root) if n.end_byte > n.start_byte]


def code_tokens(text: str) -> list[str] | None:
    root = cstread.ts_parse(text)
    if root.has_error:
        return None
    b = text.encode("utf-8")
    return [b[n.start_byte:n.end_byte].decode("utf-8", "replace") for n in cstread.leaves(root)
            if n.type != "comment" and n.end_byte > n.start_byte]


def gaps_of(text: str):
    """byte ranges of the gaps: before the first leaf, between consecutive leaves, after the last"""
    b = text.encode("utf-8")
    ls = leaf_spans(text)
    out = []
    prev_end = 0
    for n in ls:
        out.append((prev_end, n.start_byte))
        prev_end = n.end_byte
    out.append((prev_end, len(b)))
    return out, ls


def context_of(text: str, gap_index: int):
    """(parent node type, token type before, token type after) of a gap — the classification key"""
    gs, ls = gaps_of(text)
    before = ls[gap_index - 1] if gap_index - 1 >= 0 else None
    after = ls[gap_index] if gap_index < len(ls) else None

    def tok_type(n):
        if n is None:
            return "<edge>"
        return n.type

    # lowest common ancestor
    def ancestors(n):
        out = []
        while n is not None:
            out.append(n)
            n = n.parent
        return out

    if before is None or after is None:
        parent = "source_code"
    else:
        ab = ancestors(before)
        ids = {x.id for x in ab}
        parent = "source_code"
        for x in ancestors(after):
            if x.id in ids:
                parent = x.type
                break
    return parent, tok_type(before), tok_type(after)


def inject(text: str, gap_index: int, trivia: str) -> str:
    gs, _ = gaps_of(text)
    s, e = gs[gap_index]
    b = text.encode("utf-8")
    return (b[:s] + trivia.encode("utf-8") + b[e:]).decode("utf-8")


def enumerate_injections(stride: int = 1, offset: int = 0):
    """yields (info, text) for every template × gap × menu entry that yields a valid program with
    the template's code tokens"""
    n = 0
    for tname, t in TEMPLATES:
        base = code_tokens(t)
        if base is None:
            continue
        gs, ls = gaps_of(t)
        for gi in range(len(gs)):
            ctx = context_of(t, gi)
            for vid, vtext, vclass in MENU:
                n += 1
                if (n + offset) % stride:
                    continue
                cand = inject(t, gi, vtext.replace("{N}", str(n)))
                ct = code_tokens(cand)
                if ct != base:
                    continue
                yield {"template": tname, "gap": gi, "variant": vid, "vclass": vclass, "parent": ctx[0],
                       "before": ctx[1], "after": ctx[2]}, cand


PAIR_VARIANTS = ["space", "nl", "blank", "eol-comment", "own-line-comment", "block-inline"]


def enumerate_adjacent_pairs():
    """every template x every pair of ADJACENT gaps x 6x6 trivia variants; yields
    (info, base, text) with info["injections"] as in random_injections"""
    n = 0
    for tname, t in TEMPLATES:
        base = code_tokens(t)
        if base is None:
            continue
        gs, _ = gaps_of(t)
        for gi in range(len(gs) - 1):
            ca, cb = context_of(t, gi), context_of(t, gi + 1)
            for va in PAIR_VARIANTS:
                for vb in PAIR_VARIANTS:
                    n += 1
                    ta = MENU_BY_ID[va][1].replace("{N}", str(n) + "a")
                    tb = MENU_BY_ID[vb][1].replace("{N}", str(n) + "b")
                    cand = inject(inject(t, gi + 1, tb), gi, ta)
                    if code_tokens(cand) != base:
                        continue
                    yield {"template": tname, "injections": [
                        {"gap": gi, "variant": va, "vclass": MENU_BY_ID[va][2], "trivia": ta, "parent": ca[0], "before": ca[1], "after": ca[2]},
                        {"gap": gi + 1, "variant": vb, "vclass": MENU_BY_ID[vb][2], "trivia": tb, "parent": cb[0], "before": cb[1], "after": cb[2]},
                    ]}, t, cand


def random_program(rng: random.Random, depth: int) -> str:
    """nest templates: replace an identifier/integer leaf of a template by a parenthesised template"""
    name, t = rng.choice(TEMPLATES)
    for _ in range(depth):
        ls = [n for n in leaf_spans(t) if n.type in ("identifier", "integer_expression")
              and n.parent is not None and n.parent.type in ("variable_expression", "integer_expression", "list_expression",
                                                             "binding", "apply_expression", "binary_expression")]
        cands = [n for n in ls if n.parent.type in ("variable_expression", "integer_expression") or n.type == "integer_expression"]
        if not cands:
            break
        n = rng.choice(cands)
        _, sub = rng.choice(TEMPLATES)
        if len(sub) > 120:
            continue
        b = t.encode("utf-8")
        t2 = (b[:n.start_byte] + b"(" + sub.encode("utf-8") + b")" + b[n.end_byte:]).decode("utf-8")
        if code_tokens(t2) is not None:
            t = t2
    return t


def random_injections(rng: random.Random, n: int, depth: int):
    """yields (info, base_text, injected_text); info["injections"] refer to gaps of the BASE text"""
    for i in range(n):
        t = random_program(rng, rng.randint(0, depth))
        if t.count("\n") > 150:
            continue  # keep far below the line count at which py-tree-sitter 0.26 corrupts memory
        base = code_tokens(t)
        if base is None:
            continue
        gs, _ = gaps_of(t)
        k = rng.randint(1, 3)
        infos = []
        cand = t
        # inject from the last gap to the first so that the indices (of the base) stay valid
        for gi in sorted(rng.sample(range(len(gs)), min(k, len(gs))), reverse=True):
            vid, vtext, vclass = rng.choice(MENU)
            ctx = context_of(t, gi)
            trivia = vtext.replace("{N}", str(i * 10 + gi))
            cand = inject(cand, gi, trivia)
            infos.append({"gap": gi, "variant": vid, "vclass": vclass, "trivia": trivia,
                          "parent": ctx[0], "before": ctx[1], "after": ctx[2]})
        if code_tokens(cand) != base:
            continue
        yield {"template": "random", "injections": infos}, t, cand
