import NimaVerif.Props.C09
open Nima.C09
#print axioms split_scope_none
