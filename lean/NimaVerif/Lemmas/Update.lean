import NimaVerif.Model.Frame
/-!
Algebra of update-by-identity over the nested `Node` type (mutual structural induction on
`Node` / `List Node`), lifted to `Layer` and `Doc`. Used by C04 (frame) and C19 (composition).
-/
namespace Nima
-- name tokens are compared by spelling in this file (see `NameCmp` in Model/Edit.lean)
attribute [local instance] NameCmp.spelled

open Node

/-! ## list forms -/

theorem updBindL_eq_map (id : Nat) (v : Node) : ∀ l, updBindL id v l = l.map (updBind id v)
  | [] => rfl
  | x :: xs => by simp [updBindL, updBindL_eq_map id v xs]

theorem updSetL_eq_map (sid : Nat) (f : Node → Node) : ∀ l, updSetL sid f l = l.map (updSet sid f)
  | [] => rfl
  | x :: xs => by simp [updSetL, updSetL_eq_map sid f xs]

@[simp] theorem updBindL_nil (id : Nat) (v : Node) : updBindL id v [] = [] := rfl
@[simp] theorem updSetL_nil (sid : Nat) (f : Node → Node) : updSetL sid f [] = [] := rfl

theorem updBindL_append (id : Nat) (v : Node) (xs ys : List Node) :
    updBindL id v (xs ++ ys) = updBindL id v xs ++ updBindL id v ys := by
  simp [updBindL_eq_map]

theorem updSetL_append (sid : Nat) (f : Node → Node) (xs ys : List Node) :
    updSetL sid f (xs ++ ys) = updSetL sid f xs ++ updSetL sid f ys := by
  simp [updSetL_eq_map]

theorem hasBindL_eq_any (j : Nat) : ∀ l, hasBindL j l = l.any (hasBind j)
  | [] => rfl
  | x :: xs => by simp [hasBindL, hasBindL_eq_any j xs]

theorem hasSetL_eq_any (s : Nat) : ∀ l, hasSetL s l = l.any (hasSet s)
  | [] => rfl
  | x :: xs => by simp [hasSetL, hasSetL_eq_any s xs]

theorem hasBindL_append (j : Nat) (xs ys : List Node) :
    hasBindL j (xs ++ ys) = (hasBindL j xs || hasBindL j ys) := by
  simp [hasBindL_eq_any]

theorem hasSetL_append (s : Nat) (xs ys : List Node) :
    hasSetL s (xs ++ ys) = (hasSetL s xs || hasSetL s ys) := by
  simp [hasSetL_eq_any]

/-! ## `updBind`: idempotent, absorbing, commuting on distinct identities -/

mutual
/-- the later write to a Binding object wins: everything but the value slot of `id` is untouched
    by the earlier write. -/
theorem updBind_absorb (id : Nat) (v w : Node) :
    ∀ n : Node, updBind id w (updBind id v n) = updBind id w n
  | .atom _ => by simp [updBind]
  | .ident _ => by simp [updBind]
  | .set s vs o m r => by simp [updBind, updBindL_absorb id v w vs, updBindL_absorb id v w o]
  | .bind i n ne val b a => by
      by_cases h : i = id
      · simp [updBind, h]
      · simp [updBind, h, updBind_absorb id v w val]
  | .inherit _ _ => by simp [updBind]
  | .entry segs leaf b a => by simp [updBind, updBind_absorb id v w leaf]
theorem updBindL_absorb (id : Nat) (v w : Node) :
    ∀ l : List Node, updBindL id w (updBindL id v l) = updBindL id w l
  | [] => rfl
  | x :: xs => by simp [updBindL, updBind_absorb id v w x, updBindL_absorb id v w xs]
end

/-- `updBind id v ∘ updBind id v = updBind id v`, unconditionally -/
theorem updBind_idem (id : Nat) (v : Node) (n : Node) :
    updBind id v (updBind id v n) = updBind id v n := updBind_absorb id v v n

theorem updBindL_idem (id : Nat) (v : Node) (l : List Node) :
    updBindL id v (updBindL id v l) = updBindL id v l := updBindL_absorb id v v l

mutual
/-- no Binding object `j` inside: the write is a no-op -/
theorem updBind_of_not_hasBind (j : Nat) (v : Node) :
    ∀ n : Node, hasBind j n = false → updBind j v n = n
  | .atom _, _ => by simp [updBind]
  | .ident _, _ => by simp [updBind]
  | .set s vs o m r, h => by
      simp only [hasBind, Bool.or_eq_false_iff] at h
      simp [updBind, updBindL_of_not_hasBind j v vs h.1, updBindL_of_not_hasBind j v o h.2]
  | .bind i n ne val b a, h => by
      simp only [hasBind, Bool.or_eq_false_iff, beq_eq_false_iff_ne, ne_eq] at h
      simp [updBind, h.1, updBind_of_not_hasBind j v val h.2]
  | .inherit _ _, _ => by simp [updBind]
  | .entry segs leaf b a, h => by
      simp only [hasBind] at h
      simp [updBind, updBind_of_not_hasBind j v leaf h]
theorem updBindL_of_not_hasBind (j : Nat) (v : Node) :
    ∀ l : List Node, hasBindL j l = false → updBindL j v l = l
  | [], _ => rfl
  | x :: xs, h => by
      simp only [hasBindL, Bool.or_eq_false_iff] at h
      simp [updBindL, updBind_of_not_hasBind j v x h.1, updBindL_of_not_hasBind j v xs h.2]
end

mutual
/-- writes to two different Binding objects commute (the written values do not contain the other
    object — true of freshly parsed values, whose objects are new). -/
theorem updBind_comm (i j : Nat) (v w : Node) (hij : i ≠ j)
    (hv : hasBind j v = false) (hw : hasBind i w = false) :
    ∀ n : Node, updBind i v (updBind j w n) = updBind j w (updBind i v n)
  | .atom _ => by simp [updBind]
  | .ident _ => by simp [updBind]
  | .set s vs o m r => by
      simp [updBind, updBindL_comm i j v w hij hv hw vs, updBindL_comm i j v w hij hv hw o]
  | .bind k n ne val b a => by
      by_cases hki : k = i
      · subst hki
        simp [updBind, hij, updBind_of_not_hasBind j w v hv]
      · by_cases hkj : k = j
        · subst hkj
          simp [updBind, hki, updBind_of_not_hasBind i v w hw]
        · simp [updBind, hki, hkj, updBind_comm i j v w hij hv hw val]
  | .inherit _ _ => by simp [updBind]
  | .entry segs leaf b a => by simp [updBind, updBind_comm i j v w hij hv hw leaf]
theorem updBindL_comm (i j : Nat) (v w : Node) (hij : i ≠ j)
    (hv : hasBind j v = false) (hw : hasBind i w = false) :
    ∀ l : List Node, updBindL i v (updBindL j w l) = updBindL j w (updBindL i v l)
  | [] => rfl
  | x :: xs => by
      simp [updBindL, updBind_comm i j v w hij hv hw x, updBindL_comm i j v w hij hv hw xs]
end

/-! ## `updBind` frame: what a write to object `id` leaves alone -/

/-- every other Binding object keeps identity, name, nested flag, `before`/`after`, and its value is
    changed only inside, by the same write -/
theorem updBind_frame (id i : Nat) (n : Text) (ne : Bool) (v val : Node) (b a : Payload)
    (h : i ≠ id) :
    updBind id v (.bind i n ne val b a) = .bind i n ne (updBind id v val) b a := by
  simp [updBind, h]

/-- the written object keeps identity, name, nested flag and `before`/`after` -/
theorem updBind_self (id : Nat) (n : Text) (ne : Bool) (v val : Node) (b a : Payload) :
    updBind id v (.bind id n ne val b a) = .bind id n ne v b a := by
  simp [updBind]

mutual
/-- the frames (identity, name, nested, before, after — in document order) of all bindings outside
    the value of `id` are invariant under a write to `id` -/
theorem frames_updBind (id : Nat) (v : Node) :
    ∀ n : Node, frames id (updBind id v n) = frames id n
  | .atom _ => by simp [updBind]
  | .ident _ => by simp [updBind]
  | .set s vs o m r => by simp [updBind, frames, framesL_updBind id v vs, framesL_updBind id v o]
  | .bind i n ne val b a => by
      by_cases h : i = id
      · simp [updBind, frames, h]
      · simp [updBind, frames, h, frames_updBind id v val]
  | .inherit _ _ => by simp [updBind]
  | .entry segs leaf b a => by simp [updBind, frames, frames_updBind id v leaf]
theorem framesL_updBind (id : Nat) (v : Node) :
    ∀ l : List Node, framesL id (updBindL id v l) = framesL id l
  | [] => rfl
  | x :: xs => by simp [updBindL, framesL, frames_updBind id v x, framesL_updBind id v xs]
end

/-! ## shape of a node under `updBind` -/

@[simp] theorem isBind_updBind (id : Nat) (v n : Node) : (updBind id v n).isBind = n.isBind := by
  cases n <;> simp only [updBind] <;> (try split) <;> rfl
@[simp] theorem isSet_updBind (id : Nat) (v n : Node) : (updBind id v n).isSet = n.isSet := by
  cases n <;> simp only [updBind] <;> (try split) <;> rfl
@[simp] theorem bindId_updBind (id : Nat) (v n : Node) : (updBind id v n).bindId? = n.bindId? := by
  cases n <;> simp only [updBind] <;> (try split) <;> rfl
@[simp] theorem bindName_updBind (id : Nat) (v n : Node) :
    (updBind id v n).bindName? = n.bindName? := by
  cases n <;> simp only [updBind] <;> (try split) <;> rfl
@[simp] theorem bindNested_updBind (id : Nat) (v n : Node) :
    (updBind id v n).bindNested = n.bindNested := by
  cases n <;> simp only [updBind] <;> (try split) <;> rfl
@[simp] theorem setSid_updBind (id : Nat) (v n : Node) : (updBind id v n).setSid? = n.setSid? := by
  cases n <;> simp only [updBind] <;> (try split) <;> rfl
@[simp] theorem setMultiline_updBind (id : Nat) (v n : Node) :
    (updBind id v n).setMultiline = n.setMultiline := by
  cases n <;> simp only [updBind] <;> (try split) <;> rfl
@[simp] theorem setRecursive_updBind (id : Nat) (v n : Node) :
    (updBind id v n).setRecursive = n.setRecursive := by
  cases n <;> simp only [updBind] <;> (try split) <;> rfl
@[simp] theorem setValues_updBind (id : Nat) (v n : Node) :
    (updBind id v n).setValues = updBindL id v n.setValues := by
  cases n <;> simp only [updBind] <;> (try split) <;> rfl
@[simp] theorem setOrder_updBind (id : Nat) (v n : Node) :
    (updBind id v n).setOrder = updBindL id v n.setOrder := by
  cases n <;> simp only [updBind] <;> (try split) <;> rfl

/-! ## `updSet`: fusion, no-op, idempotence, commutation, frame -/

mutual
/-- two in-place mutations of the same AttributeSet object fuse (the first keeps the identity) -/
theorem updSet_fuse (sid : Nat) (f g : Node → Node)
    (hf : ∀ vs o m r, (f (.set sid vs o m r)).setSid? = some sid) :
    ∀ n : Node, updSet sid g (updSet sid f n) = updSet sid (fun x => g (f x)) n
  | .atom _ => by simp [updSet]
  | .ident _ => by simp [updSet]
  | .set s vs o m r => by
      by_cases h : s = sid
      · subst h
        have := hf vs o m r
        simp only [updSet, if_true]
        cases hx : f (.set s vs o m r) <;> simp [hx, setSid?] at this
        subst this
        simp [updSet]
      · simp [updSet, h, updSetL_fuse sid f g hf vs, updSetL_fuse sid f g hf o]
  | .bind i n ne val b a => by simp [updSet, updSet_fuse sid f g hf val]
  | .inherit _ _ => by simp [updSet]
  | .entry segs leaf b a => by simp [updSet, updSet_fuse sid f g hf leaf]
theorem updSetL_fuse (sid : Nat) (f g : Node → Node)
    (hf : ∀ vs o m r, (f (.set sid vs o m r)).setSid? = some sid) :
    ∀ l : List Node, updSetL sid g (updSetL sid f l) = updSetL sid (fun x => g (f x)) l
  | [] => rfl
  | x :: xs => by simp [updSetL, updSet_fuse sid f g hf x, updSetL_fuse sid f g hf xs]
end

mutual
/-- no AttributeSet object `sid` inside: the mutation is a no-op -/
theorem updSet_of_not_hasSet (sid : Nat) (f : Node → Node) :
    ∀ n : Node, hasSet sid n = false → updSet sid f n = n
  | .atom _, _ => by simp [updSet]
  | .ident _, _ => by simp [updSet]
  | .set s vs o m r, h => by
      simp only [hasSet, Bool.or_eq_false_iff, beq_eq_false_iff_ne, ne_eq] at h
      simp [updSet, h.1.1, updSetL_of_not_hasSet sid f vs h.1.2, updSetL_of_not_hasSet sid f o h.2]
  | .bind i n ne val b a, h => by
      simp only [hasSet] at h
      simp [updSet, updSet_of_not_hasSet sid f val h]
  | .inherit _ _, _ => by simp [updSet]
  | .entry segs leaf b a, h => by
      simp only [hasSet] at h
      simp [updSet, updSet_of_not_hasSet sid f leaf h]
theorem updSetL_of_not_hasSet (sid : Nat) (f : Node → Node) :
    ∀ l : List Node, hasSetL sid l = false → updSetL sid f l = l
  | [], _ => rfl
  | x :: xs, h => by
      simp only [hasSetL, Bool.or_eq_false_iff] at h
      simp [updSetL, updSet_of_not_hasSet sid f x h.1, updSetL_of_not_hasSet sid f xs h.2]
end

mutual
/-- a mutation that fixes every node satisfying `P` is the identity on a tree all of whose
    `sid`-objects satisfy `P` (`P` closed under the sub-node relation is not needed: it is asked
    of the occurrences themselves through `Q`). -/
theorem updSet_eq_self (sid : Nat) (f : Node → Node) (Q : Node → Bool)
    (hQset : ∀ s vs o m r, Q (.set s vs o m r) = true →
      (s = sid → f (.set s vs o m r) = .set s vs o m r) ∧
      (∀ x ∈ vs, Q x = true) ∧ (∀ x ∈ o, Q x = true))
    (hQbind : ∀ i n ne v b a, Q (.bind i n ne v b a) = true → Q v = true)
    (hQentry : ∀ sg l b a, Q (.entry sg l b a) = true → Q l = true) :
    ∀ n : Node, Q n = true → updSet sid f n = n
  | .atom _, _ => by simp [updSet]
  | .ident _, _ => by simp [updSet]
  | .set s vs o m r, h => by
      obtain ⟨h1, h2, h3⟩ := hQset s vs o m r h
      by_cases hs : s = sid
      · simp [updSet, hs]
        exact hs ▸ h1 hs
      · simp [updSet, hs, updSetL_eq_self sid f Q hQset hQbind hQentry vs h2,
          updSetL_eq_self sid f Q hQset hQbind hQentry o h3]
  | .bind i n ne val b a, h => by
      simp [updSet, updSet_eq_self sid f Q hQset hQbind hQentry val (hQbind _ _ _ _ _ _ h)]
  | .inherit _ _, _ => by simp [updSet]
  | .entry segs leaf b a, h => by
      simp [updSet, updSet_eq_self sid f Q hQset hQbind hQentry leaf (hQentry _ _ _ _ h)]
theorem updSetL_eq_self (sid : Nat) (f : Node → Node) (Q : Node → Bool)
    (hQset : ∀ s vs o m r, Q (.set s vs o m r) = true →
      (s = sid → f (.set s vs o m r) = .set s vs o m r) ∧
      (∀ x ∈ vs, Q x = true) ∧ (∀ x ∈ o, Q x = true))
    (hQbind : ∀ i n ne v b a, Q (.bind i n ne v b a) = true → Q v = true)
    (hQentry : ∀ sg l b a, Q (.entry sg l b a) = true → Q l = true) :
    ∀ l : List Node, (∀ x ∈ l, Q x = true) → updSetL sid f l = l
  | [], _ => rfl
  | x :: xs, h => by
      simp [updSetL, updSet_eq_self sid f Q hQset hQbind hQentry x (h x (by simp)),
        updSetL_eq_self sid f Q hQset hQbind hQentry xs (fun y hy => h y (by simp [hy]))]
end

/-- `updSet sid f ∘ updSet sid f = updSet sid f` for an idempotent, identity-keeping `f` -/
theorem updSet_idem (sid : Nat) (f : Node → Node)
    (hf : ∀ vs o m r, (f (.set sid vs o m r)).setSid? = some sid)
    (hff : ∀ vs o m r, f (f (.set sid vs o m r)) = f (.set sid vs o m r)) (n : Node) :
    updSet sid f (updSet sid f n) = updSet sid f n := by
  rw [updSet_fuse sid f f hf]
  -- pointwise equal on `sid`-objects
  suffices h : ∀ (g g' : Node → Node), (∀ vs o m r, g (.set sid vs o m r) = g' (.set sid vs o m r)) →
      (∀ n, updSet sid g n = updSet sid g' n) ∧ (∀ l, updSetL sid g l = updSetL sid g' l) from
    (h _ _ (fun vs o m r => hff vs o m r)).1 n
  intro g g' hg
  have key : ∀ n, updSet sid g n = updSet sid g' n := by
    intro n
    induction n using Node.rec (motive_2 := fun l => updSetL sid g l = updSetL sid g' l) with
    | atom _ => simp [updSet]
    | ident _ => simp [updSet]
    | set s vs o m r ih1 ih2 =>
      by_cases h : s = sid
      · subst h; simp [updSet, hg]
      · simp [updSet, h, ih1, ih2]
    | bind i n ne val b a ih => simp [updSet, ih]
    | inherit _ _ => simp [updSet]
    | entry segs leaf b a ih => simp [updSet, ih]
    | nil => rfl
    | cons x xs ih1 ih2 => simp [updSetL, ih1, ih2]
  exact ⟨key, fun l => by simp [updSetL_eq_map, key]⟩

/-- mutations of two different AttributeSet objects commute when each mutation commutes with the
    other update on the object it is applied to (e.g. appending a node that does not contain the
    other object) -/
theorem updSet_comm (s t : Nat) (f g : Node → Node) (hst : s ≠ t)
    (hf : ∀ vs o m r, f (updSet t g (.set s vs o m r)) = updSet t g (f (.set s vs o m r)))
    (hg : ∀ vs o m r, g (updSet s f (.set t vs o m r)) = updSet s f (g (.set t vs o m r))) (n : Node) :
    updSet s f (updSet t g n) = updSet t g (updSet s f n) := by
  induction n using Node.rec
    (motive_2 := fun l => updSetL s f (updSetL t g l) = updSetL t g (updSetL s f l)) with
  | atom _ => simp [updSet]
  | ident _ => simp [updSet]
  | set k vs o m r ih1 ih2 =>
    by_cases hks : k = s
    · subst hks
      have h1 : updSet t g (.set k vs o m r) = .set k (updSetL t g vs) (updSetL t g o) m r := by
        simp [updSet, hst]
      rw [h1]
      simp only [updSet, if_true]
      rw [← h1, hf]
    · by_cases hkt : k = t
      · subst hkt
        have h1 : updSet s f (.set k vs o m r) = .set k (updSetL s f vs) (updSetL s f o) m r := by
          simp [updSet, hks]
        rw [h1]
        simp only [updSet, if_true]
        rw [← h1, hg]
      · simp [updSet, hks, hkt, ih1, ih2]
  | bind i n ne val b a ih => simp [updSet, ih]
  | inherit _ _ => simp [updSet]
  | entry segs leaf b a ih => simp [updSet, ih]
  | nil => rfl
  | cons x xs ih1 ih2 => simp [updSetL, ih1, ih2]

/-- every Binding object keeps identity, name, nested flag and `before`/`after` under a set
    mutation; its value is changed only inside, by the same mutation -/
theorem updSet_frame (sid i : Nat) (f : Node → Node) (n : Text) (ne : Bool) (val : Node)
    (b a : Payload) :
    updSet sid f (.bind i n ne val b a) = .bind i n ne (updSet sid f val) b a := by
  simp [updSet]

/-- every other AttributeSet object keeps identity and flags; its members are changed only inside -/
theorem updSet_frame_set (sid s : Nat) (f : Node → Node) (vs o : List Node) (m r : Bool)
    (h : s ≠ sid) :
    updSet sid f (.set s vs o m r) = .set s (updSetL sid f vs) (updSetL sid f o) m r := by
  simp [updSet, h]

/-- at the object itself the mutation is just `f` -/
theorem updSet_root (sid : Nat) (f : Node → Node) (vs o : List Node) (m r : Bool) :
    updSet sid f (.set sid vs o m r) = f (.set sid vs o m r) := by
  simp [updSet]

/-! ## identities below a bound do not occur -/

mutual
theorem not_hasBind_of_maxId_lt (j : Nat) : ∀ n : Node, maxId n < j → hasBind j n = false
  | .atom _, _ => rfl
  | .ident _, _ => rfl
  | .set s vs o m r, h => by
      simp only [maxId] at h
      simp [hasBind, not_hasBindL_of_maxIdL_lt j vs (by omega), not_hasBindL_of_maxIdL_lt j o (by omega)]
  | .bind i n ne val b a, h => by
      simp only [maxId] at h
      simp only [hasBind, Bool.or_eq_false_iff, beq_eq_false_iff_ne, ne_eq]
      exact ⟨by omega, not_hasBind_of_maxId_lt j val (by omega)⟩
  | .inherit _ _, _ => rfl
  | .entry segs leaf b a, h => by
      simp only [maxId] at h
      simp [hasBind, not_hasBind_of_maxId_lt j leaf h]
theorem not_hasBindL_of_maxIdL_lt (j : Nat) : ∀ l : List Node, maxIdL l < j → hasBindL j l = false
  | [], _ => rfl
  | x :: xs, h => by
      simp only [maxIdL] at h
      simp [hasBindL, not_hasBind_of_maxId_lt j x (by omega), not_hasBindL_of_maxIdL_lt j xs (by omega)]
end

mutual
theorem not_hasSet_of_maxId_lt (j : Nat) : ∀ n : Node, maxId n < j → hasSet j n = false
  | .atom _, _ => rfl
  | .ident _, _ => rfl
  | .set s vs o m r, h => by
      simp only [maxId] at h
      simp only [hasSet, Bool.or_eq_false_iff, beq_eq_false_iff_ne, ne_eq]
      exact ⟨⟨by omega, not_hasSetL_of_maxIdL_lt j vs (by omega)⟩,
        not_hasSetL_of_maxIdL_lt j o (by omega)⟩
  | .bind i n ne val b a, h => by
      simp only [maxId] at h
      simp [hasSet, not_hasSet_of_maxId_lt j val (by omega)]
  | .inherit _ _, _ => rfl
  | .entry segs leaf b a, h => by
      simp only [maxId] at h
      simp [hasSet, not_hasSet_of_maxId_lt j leaf h]
theorem not_hasSetL_of_maxIdL_lt (j : Nat) : ∀ l : List Node, maxIdL l < j → hasSetL j l = false
  | [], _ => rfl
  | x :: xs, h => by
      simp only [maxIdL] at h
      simp [hasSetL, not_hasSet_of_maxId_lt j x (by omega), not_hasSetL_of_maxIdL_lt j xs (by omega)]
end

/-! ## lifted to layers and documents -/


theorem Layer.updBind_absorb (id : Nat) (v w : Node) (l : Layer) :
    (l.updBind id v).updBind id w = l.updBind id w := by
  simp [Layer.updBind, Nima.updBindL_absorb]
theorem Layer.updBind_comm (i j : Nat) (v w : Node) (hij : i ≠ j)
    (hv : Node.hasBind j v = false) (hw : Node.hasBind i w = false) (l : Layer) :
    (l.updBind j w).updBind i v = (l.updBind i v).updBind j w := by
  simp [Layer.updBind, Nima.updBindL_comm i j v w hij hv hw]
theorem Layer.updBind_of_not_hasBind (j : Nat) (v : Node) (l : Layer) (h : l.hasBind j = false) :
    l.updBind j v = l := by
  simp only [Layer.hasBind, Bool.or_eq_false_iff] at h
  simp [Layer.updBind, updBindL_of_not_hasBind j v _ h.1, updBindL_of_not_hasBind j v _ h.2]
theorem Layer.frames_updBind (id : Nat) (v : Node) (l : Layer) :
    (l.updBind id v).frames id = l.frames id := by
  simp [Layer.updBind, Layer.frames, framesL_updBind]
theorem Layer.updSet_fuse (sid : Nat) (f g : Node → Node)
    (hf : ∀ vs o m r, (f (.set sid vs o m r)).setSid? = some sid) (l : Layer) :
    (l.updSet sid f).updSet sid g = l.updSet sid (fun x => g (f x)) := by
  simp [Layer.updSet, Nima.updSetL_fuse sid f g hf]
theorem Layer.updSet_of_not_hasSet (s : Nat) (f : Node → Node) (l : Layer) (h : l.hasSet s = false) :
    l.updSet s f = l := by
  simp only [Layer.hasSet, Bool.or_eq_false_iff] at h
  simp [Layer.updSet, updSetL_of_not_hasSet s f _ h.1, updSetL_of_not_hasSet s f _ h.2]

theorem Doc.updBind_absorb (id : Nat) (v w : Node) (d : Doc) :
    (d.updBind id v).updBind id w = d.updBind id w := by
  simp [Doc.updBind, Nima.updBind_absorb, Nima.updBindL_absorb, Layer.updBind_absorb, Function.comp_def]

/-- `Doc.updBind id v ∘ Doc.updBind id v = Doc.updBind id v` -/
theorem Doc.updBind_idem (id : Nat) (v : Node) (d : Doc) :
    (d.updBind id v).updBind id v = d.updBind id v := Doc.updBind_absorb id v v d

theorem Doc.updBind_comm (i j : Nat) (v w : Node) (hij : i ≠ j)
    (hv : Node.hasBind j v = false) (hw : Node.hasBind i w = false) (d : Doc) :
    (d.updBind j w).updBind i v = (d.updBind i v).updBind j w := by
  simp [Doc.updBind, Nima.updBind_comm i j v w hij hv hw, Nima.updBindL_comm i j v w hij hv hw,
    Layer.updBind_comm i j v w hij hv hw, Function.comp_def]

theorem Doc.updBind_of_not_hasBind (j : Nat) (v : Node) (d : Doc) (h : d.hasBind j = false) :
    d.updBind j v = d := by
  simp only [Doc.hasBind, Bool.or_eq_false_iff, List.any_eq_false] at h
  obtain ⟨⟨⟨⟨⟨h1, h2⟩, h3⟩, h4⟩, h5⟩, h6⟩ := h
  have e4 : d.stack.map (Layer.updBind j v) = d.stack := by
    conv => rhs; rw [← List.map_id d.stack]
    apply List.map_congr_left
    intro l hl
    exact Layer.updBind_of_not_hasBind j v l (by simpa using h4 l hl)
  have e5 : d.topScope.map (updBindL j v) = d.topScope := by
    cases ht : d.topScope with
    | none => rfl
    | some s => rw [ht] at h5; simp at h5; simp [updBindL_of_not_hasBind j v s h5]
  have e6 : d.scratch.map (Node.updBind j v) = d.scratch := by
    cases ht : d.scratch with
    | none => rfl
    | some s => rw [ht] at h6; simp at h6; simp [Nima.updBind_of_not_hasBind j v s h6]
  simp only [Doc.updBind, Nima.updBind_of_not_hasBind j v _ h1, updBindL_of_not_hasBind j v _ h2,
    updBindL_of_not_hasBind j v _ h3, e4, e5, e6]


theorem Doc.frames_updBind (id : Nat) (v : Node) (d : Doc) :
    (d.updBind id v).frames id = d.frames id := by
  have e4 : (d.stack.map (Layer.updBind id v)).flatMap (·.frames id) = d.stack.flatMap (·.frames id) := by
    simp [List.flatMap_map, Layer.frames_updBind]
  have e5 : ((d.topScope.map (updBindL id v)).map (framesL id)).getD [] =
      (d.topScope.map (framesL id)).getD [] := by
    cases d.topScope <;> simp [Nima.framesL_updBind]
  have e6 : ((d.scratch.map (Node.updBind id v)).map (Node.frames id)).getD [] =
      (d.scratch.map (Node.frames id)).getD [] := by
    cases d.scratch <;> simp [Nima.frames_updBind]
  simp only [Doc.frames, Doc.updBind, Nima.frames_updBind, Nima.framesL_updBind, e4, e5, e6]

theorem Doc.updSet_fuse (sid : Nat) (f g : Node → Node)
    (hf : ∀ vs o m r, (f (.set sid vs o m r)).setSid? = some sid) (d : Doc) :
    (d.updSet sid f).updSet sid g = d.updSet sid (fun x => g (f x)) := by
  simp [Doc.updSet, Nima.updSet_fuse sid f g hf, Nima.updSetL_fuse sid f g hf,
    Layer.updSet_fuse sid f g hf, Function.comp_def]

theorem Doc.updSet_of_not_hasSet (s : Nat) (f : Node → Node) (d : Doc) (h : d.hasSet s = false) :
    d.updSet s f = d := by
  simp only [Doc.hasSet, Bool.or_eq_false_iff, List.any_eq_false] at h
  obtain ⟨⟨⟨⟨⟨h1, h2⟩, h3⟩, h4⟩, h5⟩, h6⟩ := h
  have e4 : d.stack.map (Layer.updSet s f) = d.stack := by
    conv => rhs; rw [← List.map_id d.stack]
    apply List.map_congr_left
    intro l hl
    exact Layer.updSet_of_not_hasSet s f l (by simpa using h4 l hl)
  have e5 : d.topScope.map (updSetL s f) = d.topScope := by
    cases ht : d.topScope with
    | none => rfl
    | some x => rw [ht] at h5; simp at h5; simp [updSetL_of_not_hasSet s f x h5]
  have e6 : d.scratch.map (Node.updSet s f) = d.scratch := by
    cases ht : d.scratch with
    | none => rfl
    | some x => rw [ht] at h6; simp at h6; simp [Nima.updSet_of_not_hasSet s f x h6]
  simp only [Doc.updSet, Nima.updSet_of_not_hasSet s f _ h1, updSetL_of_not_hasSet s f _ h2,
    updSetL_of_not_hasSet s f _ h3, e4, e5, e6]

/-! fields an update by identity does not touch -/
section fields
variable (id : Nat) (v : Node) (f : Node → Node) (d : Doc)
@[simp] theorem Doc.updBind_noTarget : (d.updBind id v).noTarget = d.noTarget := rfl
@[simp] theorem Doc.updBind_tBefore : (d.updBind id v).tBefore = d.tBefore := rfl
@[simp] theorem Doc.updBind_tAfter : (d.updBind id v).tAfter = d.tAfter := rfl
@[simp] theorem Doc.updBind_stBodyBefore : (d.updBind id v).stBodyBefore = d.stBodyBefore := rfl
@[simp] theorem Doc.updBind_stBodyAfter : (d.updBind id v).stBodyAfter = d.stBodyAfter := rfl
@[simp] theorem Doc.updBind_stAfterLet : (d.updBind id v).stAfterLet = d.stAfterLet := rfl
@[simp] theorem Doc.updBind_trailing : (d.updBind id v).trailing = d.trailing := rfl
@[simp] theorem Doc.updBind_next : (d.updBind id v).next = d.next := rfl
@[simp] theorem Doc.updBind_rstripped : (d.updBind id v).rstripped = d.rstripped := rfl
@[simp] theorem Doc.updBind_target : (d.updBind id v).target = Node.updBind id v d.target := rfl
@[simp] theorem Doc.updBind_scope : (d.updBind id v).scope = updBindL id v d.scope := rfl
@[simp] theorem Doc.updBind_stOrder : (d.updBind id v).stOrder = updBindL id v d.stOrder := rfl
@[simp] theorem Doc.updBind_stack : (d.updBind id v).stack = d.stack.map (Layer.updBind id v) := rfl
@[simp] theorem Doc.updBind_topScope : (d.updBind id v).topScope = d.topScope.map (updBindL id v) := rfl
@[simp] theorem Doc.updBind_scratch : (d.updBind id v).scratch = d.scratch.map (Node.updBind id v) := rfl
@[simp] theorem Doc.updSet_noTarget : (d.updSet id f).noTarget = d.noTarget := rfl
@[simp] theorem Doc.updSet_tBefore : (d.updSet id f).tBefore = d.tBefore := rfl
@[simp] theorem Doc.updSet_tAfter : (d.updSet id f).tAfter = d.tAfter := rfl
@[simp] theorem Doc.updSet_stBodyBefore : (d.updSet id f).stBodyBefore = d.stBodyBefore := rfl
@[simp] theorem Doc.updSet_stBodyAfter : (d.updSet id f).stBodyAfter = d.stBodyAfter := rfl
@[simp] theorem Doc.updSet_stAfterLet : (d.updSet id f).stAfterLet = d.stAfterLet := rfl
@[simp] theorem Doc.updSet_trailing : (d.updSet id f).trailing = d.trailing := rfl
@[simp] theorem Doc.updSet_next : (d.updSet id f).next = d.next := rfl
@[simp] theorem Doc.updSet_rstripped : (d.updSet id f).rstripped = d.rstripped := rfl
@[simp] theorem Doc.updSet_target : (d.updSet id f).target = Node.updSet id f d.target := rfl
@[simp] theorem Doc.updSet_scope : (d.updSet id f).scope = updSetL id f d.scope := rfl
@[simp] theorem Doc.updSet_stOrder : (d.updSet id f).stOrder = updSetL id f d.stOrder := rfl
@[simp] theorem Doc.updSet_stack : (d.updSet id f).stack = d.stack.map (Layer.updSet id f) := rfl
@[simp] theorem Doc.updSet_topScope : (d.updSet id f).topScope = d.topScope.map (updSetL id f) := rfl
@[simp] theorem Doc.updSet_scratch : (d.updSet id f).scratch = d.scratch.map (Node.updSet id f) := rfl
end fields

/-! identities at or above `maxId + 1` do not occur in the document -/

theorem Layer.not_has_of_maxId_lt (j : Nat) (l : Layer) (h : l.maxId < j) :
    l.hasBind j = false ∧ l.hasSet j = false := by
  simp only [Layer.maxId] at h
  simp [Layer.hasBind, Layer.hasSet, not_hasBindL_of_maxIdL_lt j l.scope (by omega),
    not_hasBindL_of_maxIdL_lt j l.order (by omega), not_hasSetL_of_maxIdL_lt j l.scope (by omega),
    not_hasSetL_of_maxIdL_lt j l.order (by omega)]

theorem stack_maxId_le (ls : List Layer) (l : Layer) (hl : l ∈ ls) :
    l.maxId ≤ ls.foldr (fun l m => max l.maxId m) 0 := by
  induction ls with
  | nil => cases hl
  | cons x xs ih =>
    simp only [List.foldr_cons]
    rcases List.mem_cons.1 hl with rfl | h
    · omega
    · have := ih h; omega

theorem Doc.not_has_of_maxId_lt (j : Nat) (d : Doc) (h : d.maxId < j) :
    d.hasBind j = false ∧ d.hasSet j = false := by
  simp only [Doc.maxId] at h
  have hst : ∀ l ∈ d.stack, l.hasBind j = false ∧ l.hasSet j = false := fun l hl =>
    Layer.not_has_of_maxId_lt j l (by have := stack_maxId_le d.stack l hl; omega)
  have h5 : (d.topScope.map (hasBindL j)).getD false = false ∧
      (d.topScope.map (hasSetL j)).getD false = false := by
    cases ht : d.topScope with
    | none => simp
    | some s =>
      rw [ht] at h; simp only [Option.map_some, Option.getD_some] at h ⊢
      exact ⟨not_hasBindL_of_maxIdL_lt j s (by omega), not_hasSetL_of_maxIdL_lt j s (by omega)⟩
  have h6 : (d.scratch.map (Node.hasBind j)).getD false = false ∧
      (d.scratch.map (Node.hasSet j)).getD false = false := by
    cases ht : d.scratch with
    | none => simp
    | some s =>
      rw [ht] at h; simp only [Option.map_some, Option.getD_some] at h ⊢
      exact ⟨not_hasBind_of_maxId_lt j s (by omega), not_hasSet_of_maxId_lt j s (by omega)⟩
  have hs1 : d.stack.any (·.hasBind j) = false := by
    simp only [List.any_eq_false]; intro l hl; simp [(hst l hl).1]
  have hs2 : d.stack.any (·.hasSet j) = false := by
    simp only [List.any_eq_false]; intro l hl; simp [(hst l hl).2]
  simp only [Doc.hasBind, Doc.hasSet, not_hasBind_of_maxId_lt j d.target (by omega),
    not_hasBindL_of_maxIdL_lt j d.scope (by omega), not_hasBindL_of_maxIdL_lt j d.stOrder (by omega),
    not_hasSet_of_maxId_lt j d.target (by omega),
    not_hasSetL_of_maxIdL_lt j d.scope (by omega), not_hasSetL_of_maxIdL_lt j d.stOrder (by omega),
    hs1, hs2, h5.1, h5.2, h6.1, h6.2, Bool.or_self, and_self]

theorem Doc.Fresh.not_has {d : Doc} (h : d.Fresh) (j : Nat) (hj : d.next ≤ j) :
    d.hasBind j = false ∧ d.hasSet j = false :=
  Doc.not_has_of_maxId_lt j d (by have := h.1; omega)


/-! ## documents as containers of root nodes (proof device) -/

def Layer.mapNodes (g : Node → Node) (l : Layer) : Layer :=
  { l with scope := l.scope.map g, order := l.order.map g }

def Doc.mapNodes (g : Node → Node) (d : Doc) : Doc :=
  { d with
    target := g d.target
    scratch := d.scratch.map g
    scope := d.scope.map g
    stOrder := d.stOrder.map g
    stack := d.stack.map (Layer.mapNodes g)
    topScope := d.topScope.map (·.map g) }

theorem Layer.updBind_eq_mapNodes (id : Nat) (v : Node) (l : Layer) :
    l.updBind id v = l.mapNodes (Node.updBind id v) := by
  simp [Layer.updBind, Layer.mapNodes, updBindL_eq_map]
theorem Layer.updSet_eq_mapNodes (sid : Nat) (f : Node → Node) (l : Layer) :
    l.updSet sid f = l.mapNodes (Node.updSet sid f) := by
  simp [Layer.updSet, Layer.mapNodes, updSetL_eq_map]

theorem Doc.updBind_eq_mapNodes (id : Nat) (v : Node) (d : Doc) :
    d.updBind id v = d.mapNodes (Node.updBind id v) := by
  simp only [Doc.updBind, Doc.mapNodes, updBindL_eq_map]
  congr 1
  · exact List.map_congr_left (fun l _ => Layer.updBind_eq_mapNodes id v l)
  · cases d.topScope <;> simp [updBindL_eq_map]
theorem Doc.updSet_eq_mapNodes (sid : Nat) (f : Node → Node) (d : Doc) :
    d.updSet sid f = d.mapNodes (Node.updSet sid f) := by
  simp only [Doc.updSet, Doc.mapNodes, updSetL_eq_map]
  congr 1
  · exact List.map_congr_left (fun l _ => Layer.updSet_eq_mapNodes sid f l)
  · cases d.topScope <;> simp [updSetL_eq_map]

theorem Layer.mapNodes_congr (g g' : Node → Node) (l : Layer) (h : ∀ x ∈ l.nodes, g x = g' x) :
    l.mapNodes g = l.mapNodes g' := by
  simp only [Layer.nodes, List.mem_append] at h
  simp only [Layer.mapNodes]
  congr 1
  · exact List.map_congr_left (fun x hx => h x (Or.inl hx))
  · exact List.map_congr_left (fun x hx => h x (Or.inr hx))

theorem Doc.mapNodes_congr (g g' : Node → Node) (d : Doc) (h : ∀ x ∈ d.nodes, g x = g' x) :
    d.mapNodes g = d.mapNodes g' := by
  simp only [Doc.nodes, List.mem_cons, List.mem_append, List.mem_flatMap, Option.mem_toList] at h
  simp only [Doc.mapNodes]
  congr 1
  · exact h _ (Or.inl rfl)
  · exact List.map_congr_left (fun x hx => h x (Or.inr (Or.inl (Or.inl (Or.inl (Or.inl hx))))))
  · exact List.map_congr_left (fun x hx => h x (Or.inr (Or.inl (Or.inl (Or.inl (Or.inr hx))))))
  · exact List.map_congr_left (fun l hl => Layer.mapNodes_congr g g' l
      (fun x hx => h x (Or.inr (Or.inl (Or.inl (Or.inr ⟨l, hl, hx⟩))))))
  · cases ht : d.topScope with
    | none => rfl
    | some s =>
      simp only [Option.map_some, Option.some.injEq]
      exact List.map_congr_left (fun x hx => h x (Or.inr (Or.inl (Or.inr (by simp [ht, hx])))))
  · cases ht : d.scratch with
    | none => rfl
    | some s =>
      simp only [Option.map_some, Option.some.injEq]
      exact h s (Or.inr (Or.inr (by simp [ht])))

theorem Layer.mapNodes_mapNodes (g h : Node → Node) (l : Layer) :
    (l.mapNodes h).mapNodes g = l.mapNodes (fun x => g (h x)) := by
  simp [Layer.mapNodes, Function.comp_def]

theorem Doc.mapNodes_mapNodes (g h : Node → Node) (d : Doc) :
    (d.mapNodes h).mapNodes g = d.mapNodes (fun x => g (h x)) := by
  simp [Doc.mapNodes, Function.comp_def, Layer.mapNodes_mapNodes]

theorem Layer.mapNodes_id' (l : Layer) : l.mapNodes (fun x => x) = l := by
  simp [Layer.mapNodes]
theorem Doc.mapNodes_id' (d : Doc) : d.mapNodes (fun x => x) = d := by
  have : d.stack.map (Layer.mapNodes fun x => x) = d.stack := by
    conv => rhs; rw [← List.map_id d.stack]
    exact List.map_congr_left (fun l _ => Layer.mapNodes_id' l)
  simp [Doc.mapNodes, this]

theorem Doc.mapNodes_eq_self (g : Node → Node) (d : Doc) (h : ∀ x ∈ d.nodes, g x = x) :
    d.mapNodes g = d := by
  rw [Doc.mapNodes_congr g (fun x => x) d h, Doc.mapNodes_id']

theorem Doc.hasBind_eq_any (j : Nat) (d : Doc) : d.hasBind j = d.nodes.any (Node.hasBind j) := by
  simp only [Doc.hasBind, Doc.nodes, List.any_cons, List.any_append, hasBindL_eq_any,
    List.any_flatMap, Layer.nodes, Layer.hasBind]
  cases d.topScope <;> cases d.scratch <;> simp [Bool.or_assoc, hasBindL_eq_any]

theorem Doc.hasSet_eq_any (s : Nat) (d : Doc) : d.hasSet s = d.nodes.any (Node.hasSet s) := by
  simp only [Doc.hasSet, Doc.nodes, List.any_cons, List.any_append, hasSetL_eq_any,
    List.any_flatMap, Layer.nodes, Layer.hasSet]
  cases d.topScope <;> cases d.scratch <;> simp [Bool.or_assoc, hasSetL_eq_any]

theorem Doc.not_hasBind_nodes {j : Nat} {d : Doc} (h : d.hasBind j = false) :
    ∀ x ∈ d.nodes, Node.hasBind j x = false := by
  rw [Doc.hasBind_eq_any, List.any_eq_false] at h
  intro x hx; simpa using h x hx

theorem Doc.not_hasSet_nodes {s : Nat} {d : Doc} (h : d.hasSet s = false) :
    ∀ x ∈ d.nodes, Node.hasSet s x = false := by
  rw [Doc.hasSet_eq_any, List.any_eq_false] at h
  intro x hx; simpa using h x hx


/-! ## `Doc.updSet`: idempotence and commutation -/

theorem Doc.updSet_idem (sid : Nat) (f : Node → Node)
    (hf : ∀ vs o m r, (f (.set sid vs o m r)).setSid? = some sid)
    (hff : ∀ vs o m r, f (f (.set sid vs o m r)) = f (.set sid vs o m r)) (d : Doc) :
    (d.updSet sid f).updSet sid f = d.updSet sid f := by
  rw [Doc.updSet_eq_mapNodes, Doc.updSet_eq_mapNodes, Doc.mapNodes_mapNodes]
  exact Doc.mapNodes_congr _ _ d (fun x _ => Nima.updSet_idem sid f hf hff x)

theorem Doc.updSet_comm (s t : Nat) (f g : Node → Node) (hst : s ≠ t)
    (hf : ∀ vs o m r, f (Node.updSet t g (.set s vs o m r)) = Node.updSet t g (f (.set s vs o m r)))
    (hg : ∀ vs o m r, g (Node.updSet s f (.set t vs o m r)) = Node.updSet s f (g (.set t vs o m r)))
    (d : Doc) :
    (d.updSet t g).updSet s f = (d.updSet s f).updSet t g := by
  rw [Doc.updSet_eq_mapNodes, Doc.updSet_eq_mapNodes, Doc.updSet_eq_mapNodes, Doc.updSet_eq_mapNodes,
    Doc.mapNodes_mapNodes, Doc.mapNodes_mapNodes]
  exact Doc.mapNodes_congr _ _ d (fun x _ => Nima.updSet_comm s t f g hst hf hg x)

theorem hasBindL_of_mem {j : Nat} {l : List Node} {x : Node} (hx : x ∈ l) (h : Node.hasBind j x = true) :
    hasBindL j l = true := by
  rw [hasBindL_eq_any, List.any_eq_true]; exact ⟨x, hx, h⟩

theorem Doc.hasBind_with_target (j : Nat) (d : Doc) (t : Node) :
    ({ d with target := t } : Doc).hasBind j =
      (Node.hasBind j t || ({ d with target := .atom [] } : Doc).hasBind j) := by
  simp [Doc.hasBind, Node.hasBind, Bool.or_assoc]

end Nima
