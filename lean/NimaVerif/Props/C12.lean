import NimaVerif.Lemmas.NPath
import NimaVerif.Lemmas.SameName
import NimaVerif.Model.Edit
import NimaVerif.Gen.Tables
/-!
# C12 — attribute names in paths are written and matched faithfully

Property theorems only (helper lemmas live in `Lemmas/`). All statements quantify over every
`Text = List Char` (unbounded). `parseNPath`, `formatAttrName`, `escapeNix` are the model of
`_parse_npath`, `_format_attr_name`, `_escape_nix_string`; `nixDecodeName` and `renderSeg` are
SPEC definitions (how Nix reads a name token; how the property says a name is written in a path).
-/
namespace Nima.C12

/-! ## Translator tie: the tables the model uses are the tables the Python source has now. -/

theorem tie_escape_table : Gen.escapeTable = some escapeTable := by decide
theorem tie_interp_escape : Gen.interpEscape = some interpEscape := by decide
theorem tie_ident_start : Gen.identStartRanges = some identStartRanges := by decide
theorem tie_ident_rest : Gen.identRestRanges = some identRestRanges := by decide
theorem tie_anchor : Gen.identDollarAnchor = some currentAnchor := by decide
theorem tie_keywords : Gen.npKeywords = some npKeywords := by decide
theorem tie_name_start : Gen.nameStartRanges = some nameStartRanges := by decide
theorem tie_name_rest : Gen.nameRestRanges = some nameRestRanges := by decide
theorem tie_name_escapes : Gen.nameEscapes = some nameEscapes := by decide

/-- The model's `escapeNix` is the interpreter of `escapeTable` (so the tie above is about the
    function the theorems speak of). -/
theorem escapeNix_table (interp : Bool) (c : Char) (cs : Text) (r : Text)
    (h : (c, r) ∈ escapeTable) : escapeNix interp (c :: cs) = r ++ escapeNix interp cs := by
  simp only [escapeTable, List.mem_cons, Prod.mk.injEq, List.not_mem_nil, or_false] at h
  rcases h with ⟨rfl, rfl⟩ | ⟨rfl, rfl⟩ | ⟨rfl, rfl⟩ | ⟨rfl, rfl⟩ | ⟨rfl, rfl⟩ <;> simp [escapeNix]

/-! ## 1. Addressability: every list of names, whatever characters they contain, is addressed by
the path that joins their canonical segment spellings with dots. -/

theorem addressable (a : Bool) (n : Text) (ns : List Text) :
    parseNPath a (joinWith ['.'] ((n :: ns).map renderSeg)) = .ok ((n :: ns).map segOf) := by
  unfold parseNPath
  rw [joinWith_renderSeg_ne_nil]
  simp only [Bool.false_eq_true, if_false]
  have h := npRun_path a [] n ns
  have hd : ({} : NPState) = { segs := [], buf := [], inQuotes := false, quotedSeg := false, escape := false } := rfl
  rw [hd, h]
  obtain ⟨h1, h2, st', h3, h4⟩ := endState_finalize a [] n ns
  simp only [h1, h2, h3, Bool.false_eq_true, if_false]
  simpa using h4

/-! ## 2. Faithful writing: the token `set` writes for a segment is read back by Nix as exactly
the segment's name (in particular it contains no live `${`), for every name and both spellings. -/

theorem string_escape_faithful (s : Text) : decodeBody (escapeNix true s) = some s :=
  escape_decode s

theorem faithful_writing (s : Seg) :
    nixDecodeName (formatAttrName false s) = some s.name := by
  unfold formatAttrName formatAttrNameWith
  split
  · -- quoted spelling
    simp only [nixDecodeName]
    simp [escape_decode]
  · rename_i h
    simp only [Bool.or_eq_true, Bool.not_eq_eq_eq_not, Bool.not_true, not_or, Bool.not_eq_true,
      Bool.not_eq_false, reMatchIdent_false] at h
    obtain ⟨⟨_, hid⟩, hkw⟩ := h
    match hn : s.name with
    | [] => simp [hn, isIdent] at hid
    | c :: cs =>
      rw [hn] at hid hkw
      have hc : c ≠ '"' := by
        simp only [isIdent, Bool.and_eq_true] at hid
        exact (identStart_ne c hid.1).2
      have hnix : isNixIdent (c :: cs) = true := by
        simp only [isIdent, Bool.and_eq_true, List.all_eq_true] at hid
        simp only [isNixIdent, Bool.and_eq_true, List.all_eq_true, hid.1, true_and]
        intro d hd
        simp [nixIdentRest, hid.2 d hd]
      have hkw' : nixKeywords.contains (c :: cs) = false := hkw
      unfold nixDecodeName
      split
      · rename_i rest heq
        injection heq with h1 _
        exact absurd h1 hc
      · have : ¬ (c :: cs) ∈ nixKeywords := by simpa using hkw'
        simp [hnix, this]

/-- Both halves together: parse the canonical path of some names, format each segment the way
    `set` writes it, and Nix reads back exactly those names. -/
theorem roundtrip (n : Text) (ns : List Text) :
    ∃ toks, formatNPath false (joinWith ['.'] ((n :: ns).map renderSeg)) = .ok toks ∧
      toks.map nixDecodeName = (n :: ns).map some := by
  refine ⟨((n :: ns).map segOf).map (formatAttrName false), ?_, ?_⟩
  · unfold formatNPath
    rw [addressable]
    simp [Except.map]
  · simp only [List.map_map]
    apply List.map_congr_left
    intro x _
    simp [Function.comp, faithful_writing, segOf]

/-! ## 3. Malformed paths are rejected; nothing that is not an identifier is accepted bare. -/

theorem rejects_empty (a : Bool) : parseNPath a [] = .error .value := rfl

theorem bare_segments_are_identifiers (p : Text) (segs : List Seg)
    (h : parseNPath false p = .ok segs) :
    ∀ s ∈ segs, s.quoted = false → isIdent s.name = true := by
  unfold parseNPath at h
  split at h
  · cases h
  · split at h
    · cases h
    · rename_i st hrun
      split at h
      · cases h
      · split at h
        · cases h
        · split at h
          · rename_i st' hfin
            injection h with h
            subst h
            have h0 : SegsOK ({} : NPState).segs := by intro s hs; cases hs
            exact npFinalize_ok st st' hfin (npRun_ok {} st p hrun h0)
          · cases h

theorem rejects_examples :
    parseNPath false "a..b".toList = .error .value ∧          -- empty segment
    parseNPath false "a.".toList = .error .value ∧            -- trailing dot
    parseNPath false "foo\"bar\"".toList = .error .value ∧     -- quote not at a boundary
    parseNPath false "a.\"b".toList = .error .value ∧          -- unterminated quote
    parseNPath false "a.\"b\\".toList = .error .value ∧        -- dangling escape
    parseNPath false "foo-bar".toList = .error .value ∧        -- not an identifier, unquoted
    parseNPath false "foo\n".toList = .error .value ∧           -- trailing newline (fixed defect)
    parseNPath false "\"a\"b".toList = .error .value ∧          -- text after a closing quote (fixed defect)
    parseNPath false "\"\"b".toList = .error .value := by
  decide

/-- A quoted segment ends at a segment boundary: once the closing quote has been read, every
    character but `.` makes the path malformed (repaired: `"a"b` used to be read as the name `ab`). -/
theorem quoted_segment_ends_at_boundary (a : Bool) (st : NPState) (ch : Char)
    (hq : st.inQuotes = false) (hs : st.quotedSeg = true) (hc : ch ≠ '.') :
    npStep a st ch = .error .value := by
  simp [npStep, hq, hs, hc]

/-! ## 4. The defect that was repaired (`fix:` commit): with Python's `$` anchor the bare
segment `foo\n` was accepted and written verbatim. Kept as a theorem about the model with the
old anchor so that a regression is recognised for what it is. -/

theorem cex_dollar_anchor :
    parseNPath true "foo\n".toList = .ok [⟨"foo\n".toList, false⟩] ∧
    nixDecodeName (formatAttrName true ⟨"foo\n".toList, false⟩) ≠ some "foo\n".toList := by
  decide

theorem cex_keyword_unquoted :
    nixDecodeName (formatAttrNameWith false [] ⟨"if".toList, false⟩) ≠ some "if".toList := by
  decide

/-! ## 5. One attribute per Nix name (repaired: `fix:` C12-spelling)

`sameName` is the model of `_same_attr_name`, the comparison `_find_binding`, `_find_named_binding`,
`_find_attrpath_root` and `AttributeSet.__getitem__/__setitem__/__delitem__` apply to the name token
of a binding and the key they look for (`NameCmp.model` in Model/Edit.lean); `decodeAttrName` is the
model of `_decode_attr_name`. `nixDecodeName` is the SPEC of how Nix reads a name token. -/

/-- The code's reading of a name token is Nix's, wherever Nix reads a name … -/
theorem reads_like_nix (tok n : Text) (h : nixDecodeName tok = some n) : decodeAttrName tok = some n :=
  decodeAttrName_of_spec tok n h

/-- … and it reads nothing else (a reserved word written bare is no name token for Nix). -/
theorem reads_nothing_else (tok n : Text) (h : decodeAttrName tok = some n)
    (hk : nixKeywords.contains tok = false) : nixDecodeName tok = some n :=
  decodeAttrName_sound tok n h hk

/-- The string body is decoded with exactly Nix's escapes (`\"`, `\\`, `\n`, `\r`, `\t`, `\${`, `$$`). -/
theorem body_decoded_like_nix (s : Text) : decodeNameBody s = decodeBody s := decodeNameBody_eq_spec s

/-- The comparison is an equivalence relation on tokens. -/
theorem same_name_equivalence :
    (∀ a, sameName a a = true) ∧ (∀ a b, sameName a b = sameName b a) ∧
    (∀ a b c, sameName a b = true → sameName b c = true → sameName a c = true) :=
  ⟨sameName_refl, sameName_symm, sameName_trans⟩

/-- FULL statement of clause 5: a token of the file that Nix reads as the name of the segment is
    matched by the token `set`/`rm` look for, whichever spelling the file and the path use. -/
def OneAttributePerName : Prop :=
  ∀ (fileTok : Text) (s : Seg), nixDecodeName fileTok = some s.name →
    sameName fileTok (formatAttrName false s) = true

/-- On tokens Nix can read, the comparison is equality of the names they denote: the same name is
    one attribute, different names are never confused. -/
theorem same_name_iff_same_nix_name (f g a b : Text)
    (hf : nixDecodeName f = some a) (hg : nixDecodeName g = some b) :
    sameName f g = true ↔ a = b := sameName_iff_spec f g a b hf hg

/-- Clause 5 holds (it was `cex_spelling : ¬ OneAttributePerName` before the repair, with
    `fileTok = formatAttrName false s` as the comparison). -/
theorem one_attribute_per_name : OneAttributePerName := by
  intro fileTok s h
  exact (sameName_iff_spec fileTok (formatAttrName false s) s.name s.name h (faithful_writing s)).mpr rfl

/-- The path may spell a segment bare or quoted: both address the same attribute. -/
theorem path_spelling_irrelevant (s s' : Seg) (h : s.name = s'.name) :
    sameName (formatAttrName false s) (formatAttrName false s') = true :=
  (sameName_iff_spec _ _ s.name s'.name (faithful_writing s) (faithful_writing s')).mpr h

/-- Different names stay different attributes (in particular `"a.b"` is not the nested path `a.b`,
    and no quoted spelling of `x` matches a binding `y`). -/
theorem distinct_names_stay_apart (f g a b : Text)
    (hf : nixDecodeName f = some a) (hg : nixDecodeName g = some b) (hne : a ≠ b) :
    sameName f g = false := by
  cases h : sameName f g with
  | false => rfl
  | true => exact absurd ((sameName_iff_spec f g a b hf hg).mp h) hne

/-- Names with an interpolation (no static name) keep being compared by spelling. -/
theorem dynamic_names_by_spelling (a b : Text) (h : decodeAttrName a = none) :
    sameName a b = true ↔ a = b := sameName_dynamic a b h

/-- The lookup of the edit code (`_find_binding` with the comparison of the source) never misses an
    existing attribute: if some binding of the set is spelled with a token Nix reads as the
    segment's name, the lookup finds a binding, and the one it finds denotes that name. -/
theorem lookup_finds_existing (vs : List Node) (s : Seg) (b : Node) (tok : Text)
    (hb : b ∈ vs) (hbind : b.isBind = true) (hn : b.bindName? = some tok)
    (htok : nixDecodeName tok = some s.name) :
    ∃ b' tok', @findBinding NameCmp.model vs (formatAttrName false s) = some b' ∧
      b'.bindName? = some tok' ∧ sameName tok' (formatAttrName false s) = true := by
  have hmatch : (b.isBind && @nameIs NameCmp.model b (formatAttrName false s)) = true := by
    simp only [nameIs, hn, hbind, Bool.true_and]
    exact one_attribute_per_name tok s htok
  cases hf : @findBinding NameCmp.model vs (formatAttrName false s) with
  | none =>
    unfold findBinding at hf
    have := List.find?_eq_none.mp hf b hb
    simp [hmatch] at this
  | some b' =>
    unfold findBinding at hf
    have hp := List.find?_some hf
    simp only [Bool.and_eq_true] at hp
    cases hn' : b'.bindName? with
    | none => simp [nameIs, hn'] at hp
    | some tok' =>
      refine ⟨b', tok', rfl, hn', ?_⟩
      simp only [nameIs, hn'] at hp
      exact hp.2

/-- … and never takes a binding of another name for it. -/
theorem lookup_finds_only_that_name (vs : List Node) (s : Seg) (b' : Node) (tok' n' : Text)
    (hf : @findBinding NameCmp.model vs (formatAttrName false s) = some b')
    (hn : b'.bindName? = some tok') (hd : nixDecodeName tok' = some n') : n' = s.name := by
  unfold findBinding at hf
  have hp := List.find?_some hf
  simp only [Bool.and_eq_true, nameIs, hn] at hp
  exact (sameName_iff_spec tok' _ n' s.name hd (faithful_writing s)).mp hp.2

/-- The defect as it was, kept as a theorem about the comparison by spelling (`NameCmp.spelled`,
    still used by `Scope.get_binding`) so that a regression is recognised for what it is: the file
    spells the name `a` bare, the path addresses it as `"a"`; both denote `a`, the spellings differ. -/
theorem cex_spelling_by_spelling :
    ¬ ∀ (fileTok : Text) (s : Seg), nixDecodeName fileTok = some s.name →
        NameCmp.spelled.same fileTok (formatAttrName false s) = true := by
  intro h
  have := h "a".toList ⟨"a".toList, true⟩ (by decide)
  revert this
  decide

/-! The finding's own input, evaluated in the model of the repaired code and, for contrast, with the
comparison by spelling. -/

/-- `{ a = 1; }` -/
def exBare : Doc :=
  { target := .set 0 [.bind 1 "a".toList false (.atom "1".toList) [] []] [] false false }

theorem repaired_set_updates_in_place :
    @setValue NameCmp.model "\"a\"".toList (.one (.atom "2".toList)) exBare =
      (.ok (), exBare.updBind 1 (.atom "2".toList)) := rfl

theorem by_spelling_wrote_a_second_definition :
    (@setValue NameCmp.spelled "\"a\"".toList (.one (.atom "2".toList)) exBare).2.target.setValues.length = 2 := rfl

theorem repaired_rm_finds_it :
    (@removeValue NameCmp.model "\"a\"".toList exBare).1 = .ok () ∧
    (@removeValue NameCmp.model "\"a\"".toList exBare).2.target.setValues = [] ∧
    (@removeValue NameCmp.spelled "\"a\"".toList exBare).1 = .error .key := ⟨rfl, rfl, rfl⟩
/-- Refinding: the spelling `set` writes is a function of the segment alone, so a second `set`/`rm`
    with the same path text looks for the very same token — and with `path_spelling_irrelevant`, a
    path that spells the segments differently finds the same bindings as well. -/
theorem refinding (p : Text) (t1 t2 : List Text)
    (h1 : formatNPath false p = .ok t1) (h2 : formatNPath false p = .ok t2) : t1 = t2 := by
  rw [h1] at h2; injection h2

/-! ## Non-vacuity: the hypotheses above are met by non-trivial inputs. -/

example : parseNPath false "services.\"foo.bar\".\"a\\\"b\"".toList =
    .ok [⟨"services".toList, false⟩, ⟨"foo.bar".toList, true⟩, ⟨"a\"b".toList, true⟩] := by decide
example : formatAttrName false ⟨"${x}\n".toList, true⟩ = "\"\\${x}\\n\"".toList := by decide
example : renderSeg "foo.bar".toList = "\"foo.bar\"".toList := by decide
example : sameName "foo-bar".toList "\"foo-bar\"".toList = true := by decide
example : sameName "\"a\\nb\"".toList "\"a\nb\"".toList = true := by decide
example : sameName "\"a.b\"".toList "a.b".toList = false := by decide
example : sameName "\"${x}\"".toList "\"\\${x}\"".toList = false := by decide

end Nima.C12
