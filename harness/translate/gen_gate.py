"""Gen/Gate.lean: the shape of the syntax-error gate (used by C07).

Reads: NixSourceCode.from_cst (the `if contains_error:` branch precedes all trivia code and builds
one RawExpression from the whole node text with no trailing trivia), RawExpression.rebuild (returns
the text when there is nothing attached), NixSourceCode.rebuild (returns the join when there is no
trailing trivia), set_value (the VALUE checks come before anything touches the source),
_resolve_target_set_from_expr (no case accepts a RawExpression)."""
from __future__ import annotations

import ast

from .translate import ExtractError, Result, find_function, parse_file, run_table


def _names(node) -> set[str]:
    return {n.id for n in ast.walk(node) if isinstance(n, ast.Name)} | \
           {n.attr for n in ast.walk(node) if isinstance(n, ast.Attribute)}


def extract_gate() -> dict:
    sc = parse_file("expressions/source_code.py")
    cls = next((n for n in sc.body if isinstance(n, ast.ClassDef) and n.name == "NixSourceCode"), None)
    if cls is None:
        raise ExtractError("class NixSourceCode not found")
    from_cst = next((n for n in cls.body if isinstance(n, ast.FunctionDef) and n.name == "from_cst"), None)
    rebuild = next((n for n in cls.body if isinstance(n, ast.FunctionDef) and n.name == "rebuild"), None)
    if from_cst is None or rebuild is None:
        raise ExtractError("from_cst/rebuild not found")
    out = {}
    # --- from_cst: the first statement that mentions trivia helpers / source_bytes_context must come
    # after an `if contains_error: return cls(expressions=[RawExpression(text=…)], trailing=[], contains_error=True)`
    gate_idx = None
    trivia_idx = None
    raw_ok = trailing_empty = flag_true = False
    text_from_node = False
    for i, st in enumerate(from_cst.body):
        if isinstance(st, ast.If) and isinstance(st.test, ast.Name) and st.test.id == "contains_error" and gate_idx is None:
            ret = next((x for x in st.body if isinstance(x, ast.Return)), None)
            if ret is not None and isinstance(ret.value, ast.Call):
                kws = {k.arg: k.value for k in ret.value.keywords}
                ex = kws.get("expressions")
                if isinstance(ex, ast.List) and len(ex.elts) == 1 and isinstance(ex.elts[0], ast.Call) and \
                        getattr(ex.elts[0].func, "id", "") == "RawExpression":
                    raw_ok = True
                    # text=raw_text where raw_text = source_bytes.decode() and source_bytes = node.text
                    assigns = {}
                    for s2 in list(from_cst.body[:i]) + list(st.body):
                        if isinstance(s2, ast.Assign) and isinstance(s2.targets[0], ast.Name):
                            assigns[s2.targets[0].id] = s2.value
                    tv = {k.arg: k.value for k in ex.elts[0].keywords}.get("text")
                    cur = tv
                    hops = 0
                    while cur is not None and hops < 5:
                        if isinstance(cur, ast.Name) and cur.id in assigns:
                            cur = assigns[cur.id]
                        elif isinstance(cur, ast.Call) and isinstance(cur.func, ast.Attribute) and cur.func.attr == "decode":
                            cur = cur.func.value
                        elif isinstance(cur, ast.Attribute) and cur.attr == "text" and isinstance(cur.value, ast.Name) \
                                and cur.value.id == "node":
                            text_from_node = True
                            break
                        else:
                            break
                        hops += 1
                tr = kws.get("trailing")
                trailing_empty = isinstance(tr, ast.List) and not tr.elts
                ce = kws.get("contains_error")
                flag_true = isinstance(ce, ast.Constant) and ce.value is True
                gate_idx = i
        used = _names(st)
        if trivia_idx is None and used & {"source_bytes_context", "parse_delimited_sequence", "append_gap_trivia",
                                           "gap_from_offsets", "tree_sitter_node_to_expression"}:
            trivia_idx = i
    out["gateBeforeTrivia"] = gate_idx is not None and (trivia_idx is None or gate_idx < trivia_idx)
    out["rawFromNodeText"] = raw_ok and text_from_node
    out["rawTrailingEmpty"] = trailing_empty
    out["rawFlagTrue"] = flag_true
    # contains_error comes from node.has_error
    out["usesHasError"] = any(isinstance(n, ast.Attribute) and n.attr == "has_error" for n in ast.walk(from_cst))
    # --- NixSourceCode.rebuild: `rebuilt = "".join(obj.rebuild() …)`; `if not self.trailing: return rebuilt`
    first_ret = None
    for st in rebuild.body:
        if isinstance(st, ast.If) and isinstance(st.test, ast.UnaryOp) and isinstance(st.test.op, ast.Not) and \
                isinstance(st.test.operand, ast.Attribute) and st.test.operand.attr == "trailing":
            r = st.body[0]
            first_ret = isinstance(r, ast.Return) and isinstance(r.value, ast.Name) and r.value.id == "rebuilt"
            break
    join_ok = any(isinstance(st, ast.Assign) and isinstance(st.value, ast.Call) and
                  isinstance(st.value.func, ast.Attribute) and st.value.func.attr == "join" and
                  isinstance(st.value.func.value, ast.Constant) and st.value.func.value.value == ""
                  for st in rebuild.body)
    out["rebuildJoinNoTrailing"] = bool(first_ret) and join_ok
    # --- RawExpression.rebuild
    raw = parse_file("expressions/raw.py")
    rr = find_function(raw, "rebuild")
    ok = False
    for st in rr.body:
        if isinstance(st, ast.If) and isinstance(st.test, ast.BoolOp) and isinstance(st.test.op, ast.And):
            attrs = sorted(v.operand.attr for v in st.test.values
                           if isinstance(v, ast.UnaryOp) and isinstance(v.op, ast.Not) and isinstance(v.operand, ast.Attribute))
            r = st.body[0]
            if attrs == ["after", "before"] and isinstance(r, ast.Return) and isinstance(r.value, ast.Attribute) and \
                    r.value.attr == "text":
                ok = True
    out["rawRebuildReturnsText"] = ok
    # --- set_value: value checks first
    manip = parse_file("cli/manipulations.py")
    sv = find_function(manip, "set_value")
    stmts = sv.body
    idx_parse = next((i for i, st in enumerate(stmts) if isinstance(st, ast.Assign) and isinstance(st.value, ast.Call)
                      and getattr(st.value.func, "id", "") == "parse"), None)
    checks = []
    first_source_use = None
    for i, st in enumerate(stmts):
        if isinstance(st, ast.Expr) and isinstance(st.value, ast.Constant):
            continue
        if isinstance(st, ast.If) and any(isinstance(x, ast.Raise) for x in st.body) and \
                "parsed_value" in _names(st.test) | {"parsed_value"} & _names(st.test):
            checks.append(i)
        if first_source_use is None and "source" in {n.id for n in ast.walk(st) if isinstance(n, ast.Name)}:
            first_source_use = i
    raw_check = any("RawExpression" in _names(stmts[i].test) for i in checks)
    len_check = any(any(isinstance(c, ast.Compare) for c in ast.walk(stmts[i].test)) for i in checks)
    raises_value = all(
        all(isinstance(x.exc, ast.Call) and getattr(x.exc.func, "id", "") == "ValueError"
            for x in stmts[i].body if isinstance(x, ast.Raise)) for i in checks)
    out["valueChecksFirst"] = (idx_parse is not None and len(checks) >= 2 and raw_check and len_check and raises_value
                               and (first_source_use is None or max(checks) < first_source_use))
    # --- target resolution has no case for RawExpression and ends in `case _: raise ValueError`
    rt = find_function(manip, "_resolve_target_set_from_expr")
    m = next((n for n in ast.walk(rt) if isinstance(n, ast.Match)), None)
    if m is None:
        raise ExtractError("no match statement in _resolve_target_set_from_expr")
    classes = []
    default_raises = False
    for c in m.cases:
        p = c.pattern
        if isinstance(p, ast.MatchClass):
            classes.append(getattr(p.cls, "id", "?"))
        elif isinstance(p, ast.MatchAs) and p.pattern is None:
            default_raises = any(isinstance(x, ast.Raise) and isinstance(x.exc, ast.Call) and
                                 getattr(x.exc.func, "id", "") == "ValueError" for x in c.body)
    out["targetRejectsRaw"] = "RawExpression" not in classes and default_raises
    # --- parser.parse: `if source.contains_error: … source.expressions = [RawExpression(text=<the whole input>)]`
    pr = find_function(parse_file("parser.py"), "parse")
    whole = False
    for st in pr.body:
        if isinstance(st, ast.If) and isinstance(st.test, ast.Attribute) and st.test.attr == "contains_error":
            names = _names(st)
            assigns_expr = any(isinstance(x, ast.Assign) and isinstance(x.targets[0], ast.Attribute) and
                               x.targets[0].attr == "expressions" for x in st.body)
            whole = assigns_expr and "RawExpression" in names and "source_code" in names
    out["parseKeepsWholeInput"] = whole
    return out


def emit(res: Result) -> dict[str, str]:
    g = run_table(res, "gate", extract_gate)
    lines = ["/- GENERATED by harness/translate/gen_gate.py from /repo on every run. Do not edit. -/",
             "namespace Nima.Gen", ""]
    if g is None:
        lines.append("def gateShape : Option (List (String × Bool)) := none")
    else:
        items = ", ".join(f'("{k}", {"true" if v else "false"})' for k, v in sorted(g.items()))
        lines.append(f"def gateShape : Option (List (String × Bool)) := some [{items}]")
    lines += ["", "end Nima.Gen", ""]
    return {"Gate.lean": "\n".join(lines)}
