import NimaVerif.Lemmas.Paths
import NimaVerif.Gen.Paths
/-!
# C17 — imports resolve relative to the importing file, whatever the working directory

Property theorems only (helper lemmas: `Lemmas/Paths.lean`; model: `Model/Paths.lean`).

* `implLookup fs home cwd entry k ks` is the model of `parse_file(entry)[k][k1][k2]…` run with
  working directory `cwd` and home path `home` (`Path.home()`): it carries what the code carries —
  the path `parse_file` was called with *as spelled* (possibly relative, possibly with `..`),
  captured in every path literal at parse time — and hands uncollapsed pure paths to the OS view
  (`FS.locate`: a physical walk from `cwd`).
* `specFrom fs home cwd entry k ks` is the SPEC: files are identified by their canonical location;
  a literal in the file at `file` is resolved from the directory `file.dropLast`, an absolute
  literal from the root, `<…>` is a `ValueError`, and `~/x` is Nix's home-relative path `$HOME/x`
  whatever file it is written in (for a canonical home directory `h`: `x` resolved from `h`,
  `home_literal_in_home_directory`).

All statements quantify over every filesystem (any number of files and directories, any depth),
every working directory, every home path, every spelling of the entry path and every key list
(unbounded). `FS` has no symlink constructor: "no symlinks" is built into the type (assumption
`NoSymlinks`).
-/
namespace Nima.C17

/-! ## Translator tie: `NixPath.resolved_path` and the plumbing around it are what the model says. -/

theorem tie_resolved_path : Gen.resolvedPathRecipe = some recipeModel := by decide
theorem tie_plumbing : Gen.plumbing = some plumbingModel := by decide

/-- The hand-written `resolvedPath` is the interpreter of `recipeModel` (so the tie above is about
    the function the theorems speak of). -/
theorem recipe_sound (t : Text) (src : Option PPath) (home cwd : PPath) :
    recipeModel.eval t src home cwd = resolvedPath t src home := by
  have hpre : (['<'] : Text).isPrefixOf t = (t.head? == some '<') := by
    cases t with
    | nil => rfl
    | cons c cs => simp [List.isPrefixOf, Bool.beq_comm]
  have hsuf : (['>'] : Text).reverse.isPrefixOf t.reverse = (t.getLast? == some '>') := by
    rw [← List.head?_reverse]
    cases t.reverse with
    | nil => rfl
    | cons c cs => simp [List.isPrefixOf, Bool.beq_comm]
  unfold resolvedPath isAngle isHome
  simp only [Recipe.eval, recipeModel, Recipe.runGuards, Recipe.runEarly, PCond.eval, PExpr.eval,
    hpre, hsuf]
  cases h1 : (t.head? == some '<') <;> cases h2 : (t.getLast? == some '>') <;>
    cases h4 : (['~', '/'] : Text).isPrefixOf t <;>
    cases src <;> cases h3 : (parsePath t).abs <;> simp <;>
    cases (parsePath t).expanduser home <;> rfl

/-! ## 1. The refinement: what the code computes is resolution relative to the importing file
(and, for `~/x`, to the home directory). -/

/-- Invariant of an import chain: the `source_path` the code carries (as spelled) is located by the
    OS, from the working directory, at the canonical file the spec has reached. Under it every
    further lookup agrees, for any number of further hops — a hop through a `~/` literal included:
    the path `parse_file` is then called with is `$HOME/x`, located at the spec's file. -/
theorem implGet_refines (fs : FS) (home : PPath) (cwd : List Comp) (ks : List Text) :
    ∀ (src : PPath) (file : List Comp) (v : Val), fs.locate cwd src = .ok file →
      implGet fs home cwd (some src) v ks = specGet fs home cwd file v ks := by
  induction ks with
  | nil => intro src file v _; cases v <;> simp [implGet, specGet]
  | cons k ks ih =>
    -- one hop: the code enters the file at `r`, the spec the file `r` is located at
    have hop : ∀ (r : PPath) (tgt : Except Err (List Comp)), fs.locate cwd r = tgt →
        (match enterFile fs cwd r k with
          | .ok v => implGet fs home cwd (some r) v ks
          | .error e => .error e) =
        (match tgt with
          | .error e => .error e
          | .ok n => match specEnter fs n k with
            | .ok v => specGet fs home cwd n v ks
            | .error e => .error e) := by
      intro r tgt ht
      subst ht
      unfold enterFile
      cases hl : fs.locate cwd r with
      | error e => rfl
      | ok n =>
        simp only [specEnter]
        cases topSet (fs.content n) with
        | error e => rfl
        | ok bs =>
          simp only
          cases getKey bs k with
          | error e => rfl
          | ok v =>
            simp only
            exact ih r n v hl
    intro src file v hloc
    cases v with
    | lit n => simp [implGet, specGet]
    | set bs =>
      simp only [implGet, specGet]
      cases getKey bs k with
      | error e => rfl
      | ok v => exact ih src file v hloc
    | imp a =>
      simp only [implGet, specGet]
      cases hra : resolveArg a with
      | paren b => rfl
      | other => rfl
      | path t =>
        simp only
        by_cases hang : isAngle t = true
        · simp [resolvedPath, specTarget, hang]
        · have hang' : isAngle t = false := by simpa using hang
          cases hhome : isHome t with
          | true =>
            -- `~/x`: both sides are the OS's reading of `$HOME/x`
            have hr : resolvedPath t (some src) home =
                .ok ⟨home.abs, home.comps ++ (parsePath (t.drop 2)).comps⟩ := by
              simp only [resolvedPath, hang', hhome, Bool.false_eq_true, if_false, if_true]
              exact expanduser_home home t hhome
            rw [hr]
            simp only
            exact hop _ _ (by simp [specTarget, hang', hhome])
          | false =>
            -- the two targets coincide (hop lemma)
            have hr : resolvedPath t (some src) home =
                .ok (if !(parsePath t).abs then src.parent.join (parsePath t) else parsePath t) := by
              simp only [resolvedPath, hang', hhome, Bool.false_eq_true, if_false]
              split <;> rfl
            rw [hr]
            simp only
            apply hop
            rw [specTarget_rel fs home cwd file t hang' hhome]
            cases hab : (parsePath t).abs with
            | true => simp [FS.locate, hab]
            | false =>
              simp only [Bool.not_false, if_true, PPath.join, hab, Bool.false_eq_true, if_false,
                FS.locate, PPath.parent]
              exact fs.hop _ src.comps file hloc (parsePath t).comps

/-- **Main theorem (full strength: `./`, `../`, child, sibling, parent and absolute literals,
    `<…>`, and `~/` with Nix's reading).** For every filesystem, home path, working directory,
    entry spelling and key list, the code's answer is the spec's answer: each hop is resolved in
    the directory of the file that contains the literal — a `~/x` literal at `$HOME/x` —; errors
    included (same class, same hop). -/
theorem lookup_relative_to_importing_file (fs : FS) (home : PPath) (cwd : List Comp) (entry k : Text)
    (ks : List Text) :
    implLookup fs home cwd entry k ks = specFrom fs home cwd entry k ks := by
  simp only [implLookup, specFrom, enterFile, specLookup, specEnter]
  cases hl : fs.locate cwd (parsePath entry) with
  | error e => rfl
  | ok file =>
    simp only
    cases topSet (fs.content file) with
    | error e => rfl
    | ok bs =>
      simp only
      cases getKey bs k with
      | error e => rfl
      | ok v => exact implGet_refines fs home cwd ks _ file v hl

/-! ## 2. Corollaries: the working directory and the spelling of the entry path do not matter
(the home path being absolute — with a relative `$HOME`, `~/x` names a path relative to the working
directory, for Nix as for the code — or no `~/` literal occurring). -/

/-- Two (working directory, entry spelling) pairs that the OS locates at the same file — or that
    both fail — give the same result for every key list. -/
theorem cwd_and_spelling_independent (fs : FS) (home : PPath) (cwd₁ cwd₂ : List Comp) (e₁ e₂ k : Text)
    (ks : List Text) (hh : home.abs = true ∨ fs.noHome = true)
    (h : fs.locate cwd₁ (parsePath e₁) = fs.locate cwd₂ (parsePath e₂)) :
    implLookup fs home cwd₁ e₁ k ks = implLookup fs home cwd₂ e₂ k ks := by
  rw [lookup_relative_to_importing_file, lookup_relative_to_importing_file]
  exact specFrom_congr fs home home cwd₁ cwd₂ e₁ e₂ k ks (hh.imp (fun h => ⟨rfl, h⟩) id) h

/-- An absolute entry path gives the same result under every working directory. -/
theorem cwd_independent_absolute (fs : FS) (home : PPath) (cwd₁ cwd₂ : List Comp) (e k : Text)
    (ks : List Text) (hh : home.abs = true ∨ fs.noHome = true) (habs : (parsePath e).abs = true) :
    implLookup fs home cwd₁ e k ks = implLookup fs home cwd₂ e k ks := by
  apply cwd_and_spelling_independent _ _ _ _ _ _ _ _ hh
  simp [FS.locate, habs]

/-- The result depends on the entry only through the file it names: in particular the relative
    and the absolute spelling of one file agree. -/
theorem result_is_function_of_located_file (fs : FS) (home : PPath) (cwd : List Comp) (e k : Text)
    (ks : List Text) (file : List Comp) (h : fs.locate cwd (parsePath e) = .ok file) :
    implLookup fs home cwd e k ks = specLookup fs home cwd file k ks := by
  rw [lookup_relative_to_importing_file]
  unfold specFrom
  rw [h]

/-- On a filesystem without `~/` literals the home path plays no part. -/
theorem home_irrelevant_without_home_literals (fs : FS) (home₁ home₂ : PPath) (cwd : List Comp)
    (e k : Text) (ks : List Text) (hno : fs.noHome = true) :
    implLookup fs home₁ cwd e k ks = implLookup fs home₂ cwd e k ks := by
  rw [lookup_relative_to_importing_file, lookup_relative_to_importing_file]
  exact specFrom_congr fs home₁ home₂ cwd cwd e e k ks (.inr hno) rfl

/-! ## 3. Error classes. -/

/-- A non-path import argument (after parentheses are stripped) raises `TypeError` as soon as a
    key is looked up through it — no file is read. -/
theorem nonpath_argument_type_error (fs : FS) (home : PPath) (cwd : List Comp) (src : Option PPath)
    (a : Arg) (k : Text) (ks : List Text) (h : ∀ t, resolveArg a ≠ .path t) :
    implGet fs home cwd src (.imp a) (k :: ks) = .error .type := by
  cases hra : resolveArg a with
  | path t => exact absurd hra (h t)
  | paren b => simp [implGet, hra]
  | other => simp [implGet, hra]

/-- An angle-bracket path raises `ValueError` — no file is read. -/
theorem angle_path_value_error (fs : FS) (home : PPath) (cwd : List Comp) (src : Option PPath)
    (a : Arg) (t : Text) (k : Text) (ks : List Text) (h : resolveArg a = .path t)
    (hang : isAngle t = true) :
    implGet fs home cwd src (.imp a) (k :: ks) = .error .value := by
  simp [implGet, h, resolvedPath, hang]

/-- A literal whose target (relative to the importing file; `$HOME/x` for `~/x`) is not a readable
    regular file raises an `OSError`; in particular the lookup does not fall back to some other
    file. -/
theorem missing_file_os_error (fs : FS) (home : PPath) (cwd : List Comp) (src : PPath)
    (file : List Comp) (a : Arg) (t : Text) (k : Text) (ks : List Text) (e : Err)
    (hloc : fs.locate cwd src = .ok file) (h : resolveArg a = .path t) (hang : isAngle t = false)
    (hmiss : specTarget fs home cwd file t = .error e) :
    implGet fs home cwd (some src) (.imp a) (k :: ks) = .error .os := by
  rw [implGet_refines fs home cwd (k :: ks) src file _ hloc]
  simp only [specGet, h, hmiss]
  congr 1
  exact specTarget_error fs home cwd file t e hang hmiss

/-- "Never another file": when a hop succeeds, the value comes out of exactly the file the spec
    names, and that file is the lexical normal form of `<directory of the importing file>/<literal>`
    (what Nix itself computes for the literal). -/
theorem hop_reads_the_lexical_target (fs : FS) (home : PPath) (cwd file : List Comp) (t : Text)
    (n : List Comp) (hang : isAngle t = false) (hh : isHome t = false)
    (h : specTarget fs home cwd file t = .ok n) :
    n = lexNorm (if (parsePath t).abs then [] else file.dropLast) (parsePath t).comps ∧
    fs.isFile n = true := by
  rw [specTarget_rel fs home cwd file t hang hh] at h
  exact ⟨fs.locateFrom_lex _ _ _ h, (fs.locateFrom_ok _ _ _ h).2.1⟩

/-- The same for a `~/x` literal: the file read is the lexical normal form of `$HOME/x`; the
    importing file does not occur. -/
theorem home_hop_reads_the_lexical_target (fs : FS) (home : PPath) (cwd file : List Comp) (t : Text)
    (n : List Comp) (hang : isAngle t = false) (hh : isHome t = true)
    (h : specTarget fs home cwd file t = .ok n) :
    n = lexNorm (if home.abs then [] else cwd) (home.comps ++ (parsePath (t.drop 2)).comps) ∧
    fs.isFile n = true := by
  rw [specTarget_home fs home cwd file t hang hh] at h
  exact ⟨fs.locateFrom_lex _ _ _ h, (fs.locateFrom_ok _ _ _ h).2.1⟩

/-! ## 4. `~/x` means `<home>/x` (formerly false of the code: finding C17-home-literal, repaired). -/

/-- The path the code computes for a `~/` literal does not depend on the importing file. -/
theorem home_literal_independent_of_importing_file (t : Text) (src₁ src₂ : Option PPath) (home : PPath)
    (hh : isHome t = true) : resolvedPath t src₁ home = resolvedPath t src₂ home := by
  unfold resolvedPath
  simp [hh]

/-- … and it is the home path followed by the components after `~/`. -/
theorem home_literal_resolved (t : Text) (src : Option PPath) (home : PPath)
    (hang : isAngle t = false) (hh : isHome t = true) :
    resolvedPath t src home = .ok ⟨home.abs, home.comps ++ (parsePath (t.drop 2)).comps⟩ := by
  simp only [resolvedPath, hang, hh, Bool.false_eq_true, if_false, if_true]
  exact expanduser_home home t hh

/-- The SPEC's `$HOME/x`, for a home directory `h` that exists and is given canonically (what the
    harness sets `HOME` to), is `x` resolved from the directory `h` — as a literal `./x` written in
    a file of `h` would be. -/
theorem home_literal_in_home_directory (fs : FS) (h cwd file : List Comp) (t : Text)
    (hang : isAngle t = false) (hh : isHome t = true) (hd : fs.isDir h = true)
    (hc : canonical h = true) :
    specTarget fs ⟨true, h⟩ cwd file t = fs.locateFrom h (parsePath (t.drop 2)).comps := by
  rw [specTarget_home fs _ cwd file t hang hh]
  exact fs.home_hop h _ hd hc

/-- The full statement: as the main theorem, `~/x` meaning `<home>/x` for every home directory. -/
def Full : Prop :=
  ∀ (fs : FS) (home cwd : List Comp) (entry k : Text) (ks : List Text),
    implLookup fs ⟨true, home⟩ cwd entry k ks = specFrom fs ⟨true, home⟩ cwd entry k ks

/-- It holds (before the repair its negation was proved: `cex_home`). -/
theorem full_holds : Full :=
  fun fs home cwd entry k ks => lookup_relative_to_importing_file fs ⟨true, home⟩ cwd entry k ks

def cexFS : FS where
  files := [
    (["w".toList, "a.nix".toList], .attrs [("h".toList, .imp (.path "~/h.nix".toList))]),
    (["w".toList, "~".toList, "h.nix".toList], .attrs [("v".toList, .lit 1)]),
    (["home".toList, "h.nix".toList], .attrs [("v".toList, .lit 2)])]
  dirs := []

/-- The witness of the former counterexample (finding C17-home-literal): `import ~/h.nix` in
    `/w/a.nix` reads `/home/h.nix` (value 2), not `/w/~/h.nix` (value 1, a directory literally
    named `~` next to the importing file) — from the file's directory, from the root with a
    relative spelling, and from the home directory with an absolute one. Replayed on the
    implementation by the check (`fixed_cases`). -/
theorem home_literal_reads_home :
    implLookup cexFS ⟨true, ["home".toList]⟩ ["w".toList] "a.nix".toList "h".toList ["v".toList]
      = .ok (.lit 2) ∧
    implLookup cexFS ⟨true, ["home".toList]⟩ [] "w/a.nix".toList "h".toList ["v".toList]
      = .ok (.lit 2) ∧
    implLookup cexFS ⟨true, ["home".toList]⟩ ["home".toList] "/w/a.nix".toList "h".toList ["v".toList]
      = .ok (.lit 2) := by
  decide

/-! ## Non-vacuity: a layout with three directories, a chain through child, parent and absolute
literals, looked up from two working directories with three spellings of the entry. -/

def demoFS : FS where
  files := [
    (["r".toList, "a.nix".toList], .attrs [
      ("v".toList, .lit 1),
      ("i".toList, .imp (.paren (.path "./sub/b.nix".toList))),
      ("n".toList, .imp (.path "<nixpkgs>".toList)),
      ("s".toList, .imp .other),
      ("m".toList, .imp (.path "./nope/../sub/b.nix".toList))]),
    (["r".toList, "sub".toList, "b.nix".toList], .attrs [
      ("w".toList, .lit 3),
      ("up".toList, .imp (.path "../a.nix".toList)),
      ("d".toList, .imp (.path "deep/c.nix".toList))]),
    (["r".toList, "sub".toList, "deep".toList, "c.nix".toList], .attrs [
      ("z".toList, .lit 9),
      ("back".toList, .imp (.path "/r/sub/../a.nix".toList))])]
  dirs := [["r".toList, "empty".toList]]

example : demoFS.noHome = true := by decide
def demoHome : PPath := ⟨true, ["r".toList, "empty".toList]⟩
example : implLookup demoFS demoHome ["r".toList] "a.nix".toList "i".toList ["d".toList, "back".toList, "i".toList, "w".toList]
    = .ok (.lit 3) := by decide
example : implLookup demoFS demoHome ["r".toList, "sub".toList, "deep".toList] "../../a.nix".toList "i".toList
    ["d".toList, "back".toList, "i".toList, "w".toList] = .ok (.lit 3) := by decide
example : implLookup demoFS demoHome ["r".toList, "empty".toList] "/r/sub/deep/../../a.nix".toList "i".toList
    ["up".toList, "v".toList] = .ok (.lit 1) := by decide
example : demoFS.locate ["r".toList, "sub".toList] (parsePath "../a.nix".toList) =
    demoFS.locate ["r".toList, "empty".toList] (parsePath "/r/a.nix".toList) := by decide
example : implLookup demoFS demoHome ["r".toList] "a.nix".toList "n".toList ["x".toList] = .error .value := by decide
example : implLookup demoFS demoHome ["r".toList] "a.nix".toList "s".toList ["x".toList] = .error .type := by decide
example : implLookup demoFS demoHome ["r".toList] "a.nix".toList "m".toList ["w".toList] = .error .os := by decide
example : implLookup demoFS demoHome ["r".toList] "sub/../sub".toList "w".toList [] = .error .os := by decide
-- the hypotheses of `home_literal_in_home_directory` are satisfiable, and a missing `~/` target is an OSError
example : cexFS.isDir ["home".toList] = true ∧ canonical ["home".toList] = true ∧
    isHome "~/h.nix".toList = true ∧ isAngle "~/h.nix".toList = false := by decide
example : cexFS.noHome = false := by decide
example : implLookup cexFS ⟨true, ["nowhere".toList]⟩ ["w".toList] "a.nix".toList "h".toList ["v".toList]
    = .error .os := by decide
-- a home path that is not canonical is still `$HOME/x` as the OS reads it
example : implLookup cexFS ⟨true, ["w".toList, "..".toList, "home".toList]⟩ ["w".toList] "a.nix".toList
    "h".toList ["v".toList] = .ok (.lit 2) := by decide

end Nima.C17
