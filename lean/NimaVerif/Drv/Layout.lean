import NimaVerif.Model.Rebuild
import NimaVerif.Model.FragSpec
import NimaVerif.Model.SExp
/-!
Driver requests for L3–L5 (container fragment):

    (roundtrip (F (item…) <endGap>))  →  (ok <text>) | (err <class>) | (uncovered <why>)
    (pieces    (F (item…) <endGap>))  →  (ok (t|c|w <text>)…) | (err <class>) | (uncovered <why>)
    (flatten   (F (item…) <endGap>))  →  (ok <text>)

    cst   ::= (l <kind> <text>) | (L (item…) <closeGap>) | (S <t|f> <recGap> (item…) <closeGap>)
    item  ::= (c <gap> <text>) | (e <gap> cst)
            | (b <gap> <name> (gc…) <g1> (gc…) <g2> cst (gc…) <g3>)
    gc    ::= (<gap> <text>)
    kind  ::= i | n | f | s | p          (ident, int, float, string, path)

texts are `x`+hex(UTF-8) atoms.
-/
namespace Nima.Drv.Layout
open Nima Nima.Frag

def decKind : String → Option LeafKind
  | "i" => some .ident | "n" => some .int | "f" => some .float | "s" => some .str | "p" => some .path
  | _ => none

def decGC : List SExp → Option GC
  | [] => some []
  | .list [.atom g, .atom t] :: rest => do
      let g ← decText g; let t ← decText t; let r ← decGC rest
      pure ((g, t) :: r)
  | _ => none

mutual
partial def decCst : SExp → Option Cst
  | .list [.atom "l", .atom k, .atom t] => do pure (.leaf (← decKind k) (← decText t))
  | .list [.atom "L", .list its, .atom cg] => do pure (.list (← decItems its) (← decText cg))
  | .list [.atom "S", .atom r, .atom rg, .list its, .atom cg] => do
      pure (.set (r == "t") (← decText rg) (← decItems its) (← decText cg))
  | _ => none
partial def decItems : List SExp → Option Items
  | [] => some .nil
  | .list [.atom "c", .atom g, .atom t] :: rest => do
      pure (.cmt (← decText g) (← decText t) (← decItems rest))
  | .list [.atom "e", .atom g, c] :: rest => do
      pure (.elem (← decText g) (← decCst c) (← decItems rest))
  | .list [.atom "b", .atom g, .atom n, .list c1, .atom g1, .list c2, .atom g2, v, .list c3, .atom g3] :: rest => do
      pure (.bind (← decText g) (← decText n) (← decGC c1) (← decText g1) (← decGC c2) (← decText g2)
              (← decCst v) (← decGC c3) (← decText g3) (← decItems rest))
  | _ => none
end

def decFile : SExp → Option File
  | .list [.atom "F", .list its, .atom eg] => do pure { items := ← decItems its, endGap := ← decText eg }
  | _ => none

def handle (req : SExp) : Option SExp :=
  match req with
  | .list [.atom "roundtrip", f] =>
    match decFile f with
    | none => some (.list [.atom "bad-arg"])
    | some f =>
      if !f.wf then some (.list [.atom "uncovered", .atom "wf"])
      else if !f.noLeadingWs then some (.list [.atom "uncovered", .atom "leading-ws"])
      else match f.roundtrip with
        | .ok t => some (.list [.atom "ok", sText t])
        | .error e => some (sErr e)
  | .list [.atom "pieces", f] =>
    -- the piece-level renderer: (ok (t|c|w <text>)…)
    match decFile f with
    | none => some (.list [.atom "bad-arg"])
    | some f =>
      if !f.wf then some (.list [.atom "uncovered", .atom "wf"])
      else if !f.noLeadingWs then some (.list [.atom "uncovered", .atom "leading-ws"])
      else match f.parse with
        | .ok s => some (.list (.atom "ok" :: s.rebuildP.map fun p => match p with
            | .tok t => .list [.atom "t", sText t]
            | .cmt t => .list [.atom "c", sText t]
            | .ws t => .list [.atom "w", sText t]))
        | .error e => some (sErr e)
  | .list [.atom "facts", f] =>
    -- which theorem hypotheses hold for this input, and the decidable conclusions on its output:
    -- (ok <orderOk> <beforeFlatB> <safe> <spacing normal form> <tokens preserved>)
    match decFile f with
    | none => some (.list [.atom "bad-arg"])
    | some f =>
      if !f.wf then some (.list [.atom "uncovered", .atom "wf"])
      else if !f.noLeadingWs then some (.list [.atom "uncovered", .atom "leading-ws"])
      else match f.parse with
        | .ok s => some (.list [.atom "ok", sBool f.orderOk, sBool s.beforeFlatB,
            sBool (safeGo false s.rebuildP), sBool (summ s.rebuildP).fileOk,
            sBool (decide (toks s.rebuildP = f.codeTokens))])
        | .error e => some (sErr e)
  | .list [.atom "flatten", f] =>
    match decFile f with
    | none => some (.list [.atom "bad-arg"])
    | some f => some (.list [.atom "ok", sText f.flatten])
  | _ => none

end Nima.Drv.Layout
