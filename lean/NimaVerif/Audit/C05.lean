import NimaVerif.Props.C05
open Nima.C05
#print axioms set_plain_refines
#print axioms set_nested_explicit_refines
#print axioms rm_plain_refines
#print axioms rm_nested_explicit_refines
#print axioms set_attrpath_root_refused
#print axioms set_attrpath_leaf_refines
#print axioms set_attrpath_new_refines
#print axioms rm_attrpath_refines
#print axioms set_fresh_goes_last
#print axioms set_attrpath_entry_appended
#print axioms specSet_nodup
#print axioms specRemove_nodup
#print axioms keys_preserved
#print axioms rendered_eq_denote_values
#print axioms docNestedFamily_wf
#print axioms cex_nested_family
#print axioms cex_rendered_follows
#print axioms docInherit_wf
#print axioms cex_inherit_duplicate
#print axioms cex_set_plain_full
#print axioms refusal_set
#print axioms refusal_rm
#print axioms refusal_scope_set
#print axioms refusal_scope_rm
#print axioms docEx_wf
#print axioms docEx_coh
