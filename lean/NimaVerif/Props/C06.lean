import NimaVerif.Lemmas.Trivia
/-!
# C06 — rebuilt text is a fixed point (trivia algebra)

The gap-level heart of the fixed-point property: classifying a gap, rendering the classification and
classifying the rendered text again gives the same classification (and therefore the same text on
the second pass), for every gap text; the same for the trivia collected from a gap
(`append_gap_trivia` ∘ `format_trivia`) and for comment tokens (`Comment.from_cst` ∘ `rebuild`).
Theorems about `Model/Trivia.lean`; SPEC notions in `Model/TriviaSpec.lean`. The per-construct
renderers are observed by the harness, not modelled.
-/
namespace Nima.C06

/-! ## Layout classification is idempotent -/

/-- the classification a rendered separator has: indentation made explicit -/
def Layout.normalize (l : Layout) (i : Nat) : Layout :=
  if l.onNewline then { onNewline := true, blankLine := l.blankLine, indent := some (l.indent.getD i) } else {}

/-- For every layout value: re-classifying the separator rendered from it gives the layout with the
    indentation default filled in (and nothing else changed). -/
theorem fromGap_separator (l : Layout) (i : Nat) :
    Layout.fromGap (separatorFromLayout l i) = Layout.normalize l i := by
  unfold separatorFromLayout Layout.normalize
  cases l.onNewline
  · rfl
  · cases l.blankLine
    · simp only [Bool.not_true, Bool.false_eq_true, if_false, if_true]
      exact fromGap_nl_spaces _
    · simp only [Bool.not_true, Bool.false_eq_true, if_false, if_true]
      exact fromGap_nlnl_spaces _

/-- For layouts that come from a gap — every layout the parser produces — the classification is a
    fixed point outright, whatever the gap text and the indentation default. -/
theorem fromGap_separator_idem (g : Text) (i : Nat) :
    Layout.fromGap (separatorFromLayout (Layout.fromGap g) i) = Layout.fromGap g := by
  rw [fromGap_separator]
  unfold Layout.normalize Layout.fromGap
  cases containsNL g <;> rfl

/-- Second pass = first pass: the separator rendered from the re-classified separator is the
    separator, byte for byte, for every gap and whatever the indentation defaults of both passes. -/
theorem separator_second_pass (g : Text) (i j : Nat) :
    separatorFromLayout (Layout.fromGap (separatorFromLayout (Layout.fromGap g) i)) j
      = separatorFromLayout (Layout.fromGap g) i := by
  rw [fromGap_separator_idem]
  unfold separatorFromLayout Layout.fromGap
  cases containsNL g <;> rfl

/-- `Layout.from_gap` only ever produces layouts with an explicit indentation on a new line and
    nothing at all otherwise. -/
theorem fromGap_wellformed (g : Text) :
    (Layout.fromGap g).onNewline = containsNL g ∧
    (containsNL g = false → Layout.fromGap g = {}) ∧
    (containsNL g = true → (Layout.fromGap g).indent = some (indentFromGap g)) := by
  unfold Layout.fromGap
  cases containsNL g <;> simp

/-! ## Trivia collected from a gap -/

/-- the text a multi-line container writes between two items whose `before` list is `ts`:
    the joining line break, the rendered trivia, the indentation of the next item -/
def gapText (ts : List Trivia) (i : Nat) : Text := '\n' :: formatTrivia ts i ++ spaces i

theorem gapText_emptyLine (i : Nat) : gapText [.emptyLine] i = '\n' :: '\n' :: spaces i := rfl
theorem gapText_linebreak (i : Nat) : gapText [.linebreak] i = '\n' :: spaces i := rfl
theorem gapText_nil (i : Nat) : gapText [] i = '\n' :: spaces i := rfl

/-- `append_gap_trivia` on a gap that contains a line break: classify, render between two items,
    classify again — the same markers are appended (both `include_linebreak` settings, any list
    appended to, any gap text). `parse_delimited_sequence` uses the byte-offset variant, which is the
    same function by `C18.empty_line_impls_agree`. -/
theorem appendGapTrivia_idem (ts : List Trivia) (g : Text) (i : Nat) (incl1 incl2 : Bool)
    (h : containsNL g = true) :
    appendGapTrivia ts (gapText (appendGapTrivia [] g incl1) i) incl2 = appendGapTrivia ts g incl2 := by
  unfold appendGapTrivia
  cases hb : gapHasEmptyLine g
  · simp only [Bool.false_eq_true, if_false, h, Bool.and_true]
    have e : gapText (if incl1 = true then [] ++ [Trivia.linebreak] else []) i = '\n' :: spaces i := by
      cases incl1 <;> rfl
    rw [e, gapHasEmptyLine_nl_spaces]
    simp [containsNL_cons]
  · simp only [if_true, List.nil_append, gapText_emptyLine, gapHasEmptyLine_nlnl_spaces]

/-- A gap without a line break (two items on one line) contributes no marker; once the container
    is written one item per line the gap is classified as a plain line break … -/
theorem appendGapTrivia_inline_gap (ts : List Trivia) (g : Text) (i : Nat) (incl : Bool)
    (h : containsNL g = false) :
    appendGapTrivia ts g incl = ts ∧
    appendGapTrivia ts (gapText (appendGapTrivia [] g incl) i) true = ts ++ [.linebreak] := by
  have h1 : gapHasEmptyLine g = false := by
    unfold gapHasEmptyLine; simp [h]
  have h2 : ∀ ts', appendGapTrivia ts' g incl = ts' := by
    intro ts'; unfold appendGapTrivia; simp [h1, h]
  refine ⟨h2 ts, ?_⟩
  rw [h2 [], gapText_nil]
  unfold appendGapTrivia
  simp [gapHasEmptyLine_nl_spaces, containsNL_cons]

/-- … which renders to the same text: for EVERY gap the rendered gap text is a fixed point of
    classify-and-render. -/
theorem gapText_fixed_point (g : Text) (i : Nat) :
    gapText (appendGapTrivia [] (gapText (appendGapTrivia [] g) i)) i = gapText (appendGapTrivia [] g) i := by
  cases h : containsNL g
  · rw [(appendGapTrivia_inline_gap [] g i true h).2, (appendGapTrivia_inline_gap [] g i true h).1]
    rfl
  · rw [appendGapTrivia_idem [] g i true true h]

/-- A `before` list as the sequence parser builds it — gap, own-line comment, gap — renders to
    canonical gap texts around the comment token, so that `appendGapTrivia_idem` and
    `block_comment_idem` / `line_comment_idem` apply to each part of the rendered text. -/
theorem before_list_rendering (g1 g2 : Text) (c : Comment) (i : Nat) (hc : c.inline = false) :
    gapText (appendGapTrivia [] g1 ++ [.comment c] ++ appendGapTrivia [] g2) i =
      gapText (appendGapTrivia [] g1) i ++ c.token i ++ gapText (appendGapTrivia [] g2) i := by
  have hcf : ∀ g, CommaFree (appendGapTrivia [] g) := by
    intro g; unfold appendGapTrivia; split
    · decide
    · split <;> decide
  have hall : CommaFree (appendGapTrivia [] g1 ++ [.comment c] ++ appendGapTrivia [] g2) := by
    rw [commaFree_append, commaFree_append]
    exact ⟨⟨hcf g1, by simp [CommaFree]⟩, hcf g2⟩
  unfold gapText
  rw [Nima.formatTrivia_append _ _ i hall, Nima.formatTrivia_append _ _ i (commaFree_append.mp hall).1,
    formatTrivia_eq_flatMap [.comment c] i (by simp [CommaFree])]
  simp [itemText, rebuild_eq_token, Comment.effIndent, hc]

/-! ## Comment normalisation is idempotent (shared with C03) -/

/-- Block comments, every token text after `/*`, every column and indentation: the rendered token is
    read back (at the column it is written at) as the same comment, hence re-rendered identically. -/
theorem block_comment_fixed_point (c1 i : Nat) (t : Text) (h : startsWith ['/', '*'] t = true) :
    (Comment.fromText i ((Comment.fromText c1 t).token i)).token i = (Comment.fromText c1 t).token i := by
  rw [block_token_fixed c1 i t h]

/-- Line comments: rendered text is stable from the first pass on (`# ` included). -/
theorem line_comment_fixed_point (c1 c2 : Nat) (r : Text) (hnl : containsNL r = false) :
    (Comment.fromText c2 ((Comment.fromText c1 ('#' :: r)).rebuild 0)).rebuild 0
      = (Comment.fromText c1 ('#' :: r)).rebuild 0 := by
  rw [line_comment_rebuild c1 0 r hnl]
  by_cases h : r = [' ']
  · subst h
    simp only [if_true, spaces_zero, List.nil_append]
    rw [line_comment_rebuild c2 0 [] rfl]; rfl
  · simp only [h, if_false, spaces_zero, List.nil_append]
    rw [fromText_hash_col c2 c1 r, line_comment_rebuild c1 0 r hnl]; simp [h]

/-- Full statement for comments rendered inline (false): an inline comment is rendered with
    indentation 0 while its token sits at some column `col > 0` after code, so the second pass reads
    the continuation lines relative to another column. -/
def inline_block_fixed_point_full : Prop :=
  ∀ (col : Nat) (t : Text), startsWith ['/', '*'] t = true →
    (Comment.fromText col ((Comment.fromText col t).token 0)).token 0 = (Comment.fromText col t).token 0

/-- `x = 1; /* x⏎␣×14 y */`: first pass re-indents the continuation line to 7 spaces, the second
    pass (token again at column 7) strips them: the text changes on every one of the first two
    passes. A drift of inline multi-line block comments whose continuation lines are indented by at
    least twice the token's column. -/
theorem cex_inline_multiline_block_drift : ¬ inline_block_fixed_point_full := by
  intro h
  have := h 7 "/* x\n              y */".toList rfl
  revert this; decide

/-- Partial: the inline rendering is a fixed point when the token starts in column 0 or the comment
    is a single-line one (decidable side condition). -/
theorem inline_block_fixed_point_partial (col : Nat) (t : Text) (h : startsWith ['/', '*'] t = true)
    (hs : col = 0 ∨ containsNL (blockInner t) = false) :
    (Comment.fromText col ((Comment.fromText col t).token 0)).token 0 = (Comment.fromText col t).token 0 := by
  rcases hs with rfl | hs
  · rw [block_token_fixed 0 0 t h]
  · have : Comment.fromText col ((Comment.fromText col t).token 0) = Comment.fromText col t := by
      rw [fromText_block col t h]
      simp only [hs, Bool.false_eq_true, if_false]
      have hx : containsNL (strip (blockInner t)) = false := containsNL_of_sublist (stripBy_sublist _ _) hs
      have htok : ({ text := strip (blockInner t), kind := .block (blockDoc t) none } : Comment).token 0 =
          blockOpening (blockDoc t) ++ [' '] ++ strip (blockInner t) ++ [' ', '*', '/'] := by
        simp [Comment.token, hx, blockOpening]
      rw [htok]
      exact fromText_single_block col (blockDoc t) _ (stripBy_stripped _ _) hx
    rw [this]

/-! ## Examples (non-vacuity) -/

def hostileGap : Text := "\t \r\n\n   ".toList

example : Layout.fromGap (separatorFromLayout (Layout.fromGap hostileGap) 2) = Layout.fromGap hostileGap := by decide
example : appendGapTrivia [] hostileGap = [.emptyLine] := by decide
example : gapText (appendGapTrivia [] hostileGap) 2 = "\n\n  ".toList := by decide
example : appendGapTrivia [] (gapText (appendGapTrivia [] hostileGap) 2) = [.emptyLine] := by decide
example : gapText (appendGapTrivia [] " \t".toList ++ [.comment { text := "c".toList }] ++ appendGapTrivia [] "\n\n\n".toList) 2
    = "\n  # c\n\n  ".toList := by decide
example : (Comment.fromText 2 "/* a\n       b\n  */".toList).token 2 = "/* a\n       b\n  */".toList := by decide
example : (Comment.fromText 7 "/* x\n          y */".toList).token 0 = "/* x\n   y */".toList := by decide

end Nima.C06
