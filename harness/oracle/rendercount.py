"""Run-time observer for C20: counts `rebuild` invocations per (parent class, child field).

No source hook: the `rebuild` methods (and the render-like helpers the translator found, e.g.
`NixList.simple_inline_preview`) of every class under `nix_manipulator.expressions` are wrapped at
run time, `NixExpression.model_copy` is wrapped to remember which object a copy stands for.

A *frame* is one invocation of a wrapped method on an object. For every frame we record how often
each child object was rendered directly inside it; children are attributed to a field path of the
parent by identity (`output`, `value.after`, `attrpath_order`, `@new:LetExpression` for objects made
on the spot). From that:

* `check(table)`: observed count <= table[(class, field)] for every frame (the translator's table is a
  maximum over paths), and the maximum observed per table key;
* `skeleton()`: the tree of objects actually rendered (class tag + children by field) — the input of
  the Lean cost model `calls m e`;
* `frames`: the total number of invocations (what `calls m (skeleton)` bounds).
"""
from __future__ import annotations

import dataclasses
import importlib
import inspect
import pkgutil

MAX_DEPTH = 2


class BudgetExceeded(BaseException):
    """More frames than the caller allowed (BaseException: the code under test must not swallow it)."""


class Frame:
    __slots__ = ("obj", "node", "children", "kind")

    def __init__(self, obj, node, kind):
        self.obj, self.node, self.kind = obj, node, kind
        self.children: dict = {}  # child node key -> [count, child object]


def expression_classes():
    import nix_manipulator.expressions as pkg
    from nix_manipulator.expressions.source_code import NixSourceCode  # noqa: F401

    seen = []
    for m in pkgutil.walk_packages(pkg.__path__, pkg.__name__ + "."):
        mod = importlib.import_module(m.name)
        for c in vars(mod).values():
            if inspect.isclass(c) and c.__module__ == mod.__name__ and c not in seen:
                seen.append(c)
    return seen


class Tracer:
    def __init__(self, render_like: dict[str, list[str]] | None = None, expr_fields=None):
        self.render_like = render_like or {}
        self.expr_fields = set(expr_fields or ())
        self.patched: list = []
        self.reset()

    # ------------------------------------------------------------ state of one measurement
    def reset(self, budget: int | None = None):
        self.stack: list[Frame] = []
        self.frames = 0
        self.rebuild_frames = 0
        self.budget = budget
        self.origin: dict[int, object] = {}  # id(copy) -> the object it stands for
        self.keep: list = []  # strong references: ids stay unique during a measurement
        self.nodes: dict = {}  # node key -> (class name, object)
        self.edges: dict = {}  # parent node key -> {child node key: max count in one parent frame}
        self.root = None

    def canon(self, o):
        seen = 0
        while id(o) in self.origin and seen < 64:
            o = self.origin[id(o)]
            seen += 1
        return o

    def node_key(self, o):
        c = self.canon(o)
        scoped = False
        hs = getattr(o, "has_scope", None)
        if hs is not None:
            try:
                scoped = bool(hs())
            except Exception:  # noqa: BLE001
                scoped = False
        return (id(c), scoped)

    # ------------------------------------------------------------ wrapping
    def install(self):
        from nix_manipulator.expressions.expression import NixExpression

        tracer = self

        def wrap(cls, name, kind):
            orig = cls.__dict__[name]

            def wrapper(self, *a, **k):
                return tracer.enter(self, kind, orig, a, k)

            wrapper.__name__ = name
            wrapper.__wrapped__ = orig
            setattr(cls, name, wrapper)
            tracer.patched.append((cls, name, orig))

        for cls in expression_classes():
            if "rebuild" in cls.__dict__ and inspect.isfunction(cls.__dict__["rebuild"]):
                wrap(cls, "rebuild", "rebuild")
            for m in self.render_like.get(cls.__name__, ()):
                if m in cls.__dict__ and inspect.isfunction(cls.__dict__[m]):
                    wrap(cls, m, "helper")
        orig_copy = NixExpression.__dict__["model_copy"]

        def model_copy(self, update=None):
            new = orig_copy(self, update)
            if new is not self:
                tracer.origin[id(new)] = tracer.canon(self)
                tracer.keep.append(new)
                tracer.keep.append(self)
            return new

        NixExpression.model_copy = model_copy
        self.patched.append((NixExpression, "model_copy", orig_copy))

    def uninstall(self):
        for cls, name, orig in reversed(self.patched):
            setattr(cls, name, orig)
        self.patched = []

    def enter(self, obj, kind, orig, a, k):
        node = self.node_key(obj)
        parent = self.stack[-1] if self.stack else None
        if kind == "helper" and parent is not None and parent.node[0] == node[0]:
            return orig(obj, *a, **k)  # a helper called on self: part of the enclosing frame
        self.frames += 1
        if kind == "rebuild":
            self.rebuild_frames += 1
        if self.budget is not None and self.frames > self.budget:
            raise BudgetExceeded()
        self.keep.append(obj)
        if node not in self.nodes:
            self.nodes[node] = (type(obj).__name__, obj)
        if parent is None:
            if self.root is None:
                self.root = node
        else:
            slot = parent.children.get(node)
            if slot is None:
                parent.children[node] = [1, obj]
            else:
                slot[0] += 1
        fr = Frame(obj, node, kind)
        self.stack.append(fr)
        try:
            return orig(obj, *a, **k)
        finally:
            self.stack.pop()
            if fr.children:
                e = self.edges.setdefault(node, {})
                for ck, (n, _o) in fr.children.items():
                    if n > e.get(ck, 0):
                        e[ck] = n

    # ------------------------------------------------------------ attribution
    def fields_of(self, o):
        if dataclasses.is_dataclass(o):
            return [f.name for f in dataclasses.fields(o)]
        return [n for n in ("expressions", "trailing") if hasattr(o, n)]

    def paths_to(self, parent, child_key):
        """Field paths (truncated to MAX_DEPTH components) from `parent` to an object that stands for
        the child node: direct fields first, the whole subtree only when that finds nothing."""
        return self._paths_to(parent, child_key, 0) or self._paths_to(parent, child_key, 10 ** 6)

    def _paths_to(self, parent, child_key, limit: int):
        from nix_manipulator.expressions.expression import NixExpression

        target = child_key[0]
        found = set()
        seen = set()
        todo = [(parent, (), 0)]
        while todo:
            o, path, depth = todo.pop()
            if depth > limit or id(o) in seen:
                continue
            seen.add(id(o))
            for name in self.fields_of(o):
                if name in ("scope_state",):
                    continue
                try:
                    v = getattr(o, name)
                except Exception:  # noqa: BLE001
                    continue
                is_expr_parent = isinstance(o, NixExpression) or not dataclasses.is_dataclass(o)
                extend = is_expr_parent or name in self.expr_fields
                p2 = path if (len(path) >= MAX_DEPTH or not extend) else path + (name,)
                items = v if isinstance(v, (list, tuple)) else [v]
                for x in items:
                    if isinstance(x, (str, bytes, int, float, bool)) or x is None:
                        continue
                    if isinstance(x, NixExpression) or dataclasses.is_dataclass(x):
                        if isinstance(x, NixExpression) and id(self.canon(x)) == target:
                            found.add(p2)
                        todo.append((x, p2, depth + 1))
        return found

    def attribute(self, parent_key, child_key, table_keys: set):
        """-> sorted candidate table fields for this edge (longest matching prefix per access path)"""
        pcls, pobj = self.nodes[parent_key]
        ccls, _cobj = self.nodes[child_key]
        if child_key[0] == parent_key[0]:
            return ["@self"]
        out = set()
        for path in self.paths_to(pobj, child_key):
            for n in range(len(path), 0, -1):
                key = ".".join(path[:n])
                if (pcls, key) in table_keys:
                    out.add(key)
                    break
            else:
                out.add(".".join(path))  # not in the table: reported by check()
        if not out:
            out.add(f"@new:{ccls}")
        return sorted(out)

    # ------------------------------------------------------------ results
    def check(self, table: dict):
        """-> (violations, observed) ; observed[(cls, field)] = max count in one frame;
        violations = [(cls, fields, observed, bound, child class)]"""
        keys = set(table)
        observed: dict = {}
        bad = []
        self.edge_field: dict = {}
        for pk, ch in self.edges.items():
            pcls = self.nodes[pk][0]
            for ck, n in ch.items():
                cands = self.attribute(pk, ck, keys)
                bound, best = -1, cands[0]
                for f in cands:
                    m = table.get((pcls, f), -1)
                    if m > bound:
                        bound, best = m, f
                self.edge_field[(pk, ck)] = best
                k = (pcls, best)
                if n > observed.get(k, 0):
                    observed[k] = n
                if n > bound:
                    bad.append((pcls, cands, n, bound, self.nodes[ck][0]))
        return bad, observed

    def doubled_edges(self):
        """[(parent class, field, child class, count)] for edges rendered more than once in one frame
        (needs check() first)."""
        out = []
        for pk, ch in self.edges.items():
            for ck, n in ch.items():
                if n >= 2:
                    out.append((self.nodes[pk][0], self.edge_field.get((pk, ck), "?"), self.nodes[ck][0], n))
        return out

    def skeleton(self, max_nodes: int = 200000):
        """Nested lists [cls, [[field, child], …]] of the objects rendered (needs check() first)."""
        count = 0

        def build(nk, path):
            nonlocal count
            count += 1
            if count > max_nodes:
                raise ValueError("skeleton too large")
            if nk in path:
                raise ValueError("cycle in the render relation")
            kids = []
            for ck in self.edges.get(nk, {}):
                kids.append([self.edge_field.get((nk, ck), "?"), build(ck, path | {nk})])
            return [self.nodes[nk][0], kids]

        if self.root is None:
            return None
        return build(self.root, frozenset())

    def measure(self, fn, budget: int | None = None):
        """Run fn() under a fresh measurement. -> (result or exception, frames)"""
        self.reset(budget)
        try:
            return fn(), None
        except BudgetExceeded as exc:
            return None, exc
