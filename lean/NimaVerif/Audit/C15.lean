import NimaVerif.Props.C15
open Nima.C15
#print axioms check_sound
#print axioms rebuild_cert_partial
#print axioms rebuild_pure_partial
#print axioms rebuild_partial_nonvacuous
#print axioms witness_init
#print axioms excerpt_rejected
#print axioms cex_post_init_owner
#print axioms tie_no_set_iteration
#print axioms tie_no_ambient_reads
#print axioms tie_no_identity_reads
#print axioms tie_no_memoisation
#print axioms tie_written_globals
#print axioms tie_sched_cfg
#print axioms tie_ctx_reset
#print axioms tie_registry
#print axioms non_interference
#print axioms serial_run_valid
#print axioms balanced_restores
#print axioms balanced_no_ctx_err
#print axioms cex_shared_parser
#print axioms cex_shared_bytes
#print axioms cex_shared_path
#print axioms cex_id_collision
